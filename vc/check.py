"""bin/check <Cxx> [--tier quick|thorough] [--unit NAME] [--replay FILE] [--keep]"""
import argparse
import concurrent.futures as cf
import importlib
import json
import os
import shutil
import sys
import time
import traceback

from . import expand, gen, rules, run
from .rsrc import Crate, ScanError

VERIF = expand.VERIF
WORK = os.path.join(VERIF, '.work')
KNOWN = os.path.join(VERIF, 'known_findings.txt')


def load_known():
    findings = []
    fixed = []
    if os.path.exists(KNOWN):
        for line in open(KNOWN):
            line = line.strip()
            if not line or line.startswith('#'):
                continue
            if line.startswith('fixed:'):
                fixed.append(line)
                continue
            if line.startswith('finding:'):
                head, _, desc = line[len('finding:'):].partition('::')
                kv = dict(tok.split('=', 1) for tok in head.split() if '=' in tok)
                kv['desc'] = desc.strip()
                kv['props'] = kv.get('property', '').split(',')
                findings.append(kv)
    return findings, fixed


def property_units(prop):
    """units of the property + the home unit of every imported repo contract (transitive)"""
    import contracts
    reg = contracts.registry()
    own = [u for u in reg.values() if prop in u.props]
    if not own:
        return [], reg
    home = {}      # a function may be proved against several contracts in several units: all of them are its home
    for u in reg.values():
        for f in u.prove:
            home.setdefault(f.path, []).append(u)
    todo = list(own)
    seen = {u.name for u in own}
    out = list(own)
    while todo:
        u = todo.pop()
        for f in u.use:
            for h in home.get(f.path, []):
                if h.name not in seen:
                    seen.add(h.name)
                    out.append(h)
                    todo.append(h)
        for nm in getattr(u, 'also', []):
            h = reg.get(nm)
            if h is not None and h.name not in seen:
                seen.add(h.name)
                out.append(h)
                todo.append(h)
    return out, reg


def do_unit(unit, crate, workdir, seed, tier):
    log = rules.Log()
    g = gen.Gen(crate, log)
    try:
        text = g.unit_text(unit)
    except (gen.AnchorError, rules.RuleError, ScanError) as e:
        r = run.UnitResult(unit)
        r.status = 'undecided'
        r.reason = '%s: %s' % (type(e).__name__, e)
        r.log = log
        return r
    path = os.path.join(workdir, unit.name + '.rs')
    with open(path, 'w') as f:
        f.write(text)
    cmd, rc, out, err, wall, to = run.run_verus(path, rlimit=unit.rlimit, seed=None, threads=4,
                                                timeout=getattr(unit, 'timeout', 600))
    r = run.analyse(unit, text, path, cmd, rc, out, err, wall, to)
    if r.status == 'undecided' and ('vacuity canary' in r.reason or 'no JSON result' in r.reason):
        # seen once under machine overload: the canaries were not reported at all; one more attempt before giving up (still only ever exit 2)
        cmd, rc, out, err, wall, to = run.run_verus(path, rlimit=unit.rlimit, seed=None, threads=4, timeout=getattr(unit, 'timeout', 600))
        r = run.analyse(unit, text, path, cmd, rc, out, err, wall, to)
    r.log = log
    r.fingerprints = g.fingerprints
    r.seed_runs = []
    if tier == 'thorough' and r.status == 'ok':
        for k in range(3):
            s = (seed * 7919 + 104729 * (k + 1)) % (2 ** 31)
            cmd2, rc2, out2, err2, wall2, to2 = run.run_verus(path, rlimit=unit.rlimit, seed=s, threads=4,
                                                                timeout=getattr(unit, 'timeout', 600))
            r2 = run.analyse(unit, text, path, cmd2, rc2, out2, err2, wall2, to2)
            r.seed_runs.append({'seed': s, 'status': r2.status, 'wall_s': round(wall2, 2)})
    return r


def main(argv=None):
    ap = argparse.ArgumentParser()
    ap.add_argument('prop', nargs='?')
    ap.add_argument('--tier', default=os.environ.get('VERIF_TIER', 'quick'))
    ap.add_argument('--unit', action='append')
    ap.add_argument('--replay')
    ap.add_argument('--keep', action='store_true')
    ap.add_argument('--no-evidence', action='store_true')
    ap.add_argument('--verbose', '-v', action='store_true')
    a = ap.parse_args(argv)
    seed = int(os.environ.get('VERIF_SEED', '0') or 0)
    t0 = time.time()
    sys.path.insert(0, VERIF)

    replay_target = None
    if a.replay:
        rp = json.load(open(a.replay))
        a.prop = rp['property']
        replay_target = (rp.get('function'), rp.get('clause'))
    if not a.prop:
        ap.error('property id required')
    prop = a.prop
    tier = a.tier if a.tier in ('quick', 'thorough') else 'quick'

    try:
        text, key, exp_s, cached = expand.expanded()
    except expand.ExpandError as e:
        print('UNDECIDED property=%s reason=expansion-failed' % prop)
        sys.stderr.write(str(e) + '\n')
        return 2
    crate = Crate(text)
    units, reg = property_units(prop)
    if a.unit:
        units = [u for u in units if u.name in a.unit]
    if not units:
        print('UNDECIDED property=%s reason=no-units-registered' % prop)
        return 2
    workdir = os.path.join(WORK, prop)
    shutil.rmtree(workdir, ignore_errors=True)
    os.makedirs(workdir, exist_ok=True)

    results = []
    with cf.ThreadPoolExecutor(max_workers=4) as ex:
        futs = {ex.submit(do_unit, u, crate, workdir, seed, tier): u for u in units}
        for f in cf.as_completed(futs):
            try:
                results.append(f.result())
            except Exception as e:
                r = run.UnitResult(futs[f])
                r.reason = 'internal error: %s' % traceback.format_exc()[-1500:]
                r.log = rules.Log()
                results.append(r)
    results.sort(key=lambda r: r.unit.name)

    # extra engines registered by the contracts module (NRA lemmas, Kani harnesses)
    import contracts
    extras = contracts.extras(prop, tier, crate, seed) if hasattr(contracts, 'extras') else []

    findings, fixed = load_known()
    violations = []
    known_hits = []
    undecided = []
    for r in results:
        if r.status == 'undecided':
            undecided.append((r.unit.name, r.reason))
        for fl in r.failures:
            hit = None
            for k in findings:
                if prop in k['props'] and k.get('fn') == fl['fn'] and k.get('clause') == fl['clause']:
                    hit = k
                    break
            if hit:
                known_hits.append((hit, fl))
            else:
                violations.append((r, fl))
    for x in extras:
        if x['status'] == 'failed':
            hit = None
            for k in findings:
                if prop in k['props'] and k.get('fn') == x.get('fn') and k.get('clause') == x.get('clause'):
                    hit = k
            if hit:
                known_hits.append((hit, x))
            else:
                violations.append((None, x))
        elif x['status'] == 'undecided':
            undecided.append((x['name'], x.get('reason', '')))

    # ---- thorough tier: proof stability under other solver seeds, and the replay battery as an assumption spot-check
    unstable = []
    spot = {'ran': False}
    if tier == 'thorough':
        for r in results:
            for sr in getattr(r, 'seed_runs', []):
                if sr['status'] != 'ok':
                    unstable.append({'unit': r.unit.name, 'seed': sr['seed'], 'status': sr['status']})
        try:
            from . import replay as rpl
            spot = {'ran': True, 'seeds': [], 'failing_inputs': 0, 'notes': []}
            for k in range(3):
                sd = seed + k
                fails_, note_ = rpl.run_battery(prop, sd)
                spot['seeds'].append(sd)
                if note_:
                    spot['notes'].append(note_[:200])
                for f_ in fails_[:3]:
                    spot['failing_inputs'] += 1
                    violations.append((None, {'fn': f_.get('function'), 'clause': f_.get('clause'), 'name': 'replay-battery',
                                              'message': 'replay battery (thorough tier spot-check, seed %d): observed %s, expected %s' % (sd, f_.get('observed'), f_.get('expected')),
                                              'input': f_.get('input'), 'battery': f_}))
                if fails_:
                    break
        except Exception as e:
            spot = {'ran': False, 'error': str(e)[-300:]}

    # ---- evidence
    obligations = 0
    discharged = 0
    fns = []
    samples = []
    trusted = []
    rule_counts = {}
    for r in results:
        failing = {}
        for fl in r.failures:
            failing.setdefault(fl['fn'], set()).add(fl['clause'])
        for f in r.unit.prove:
            cids = r.clauses.get(f.path, [])
            n = len(cids) + 1          # +1: body safety (bounds, overflow, callee preconditions, DEAD sites)
            obligations += n
            ok = r.status in ('ok', 'failed') and f.path not in failing and r.status != 'undecided'
            # find verus timing
            tm = None
            for name, v in r.fn_times.items():
                if name.split('::')[-1] == f.short:
                    tm = v
            if r.status == 'ok' or (r.status == 'failed' and f.path not in failing):
                discharged += n
            elif r.status == 'failed':
                discharged += max(0, n - len(failing[f.path]) - 0)
            fns.append({'path': f.path, 'unit': r.unit.name, 'tier': 'V', 'level': f.level,
                        'clauses': cids, 'verified': bool(ok and r.status != 'undecided'),
                        'smt_ms': tm['ms'] if tm else None, 'rlimit': tm['rlimit'] if tm else None})
            if len(samples) < 6 and cids:
                for line in open(r.file).read().split('\n') if r.file and os.path.exists(r.file) else []:
                    if '//@[%s]' % cids[-1] in line:
                        samples.append({'function': f.path, 'clause': cids[-1], 'text': line.split('//@[')[0].strip(),
                                        'status': 'discharged' if ok else 'not discharged'})
                        break
        for t in r.trusted:
            if t not in trusted:
                trusted.append(t)
        for k, v in getattr(r, 'log', rules.Log()).counts().items():
            rule_counts[k] = rule_counts.get(k, 0) + v
    for x in extras:
        if x.get('counts_as') == 'proof':
            obligations += x.get('obligations', 1)
            if x['status'] == 'ok':
                discharged += x.get('obligations', 1)
    imported = []
    for r in results:
        for f in r.unit.use:
            imported.append({'unit': r.unit.name, 'contract': f.path})
    ev = {
        'property_id': prop, 'tier': tier, 'seed': seed, 'level': 'proof',
        'coverage': {
            'obligations': obligations, 'discharged': discharged,
            'checker_cmd': results[0].cmd if results and results[0].cmd else 'verus <unit>.rs --rlimit 30',
            'trusted_base': trusted,
            'samples': samples or [{'note': 'no clause text available'}],
            'backend': 'Verus 0.2026.09.13 / Z3 (bundled)',
            'functions_under_contract': fns,
            'units': [{'name': r.unit.name, 'status': r.status, 'reason': r.reason, 'verified_fns': r.verified,
                       'wall_s': round(r.wall_s, 2), 'smt_ms': r.smt_ms, 'level': r.unit.level,
                       'canaries': {'expected_fail': r.canary_expected, 'did_fail': r.canary_failed},
                       'seed_runs': getattr(r, 'seed_runs', []), 'notes': r.unit.notes} for r in results],
            'imported_contracts': imported,
            'rule_applications': rule_counts,
            'extra_engines': extras,
            'bounded': [x for x in extras if x.get('counts_as') == 'bounded'],
            'known_findings': [{'fn': k.get('fn'), 'clause': k.get('clause'), 'desc': k.get('desc')} for k, _ in known_hits],
            'undecided': [{'unit': n, 'reason': why} for n, why in undecided],
            'unstable_under_reseeding': unstable,
            'assumption_spot_check': spot,
            'source_tree_hash': key, 'expansion_cached': cached, 'expansion_s': round(exp_s, 2),
        },
        'assumptions': [
            'rustc -Zunpretty=expanded prints the program it compiles; the rewrite rules of DESIGN.md §3.3 and §13.2 (applications counted in coverage.rule_applications) preserve meaning, in particular the iterator rules R6/R26/R32/R33/R36/R37 read std adapters as in-order loops',
            'machine integers are checked for overflow; machine floats are treated as total functions (L0) or as mathematical reals without rounding, overflow or NaN (L1)',
            'Verus + Z3 sound; vstd std specs',
            'float axioms of the level(s) used: ' + ', '.join(sorted({r.unit.level for r in results})) + ' (DESIGN.md §4)',
            'termination of loops without a decreases clause is not proved',
        ] + ['trusted: ' + t for t in trusted[:200]],
        'wall_s': round(time.time() - t0, 2),
        'violations': len(violations),
    }
    if not a.no_evidence and not a.unit and not a.replay:
        os.makedirs(os.path.join(VERIF, 'evidence'), exist_ok=True)
        with open(os.path.join(VERIF, 'evidence', prop + '.json'), 'w') as f:
            json.dump(ev, f, indent=1)

    # ---- output
    for k, fl in known_hits:
        print('KNOWN-FINDING: property=%s %s' % (prop, k['desc'] or (str(fl.get('fn')) + ' ' + str(fl.get('clause')))))
    rc = 0
    if violations:
        os.makedirs(os.path.join(VERIF, 'out', 'replay'), exist_ok=True)
        for i, (r, fl) in enumerate(violations):
            rp = os.path.join(VERIF, 'out', 'replay', '%s_%d.json' % (prop, i))
            rec = {'property': prop, 'function': fl.get('fn'), 'clause': fl.get('clause'),
                   'obligation': '%s :: %s' % (fl.get('fn'), fl.get('clause')),
                   'verifier': 'verus', 'verus_message': fl.get('message'), 'verus_diagnostic': fl.get('rendered'),
                   'unit': r.unit.name if r else fl.get('name'), 'input': fl.get('input'),
                   'cmd': 'bin/check --replay %s' % rp, 'source_tree_hash': key}
            suffix = ' no-failing-input-found'
            if fl.get('battery'):
                b_ = fl['battery']
                rec.update({'verifier': 'replay battery (thorough tier)', 'input': b_.get('input'), 'observed': b_.get('observed'), 'expected': b_.get('expected'),
                            'battery_function': b_.get('function'), 'battery_clause': b_.get('clause'),
                            'replay_how': 'replay/src (oracle from the property statement) built against the current tree'})
                with open(rp, 'w') as f:
                    json.dump(rec, f, indent=1)
                print('VIOLATION property=%s replay=%s obligation=%s::%s (replay battery, concrete failing input)' % (prop, rp, fl.get('fn'), fl.get('clause')))
                continue
            try:
                from . import replay as rpl
                found = rpl.search(prop, rec, seed)
                if found:
                    rec.update(found)
                    if found.get('input'):
                        suffix = ''
            except Exception as e:   # replay machinery must never turn a violation into a crash
                rec['replay_error'] = str(e)[-500:]
            with open(rp, 'w') as f:
                json.dump(rec, f, indent=1)
            print('VIOLATION property=%s replay=%s obligation=%s::%s%s' % (
                prop, rp, fl.get('fn'), fl.get('clause'), suffix))
            if a.verbose:
                sys.stderr.write(fl.get('rendered', '') + '\n')
        rc = 1
    if undecided and rc == 0:
        try:
            from . import replay as rpl
            found = rpl.search(prop, {'function': None}, seed)
            if not (found and found.get('input')):
                und_units = {n for n, _ in undecided}
                for r_ in results:
                    if r_.unit.name in und_units:
                        for op in r_.unit.props:
                            if op != prop and not (found and found.get('input')):
                                f2 = rpl.search(op, {'function': None}, seed)
                                if f2 and f2.get('input'):
                                    f2['replay_how'] = f2.get('replay_how', '') + ' (battery of %s, which owns the undecided unit %s)' % (op, r_.unit.name)
                                    found = f2
        except Exception as e:
            found = None
        if found and found.get('input'):
            os.makedirs(os.path.join(VERIF, 'out', 'replay'), exist_ok=True)
            rp = os.path.join(VERIF, 'out', 'replay', '%s_u.json' % prop)
            rec = {'property': prop, 'function': found.get('battery_function'), 'clause': found.get('battery_clause'),
                   'obligation': 'undecided by the verifier (%s); concrete counter-example from the replay battery' % '; '.join('%s: %s' % (n, ' '.join(w.split())[:160]) for n, w in undecided),
                   'verifier': 'verus (undecided) + replay battery', 'cmd': 'bin/check --replay %s' % rp, 'source_tree_hash': key}
            rec.update(found)
            with open(rp, 'w') as f:
                json.dump(rec, f, indent=1)
            print('VIOLATION property=%s replay=%s obligation=%s::%s (verifier undecided; replayed counter-example)' % (
                prop, rp, found.get('battery_function'), found.get('battery_clause')))
            return 1
        for n, why in undecided:
            print('UNDECIDED property=%s unit=%s reason=%s' % (prop, n, ' '.join(why.split())[:400]))
        rc = 2
    if rc == 0:
        extra_ = ''
        if tier == 'thorough':
            extra_ = ' reseeded-runs=%d unstable=%d battery-seeds=%s' % (sum(len(getattr(r, 'seed_runs', [])) for r in results), len(unstable), spot.get('seeds'))
        print('OK property=%s tier=%s units=%d obligations=%d discharged=%d wall=%.1fs%s' % (
            prop, tier, len(results), obligations, discharged, time.time() - t0, extra_))
    if a.replay and replay_target:
        still = [fl for _, fl in violations if (fl.get('fn'), fl.get('clause')) == replay_target]
        print('REPLAY %s: obligation %s::%s %s' % (a.replay, replay_target[0], replay_target[1],
                                                  'still fails' if still else 'no longer fails'))
        return 1 if still else 0
    if not a.keep and rc == 0:
        pass
    return rc


if __name__ == '__main__':
    try:
        rc_ = main()
    except SystemExit:
        raise
    except BaseException:      # an internal error of the machinery is never an alarm: undecided (exit 2)
        sys.stderr.write(traceback.format_exc())
        print('UNDECIDED reason=internal-error %s' % ' '.join(traceback.format_exc().split())[-300:])
        rc_ = 2
    sys.exit(rc_)
