"""Mechanical extraction front-end: the compiler's own macro expansion of /repo's current
working tree (`cargo +nightly rustc -- -Zunpretty=expanded`), cached by content hash."""
import fcntl
import hashlib
import os
import shutil
import subprocess
import tempfile

VERIF = os.path.dirname(os.path.dirname(os.path.abspath(__file__)))
REPO = os.environ.get('VERIF_REPO', '/repo')
CACHE = os.path.join(VERIF, '.cache')


class ExpandError(Exception):
    pass


def tree_files(repo=REPO):
    out = []
    for root, dirs, files in os.walk(os.path.join(repo, 'src')):
        dirs.sort()
        for f in sorted(files):
            out.append(os.path.join(root, f))
    for f in ('Cargo.toml', 'Cargo.lock'):
        p = os.path.join(repo, f)
        if os.path.exists(p):
            out.append(p)
    return out


def tree_hash(repo=REPO):
    h = hashlib.sha256()
    for p in tree_files(repo):
        h.update(os.path.relpath(p, repo).encode())
        h.update(b'\0')
        with open(p, 'rb') as f:
            h.update(f.read())
        h.update(b'\0')
    return h.hexdigest()[:24]


def scratch_copy(repo=REPO):
    d = tempfile.mkdtemp(prefix='verif-scratch-', dir='/var/tmp')
    dst = os.path.join(d, 'repo')
    subprocess.check_call(['rsync', '-a', '--exclude', 'target', '--exclude', '.git', repo + '/', dst + '/'])
    return d, dst


def expanded(repo=REPO, use_cache=True):
    """returns (text, tree_hash, seconds, cached?)"""
    import time
    t0 = time.time()
    key = tree_hash(repo)
    os.makedirs(os.path.join(CACHE, 'expanded'), exist_ok=True)
    path = os.path.join(CACHE, 'expanded', key + '.rs')
    lock = open(os.path.join(CACHE, 'expand.lock'), 'w')
    fcntl.flock(lock, fcntl.LOCK_EX)
    try:
        if use_cache and os.path.exists(path):
            return open(path).read(), key, time.time() - t0, True
        d, dst = scratch_copy(repo)
        try:
            env = dict(os.environ)
            env['CARGO_NET_OFFLINE'] = 'true'
            env['CARGO_TARGET_DIR'] = os.path.join(CACHE, 'target')
            env.pop('RUSTUP_TOOLCHAIN', None)
            p = subprocess.run(['cargo', '+nightly', 'rustc', '--lib', '--profile', 'check', '--offline', '--',
                                '-Zunpretty=expanded'], cwd=dst, env=env, stdout=subprocess.PIPE,
                               stderr=subprocess.PIPE, timeout=900, text=True)
            if p.returncode != 0 or len(p.stdout) < 1000:
                raise ExpandError('macro expansion of the working tree failed:\n' + p.stderr[-3000:])
            tmp = path + '.tmp%d' % os.getpid()
            with open(tmp, 'w') as f:
                f.write(p.stdout)
            os.replace(tmp, path)
            # keep the cache small
            ents = sorted((os.path.getmtime(os.path.join(CACHE, 'expanded', e)), e)
                          for e in os.listdir(os.path.join(CACHE, 'expanded')) if e.endswith('.rs'))
            for _, e in ents[:-12]:
                os.unlink(os.path.join(CACHE, 'expanded', e))
            return p.stdout, key, time.time() - t0, False
        finally:
            shutil.rmtree(d, ignore_errors=True)
    finally:
        fcntl.flock(lock, fcntl.LOCK_UN)
        lock.close()
