"""Replay driver front-end (DESIGN §3.6): builds /verif/replay against a scratch copy of the current tree and
evaluates the property's executable oracles; returns a concrete failing input if one exists."""
import json
import os
import shutil
import subprocess
import tempfile

from . import expand

VERIF = expand.VERIF
_cache = {}


def run_battery(prop, seed, timeout=400):
    """returns (list of failure dicts, note)"""
    key = (prop, seed, expand.tree_hash(os.environ.get('VERIF_REPO', expand.REPO)))
    if key in _cache:
        return _cache[key]
    repo = os.environ.get('VERIF_REPO', expand.REPO)
    d = tempfile.mkdtemp(prefix='verif-replay-', dir='/var/tmp')
    try:
        dst = os.path.join(d, 'repo')
        subprocess.check_call(['rsync', '-a', '--exclude', 'target', '--exclude', '.git', repo + '/', dst + '/'])
        crate = os.path.join(d, 'replay')
        shutil.copytree(os.path.join(VERIF, 'replay', 'src'), os.path.join(crate, 'src'))
        with open(os.path.join(VERIF, 'replay', 'Cargo.toml.in')) as f:
            toml = f.read().replace('@REPO@', dst)
        with open(os.path.join(crate, 'Cargo.toml'), 'w') as f:
            f.write(toml)
        if os.path.exists(os.path.join(repo, 'Cargo.lock')):
            shutil.copy(os.path.join(repo, 'Cargo.lock'), os.path.join(crate, 'Cargo.lock'))
        tdir = os.path.join(VERIF, '.cache', 'replay-target')
        env = dict(os.environ, CARGO_NET_OFFLINE='true', CARGO_INCREMENTAL='0', CARGO_TARGET_DIR=tdir)
        os.makedirs(os.path.join(VERIF, '.cache'), exist_ok=True)
        import fcntl
        lock = open(os.path.join(VERIF, '.cache', 'replay.lock'), 'w')
        fcntl.flock(lock, fcntl.LOCK_EX)       # one build at a time: the shared target directory holds one `replay` executable
        try:
            _prune_target(tdir)
            b = subprocess.run(['cargo', 'build', '--offline'], cwd=crate, env=env, stdout=subprocess.PIPE, stderr=subprocess.PIPE, text=True, timeout=timeout)
            if b.returncode != 0:
                res = ([], 'replay driver does not build against this tree: ' + b.stderr[-600:])
                _cache[key] = res
                return res
            exe = os.path.join(d, 'replay-exe')
            shutil.copy(os.path.join(tdir, 'debug', 'replay'), exe)     # private copy: a later build for another tree cannot replace it under us
        finally:
            fcntl.flock(lock, fcntl.LOCK_UN)
            lock.close()
        try:
            r = subprocess.run([exe, prop, str(seed)], stdout=subprocess.PIPE, stderr=subprocess.PIPE, text=True, timeout=timeout)
        except subprocess.TimeoutExpired:
            res = ([], 'replay battery timed out')
            _cache[key] = res
            return res
        fails = []
        done = False
        for line in r.stdout.split('\n'):
            line = line.strip()
            if not line.startswith('{'):
                continue
            try:
                o = json.loads(line)
            except Exception:
                continue
            if o.get('done'):
                done = True
            elif 'function' in o:
                fails.append(o)
        note = '' if done else 'replay battery aborted (rc=%s): %s' % (r.returncode, r.stderr[-300:])
        if not done and r.returncode not in (0,):
            # the driver itself crashed outside catch_unwind (abort / stack overflow / infinite loop): report that as a finding
            pass
        res = (fails, note)
        _cache[key] = res
        return res
    finally:
        shutil.rmtree(d, ignore_errors=True)


def _prune_target(tdir, limit=2 * 1024 ** 3):
    """every battery build compiles the crate under test from a fresh scratch path, so its artifacts pile up in the shared target
    directory; when it exceeds `limit` bytes the artifacts of `compute` and of the driver are dropped (third-party dependencies stay)"""
    deb = os.path.join(tdir, 'debug')
    if not os.path.isdir(deb):
        return
    total = 0
    for root, _, files in os.walk(deb):
        for f in files:
            try:
                total += os.path.getsize(os.path.join(root, f))
            except OSError:
                pass
    if total < limit:
        return
    import glob
    for pat in ('deps/*compute*', 'deps/replay-*', 'deps/libreplay*', '.fingerprint/compute-*', '.fingerprint/replay-*', 'incremental'):
        for x in glob.glob(os.path.join(deb, pat)):
            if os.path.isdir(x):
                shutil.rmtree(x, ignore_errors=True)
            else:
                try:
                    os.remove(x)
                except OSError:
                    pass


def _fn_keys(path):
    """loose matching between an obligation's function path and the battery's function labels"""
    if not path:
        return []
    last = path.split('::')[-1]
    keys = [last]
    import re
    mk = re.search(r'\{impl (?:ops::)?(\w+)(?:<([^>]*)>)? for ([^}]+)\}', path)
    if mk:
        keys += [mk.group(1), mk.group(3).strip()]
    mk = re.search(r'\{impl (\w+)\}', path)
    if mk:
        keys.append(mk.group(1) + '::' + last)
    return keys


def search(prop, rec, seed):
    fails, note = run_battery(prop, seed)
    if not fails:
        return {'replay_note': note or 'battery of property %s found no failing input (seed %d)' % (prop, seed)} if note else None
    keys = _fn_keys(rec.get('function'))
    best = None
    for f in fails:
        if any(k and k in f.get('function', '') for k in keys):
            best = f
            break
    if best is None:
        best = fails[0]
    return {'input': best['input'], 'observed': best['observed'], 'expected': best['expected'],
            'battery_function': best['function'], 'battery_clause': best['clause'],
            'replay_how': 'replay/src (oracle from the property statement) built against the current tree: `replay %s %d`' % (prop, seed),
            'all_failing_cases': len(fails)}
