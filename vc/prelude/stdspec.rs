// ---- assumed contracts on std (tier A) ----
pub mod stdspec {
    #[allow(unused_imports)]
    use vstd::prelude::*;
    use crate::fax::*;
    verus! {
    // `unsafe { v.set_len(n) }`: length only, contents arbitrary
    pub assume_specification<T, A: core::alloc::Allocator>[Vec::<T, A>::set_len](v: &mut Vec<T, A>, n: usize)
        ensures final(v)@.len() == n;

    // ---- slices: to_vec / swap (not specified by vstd)
    pub assume_specification<T: Clone> [<[T]>::to_vec] (s: &[T]) -> (r: Vec<T>)
        ensures r@.len() == s@.len(), forall|i: int| 0 <= i < s@.len() ==> cloned::<T>(#[trigger] s@[i], r@[i]);
    pub assume_specification<T: Clone> [<[T] as std::borrow::ToOwned>::to_owned] (s: &[T]) -> (r: Vec<T>)
        ensures r@.len() == s@.len(), forall|i: int| 0 <= i < s@.len() ==> cloned::<T>(#[trigger] s@[i], r@[i]);
    pub assume_specification<T> [<[T]>::swap] (s: &mut [T], a: usize, b: usize)
        requires a < old(s)@.len(), b < old(s)@.len()
        ensures final(s)@ == old(s)@.update(a as int, old(s)@[b as int]).update(b as int, old(s)@[a as int]);
    // (-1)^k: the only use of integer pow in the crate (permutation parity)
    pub assume_specification [i32::pow] (base: i32, exp: u32) -> (r: i32)
        ensures base == -1 ==> r == (if exp % 2 == 0 { 1i32 } else { -1i32 });
    pub assume_specification<T> [<[T]>::reverse] (s: &mut [T])
        ensures final(s)@ == old(s)@.reverse();
    #[verifier::external_body]
    pub broadcast proof fn ax_f64_cloned(a: f64, b: f64) requires #[trigger] cloned::<f64>(a, b) ensures a == b {}
    // `(k as f64) as i64 == k` for |k| <= 2^53 (exactly representable integers)
    #[verifier::external_body]
    pub broadcast proof fn ax_int_roundtrip(k: int)
        ensures -0x20_0000_0000_0000 <= k <= 0x20_0000_0000_0000 ==> f_to_int(#[trigger] f_of_int(k)) == k {}

    // i32::abs (not specified by vstd): overflow for i32::MIN is a Rust panic in debug builds -> precondition
    pub assume_specification [i32::abs] (x: i32) -> (r: i32)
        requires x != i32::MIN
        ensures r == (if x < 0 { -x } else { x as int });
    pub assume_specification [i64::abs] (x: i64) -> (r: i64)
        requires x != i64::MIN
        ensures r == (if x < 0 { -x } else { x as int });

    // rule R25: `std::cmp::min(a, b)` on usize operands (generic `min<T: Ord>` cannot be given a spec here): assumed contract
    #[verifier::external_body]
    pub fn min_usize(a: usize, b: usize) -> (r: usize) ensures r == (if a <= b { a } else { b }) { core::cmp::min(a, b) }

    // rule R22: `<[usize]>::contains` on a 2-array (assumed contract)
    #[verifier::external_body]
    pub fn arr2_contains(a: [usize; 2], x: usize) -> (r: bool) ensures r == (a[0] == x || a[1] == x) { a.contains(&x) }

    // ---- typing of f64 struct fields (Verus emits no typing invariant for them; DESIGN §2)
    pub uninterp spec fn f64_code(x: f64) -> int;
    pub uninterp spec fn f64_of_code(c: int) -> f64;
    pub open spec fn typed(x: f64) -> bool { f64_of_code(f64_code(x)) == x }

    // ---- casts (rule R5): Verus has no int<->float `as`
    pub uninterp spec fn f_of_int(n: int) -> f64;
    pub uninterp spec fn f_to_int(x: f64) -> int;       // value of `x as <int type>` when it fits
    pub trait IntLike: Copy + Sized {
        spec fn as_int_(self) -> int;
        fn to_f64_(self) -> (r: f64) ensures r == f_of_int(self.as_int_());
    }
    impl IntLike for usize { open spec fn as_int_(self) -> int { self as int }
        #[verifier::external_body] fn to_f64_(self) -> (r: f64) { self as f64 } }
    impl IntLike for u64 { open spec fn as_int_(self) -> int { self as int }
        #[verifier::external_body] fn to_f64_(self) -> (r: f64) { self as f64 } }
    impl IntLike for u32 { open spec fn as_int_(self) -> int { self as int }
        #[verifier::external_body] fn to_f64_(self) -> (r: f64) { self as f64 } }
    impl IntLike for i32 { open spec fn as_int_(self) -> int { self as int }
        #[verifier::external_body] fn to_f64_(self) -> (r: f64) { self as f64 } }
    impl IntLike for i64 { open spec fn as_int_(self) -> int { self as int }
        #[verifier::external_body] fn to_f64_(self) -> (r: f64) { self as f64 } }
    impl IntLike for isize { open spec fn as_int_(self) -> int { self as int }
        #[verifier::external_body] fn to_f64_(self) -> (r: f64) { self as f64 } }
    pub fn cast_f64<T: IntLike>(x: T) -> (r: f64) ensures r == f_of_int(x.as_int_()) { x.to_f64_() }
    #[verifier::external_body]
    pub fn cast_usize_f(x: f64) -> (r: usize) ensures 0 <= f_to_int(x) <= usize::MAX ==> r == f_to_int(x) { x as usize }
    #[verifier::external_body]
    pub fn cast_i32_f(x: f64) -> (r: i32) ensures i32::MIN <= f_to_int(x) <= i32::MAX ==> r == f_to_int(x) { x as i32 }
    #[verifier::external_body]
    pub fn cast_i64_f(x: f64) -> (r: i64) ensures i64::MIN <= f_to_int(x) <= i64::MAX ==> r == f_to_int(x) { x as i64 }
    #[verifier::external_body]
    pub fn cast_u64_f(x: f64) -> (r: u64) ensures 0 <= f_to_int(x) <= u64::MAX ==> r == f_to_int(x) { x as u64 }

    // ---- std's reflexive `impl<T> From<T> for T` seen through Into (TRUSTED)
    #[verifier::external_body]
    pub broadcast proof fn ax_vec_into_refl(v: Vec<f64>)
        ensures #[trigger] <Vec<f64> as vstd::std_specs::convert::IntoSpec<Vec<f64>>>::into_spec(v) == v {}
    #[verifier::external_body]
    pub broadcast proof fn ax_vec_into_obeys()
        ensures #[trigger] <Vec<f64> as vstd::std_specs::convert::IntoSpec<Vec<f64>>>::obeys_into_spec() {}
    // std: `impl<T, U: Into<T>> TryFrom<U> for T` with the reflexive From (infallible): x.try_into() == Ok(x)
    #[verifier::external_body]
    pub broadcast proof fn ax_i32_tryinto_refl(x: i32)
        ensures #[trigger] <i32 as vstd::std_specs::convert::TryIntoSpec<i32>>::try_into_spec(x) == Ok::<i32, core::convert::Infallible>(x) {}
    #[verifier::external_body]
    pub broadcast proof fn ax_i32_tryinto_obeys()
        ensures #[trigger] <i32 as vstd::std_specs::convert::TryIntoSpec<i32>>::obeys_try_into_spec() {}
    // std: `impl<T: Clone> From<&[T]> for Vec<T>` copies the slice (`s.to_vec()`)
    #[verifier::external_body]
    pub broadcast proof fn ax_slice_into_vec<'a>(s: &'a [f64])
        ensures (#[trigger] <&'a [f64] as vstd::std_specs::convert::IntoSpec<Vec<f64>>>::into_spec(s))@ == s@ {}
    #[verifier::external_body]
    pub broadcast proof fn ax_slice_into_obeys<'a>()
        ensures #[trigger] <&'a [f64] as vstd::std_specs::convert::IntoSpec<Vec<f64>>>::obeys_into_spec() {}
    // std: `impl<T, const N: usize> From<[T; N]> for Vec<T>` copies the array (used for the 3 x 3 rotation matrices)
    #[verifier::external_body]
    pub broadcast proof fn ax_arr9_into_vec(a: [f64; 9])
        ensures (#[trigger] <[f64; 9] as vstd::std_specs::convert::IntoSpec<Vec<f64>>>::into_spec(a))@ == a@ {}
    #[verifier::external_body]
    pub broadcast proof fn ax_arr9_into_obeys()
        ensures #[trigger] <[f64; 9] as vstd::std_specs::convert::IntoSpec<Vec<f64>>>::obeys_into_spec() {}
    pub broadcast group ax_vec_from_refl { ax_vec_into_refl, ax_vec_into_obeys, ax_i32_tryinto_refl, ax_i32_tryinto_obeys, ax_slice_into_vec, ax_slice_into_obeys, ax_arr9_into_vec, ax_arr9_into_obeys }
    }
}
