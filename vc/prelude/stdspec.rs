// ---- assumed contracts on std (tier A) ----
pub mod stdspec {
    #[allow(unused_imports)]
    use vstd::prelude::*;
    use crate::fax::*;
    verus! {
    // `unsafe { v.set_len(n) }`: length only, contents arbitrary
    pub assume_specification<T, A: core::alloc::Allocator>[Vec::<T, A>::set_len](v: &mut Vec<T, A>, n: usize)
        ensures final(v)@.len() == n;
    }
}
