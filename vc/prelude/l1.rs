// ---- L1: machine arithmetic treated as mathematical (TRUSTED AXIOMS, DESIGN §4.2) ----
// rv maps a float to the real number it denotes; + - * / and comparisons are homomorphic.
// No rounding, no overflow, no NaN/inf at this level: that is the declared assumption.
pub mod l1 {
    #[allow(unused_imports)]
    use vstd::prelude::*;
    #[allow(unused_imports)]
    use vstd::std_specs::cmp::*;
    use core::cmp::Ordering;
    use crate::fax::*;
    use crate::fmeth::*;
    use crate::stdspec::*;
    verus! {
    pub uninterp spec fn rv(x: f64) -> real;

    #[verifier::external_body]
    pub broadcast proof fn ax_rv_add(a: f64, b: f64) ensures rv(#[trigger] f_add(a, b)) == rv(a) + rv(b) {}
    #[verifier::external_body]
    pub broadcast proof fn ax_rv_sub(a: f64, b: f64) ensures rv(#[trigger] f_sub(a, b)) == rv(a) - rv(b) {}
    #[verifier::external_body]
    pub broadcast proof fn ax_rv_mul(a: f64, b: f64) ensures rv(#[trigger] f_mul(a, b)) == rv(a) * rv(b) {}
    #[verifier::external_body]
    pub broadcast proof fn ax_rv_div(a: f64, b: f64) ensures rv(b) != 0real ==> rv(#[trigger] f_div(a, b)) == rv(a) / rv(b) {}
    #[verifier::external_body]
    pub broadcast proof fn ax_rv_neg(a: f64) ensures rv(#[trigger] f_neg(a)) == -rv(a) {}
    #[verifier::external_body]
    pub broadcast proof fn ax_rv_of_int(n: int) ensures rv(#[trigger] f_of_int(n)) == n as real {}

    // comparisons: exec `<`, `<=`, `==` ... on f64 mean the order of the denoted reals
    #[verifier::external_body]
    pub broadcast proof fn ax_f64_obeys_cmp()
        ensures #[trigger] <f64 as PartialOrdSpec<f64>>::obeys_partial_cmp_spec(),
                #[trigger] <f64 as PartialEqSpec<f64>>::obeys_eq_spec() {}
    #[verifier::external_body]
    pub broadcast proof fn ax_f64_cmp(a: f64, b: f64)
        ensures #[trigger] <f64 as PartialOrdSpec<f64>>::partial_cmp_spec(&a, &b) ==
            (if rv(a) < rv(b) { Some(Ordering::Less) } else if rv(a) > rv(b) { Some(Ordering::Greater) }
             else { Some(Ordering::Equal) }) {}
    #[verifier::external_body]
    pub broadcast proof fn ax_f64_eq(a: f64, b: f64)
        ensures #[trigger] <f64 as PartialEqSpec<f64>>::eq_spec(&a, &b) == (rv(a) == rv(b)) {}

    // real-valued elementary functions: uninterpreted, constrained only by the algebra a proof needs
    pub uninterp spec fn r_exp(x: real) -> real;
    pub uninterp spec fn r_ln(x: real) -> real;
    pub uninterp spec fn r_sqrt(x: real) -> real;
    pub uninterp spec fn r_pow(x: real, y: real) -> real;
    pub uninterp spec fn r_pi() -> real;
    pub uninterp spec fn r_sin(x: real) -> real;
    pub uninterp spec fn r_cos(x: real) -> real;
    pub open spec fn r_abs(x: real) -> real { if x >= 0real { x } else { -x } }
    pub open spec fn r_powi(x: real, n: int) -> real decreases n { if n <= 0 { 1real } else { x * r_powi(x, n - 1) } }

    #[verifier::external_body]
    pub broadcast proof fn ax_rv_exp(x: f64) ensures rv(#[trigger] f_exp(x)) == r_exp(rv(x)) {}
    #[verifier::external_body]
    pub broadcast proof fn ax_rv_ln(x: f64) ensures rv(#[trigger] f_ln(x)) == r_ln(rv(x)) {}
    #[verifier::external_body]
    pub broadcast proof fn ax_rv_sqrt(x: f64) ensures rv(#[trigger] f_sqrt(x)) == r_sqrt(rv(x)) {}
    #[verifier::external_body]
    pub broadcast proof fn ax_rv_powf(x: f64, y: f64) ensures rv(#[trigger] f_powf(x, y)) == r_pow(rv(x), rv(y)) {}
    #[verifier::external_body]
    pub broadcast proof fn ax_rv_powi(x: f64, n: i32) ensures n >= 0 ==> rv(#[trigger] f_powi(x, n)) == r_powi(rv(x), n as int) {}
    #[verifier::external_body]
    pub broadcast proof fn ax_rv_abs(x: f64) ensures rv(#[trigger] f_abs(x)) == r_abs(rv(x)) {}
    #[verifier::external_body]
    pub broadcast proof fn ax_rv_sin(x: f64) ensures rv(#[trigger] f_sin(x)) == r_sin(rv(x)) {}
    #[verifier::external_body]
    pub broadcast proof fn ax_rv_cos(x: f64) ensures rv(#[trigger] f_cos(x)) == r_cos(rv(x)) {}

    #[verifier::external_body]
    pub broadcast proof fn ax_exp_pos(x: real) ensures #[trigger] r_exp(x) > 0real {}
    #[verifier::external_body]
    pub broadcast proof fn ax_exp_zero() ensures #[trigger] r_exp(0real) == 1real {}
    #[verifier::external_body]
    pub broadcast proof fn ax_exp_mono(x: real, y: real) ensures x <= y ==> #[trigger] r_exp(x) <= #[trigger] r_exp(y) {}
    #[verifier::external_body]
    pub broadcast proof fn ax_ln_exp(x: real) ensures r_ln(#[trigger] r_exp(x)) == x {}
    #[verifier::external_body]
    pub broadcast proof fn ax_exp_ln(x: real) ensures x > 0real ==> r_exp(#[trigger] r_ln(x)) == x {}
    #[verifier::external_body]
    pub broadcast proof fn ax_sqrt(x: real) ensures x >= 0real ==> (#[trigger] r_sqrt(x)) >= 0real && r_sqrt(x) * r_sqrt(x) == x {}
    #[verifier::external_body]
    pub broadcast proof fn ax_sqrt_pos(x: real) ensures x > 0real ==> (#[trigger] r_sqrt(x)) > 0real {}
    #[verifier::external_body]
    pub broadcast proof fn ax_pow_pos(x: real, y: real) ensures x > 0real ==> (#[trigger] r_pow(x, y)) > 0real {}
    #[verifier::external_body]
    pub broadcast proof fn ax_pi_pos() ensures #[trigger] r_pi() > 3real {}
    #[verifier::external_body]
    pub broadcast proof fn ax_sincos(x: real) ensures #[trigger] r_sin(x) * r_sin(x) + #[trigger] r_cos(x) * r_cos(x) == 1real {}

    pub broadcast proof fn lemma_powi2(x: real) ensures #[trigger] r_powi(x, 2) == x * x { reveal_with_fuel(r_powi, 4); }
    pub broadcast proof fn lemma_powi3(x: real) ensures #[trigger] r_powi(x, 3) == x * (x * x) { reveal_with_fuel(r_powi, 5); }
    pub broadcast proof fn lemma_powi4(x: real) ensures #[trigger] r_powi(x, 4) == x * (x * (x * x)) { reveal_with_fuel(r_powi, 6); }

    // small nonlinear facts over the reals, each proved once (Verus' nonlinear mode), used as explicit hints
    pub proof fn lemma_mul_pos(a: real, b: real) requires a > 0real, b > 0real ensures a * b > 0real { assert(a * b > 0real) by(nonlinear_arith) requires a > 0real, b > 0real; }
    pub proof fn lemma_mul_nonneg(a: real, b: real) requires a >= 0real, b >= 0real ensures a * b >= 0real { assert(a * b >= 0real) by(nonlinear_arith) requires a >= 0real, b >= 0real; }
    pub proof fn lemma_mul_nonzero(a: real, b: real) requires a != 0real, b != 0real ensures a * b != 0real { assert(a * b != 0real) by(nonlinear_arith) requires a != 0real, b != 0real; }
    pub proof fn lemma_neg_mul(a: real, b: real) ensures (-a) * b == -(a * b), a * (-b) == -(a * b) { assert((-a) * b == -(a * b) && a * (-b) == -(a * b)) by(nonlinear_arith); }
    pub proof fn lemma_sq_nonneg(a: real) ensures a * a >= 0real { assert(a * a >= 0real) by(nonlinear_arith); }
    pub proof fn lemma_div_pos(a: real, b: real) requires a > 0real, b > 0real ensures a / b > 0real { assert(a / b > 0real) by(nonlinear_arith) requires a > 0real, b > 0real; }
    pub proof fn lemma_div_nonneg(a: real, b: real) requires a >= 0real, b > 0real ensures a / b >= 0real { assert(a / b >= 0real) by(nonlinear_arith) requires a >= 0real, b > 0real; }

    pub broadcast group l1_arith {
        ax_rv_add, ax_rv_sub, ax_rv_mul, ax_rv_div, ax_rv_neg, ax_rv_of_int,
        ax_f64_obeys_cmp, ax_f64_cmp, ax_f64_eq,
    }
    pub broadcast group l1_fun {
        ax_rv_exp, ax_rv_ln, ax_rv_sqrt, ax_rv_powf, ax_rv_powi, ax_rv_abs, ax_rv_sin, ax_rv_cos,
        ax_exp_pos, ax_exp_zero, ax_ln_exp, ax_exp_ln, ax_sqrt, ax_sqrt_pos, ax_pow_pos, ax_pi_pos,
        lemma_powi2, lemma_powi3, lemma_powi4,
    }

    // rule R21: `(a ..=b).contains(&x)` is `a <= x && x <= b` (std::ops::RangeInclusive::contains) — assumed contract
    #[verifier::external_body]
    pub fn range_incl_contains(a: f64, b: f64, x: f64) -> (r: bool) ensures r == (rv(a) <= rv(x) && rv(x) <= rv(b)) { (a..=b).contains(&x) }

    // rule R6: `ITER.sum::<f64>()` is rewritten to `vsum(ITER.collect::<Vec<f64>>())`; std's `impl Sum<f64>` is an in-order fold
    // (assumed contract on std, spot-checked, DESIGN §4.3): over the reals it is the sum of the elements
    pub open spec fn rsum(x: Seq<f64>, k: int) -> real decreases k { if k <= 0 { 0real } else { rsum(x, k - 1) + rv(x[k - 1]) } }
    #[verifier::external_body]
    pub fn vsum(v: Vec<f64>) -> (r: f64) ensures rv(r) == rsum(v@, v@.len() as int) { v.iter().sum() }

    // `ITER.product::<f64>()`: std's `impl Product<f64>` is an in-order fold from 1.0 (assumed contract on std, as for sum)
    pub open spec fn rprod(x: Seq<f64>, k: int) -> real decreases k { if k <= 0 { 1real } else { rprod(x, k - 1) * rv(x[k - 1]) } }
    #[verifier::external_body]
    pub fn vprod(v: Vec<f64>) -> (r: f64) ensures rv(r) == rprod(v@, v@.len() as int) { v.iter().product() }

    // constants (rule R9)
    #[verifier::external_body]
    pub fn c_pi() -> (r: f64) ensures rv(r) == r_pi() { core::f64::consts::PI }
    pub uninterp spec fn r_eps() -> real;
    #[verifier::external_body]
    pub fn c_epsilon() -> (r: f64) ensures rv(r) == r_eps(), r_eps() > 0real { f64::EPSILON }
    pub uninterp spec fn f_nan() -> f64;
    pub uninterp spec fn f_inf() -> f64;
    #[verifier::external_body]
    pub fn c_nan() -> (r: f64) ensures r == f_nan() { f64::NAN }
    #[verifier::external_body]
    pub fn c_infinity() -> (r: f64) ensures r == f_inf() { f64::INFINITY }

    // largest / smallest finite value (rule R9); a *finite* datum lies between them (hypothesis on inputs, never an axiom:
    // a global bound would contradict the unbounded homomorphism above)
    pub uninterp spec fn f_maxval() -> f64;
    pub uninterp spec fn f_minval() -> f64;
    #[verifier::external_body]
    pub fn c_max() -> (r: f64) ensures r == f_maxval() { f64::MAX }
    #[verifier::external_body]
    pub fn c_min() -> (r: f64) ensures r == f_minval() { f64::MIN }
    // smallest positive normal value: all that is used of it is that it is a positive number (never that it is small)
    pub uninterp spec fn f_minpos() -> f64;
    #[verifier::external_body]
    pub fn c_min_positive() -> (r: f64) ensures r == f_minpos(), !f_is_nan(r), rv(r) > 0real { f64::MIN_POSITIVE }
    pub open spec fn finite(x: f64) -> bool { !f_is_nan(x) && rv(f_minval()) <= rv(x) <= rv(f_maxval()) }
    // f64::max / f64::min (IEEE maxNum / minNum): a NaN operand is ignored, otherwise the larger / smaller operand
    // (specs `f_fmax` / `f_fmin` of the methods are declared in fmeth.rs)
    #[verifier::external_body]
    pub broadcast proof fn ax_nan_is_nan() ensures #[trigger] f_is_nan(f_nan()) {}
    #[verifier::external_body]
    pub broadcast proof fn ax_max(a: f64, b: f64)
        ensures f_is_nan(a) ==> #[trigger] f_fmax(a, b) == b,
                !f_is_nan(a) && !f_is_nan(b) ==> (f_fmax(a, b) == a || f_fmax(a, b) == b) && rv(f_fmax(a, b)) >= rv(a) && rv(f_fmax(a, b)) >= rv(b) {}
    #[verifier::external_body]
    pub broadcast proof fn ax_min(a: f64, b: f64)
        ensures f_is_nan(a) ==> #[trigger] f_fmin(a, b) == b,
                !f_is_nan(a) && !f_is_nan(b) ==> (f_fmin(a, b) == a || f_fmin(a, b) == b) && rv(f_fmin(a, b)) <= rv(a) && rv(f_fmin(a, b)) <= rv(b) {}
    pub uninterp spec fn f_neg_inf() -> f64;
    #[verifier::external_body]
    pub fn c_neg_infinity() -> (r: f64) ensures r == f_neg_inf() { f64::NEG_INFINITY }
    // max(-inf, b) = b for every non-NaN b (IEEE maxNum); -inf has no real value at L1
    #[verifier::external_body]
    pub broadcast proof fn ax_max_neg_inf(b: f64) ensures !f_is_nan(b) ==> #[trigger] f_fmax(f_neg_inf(), b) == b {}
    pub broadcast group l1_minmax { ax_nan_is_nan, ax_max, ax_min, ax_max_neg_inf }
    }
}
