// ---- assumed contracts on the `alea` RNG crate (tier A; transcribed from alea-0.2.2/src/lib.rs) ----
pub mod alea {
    #[allow(unused_imports)]
    use vstd::prelude::*;
    use crate::fax::*;
    verus! {
    // `pub fn i64_in_range(min, max) { assert!(max > min, ..); min + i64_less_than(max + 1 - min) }`
    // provenance: `r` is one fresh draw of the (trusted, uniform) generator on [min, max]; produced only here
    pub uninterp spec fn alea_uniform(min: i64, max: i64, r: i64) -> bool;
    #[verifier::external_body]
    pub fn i64_in_range(min: i64, max: i64) -> (r: i64)
        requires (max > min) || may_reject(),
                 (max as int) + 1 - (min as int) <= i64::MAX,      // `max + 1 - min` is computed in i64 inside alea (overflow panics in debug builds)
        ensures max > min, min <= r <= max, alea_uniform(min, max, r)
    { unimplemented!() }
    pub uninterp spec fn unit_interval(x: f64) -> bool;      // 0 <= x < 1
    #[verifier::external_body]
    pub fn f64() -> (r: f64) ensures unit_interval(r) { unimplemented!() }
    #[verifier::external_body]
    pub fn u64() -> (r: u64) { unimplemented!() }
    }
}
