// ---- f64 methods: each is a deterministic function of its arguments (TRUSTED, L0) ----
pub mod fmeth {
    #[allow(unused_imports)]
    use vstd::prelude::*;
    use crate::fax::*;
    verus! {
    pub uninterp spec fn f_ln(x: f64) -> f64;
    pub uninterp spec fn f_ln_1p(x: f64) -> f64;
    pub uninterp spec fn f_log10(x: f64) -> f64;
    pub uninterp spec fn f_log2(x: f64) -> f64;
    pub uninterp spec fn f_exp(x: f64) -> f64;
    pub uninterp spec fn f_exp2(x: f64) -> f64;
    pub uninterp spec fn f_exp_m1(x: f64) -> f64;
    pub uninterp spec fn f_sin(x: f64) -> f64;
    pub uninterp spec fn f_cos(x: f64) -> f64;
    pub uninterp spec fn f_tan(x: f64) -> f64;
    pub uninterp spec fn f_sinh(x: f64) -> f64;
    pub uninterp spec fn f_cosh(x: f64) -> f64;
    pub uninterp spec fn f_tanh(x: f64) -> f64;
    pub uninterp spec fn f_asin(x: f64) -> f64;
    pub uninterp spec fn f_acos(x: f64) -> f64;
    pub uninterp spec fn f_atan(x: f64) -> f64;
    pub uninterp spec fn f_asinh(x: f64) -> f64;
    pub uninterp spec fn f_acosh(x: f64) -> f64;
    pub uninterp spec fn f_atanh(x: f64) -> f64;
    pub uninterp spec fn f_sqrt(x: f64) -> f64;
    pub uninterp spec fn f_cbrt(x: f64) -> f64;
    pub uninterp spec fn f_abs(x: f64) -> f64;
    pub uninterp spec fn f_floor(x: f64) -> f64;
    pub uninterp spec fn f_ceil(x: f64) -> f64;
    pub uninterp spec fn f_to_radians(x: f64) -> f64;
    pub uninterp spec fn f_to_degrees(x: f64) -> f64;
    pub uninterp spec fn f_recip(x: f64) -> f64;
    pub uninterp spec fn f_round(x: f64) -> f64;
    pub uninterp spec fn f_signum(x: f64) -> f64;
    pub uninterp spec fn f_powi(x: f64, n: i32) -> f64;
    pub uninterp spec fn f_powf(x: f64, y: f64) -> f64;
    pub uninterp spec fn f_is_nan(x: f64) -> bool;
    pub uninterp spec fn f_is_infinite(x: f64) -> bool;
    pub uninterp spec fn f_fmax(x: f64, y: f64) -> f64;
    pub uninterp spec fn f_fmin(x: f64, y: f64) -> f64;

    pub assume_specification [f64::ln](x: f64) -> (r: f64) ensures r == f_ln(x);
    pub assume_specification [f64::ln_1p](x: f64) -> (r: f64) ensures r == f_ln_1p(x);
    pub assume_specification [f64::log10](x: f64) -> (r: f64) ensures r == f_log10(x);
    pub assume_specification [f64::log2](x: f64) -> (r: f64) ensures r == f_log2(x);
    pub assume_specification [f64::exp](x: f64) -> (r: f64) ensures r == f_exp(x);
    pub assume_specification [f64::exp2](x: f64) -> (r: f64) ensures r == f_exp2(x);
    pub assume_specification [f64::exp_m1](x: f64) -> (r: f64) ensures r == f_exp_m1(x);
    pub assume_specification [f64::sin](x: f64) -> (r: f64) ensures r == f_sin(x);
    pub assume_specification [f64::cos](x: f64) -> (r: f64) ensures r == f_cos(x);
    pub assume_specification [f64::tan](x: f64) -> (r: f64) ensures r == f_tan(x);
    pub assume_specification [f64::sinh](x: f64) -> (r: f64) ensures r == f_sinh(x);
    pub assume_specification [f64::cosh](x: f64) -> (r: f64) ensures r == f_cosh(x);
    pub assume_specification [f64::tanh](x: f64) -> (r: f64) ensures r == f_tanh(x);
    pub assume_specification [f64::asin](x: f64) -> (r: f64) ensures r == f_asin(x);
    pub assume_specification [f64::acos](x: f64) -> (r: f64) ensures r == f_acos(x);
    pub assume_specification [f64::atan](x: f64) -> (r: f64) ensures r == f_atan(x);
    pub assume_specification [f64::asinh](x: f64) -> (r: f64) ensures r == f_asinh(x);
    pub assume_specification [f64::acosh](x: f64) -> (r: f64) ensures r == f_acosh(x);
    pub assume_specification [f64::atanh](x: f64) -> (r: f64) ensures r == f_atanh(x);
    pub assume_specification [f64::sqrt](x: f64) -> (r: f64) ensures r == f_sqrt(x);
    pub assume_specification [f64::cbrt](x: f64) -> (r: f64) ensures r == f_cbrt(x);
    pub assume_specification [f64::abs](x: f64) -> (r: f64) ensures r == f_abs(x);
    pub assume_specification [f64::floor](x: f64) -> (r: f64) ensures r == f_floor(x);
    pub assume_specification [f64::ceil](x: f64) -> (r: f64) ensures r == f_ceil(x);
    pub assume_specification [f64::to_radians](x: f64) -> (r: f64) ensures r == f_to_radians(x);
    pub assume_specification [f64::to_degrees](x: f64) -> (r: f64) ensures r == f_to_degrees(x);
    pub assume_specification [f64::recip](x: f64) -> (r: f64) ensures r == f_recip(x);
    pub assume_specification [f64::round](x: f64) -> (r: f64) ensures r == f_round(x);
    pub assume_specification [f64::signum](x: f64) -> (r: f64) ensures r == f_signum(x);
    pub assume_specification [f64::powi](x: f64, n: i32) -> (r: f64) ensures r == f_powi(x, n);
    pub assume_specification [f64::powf](x: f64, y: f64) -> (r: f64) ensures r == f_powf(x, y);
    pub assume_specification [f64::is_nan](x: f64) -> (r: bool) ensures r == f_is_nan(x);
    pub assume_specification [f64::is_infinite](x: f64) -> (r: bool) ensures r == f_is_infinite(x);
    pub assume_specification [f64::max](x: f64, y: f64) -> (r: f64) ensures r == f_fmax(x, y);
    pub assume_specification [f64::min](x: f64, y: f64) -> (r: f64) ensures r == f_fmin(x, y);

    // compiler-rt's __powidf2 for exponents 2 and 3 (spot-checked on 2e6 bit patterns, DESIGN §4.3)
    #[verifier::external_body]
    pub broadcast proof fn ax_powi2(x: f64) ensures #[trigger] f_powi(x, 2) == f_mul(x, x) {}
    #[verifier::external_body]
    pub broadcast proof fn ax_powi3(x: f64) ensures #[trigger] f_powi(x, 3) == f_mul(f_mul(x, x), x) {}
    pub broadcast group l0_powi { ax_powi2, ax_powi3 }
    }
}
