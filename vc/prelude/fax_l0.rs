// ---- L0: float operations are total, deterministic functions (TRUSTED AXIOMS) ----
// Every `external_body` item in this module is an assumption; the generator lists
// them mechanically in evidence.trusted_base.
pub mod fax {
    #[allow(unused_imports)]
    use vstd::prelude::*;
    #[allow(unused_imports)]
    use vstd::std_specs::ops::*;
    #[allow(unused_imports)]
    use vstd::std_specs::cmp::*;
    verus! {
    pub uninterp spec fn f_add(a: f64, b: f64) -> f64;
    pub uninterp spec fn f_sub(a: f64, b: f64) -> f64;
    pub uninterp spec fn f_mul(a: f64, b: f64) -> f64;
    pub uninterp spec fn f_div(a: f64, b: f64) -> f64;
    pub uninterp spec fn f_neg(a: f64) -> f64;

    #[verifier::external_body]
    pub broadcast proof fn ax_add_req(a: f64, b: f64) ensures #[trigger] vstd::std_specs::ops::AddSpec::add_req(a, b) {}
    #[verifier::external_body]
    pub broadcast proof fn ax_sub_req(a: f64, b: f64) ensures #[trigger] vstd::std_specs::ops::SubSpec::sub_req(a, b) {}
    #[verifier::external_body]
    pub broadcast proof fn ax_mul_req(a: f64, b: f64) ensures #[trigger] vstd::std_specs::ops::MulSpec::mul_req(a, b) {}
    #[verifier::external_body]
    pub broadcast proof fn ax_div_req(a: f64, b: f64) ensures #[trigger] vstd::std_specs::ops::DivSpec::div_req(a, b) {}
    #[verifier::external_body]
    pub broadcast proof fn ax_add_det(a: f64, b: f64, o: f64)
        requires #[trigger] add_ensures::<f64>(a, b, o) ensures o == f_add(a, b) {}
    #[verifier::external_body]
    pub broadcast proof fn ax_sub_det(a: f64, b: f64, o: f64)
        requires #[trigger] sub_ensures::<f64>(a, b, o) ensures o == f_sub(a, b) {}
    #[verifier::external_body]
    pub broadcast proof fn ax_mul_det(a: f64, b: f64, o: f64)
        requires #[trigger] mul_ensures::<f64>(a, b, o) ensures o == f_mul(a, b) {}
    #[verifier::external_body]
    pub broadcast proof fn ax_div_det(a: f64, b: f64, o: f64)
        requires #[trigger] div_ensures::<f64>(a, b, o) ensures o == f_div(a, b) {}
    #[verifier::external_body]
    pub broadcast proof fn ax_add_comm(a: f64, b: f64) ensures #[trigger] f_add(a, b) == f_add(b, a) {}
    #[verifier::external_body]
    pub broadcast proof fn ax_mul_comm(a: f64, b: f64) ensures #[trigger] f_mul(a, b) == f_mul(b, a) {}

    pub broadcast group l0 {
        ax_add_req, ax_sub_req, ax_mul_req, ax_div_req,
        ax_add_det, ax_sub_det, ax_mul_det, ax_div_det,
        ax_add_comm, ax_mul_comm,
    }

    // unary minus on floats is rejected by Verus: rule R15 rewrites `-E` to `neg_(E)`
    pub trait NegLike: Sized { spec fn neg_spec_(self) -> Self; fn neg__(self) -> (r: Self) ensures r == self.neg_spec_(); }
    impl NegLike for f64 {
        open spec fn neg_spec_(self) -> f64 { f_neg(self) }
        #[verifier::external_body] fn neg__(self) -> (r: f64) { -self }
    }
    #[verifier::external_body]
    pub fn neg_(x: f64) -> (r: f64) ensures r == f_neg(x) { -x }

    // rejection tolerance of the calling context (uninterpreted; DESIGN §3.4)
    pub uninterp spec fn may_reject() -> bool;
    // panic sites (rule R2): REJECT sites pass the validity predicate, DEAD sites pass `true`
    #[verifier::external_body]
    pub fn vpanic(Ghost(valid): Ghost<bool>) -> !
        requires !valid
    { panic!() }
    // REJECT site of a `&mut self` method that carries an object invariant: the panic unwinds with the object in the state it
    // has here, so that state must still satisfy the invariant ("no object ever holds an out-of-domain parameter")
    #[verifier::external_body]
    pub fn vpanic_inv(Ghost(valid): Ghost<bool>, Ghost(inv): Ghost<bool>) -> !
        requires !valid, inv
    { panic!() }
    }
}
