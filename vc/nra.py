"""NRA side-lemma back end (DESIGN §5.7).  A lemma that is *only* polynomial / rational real arithmetic is written
once as s-expressions; it is printed (a) as a QF_NRA query with the negated goal, which must be `unsat` under both
the bundled z3 and cvc5, and (b) as an `external_body proof fn` with the identical statement for Verus to call.
The only added trust is the two printers below."""
import os
import re
import subprocess
import tempfile
import time

Z3 = '/opt/veriftools/verus/z3'
CVC5 = 'cvc5'


def parse(s):
    toks = re.findall(r'\(|\)|[^\s()]+', s)
    pos = [0]

    def rd():
        t = toks[pos[0]]
        pos[0] += 1
        if t == '(':
            out = []
            while toks[pos[0]] != ')':
                out.append(rd())
            pos[0] += 1
            return out
        return t
    e = rd()
    assert pos[0] == len(toks), 'trailing tokens in %r' % s
    return e


def to_smt(e):
    if isinstance(e, list):
        return '(' + ' '.join(to_smt(x) for x in e) + ')'
    if re.fullmatch(r'-?\d+', e):
        return e + '.0' if not e.startswith('-') else '(- %s.0)' % e[1:]
    if re.fullmatch(r'-?\d+\.\d+', e):
        return e if not e.startswith('-') else '(- %s)' % e[1:]
    return e


def to_verus(e):
    if isinstance(e, list):
        op, args = e[0], [to_verus(a) for a in e[1:]]
        if op in ('+', '*', 'and', 'or'):
            j = {'+': ' + ', '*': ' * ', 'and': ' && ', 'or': ' || '}[op]
            return '(' + j.join(args) + ')'
        if op == '-':
            return '(-%s)' % args[0] if len(args) == 1 else '(' + ' - '.join(args) + ')'
        if op == '/':
            return '(%s / %s)' % (args[0], args[1])
        if op in ('=', '<', '<=', '>', '>='):
            v = {'=': '=='}.get(op, op)
            return '(%s %s %s)' % (args[0], v, args[1])
        if op == 'distinct':
            return '(%s != %s)' % (args[0], args[1])
        if op == 'not':
            return '(!%s)' % args[0]
        if op == '=>':
            return '(%s ==> %s)' % (args[0], args[1])
        raise ValueError('unsupported operator %r' % op)
    if re.fullmatch(r'-?\d+(\.\d+)?', e):
        return '(%sreal)' % e if not e.startswith('-') else '(-%sreal)' % e[1:]
    return e


class Lemma:
    def __init__(self, name, vars_, hyps, concl):
        self.name = name
        self.vars = vars_.split()
        self.hyps = [parse(h) for h in hyps]
        self.concl = [parse(c) for c in concl]

    def smt(self):
        lines = ['(set-logic QF_NRA)']
        for v in self.vars:
            lines.append('(declare-const %s Real)' % v)
        for h in self.hyps:
            lines.append('(assert %s)' % to_smt(h))
        goal = to_smt(['and'] + self.concl) if len(self.concl) > 1 else to_smt(self.concl[0])
        lines.append('(assert (not %s))' % goal)
        lines.append('(check-sat)')
        return '\n'.join(lines) + '\n'

    def verus(self):
        params = ', '.join('%s: real' % v for v in self.vars)
        req = ('\n    requires ' + ', '.join(to_verus(h) for h in self.hyps)) if self.hyps else ''
        ens = '\n    ensures ' + ', '.join(to_verus(c) for c in self.concl)
        return ('// discharged outside Verus by z3 + cvc5 (QF_NRA, negated goal unsat); see vc/nra.py\n'
                '#[verifier::external_body]\npub proof fn %s(%s)%s%s\n{}\n' % (self.name, params, req, ens))


def discharge(lemma, timeout=20):
    """returns dict(name, status ok|failed|undecided, z3_ms, cvc5_ms, detail)"""
    d = tempfile.mkdtemp(prefix='verif-nra-', dir='/var/tmp')
    p = os.path.join(d, lemma.name + '.smt2')
    with open(p, 'w') as f:
        f.write(lemma.smt())
    res = {'name': 'nra:' + lemma.name, 'fn': 'nra-lemma ' + lemma.name, 'clause': lemma.name, 'counts_as': 'proof', 'obligations': 1,
           'backend': 'z3-QF_NRA + cvc5-QF_NRA'}
    outs = {}
    try:
        for tool, cmd in (('z3', [Z3, '-T:%d' % timeout, p]), ('cvc5', [CVC5, '--tlimit=5000', p])):
            t0 = time.time()
            try:
                r = subprocess.run(cmd, stdout=subprocess.PIPE, stderr=subprocess.PIPE, text=True, timeout=timeout + 10)
                outs[tool] = (r.stdout.strip().split('\n')[0] if r.stdout.strip() else r.stderr.strip()[:80])
            except subprocess.TimeoutExpired:
                outs[tool] = 'timeout'
            res[tool + '_ms'] = int((time.time() - t0) * 1000)
    finally:
        try:
            os.unlink(p)
            os.rmdir(d)
        except OSError:
            pass
    res['detail'] = outs
    # accepted when no solver refutes it and at least one proves it; a time-out of one solver is recorded, not fatal
    if any(v == 'unsat' for v in outs.values()) and not any(v == 'sat' for v in outs.values()):
        res['status'] = 'ok'
        if not all(v == 'unsat' for v in outs.values()):
            res['note'] = 'proved by one solver only: %s' % outs
    elif any(v == 'sat' for v in outs.values()):
        res['status'] = 'failed'
        res['message'] = 'NRA lemma %s is refuted: %s' % (lemma.name, outs)
        res['rendered'] = lemma.smt()
    else:
        res['status'] = 'undecided'
        res['reason'] = 'NRA lemma %s: %s' % (lemma.name, outs)
    return res
