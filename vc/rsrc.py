"""Brace/bracket/string-aware scanner over Rust source text (the compiler's
-Zunpretty=expanded output).  No regex is ever applied to unmasked bodies:
`mask()` blanks out comments, string/char literals so that structural searches
cannot be fooled by their contents, while offsets stay identical to the source.
"""
import re

OPEN = {'(': ')', '[': ']', '{': '}'}
CLOSE = {')': '(', ']': '[', '}': '{'}


class ScanError(Exception):
    pass


def mask(src):
    """Return a string of the same length as src in which comments and the
    *contents* of string / char literals are replaced by spaces."""
    out = list(src)
    n = len(src)
    i = 0
    while i < n:
        c = src[i]
        if c == '/' and i + 1 < n and src[i + 1] == '/':
            j = src.find('\n', i)
            if j < 0:
                j = n
            for k in range(i, j):
                out[k] = ' '
            i = j
        elif c == '/' and i + 1 < n and src[i + 1] == '*':
            depth = 1
            j = i + 2
            while j < n and depth > 0:
                if src.startswith('/*', j):
                    depth += 1
                    j += 2
                elif src.startswith('*/', j):
                    depth -= 1
                    j += 2
                else:
                    j += 1
            for k in range(i, j):
                if out[k] != '\n':
                    out[k] = ' '
            i = j
        elif c == '"' or (c in 'rb' and _raw_or_byte_string_start(src, i)):
            j = _string_end(src, i)
            # keep the delimiters, blank the contents
            for k in range(i + 1, j - 1):
                if out[k] != '\n':
                    out[k] = ' '
            # blank prefix chars / hashes too but keep first and last quote
            i = j
        elif c == "'":
            # char literal or lifetime
            if i + 1 < n and src[i + 1] == '\\':
                j = src.find("'", i + 2)
                # handle '\'' specially
                if src[i + 2] == "'":
                    j = src.find("'", i + 3)
                for k in range(i + 1, j):
                    out[k] = ' '
                i = j + 1
            elif i + 2 < n and src[i + 2] == "'":
                out[i + 1] = ' '
                i += 3
            else:
                i += 1  # lifetime
        else:
            i += 1
    return ''.join(out)


def _raw_or_byte_string_start(src, i):
    # r"..", r#".."#, b"..", br"..", but only when not part of an identifier
    if i > 0 and (src[i - 1].isalnum() or src[i - 1] == '_'):
        return False
    m = re.match(r'(br|rb|b|r)(#*)"', src[i:i + 40])
    if not m:
        return False
    if m.group(1) == 'b' and m.group(2):
        return False
    return True


def _string_end(src, i):
    """index just past the closing quote of the string literal starting at i"""
    m = re.match(r'(br|rb|b|r)?(#*)"', src[i:i + 40])
    prefix, hashes = m.group(1) or '', m.group(2)
    j = i + m.end()
    if 'r' in prefix:
        close = '"' + hashes
        k = src.find(close, j)
        if k < 0:
            raise ScanError('unterminated raw string')
        return k + len(close)
    n = len(src)
    while j < n:
        if src[j] == '\\':
            j += 2
        elif src[j] == '"':
            return j + 1
        else:
            j += 1
    raise ScanError('unterminated string')


def match_close(m, i):
    """m: masked text; i: index of an opener. Returns index of its closer."""
    op = m[i]
    assert op in OPEN, (op, m[max(0, i - 20):i + 20])
    stack = [op]
    j = i + 1
    n = len(m)
    while j < n:
        c = m[j]
        if c in OPEN:
            stack.append(c)
        elif c in CLOSE:
            if not stack or stack[-1] != CLOSE[c]:
                raise ScanError('unbalanced %r at %d' % (c, j))
            stack.pop()
            if not stack:
                return j
        j += 1
    raise ScanError('no closer for %r at %d' % (op, i))


def skip_ws(m, i, end):
    while i < end and m[i].isspace():
        i += 1
    return i


_ITEM_KW = re.compile(
    r'(?:pub(?:\s*\([^)]*\))?\s+)?(?:(?:default|unsafe|async|extern(?:\s*"[^"]*")?|const|spec|proof|open|closed|uninterp|broadcast|exec)\s+)*'
    r'(fn\b|struct\b|enum\b|union\b|impl\b|mod\b|use\b|const\b|static\b|type\b|trait\b|macro_rules!|extern\s+crate\b)')


class Item:
    __slots__ = ('kind', 'name', 'header', 'start', 'attr_start', 'body_open', 'body_close', 'end')

    def __repr__(self):
        return 'Item(%s %s %r %d..%d)' % (self.kind, self.name, self.header, self.start, self.end)


def items(src, m, a, b):
    """Yield the items that sit at nesting depth 0 of the span [a,b)."""
    i = a
    while True:
        i = skip_ws(m, i, b)
        if i >= b:
            return
        attr_start = i
        # attributes
        while m[i] == '#':
            j = i + 1
            if m[j] == '!':
                j += 1
            j = skip_ws(m, j, b)
            if m[j] != '[':
                raise ScanError('bad attribute at %d: %r' % (i, src[i:i + 40]))
            i = skip_ws(m, match_close(m, j) + 1, b)
        if i >= b:
            return
        mk = _ITEM_KW.match(m, i, b)
        if not mk:
            # stray token (e.g. `;`) – skip it
            if m[i] == ';':
                i += 1
                continue
            raise ScanError('unrecognised item at %d: %r' % (i, src[i:i + 80]))
        kind = mk.group(1)
        if kind.startswith('const') and False:
            pass
        it = Item()
        it.kind = kind
        it.start = i
        it.attr_start = attr_start
        it.body_open = it.body_close = None
        # scan to first `;` or `{` at depth 0 of () and []
        j = mk.end()
        depth = 0
        while j < b:
            c = m[j]
            if c in '([':
                j = match_close(m, j) + 1
                continue
            if c == '{' or c == ';':
                break
            j += 1
        if j >= b:
            raise ScanError('unterminated item at %d' % i)
        if m[j] == '{':
            it.body_open = j
            it.body_close = match_close(m, j)
            e = it.body_close + 1
            if kind in ('const', 'static', 'type', 'use') or (kind == 'fn' and False):
                # `const X: T = T { .. };`  /  `use a::{b, c};`
                k = e
                while k < b and m[k] != ';':
                    if m[k] in OPEN:
                        k = match_close(m, k)
                    k += 1
                e = k + 1
                it.body_open = it.body_close = None
            it.end = e
        else:
            it.end = j + 1
        hdr_end = it.body_open if it.body_open is not None else it.end - 1
        it.header = ' '.join(src[it.start:hdr_end].split())
        it.name = _item_name(kind, m, mk.end(), hdr_end)
        yield it
        i = it.end


def _item_name(kind, m, i, end):
    if kind in ('impl', 'use'):
        return None
    mm = re.compile(r'\s*([A-Za-z_][A-Za-z0-9_]*)').match(m, i, end)
    return mm.group(1) if mm else None


class Crate:
    """Path-addressed access to the expanded crate text."""

    def __init__(self, src):
        self.src = src
        self.m = mask(src)
        self._mods = {(): (0, len(src))}

    def mod_span(self, path):
        """path: tuple of module names -> (a,b) span of its body"""
        path = tuple(path)
        if path in self._mods:
            return self._mods[path]
        pa, pb = self.mod_span(path[:-1])
        for it in items(self.src, self.m, pa, pb):
            if it.kind == 'mod' and it.name == path[-1] and it.body_open is not None:
                self._mods[path] = (it.body_open + 1, it.body_close)
                return self._mods[path]
        raise KeyError('module not found: ' + '::'.join(path))

    def mod_items(self, path):
        a, b = self.mod_span(path)
        return list(items(self.src, self.m, a, b))

    def find(self, path):
        """path like 'linalg::array::vops::vadd'
        or 'linalg::array::matrix::{impl Matrix}::reshape'
        or 'linalg::array::vec::{struct Vector}' / '{const NAME}'.
        Returns (Item, impl_item_or_None)."""
        parts = split_path(path)
        # module prefix: leading parts that are plain idents and resolve to modules
        mods = []
        k = 0
        while k < len(parts) and not parts[k].startswith('{'):
            try:
                self.mod_span(tuple(mods + [parts[k]]))
            except KeyError:
                break
            mods.append(parts[k])
            k += 1
        rest = parts[k:]
        its = self.mod_items(tuple(mods))
        if len(rest) == 1 and not rest[0].startswith('{'):
            for it in its:
                if it.kind in ('fn', 'struct', 'enum', 'const', 'static', 'type', 'trait') and it.name == rest[0]:
                    return it, None
            raise KeyError('item not found: ' + path)
        if len(rest) == 1 and rest[0].startswith('{'):
            want = ' '.join(rest[0][1:-1].split())
            kind, _, name = want.partition(' ')
            for it in its:
                if it.kind == kind and it.name == name:
                    return it, None
                if it.kind == 'impl' and norm_header(it.header) == norm_header(want):
                    return it, None
            raise KeyError('item not found: ' + path)
        if len(rest) == 2 and rest[0].startswith('{'):
            want = norm_header(rest[0][1:-1])
            cands = [it for it in its if it.kind in ('impl', 'trait') and norm_header(it.header) == want]
            if not cands:
                raise KeyError('impl not found: %s (in %s)' % (want, '::'.join(mods)))
            for imp in cands:
                for it in items(self.src, self.m, imp.body_open + 1, imp.body_close):
                    if it.kind in ('fn', 'const', 'type') and it.name == rest[1]:
                        return it, imp
            raise KeyError('method not found: ' + path)
        raise KeyError('cannot resolve: ' + path)

    def text(self, it):
        return self.src[it.start:it.end]


def norm_header(h):
    h = ' '.join(h.split())
    h = re.sub(r'^(pub(\s*\([^)]*\))?\s+)', '', h)
    h = re.sub(r'\s*([<>,&:])\s*', r'\1', h)
    return h


def split_path(path):
    """split on '::' but not inside {...}"""
    parts = []
    cur = ''
    depth = 0
    i = 0
    while i < len(path):
        c = path[i]
        if c == '{':
            depth += 1
        elif c == '}':
            depth -= 1
        if depth == 0 and path.startswith('::', i):
            parts.append(cur)
            cur = ''
            i += 2
            continue
        cur += c
        i += 1
    parts.append(cur)
    return [p.strip() for p in parts if p.strip()]


# ---------------------------------------------------------------- body analysis

_LOOP_KW = re.compile(r"(?<![A-Za-z0-9_])(for|while|loop)(?![A-Za-z0-9_])")


def find_loops(m, a, b):
    """Return list of (kw_start, body_open, body_close, kw) for every loop inside span,
    in textual order (outer before inner)."""
    out = []
    for mk in _LOOP_KW.finditer(m, a, b):
        kw = mk.group(1)
        j = mk.end()
        # `for<'a>` higher-ranked bound is not a loop
        if kw == 'for' and m[skip_ws(m, j, b)] == '<':
            continue
        while j < b:
            c = m[j]
            if c in '([':
                j = match_close(m, j) + 1
                continue
            if c == '{':
                break
            if c == '|':  # closure in iterator expr: skip its params
                k = m.find('|', j + 1)
                j = k + 1
                continue
            j += 1
        if j >= b:
            raise ScanError('loop without body at %d' % mk.start())
        out.append((mk.start(), j, match_close(m, j), kw))
    return out


PANIC_HEADS = [
    '::core::panicking::panic_fmt', '::core::panicking::panic_display', '::core::panicking::panic_explicit',
    '::core::panicking::unreachable_display', '::core::panicking::panic',
    '::core::panicking::assert_failed', '::std::rt::begin_panic', '::std::rt::panic_fmt', '::std::rt::panic_display',
    'vpanic_raw',
]
_PANIC_RE = re.compile('|'.join(re.escape(h) + r'(?:::<[^>]*>)?\s*\(' for h in PANIC_HEADS))


def find_panics(m, a, b):
    """Return list of (start, end) spans of panic call expressions `HEAD(args)`."""
    out = []
    for mk in _PANIC_RE.finditer(m, a, b):
        op = mk.end() - 1
        out.append((mk.start(), match_close(m, op) + 1))
    return out


def find_closures(m, a, b):
    """Return [(bar1, bar2, body_start, body_end)] for closure expressions `|params| body`
    in textual order. body_end is exclusive. Heuristic: a `|` that follows one of `( , = {` or
    `move` (after whitespace) starts a closure."""
    out = []
    i = a
    while i < b:
        c = m[i]
        if c == '|':
            # previous non-space char
            k = i - 1
            while k >= a and m[k].isspace():
                k -= 1
            prev = m[k] if k >= a else '('
            is_move = m[max(a, k - 3):k + 1] == 'move'
            if m[i + 1] == '|' and prev not in '(,={' and not is_move:
                i += 2
                continue  # `||` operator
            if prev in '(,={;' or is_move or prev == '>' and m[k - 1] == '=':
                if m[i + 1] == '|':
                    bar2 = i + 1
                else:
                    bar2 = i + 1
                    while bar2 < b and m[bar2] != '|':
                        if m[bar2] in OPEN:
                            bar2 = match_close(m, bar2)
                        bar2 += 1
                bs = skip_ws(m, bar2 + 1, b)
                # optional return type
                if m.startswith('->', bs):
                    j = bs
                    while m[j] != '{':
                        j += 1
                    be = match_close(m, j) + 1
                    bs = j
                elif m[bs] == '{':
                    be = match_close(m, bs) + 1
                else:
                    # expression body: up to `,` or `)` at depth 0
                    j = bs
                    while j < b:
                        cj = m[j]
                        if cj in OPEN:
                            j = match_close(m, j) + 1
                            continue
                        if cj in ',);}' or cj in CLOSE:
                            break
                        if cj == '|' and m[j + 1] != '|' and False:
                            break
                        j += 1
                    be = j
                out.append((i, bar2, bs, be))
                i = bar2 + 1
                continue
        i += 1
    return out
