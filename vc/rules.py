"""The rewrite rules R1..R16 of DESIGN.md §3.3.  Every rule is local and syntactic; every
application is logged.  All rules work on (text, mask) pairs and never look inside
string literals or comments."""
import re
from .rsrc import mask, match_close, skip_ws, find_panics, OPEN, CLOSE, ScanError


class RuleError(Exception):
    """a rule's side condition is not met -> the run is UNDECIDED (exit 2), never an alarm"""


class Log:
    def __init__(self):
        self.apps = []          # (rule, fn, before, after)

    def add(self, rule, fn, before, after):
        self.apps.append((rule, fn, ' '.join(before.split())[:160], ' '.join(after.split())[:160]))

    def counts(self):
        c = {}
        for r, *_ in self.apps:
            c[r] = c.get(r, 0) + 1
        return c


def apply_edits(text, edits):
    """edits: list of (start, end, replacement); must not overlap"""
    edits = sorted(edits, key=lambda e: e[0])
    out = []
    pos = 0
    for a, b, r in edits:
        if a < pos:
            raise RuleError('overlapping edits at %d' % a)
        out.append(text[pos:a])
        out.append(r)
        pos = b
    out.append(text[pos:])
    return ''.join(out)


def split_top(m, a, b, sep=','):
    """split span [a,b) of masked text at top-level separators; returns list of (s,e)"""
    parts = []
    s = a
    j = a
    while j < b:
        c = m[j]
        if c in OPEN:
            j = match_close(m, j) + 1
            continue
        if c == sep:
            parts.append((s, j))
            s = j + 1
        j += 1
    parts.append((s, b))
    return parts


# ------------------------------------------------------------------ R1: assert_eq!/assert_ne!
_R1 = re.compile(r'match\s*\(')


def r1_assert_eq(text, fn, log):
    m = mask(text)
    edits = []
    for mk in _R1.finditer(m):
        op = mk.end() - 1
        cl = match_close(m, op)
        j = skip_ws(m, cl + 1, len(m))
        if m[j] != '{':
            continue
        bc = match_close(m, j)
        body = m[j:bc + 1]
        if '(left_val, right_val)' not in body or 'AssertKind::' not in body:
            continue
        kind = 'Eq' if 'AssertKind::Eq' in body else ('Ne' if 'AssertKind::Ne' in body else None)
        if kind is None or '::core::panicking::assert_failed' not in body:
            raise RuleError('R1: unexpected assert expansion in %s' % fn)
        parts = split_top(m, op + 1, cl)
        if len(parts) != 2:
            raise RuleError('R1: assert tuple arity in %s' % fn)
        a = text[parts[0][0]:parts[0][1]].strip()
        b = text[parts[1][0]:parts[1][1]].strip()
        if not (a.startswith('&') and b.startswith('&')):
            raise RuleError('R1: assert operands not borrowed in %s' % fn)
        a, b = a[1:].strip(), b[1:].strip()
        op_s = '==' if kind == 'Eq' else '!='
        new = 'if !((%s) %s (%s)) { vpanic_raw() }' % (a, op_s, b)
        end = bc + 1
        edits.append((mk.start(), end, new))
        log.add('R1', fn, text[mk.start():end], new)
    return apply_edits(text, edits)


# ------------------------------------------------------------------ R2: panic sites
def r2_panics(text, fn, site_exprs, log, inv=None):
    """site_exprs: function ordinal(1-based) -> spec expr string passed as Ghost(valid).
    Returns (text, nsites)."""
    m = mask(text)
    sites = find_panics(m, 0, len(m))
    edits = []
    for k, (a, b) in enumerate(sites, 1):
        e = site_exprs(k)
        if inv:
            new = '{ let ghost valid_ = (%s); let ghost inv_ = (%s); vpanic_inv(Ghost(valid_), Ghost(inv_)) /*panic-site %d*/ }' % (e, inv, k)
        else:
            new = '{ let ghost valid_ = (%s); vpanic(Ghost(valid_)) /*panic-site %d*/ }' % (e, k)
        edits.append((a, b, new))
        log.add('R2', fn, text[a:b], new)
    return apply_edits(text, edits), len(sites)


# ------------------------------------------------------------------ operand scanners
_IDCH = re.compile(r'[A-Za-z0-9_]')


def operand_start(m, pos, lo=0):
    """pos: index just past the end of a unary-level expression (postfix chain).
    Returns the start index of that expression (prefix unary operators included)."""
    j = pos
    while True:
        k = j - 1
        while k >= lo and m[k].isspace():
            k -= 1
        if k < lo:
            break
        c = m[k]
        if c in ')]':
            # find opener
            depth = 0
            q = k
            while q >= lo:
                if m[q] in ')]}':
                    depth += 1
                elif m[q] in '([{':
                    depth -= 1
                    if depth == 0:
                        break
                q -= 1
            if q < lo:
                raise ScanError('operand_start: unbalanced')
            j = q
            # a call / index: continue with what precedes (ident, path, `.method`, generic `::<..>`)
            continue
        if _IDCH.match(c) or c == '"':
            q = k
            if c == '"':
                q = k - 1
                while q >= lo and m[q] != '"':
                    q -= 1
                j = q
                continue
            while q >= lo and (_IDCH.match(m[q]) or m[q] == '.' and q > lo and m[q - 1].isdigit() and _is_number_at(m, q)):
                q -= 1
            tok_start = q + 1
            j = tok_start
            # keyword stops
            tok = m[tok_start:k + 1]
            if tok in ('return', 'in', 'if', 'else', 'match', 'as', 'let', 'mut', 'move', 'while', 'for'):
                j = k + 1
                j = skip_ws(m, j, pos)
                break
            # preceded by `.` (method/field) or `::` (path)?
            p = tok_start - 1
            while p >= lo and m[p].isspace():
                p -= 1
            if p >= lo and m[p] == '.' and not (p > lo and m[p - 1] == '.'):
                j = p  # continue chain before the dot
                continue
            if p >= lo + 1 and m[p] == ':' and m[p - 1] == ':':
                j = p - 1
                # could be `>::` of a generic path like Vec::<f64>::new – handle `>`
                pp = p - 2
                while pp >= lo and m[pp].isspace():
                    pp -= 1
                if pp >= lo and m[pp] == '>':
                    depth = 0
                    q = pp
                    while q >= lo:
                        if m[q] == '>':
                            depth += 1
                        elif m[q] == '<':
                            depth -= 1
                            if depth == 0:
                                break
                        q -= 1
                    j = q
                    # `::<` turbofish: skip the `::`
                    pq = j - 1
                    while pq >= lo and m[pq].isspace():
                        pq -= 1
                    if pq >= lo + 1 and m[pq] == ':' and m[pq - 1] == ':':
                        j = pq - 1
                continue
            break
        if c == '?':
            j = k
            continue
        break
    # prefix unary operators
    while True:
        k = j - 1
        while k >= lo and m[k].isspace():
            k -= 1
        if k < lo:
            break
        c = m[k]
        if c in '-!*&':
            # unary iff preceded by an operator/opener/keyword
            p = k - 1
            while p >= lo and m[p].isspace():
                p -= 1
            if p < lo or m[p] in '(,=[{;+-*/<>&|!:%^' or m[max(lo, p - 5):p + 1].endswith('return') or \
                    re.search(r'(?<![A-Za-z0-9_])(in|if|else|match|as|let|mut|move|while)$', m[max(lo, p - 6):p + 1]):
                if c == '&' and p >= lo and m[p] == '&':
                    break
                j = k
                continue
        break
    return j


def _is_number_at(m, q):
    # m[q] == '.' ; is it a decimal point inside a numeric literal like 1.5 or `1.`?
    k = q - 1
    while k >= 0 and (m[k].isdigit() or m[k] == '_'):
        k -= 1
    return not (k >= 0 and (_IDCH.match(m[k]) or m[k] == '.'))


def operand_end(m, pos, hi):
    """pos: index of the start of a unary-level expression. Returns index just past it."""
    j = skip_ws(m, pos, hi)
    while j < hi and m[j] in '-!*&':
        j = skip_ws(m, j + 1, hi)
    if m.startswith('mut ', j):
        j = skip_ws(m, j + 4, hi)
    # primary
    if m[j] in '([':
        j = match_close(m, j) + 1
    elif m[j] == '"':
        j = m.index('"', j + 1) + 1
    elif m[j].isdigit():
        mm = re.compile(r'[0-9][0-9_]*(\.(?![.A-Za-z_])[0-9_]*)?([eE][+-]?[0-9_]+)?(_?[fiu](8|16|32|64|128|size))?').match(m, j)
        j = mm.end()
    elif _IDCH.match(m[j]) or m[j] == ':':
        mm = re.compile(r'(::)?[A-Za-z_][A-Za-z0-9_]*(\s*::\s*(<[^;{}()]*?>|[A-Za-z_][A-Za-z0-9_]*))*').match(m, j)
        j = mm.end()
        # struct literal / macro not handled
    else:
        raise ScanError('operand_end: unexpected %r' % m[j:j + 20])
    # postfix chain
    while True:
        k = skip_ws(m, j, hi)
        if k >= hi:
            break
        c = m[k]
        if c in '([':
            j = match_close(m, k) + 1
            continue
        if c == '?':
            j = k + 1
            continue
        if c == '.' and not m.startswith('..', k):
            mm = re.compile(r'\.\s*([A-Za-z_][A-Za-z0-9_]*|[0-9]+)(\s*::\s*<[^;{}()]*?>)?').match(m, k)
            if not mm:
                break
            j = mm.end()
            continue
        break
    return j


# ------------------------------------------------------------------ R3: compound assignment
_R3 = re.compile(r'(?<![<>=!+\-*/%&|^])([+\-*/])=(?!=)')


def r3_compound(text, fn, log, skip=()):
    """`P op= E;` -> `P = P op (E);` ; skip: ordinals (1-based) left untouched"""
    n = 0
    while True:
        m = mask(text)
        found = None
        cnt = 0
        for mk in _R3.finditer(m):
            cnt += 1
            if cnt in skip:
                continue
            if cnt <= n:
                continue
            found = mk
            break
        if not found:
            return text
        n = cnt if cnt in skip else n
        mk = found
        # LHS: back to statement start
        k = mk.start() - 1
        depth = 0
        while k >= 0:
            c = m[k]
            if c in ')]':
                depth += 1
            elif c in '([':
                if depth == 0:
                    break
                depth -= 1
            elif depth == 0 and c in ';{}':
                break
            elif depth == 0 and c == '>' and m[k - 1] == '=':
                break
            k -= 1
        ls = skip_ws(m, k + 1, mk.start())
        lhs = text[ls:mk.start()].strip()
        # RHS: forward to `;` / `}` / `,` at depth 0
        j = mk.end()
        while j < len(m):
            c = m[j]
            if c in OPEN:
                j = match_close(m, j) + 1
                continue
            if c in ';},)':
                break
            j += 1
        rhs = text[mk.end():j].strip()
        if not lhs or not rhs:
            raise RuleError('R3: cannot parse compound assignment in %s' % fn)
        new = '%s = %s %s (%s)' % (lhs, lhs, mk.group(1), rhs)
        log.add('R3', fn, text[ls:j], new)
        text = text[:ls] + new + text[j:]
        # the rewritten statement contains no compound op any more; counter n keeps skipped ones


# ------------------------------------------------------------------ R5: casts
_R5 = re.compile(r'(?<![A-Za-z0-9_])as\s+(f64|usize|i32|i64|u64|u32|isize|u8|f32)(?![A-Za-z0-9_])')


def r5_casts(text, fn, log, float_src=()):
    """`E as f64` -> cast_f64(E) (E integer).  Int->int casts stay native.  float_src: 1-based ordinals
    (among the non-f64 casts of the function, textual order) whose source is a float -> cast_<ty>_f(E)."""
    nth = 0
    done = 0
    while True:
        m = mask(text)
        mk = None
        k = 0
        for cand in _R5.finditer(m):
            if cand.group(1) == 'f64':
                mk = cand
                break
            k += 1
            if k > done:
                done = k
                nth += 1
                if nth in float_src:
                    mk = cand
                    break
        if not mk:
            return text
        ty = mk.group(1)
        if ty != 'f64':
            ty = ty + '_f'
            done -= 1
        s = operand_start(m, mk.start())
        operand = text[s:mk.start()].strip()
        if not operand:
            raise RuleError('R5: empty cast operand in %s' % fn)
        new = 'cast_%s(%s)' % (ty, operand)
        log.add('R5', fn, text[s:mk.end()], new)
        text = text[:s] + new + text[mk.end():]


# ------------------------------------------------------------------ R6: .sum() / .product()
_R6 = re.compile(r'\.\s*(sum|product)\s*(::\s*<\s*f64\s*>)?\s*\(\s*\)')


def r6_sum(text, fn, log):
    pos = 0
    while True:
        m = mask(text)
        mk = _R6.search(m, pos)
        if not mk:
            return text
        s = operand_start(m, mk.start())
        it = text[s:mk.start()].strip()
        if not re.search(r'\.(iter|into_iter|iter_mut|map|zip|filter|cloned|copied|chain|rev|enumerate|skip|take|windows|chunks|step_by)\s*\(|\.\.', it):
            # no iterator adapter in the receiver (`self.data.sum()`, `Vector::from(..).sum()`): a method of that object, not an iterator reduction
            pos = mk.end()
            continue
        f = 'vsum' if mk.group(1) == 'sum' else 'vprod'
        new = '%s(%s.collect::<Vec<f64>>())' % (f, it)
        log.add('R6', fn, text[s:mk.end()], new)
        text = text[:s] + new + text[mk.end():]



# ------------------------------------------------------------------ R32: fold over a slice iterator is its defining loop
_R32 = re.compile(r'\b(\w+)\.iter\(\)(\.enumerate\(\))?\.fold\(')


def r32_fold(text, fn, log):
    """`S.iter().fold(INIT, |acc, x| BODY)` is, by the definition of Iterator::fold (std: `let mut accum = init; while let
    Some(x) = self.next() { accum = f(accum, x); } accum`) over slice::Iter (yields &S[0], &S[1], ... in order),
    `{ let mut acc = INIT; for k_ in 0..S.len() { let x = &S[k_]; acc = BODY; } acc }`; with `.enumerate()` the closure
    parameter is `(i, x)` and i is the position.  Verus supports neither fold nor enumerate (provided trait methods)."""
    while True:
        m = mask(text)
        mk = _R32.search(m)
        if not mk:
            return text
        op = mk.end() - 1
        cl = match_close(m, op)
        parts = split_top(m, op + 1, cl)
        if len(parts) < 2:
            raise RuleError('R32: fold arity in %s' % fn)
        init = text[parts[0][0]:parts[0][1]].strip()
        clo = text[parts[1][0]:cl].strip()      # the closure's own `|a, b|` holds a top-level comma
        s_ = mk.group(1)
        if mk.group(2):
            mc = re.match(r'\|\s*(\w+)\s*,\s*\(\s*(\w+)\s*,\s*(\w+)\s*\)\s*\|\s*(.*)$', clo, re.S)
            if not mc:
                raise RuleError('R32: closure shape in %s: %r' % (fn, clo))
            acc, i, x, body = mc.groups()
            new = '({ let mut %s = %s; for %s in 0..%s.len() { let %s = &%s[%s]; %s = %s; } %s })' % (acc, init, i, s_, x, s_, i, acc, body, acc)
        else:
            mc = re.match(r'\|\s*(\w+)\s*,\s*(\w+)\s*\|\s*(.*)$', clo, re.S)
            if not mc:
                raise RuleError('R32: closure shape in %s: %r' % (fn, clo))
            acc, x, body = mc.groups()
            new = '({ let mut %s = %s; for k_ in 0..%s.len() { let %s = &%s[k_]; %s = %s; } %s })' % (acc, init, s_, x, s_, acc, body, acc)
        log.add('R32', fn, text[mk.start():cl + 1], new)
        text = text[:mk.start()] + new + text[cl + 1:]



# ------------------------------------------------------------------ R33: enumerate().map() over a slice iterator
_R33 = re.compile(r'\b(\w+)\.iter\(\)\.enumerate\(\)\.map\(\s*\|\s*\(\s*(\w+)\s*,\s*(\w+)\s*\)\s*\|')


def r33_enumerate_map(text, fn, log):
    """`S.iter().enumerate().map(|(i, v)| BODY)` yields BODY for i = 0, 1, ... with v = &S[i] (definition of slice::Iter and
    Enumerate); it is rewritten to `(0..S.len()).map(|i| { let v = &S[i]; BODY })`, which Verus supports."""
    while True:
        m = mask(text)
        mk = _R33.search(m)
        if not mk:
            return text
        op = m.index('(', m.index('.map', mk.start()))
        cl = match_close(m, op)
        s_, i, v = mk.group(1), mk.group(2), mk.group(3)
        body = text[mk.end():cl].strip()
        new = '(0..%s.len()).map(|%s| { let %s = &%s[%s]; %s })' % (s_, i, v, s_, i, body)
        log.add('R33', fn, text[mk.start():cl + 1], new)
        text = text[:mk.start()] + new + text[cl + 1:]


# ------------------------------------------------------------------ R7: vec! expansions
def r7_vec(text, fn, log):
    while True:
        m = mask(text)
        k = m.find('::alloc::vec::from_elem(')
        if k >= 0:
            op = m.index('(', k)
            cl = match_close(m, op)
            parts = split_top(m, op + 1, cl)
            if len(parts) != 2:
                raise RuleError('R7: from_elem arity in %s' % fn)
            e = text[parts[0][0]:parts[0][1]].strip()
            n = text[parts[1][0]:parts[1][1]].strip()
            new = 'vec![%s; %s]' % (e, n)
            log.add('R7', fn, text[k:cl + 1], new)
            text = text[:k] + new + text[cl + 1:]
            continue
        mk = re.search(r'<\[_\]>::into_vec\(\s*::alloc::boxed::box_new\(\s*\[', m)
        if mk:
            ob = mk.end() - 1
            cb = match_close(m, ob)
            # two closing parens follow
            j = skip_ws(m, cb + 1, len(m))
            assert m[j] == ')'
            j = skip_ws(m, j + 1, len(m))
            assert m[j] == ')'
            new = 'vec![%s]' % text[ob + 1:cb]
            log.add('R7', fn, text[mk.start():j + 1], new)
            text = text[:mk.start()] + new + text[j + 1:]
            continue
        # the newer `vec![a, b]` expansion (nightly): box_assume_init_into_vec_unsafe(write_box_via_move(Box::new_uninit(), [..]))
        mk = re.search(r'::alloc::boxed::box_assume_init_into_vec_unsafe\(\s*::alloc::intrinsics::write_box_via_move\(\s*::alloc::boxed::Box::new_uninit\(\)\s*,\s*\[', m)
        if mk:
            ob = mk.end() - 1
            cb = match_close(m, ob)
            j = skip_ws(m, cb + 1, len(m))
            assert m[j] == ')'
            j = skip_ws(m, j + 1, len(m))
            assert m[j] == ')'
            new = 'vec![%s]' % text[ob + 1:cb]
            log.add('R7', fn, text[mk.start():j + 1], new)
            text = text[:mk.start()] + new + text[j + 1:]
            continue
        return text


# ------------------------------------------------------------------ R8/R9: paths and constants
R9_CONSTS = [
    (r'f64::EPSILON', 'c_epsilon()'), (r'f64::NAN', 'c_nan()'), (r'f64::INFINITY', 'c_infinity()'), (r'f64::MAX\b', 'c_max()'), (r'f64::MIN\b(?!_)', 'c_min()'),
    (r'f64::NEG_INFINITY', 'c_neg_infinity()'), (r'f64::MIN_POSITIVE', 'c_min_positive()'),
    (r'std::f64::consts::PI', 'c_pi()'), (r'std::f64::consts::E', 'c_e()'),
    (r'(?<![A-Za-z0-9_:])PI(?![A-Za-z0-9_])', 'c_pi()'),
    (r'(?<![A-Za-z0-9_:])FRAC_PI_2(?![A-Za-z0-9_])', 'c_frac_pi_2()'),
    (r'(?<![A-Za-z0-9_:])SQRT_2(?![A-Za-z0-9_])', 'c_sqrt_2()'),
    (r'(?<![A-Za-z0-9_:])LN_2(?![A-Za-z0-9_])', 'c_ln_2()'),
]


def r8r9_paths(text, fn, log, extra=()):
    m = mask(text)
    edits = []
    for pat, rep in list(R9_CONSTS) + list(extra):
        for mk in re.finditer(r'(?<![A-Za-z0-9_])' + pat if pat[0] not in '(' else pat, m):
            edits.append((mk.start(), mk.end(), rep))
    # R8: absolute std paths that have a plain prelude name
    for pat, rep in [(r'::core::option::Option::None', 'None'), (r'::core::option::Option::Some', 'Some'),
                     (r'::core::result::Result::Ok', 'Ok'), (r'::core::result::Result::Err', 'Err'),
                     (r'::core::clone::Clone::clone', 'Clone::clone'),
                     (r'(?<![A-Za-z0-9_:])crate::(?:[a-z_0-9]+::)*', ''),
                     (r'(?<![A-Za-z0-9_:])super::(?:[a-z_0-9]+::)*', ''),
                     (r'(?<![A-Za-z0-9_:])(?:std::)?cmp::min\(', 'min_usize('),
                     (r'(?<![A-Za-z0-9_:])std::cmp::', ''),
                     (r'(?<![A-Za-z0-9_:])::core::cmp::', '')]:
        for mk in re.finditer(pat, m):
            edits.append((mk.start(), mk.end(), rep))
    # drop overlapping (keep first; at the same start the longest match wins)
    edits.sort(key=lambda e: (e[0], -e[1]))
    keep = []
    pos = -1
    for e in edits:
        if e[0] >= pos:
            keep.append(e)
            pos = e[1]
    for a, b, r in keep:
        log.add('R8/R9', fn, text[a:b], r)
    return apply_edits(text, keep)


# ------------------------------------------------------------------ R14: `|_|` closure params
def r14_wildcard(text, fn, log):
    m = mask(text)
    edits = []
    for mk in re.finditer(r'\|\s*_\s*\|', m):
        edits.append((mk.start(), mk.end(), '|_x|'))
        log.add('R14', fn, text[mk.start():mk.end()], '|_x|')
    return apply_edits(text, edits)


# ------------------------------------------------------------------ R15: unary minus
def r15_neg(text, fn, log):
    while True:
        m = mask(text)
        hit = None
        for mk in re.finditer(r'-', m):
            k = mk.start()
            if m[k + 1] in '=>':      # `-=` (gone after R3) / `->`
                continue
            p = k - 1
            while p >= 0 and m[p].isspace():
                p -= 1
            unary = p < 0 or m[p] in '(,=[{;+-*/<>&|!:%^' or \
                re.search(r'(?<![A-Za-z0-9_])(return|in|if|else|match|as|let|mut|move|while)$', m[max(0, p - 6):p + 1]) is not None
            if not unary:
                continue
            j = skip_ws(m, k + 1, len(m))
            # integer literal operand: leave alone (patterns, `-1` shape flags)
            mi = re.compile(r'[0-9][0-9_]*(_?[iu](8|16|32|64|128|size))?(?![0-9_.eE]|\.[0-9])').match(m, j)
            if mi and not m[mi.end():mi.end() + 1] == '.':
                continue
            mi2 = re.compile(r'[0-9][0-9_]*(?=\s*(=>|\|))').match(m, j)
            if mi2:
                continue
            hit = (k, j)
            break
        if not hit:
            return text
        k, j = hit
        e = operand_end(m, j, len(m))
        new = 'neg_(%s)' % text[j:e]
        log.add('R15', fn, text[k:e], new)
        text = text[:k] + new + text[e:]


# ------------------------------------------------------------------ R4: 2-array patterns
def r4_array_params(sig, body, fn, log):
    """`[i, j]: [usize; 2]` in the parameter list -> `ij_: [usize; 2]` + lets at body start"""
    mk = re.search(r'\[\s*([a-z_][a-z0-9_]*)\s*,\s*([a-z_][a-z0-9_]*)\s*\]\s*:\s*\[\s*usize\s*;\s*2\s*\]', sig)
    if not mk:
        return sig, body
    a, b = mk.group(1), mk.group(2)
    nsig = sig[:mk.start()] + 'ij_: [usize; 2]' + sig[mk.end():]
    nbody = '{ let %s = ij_[0]; let %s = ij_[1];' % (a, b) + body[1:]
    log.add('R4', fn, mk.group(0), 'ij_: [usize; 2] + lets')
    return nsig, nbody


# ------------------------------------------------------------------ R21: RangeInclusive<f64>::contains
_R21 = re.compile(r'\(\s*([0-9][0-9_.a-zA-Z]*)\s*\.\.=\s*([0-9][0-9_.a-zA-Z]*)\s*\)\s*\.contains\(\s*&\s*([A-Za-z_][A-Za-z0-9_.]*)\s*\)')


def r21_range_contains(text, fn, log):
    """`(A ..=B).contains(&X)` -> `range_incl_contains(A, B, X)` : std defines it as `A <= X && X <= B`
    (assumed contract on RangeInclusive::<f64>::contains, listed in the trusted base)"""
    m = mask(text)
    edits = []
    for mk in _R21.finditer(m):
        new = 'range_incl_contains(%s, %s, %s)' % (mk.group(1), mk.group(2), mk.group(3))
        edits.append((mk.start(), mk.end(), new))
        log.add('R21', fn, text[mk.start():mk.end()], new)
    return apply_edits(text, edits)


# ------------------------------------------------------------------ R22: slice `.contains(&LIT)` on [usize; 2]
_R22 = re.compile(r'\.contains\(\s*&\s*([0-9]+)\s*\)')


def r22_arr_contains(text, fn, log):
    while True:
        m = mask(text)
        mk = _R22.search(m)
        if not mk:
            return text
        s = operand_start(m, mk.start())
        new = 'arr2_contains(%s, %s)' % (text[s:mk.start()].strip(), mk.group(1))
        log.add('R22', fn, text[s:mk.end()], new)
        text = text[:s] + new + text[mk.end():]


# ------------------------------------------------------------------ R4 (continued): array patterns in `let` and `match`
_R4_LET = re.compile(r'let\s*\[\s*([a-z_][a-z0-9_]*)\s*,\s*([a-z_][a-z0-9_]*)\s*\]\s*=')


def r4_let_match(text, fn, log):
    """`let [a, b] = E;` -> `let ab_ = E; let a = ab_[0]; let b = ab_[1];`
    `match X { [P, Q] => .. }` -> `match (X[0], X[1]) { (P, Q) => .. }`  (2-arrays of Copy elements)"""
    while True:
        m = mask(text)
        mk = _R4_LET.search(m)
        if not mk:
            break
        j = mk.end()
        while j < len(m) and m[j] != ';':
            if m[j] in OPEN:
                j = match_close(m, j)
            j += 1
        expr = text[mk.end():j].strip()
        new = 'let ab_ = %s; let %s = ab_[0]; let %s = ab_[1];' % (expr, mk.group(1), mk.group(2))
        log.add('R4', fn, text[mk.start():j + 1], new)
        text = text[:mk.start()] + new + text[j + 1:]
    m = mask(text)
    edits = []
    for mk in re.finditer(r'(?<![A-Za-z0-9_])match\s+([a-z_][a-z0-9_]*)\s*\{', m):
        ob = mk.end() - 1
        cb = match_close(m, ob)
        first = skip_ws(m, ob + 1, cb)
        if m[first] != '[':
            continue
        scrut = mk.group(1)
        edits.append((mk.start(), ob, 'match (%s[0], %s[1]) ' % (scrut, scrut)))
        j = ob + 1
        while j < cb:
            c = m[j]
            if c == '[':
                k = match_close(m, j)
                edits.append((j, j + 1, '('))
                edits.append((k, k + 1, ')'))
                j = k + 1
                # skip to the arm body end
                continue
            if c in '{(':
                j = match_close(m, j) + 1
                continue
            j += 1
        log.add('R4', fn, 'match %s { [P, Q] => .. }' % scrut, 'match (%s[0], %s[1]) { (P, Q) => .. }' % (scrut, scrut))
    return apply_edits(text, edits)
