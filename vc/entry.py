"""process entry point: any internal error of the machinery (import error, crash) is exit 2 (undecided), never an alarm"""
import os
import sys
import traceback

sys.path.insert(0, os.path.dirname(os.path.dirname(os.path.abspath(__file__))))


def run():
    try:
        from vc import check
        return check.main()
    except SystemExit as e:
        code = e.code if isinstance(e.code, int) else 2
        return code
    except BaseException:
        sys.stderr.write(traceback.format_exc())
        print('UNDECIDED reason=internal-error %s' % ' '.join(traceback.format_exc().split())[-300:])
        return 2


if __name__ == '__main__':
    sys.exit(run())
