"""Unit generator: slices the functions a unit names out of the expanded crate text, applies
the rewrite rules, splices the side-car contracts and assembles one Verus file + line map."""
import os
import re
from . import rules
from .rsrc import Crate, mask, match_close, skip_ws, find_loops, find_panics, find_closures, split_path, ScanError

HERE = os.path.dirname(os.path.abspath(__file__))
CLAUSE_ID = re.compile(r'^\s*([A-Za-z_][\w.\-<>&]*)::\s+')   # "C04.len:: expr"


class AnchorError(Exception):
    """the code no longer has the shape the side-car was written for -> UNDECIDED (exit 2)"""


def clause(s, default_id):
    mk = CLAUSE_ID.match(s)
    if mk:
        return mk.group(1), s[mk.end():].strip()
    return default_id, s.strip()


class Fn:
    """side-car contract of one function of /repo"""

    def __init__(self, path, ret=None, requires=(), ensures=(), loops=None, panics=None, valid='true',
                 closures=None, hints=(), attrs=(), rewrites=(), level='L0', r3_skip=(), inherent=False, outline=False, as_impl=None, panic_inv=None,
                 shape=None, pre_body='', decreases=None, tail=None, name_as=None, generics=None, no_unwind=None,
                 sig_sub=(), mut_params=(), float_casts=(), companion=None, rej_clause=True, impl_items=None, trait_requires=False):
        self.impl_items = impl_items
        self.trait_requires = trait_requires
        self.rej_clause = rej_clause
        self.companion = companion
        self.float_casts = tuple(float_casts)
        self.path = path
        self.ret = ret
        self.requires = list(requires)
        self.ensures = list(ensures)
        self.loops = loops or {}
        self.panics = panics or {}
        self.valid = valid
        self.closures = closures or {}
        self.hints = list(hints)            # (anchor_substring, 'before'|'after'|'body_start'|'body_end', text)
        self.attrs = list(attrs)
        self.panic_inv = panic_inv   # object invariant that must hold at every panic site of a `&mut self` method
        self.as_impl = as_impl   # R34: a trait's default method monomorphised for one implementor: emitted inside this impl header
        self.outline = outline   # R30: body of a trait-impl method emitted as a free function, the method calls it
        self.rewrites = list(rewrites)      # (old, new, why): function-specific, logged as rule RX
        self.level = level
        self.r3_skip = tuple(r3_skip)
        self.inherent = inherent            # emit a trait-impl method as an inherent method
        self.shape = shape                  # optional explicit fingerprint {'loops':n,'panics':n,'closures':n}
        self.pre_body = pre_body
        self.tail = tail                    # (name, proof text): the body's tail expression E becomes `({ let name = E; proof {..} name })`
        self.decreases = decreases
        self.no_unwind = no_unwind if no_unwind is not False else None
        self.name_as = name_as
        self.sig_sub = list(sig_sub)        # (regex, repl) on the signature, logged
        self.short = split_path(path)[-1]

    def ids(self):
        out = []
        for i, s in enumerate(self.requires):
            out.append(clause(s, '%s.requires.%d' % (self.short, i + 1))[0])
        for i, s in enumerate(self.ensures):
            out.append(clause(s, '%s.ensures.%d' % (self.short, i + 1))[0])
        return out


class Unit:
    def __init__(self, name, prop, prove, use=(), types=(), spec='', preludes=('fax_l0', 'stdspec'), level='L0',
                 broadcast=('l0',), consts=(), extra_modules='', notes='', rlimit=30, raw_items=(), type_spec='', traits=(), nra=(), also=(), fingerprints=()):
        self.fingerprints = list(fingerprints)   # (fn path, expected whitespace-normalised body): definitions inlined by a rewrite rule
        self.also = list(also)   # names of units whose functions lie on the call path behind an assumed contract
        self.nra = list(nra)
        self.traits = list(traits)
        self.consts = list(consts)
        self.type_spec = type_spec
        self.name = name
        self.prop = prop if isinstance(prop, str) else prop[0]
        self.props = [prop] if isinstance(prop, str) else list(prop)
        self.prove = list(prove)      # [Fn]
        self.use = list(use)          # [Fn] imported as external_body stubs (contract only)
        self.types = list(types)      # paths of struct/enum/const items copied verbatim
        self.spec = spec              # hand-written spec fns / lemmas (Verus text) – specification, not code
        self.preludes = list(preludes)
        self.level = level
        self.broadcast = list(broadcast)
        self.notes = notes
        self.rlimit = rlimit
        self.raw_items = list(raw_items)


# ---------------------------------------------------------------- signature handling
def _split_top(t):
    out, depth, cur = [], 0, ''
    for ch in t:
        if ch in '([<{':
            depth += 1
        elif ch in ')]>}':
            depth -= 1
        if ch == ',' and depth == 0:
            out.append(cur)
            cur = ''
        else:
            cur += ch
    out.append(cur)
    return out


def _split_sig(sig):
    """sig: 'pub fn name<G>(params) -> Ret where ...'  ->  (head_upto_close_paren, ret_type or None, where or '')"""
    m = mask(sig)
    k = m.index('fn ')
    j = k
    # find param list open paren (skip generics)
    depth = 0
    while True:
        c = m[j]
        if c == '<':
            depth += 1
        elif c == '>' and m[j - 1] != '-':
            depth -= 1
        elif c == '(' and depth == 0:
            break
        j += 1
    cl = match_close(m, j)
    head = sig[:cl + 1]
    rest = sig[cl + 1:]
    mr = mask(rest)
    wpos = re.search(r'(?<![A-Za-z0-9_])where(?![A-Za-z0-9_])', mr)
    where = ''
    if wpos:
        where = rest[wpos.start():].strip()
        rest = rest[:wpos.start()]
    rest = rest.strip()
    ret = None
    if rest.startswith('->'):
        ret = rest[2:].strip()
    return head, ret, where


def all_requires(fn):
    """declared requires + the rejection-tolerance clause (DESIGN §3.4): a REJECTing function may only be
    called with a valid argument, or from a context that itself tolerates a rejection"""
    req = list(fn.requires)
    if fn.valid.strip() != 'true' and fn.rej_clause:
        req.append('%s.no_valid_input_rejected:: (%s) || may_reject()' % (fn.short, fn.valid))
    return req


def render_contract(fn, lines_out, stub=False, trait_impl=False):
    out = []
    reqs = [] if trait_impl else all_requires(fn)
    if reqs:
        out.append('    requires')
        for i, s in enumerate(reqs):
            cid, e = clause(s, '%s.requires.%d' % (fn.short, i + 1))
            out.append('        %s, //@[%s]' % (e, cid))
    if fn.ensures:
        out.append('    ensures')
        for i, s in enumerate(fn.ensures):
            cid, e = clause(s, '%s.ensures.%d' % (fn.short, i + 1))
            out.append('        %s, //@[%s]' % (e, cid))
    if fn.decreases and not stub:
        out.append('    decreases %s,' % fn.decreases)
    return out


def req_canary(fn, head, header, idx, where=''):
    """vacuity guard: `requires R ensures false` must FAIL, i.e. the declared preconditions of fn are satisfiable.
    Best effort: signatures with generics, `impl Trait` / `Self` / lifetime-carrying types are skipped."""
    if not fn.requires:
        return None
    m = re.match(r'fn\s+\w+\s*(<[^()]*>)?\s*\((.*)\)\s*$', head.strip(), re.S)
    if not m:
        return None
    gen_ = m.group(1) or ''
    out = []
    for prm in _split_top(m.group(2)):
        prm = ' '.join(prm.split())
        if not prm:
            continue
        if prm in ('self', '&self', '&mut self', 'mut self'):
            if header is None or header.startswith('impl<'):
                return None
            ty = header.split(' for ', 1)[1].strip() if ' for ' in header else header[len('impl'):].strip()
            out.append('self_: ' + ('&' if prm.startswith('&') else '') + ty)
            continue
        name, _, ty = prm.partition(':')
        name = name.strip()
        if name.startswith('mut '):
            name = name[4:]
        ty = ty.strip()
        if not re.fullmatch(r'\w+', name) or 'impl ' in ty or 'Self' in ty or "'" in ty or 'dyn ' in ty:
            return None
        ty = re.sub(r'^&\s*mut\s+', '&', ty)
        out.append('%s: %s' % (name, ty))
    reqs = [clause(c, '')[1] for c in fn.requires]
    reqs = [re.sub(r'\bold\(\s*(\w+)\s*\)', r'\1', r) for r in reqs]
    reqs = [re.sub(r'\bself\b', 'self_', r) for r in reqs]
    return 'proof fn canary_req_%d%s(%s) %s requires %s ensures false {} //@[canary.req.%s]' % (idx, gen_, ', '.join(out), ' '.join(where.split()) if gen_ else '', ', '.join('(%s)' % r for r in reqs), fn.short)


def wrap_tail(body, name, proof, path, pre=''):
    """R31 for the tail expression of a function body `{ stmts; E }`: E is bound to `name` so that a proof block can talk about the
    value returned.  E is found structurally (everything after the last top-level statement), so edits inside E keep the anchor."""
    m = mask(body)
    close = len(m.rstrip()) - 1
    if m[0] != '{' or m[close] != '}':
        raise AnchorError('%s: tail: body is not a block' % path)
    depth = 0
    start = 1
    i = 1
    while i < close:
        ch = m[i]
        if ch in '([{':
            depth += 1
        elif ch in ')]}':
            depth -= 1
            if depth == 0 and ch == '}':
                j = skip_ws(m, i + 1, close)
                rest = m[j:close]
                if rest.strip() and not re.match(r'(else\b|\.|\?|[-+*/%&|^<>=]|as\b)', rest):
                    start = i + 1
        elif ch == ';' and depth == 0:
            start = i + 1
        i += 1
    tail = body[start:close]
    if not tail.strip():
        raise AnchorError('%s: tail: the body has no tail expression' % path)
    return body[:start] + '\n({ %s let %s = %s;\n proof { %s } //@[%s.tail]\n %s })\n' % (pre, name, tail.strip(), ' '.join(proof.split('\n')), path.split('::')[-1], name) + body[close:]


class Gen:
    def __init__(self, crate, log=None):
        self.crate = crate
        self.log = log or rules.Log()
        self.fingerprints = {}
        self.outlined = []
        self.req_canaries = []

    # ---- one function
    def fn_text(self, fn, stub=False):
        """returns (impl_header_or_None, assoc_types, text)"""
        c = self.crate
        try:
            it, imp = c.find(fn.path)
        except KeyError as e:
            raise AnchorError('lost anchor: %s' % e)
        if it.kind != 'fn':
            raise AnchorError('%s is not a fn' % fn.path)
        sig = c.src[it.start:it.body_open].strip()
        body = c.src[it.body_open:it.body_close + 1]
        assoc = {}
        header = None
        if imp is not None:
            header = ' '.join(imp.header.split())
            from .rsrc import items
            for sub in items(c.src, c.m, imp.body_open + 1, imp.body_close):
                if sub.kind == 'type':
                    mt = re.match(r'type\s+(\w+)\s*=\s*(.*?);?$', ' '.join(c.src[sub.start:sub.end].split()))
                    if mt:
                        assoc[mt.group(1)] = mt.group(2).rstrip(';').strip()
        # visibility: everything becomes pub (trait impl methods: none)
        sig = re.sub(r'^pub(\s*\([^)]*\))?\s+', '', sig)
        is_trait_impl = header is not None and re.search(r'\sfor\s', header) is not None
        if fn.as_impl:
            self.log.add('R34', fn.path, header, fn.as_impl)
            header = fn.as_impl
            is_trait_impl = False
        if fn.inherent and is_trait_impl:
            header = 'impl ' + header.split(' for ', 1)[1]
            is_trait_impl = False
        # R11 associated types
        for k, v in assoc.items():
            if re.search(r'Self::' + k + r'\b', sig) or re.search(r'Self::' + k + r'\b', body):
                sig = re.sub(r'Self::' + k + r'\b', v, sig)
                body = re.sub(r'Self::' + k + r'\b', v, body)
                self.log.add('R11', fn.path, 'Self::' + k, v)
        if 'Self::Output' in sig and 'Output' not in assoc and imp is not None and 'IndexMut' in header:
            # IndexMut inherits `Output` from the sibling Index impl
            try:
                sib_path = fn.path.rsplit('::', 1)[0].replace('IndexMut', 'Index') + '::index'
                _, sib = c.find(sib_path)
                for sub in items(c.src, c.m, sib.body_open + 1, sib.body_close):
                    if sub.kind == 'type':
                        mt = re.match(r'type\s+Output\s*=\s*(.*?);?$', ' '.join(c.src[sub.start:sub.end].split()))
                        if mt:
                            v = mt.group(1).rstrip(';').strip()
                            sig = sig.replace('Self::Output', v)
                            body = body.replace('Self::Output', v)
                            self.log.add('R11', fn.path, 'Self::Output', v)
            except KeyError:
                pass
        for pat, rep in fn.sig_sub:
            nsig = re.sub(pat, rep, sig)
            self.log.add('RX-sig', fn.path, sig, nsig)
            sig = nsig
        if fn.name_as:
            sig = re.sub(r'\bfn\s+' + fn.short + r'\b', 'fn ' + fn.name_as, sig, count=1)
            self.log.add('RX-rename', fn.path, fn.short, fn.name_as)
        sig, body = rules.r4_array_params(sig, body, fn.path, self.log)
        sig = rules.r8r9_paths(sig, fn.path, rules.Log())
        head, ret, where = _split_sig(sig)
        if ret is not None:
            rname = fn.ret or 'ret'
            retdecl = ' -> (%s: %s)' % (rname, ret)
        else:
            retdecl = ''
            if fn.ret:
                raise AnchorError('%s: contract names a return value but the function returns ()' % fn.path)
        vis = '' if is_trait_impl else 'pub '
        lines = []
        lines.append('//@fn-begin %s' % fn.path)
        for a in fn.attrs:
            lines.append(a)
        if (not stub) and fn.outline == 'only' and is_trait_impl:
            # R30 (free-standing form): the trait is not reproduced; only the body is verified, as a free function over
            # `self_` with the impl's generics.  Used where the trait carries associated types the unit does not need.
            self_ty = header.split(' for ', 1)[1].strip()
            mg = re.match(r'impl\s*(<[^>]*>)', header)
            generics = mg.group(1) if mg else ''
            oname = '%s__outlined_%s' % (fn.short, re.sub(r'_+', '_', re.sub(r'\W+', '_', header)).strip('_'))
            sub = lambda t: re.sub(r'\bself\b', 'self_', t)
            mh = re.match(r'fn\s+\w+\s*\((.*)\)\s*$', head, re.S)
            params = [x.strip() for x in _split_top(mh.group(1)) if x.strip()]
            if not params or params[0] not in ('self', '&self'):
                raise AnchorError('%s: outlining supports `self` / `&self` receivers only' % fn.path)
            p0 = 'self_: ' + (self_ty if params[0] == 'self' else '&' + self_ty)
            ol = ['//@fn-begin %s' % fn.path, '// R30: body of %s verified as a free function' % fn.path]
            for a in fn.attrs:
                ol.append(a)
            ohead = 'pub fn %s%s(%s)%s %s' % (oname, generics, ', '.join([p0] + params[1:]), retdecl.replace(': Self)', ': %s)' % self_ty), where)
            ol.append(ohead)
            import copy
            f2 = copy.copy(fn)
            f2.requires = [sub(x) for x in fn.requires]
            f2.ensures = [sub(x) for x in fn.ensures]
            f2.valid = sub(fn.valid) if fn.valid else fn.valid
            ol += render_contract(f2, ol, False, trait_impl=False)
            ol.append(sub(self.body_text(fn, body)))
            ol.append('//@fn-end %s' % fn.path)
            self.log.add('R30', fn.path, head, ohead)
            return None, False, {}, '\n'.join(ol)
        outl = (not stub) and fn.outline and is_trait_impl
        if stub or outl:
            lines.append('#[verifier::external_body]')
        lines.append('%s%s%s %s' % (vis, head, retdecl, where))
        lines += render_contract(fn, lines, stub or outl, trait_impl=is_trait_impl)
        if not stub and not fn.outline and not fn.sig_sub:
            try:
                cn = req_canary(fn, head, header, len(self.req_canaries) + 1, where)
            except Exception:
                cn = None
            if cn:
                self.req_canaries.append(cn)
        if stub:
            lines.append('{ unimplemented!() }')
        elif fn.outline and is_trait_impl:
            # R30: Verus loses the vstd iterator specifications in trait-impl methods and in anything they call (observed:
            # the same body verifies as a free function nobody calls).  The body is verified as a free function over
            # `self_` carrying the method's contract verbatim; the method itself is emitted as a contract-only stub.
            import copy
            self_ty = header.split(' for ', 1)[1].strip()
            oname = '%s__outlined_%s' % (fn.short, re.sub(r'\W+', '_', header))
            sub = lambda t: re.sub(r'\bself\b', 'self_', t)
            mh = re.match(r'fn\s+\w+\s*\((.*)\)\s*$', head, re.S)
            if not mh:
                raise AnchorError('%s: cannot outline signature %r' % (fn.path, head))
            params = [x.strip() for x in _split_top(mh.group(1)) if x.strip()]
            if not params or params[0] not in ('self', '&self'):
                raise AnchorError('%s: outlining supports `self` / `&self` receivers only' % fn.path)
            p0 = 'self_: ' + (self_ty if params[0] == 'self' else '&' + self_ty)
            args = ['self'] + [x.split(':', 1)[0].strip() for x in params[1:]]
            f2 = copy.copy(fn)
            f2.requires = [sub(x) for x in fn.requires]
            f2.ensures = [sub(x) for x in fn.ensures]
            f2.valid = sub(fn.valid) if fn.valid else fn.valid
            ol = ['//@fn-begin %s' % fn.path, '// R30: body of %s outlined' % fn.path]
            ohead = 'pub fn %s(%s)%s %s' % (oname, ', '.join([p0] + params[1:]), retdecl.replace(': Self)', ': %s)' % self_ty), where)
            ol.append(ohead)
            ol += render_contract(f2, ol, False, trait_impl=False)
            ol.append(sub(self.body_text(fn, body)))
            ol.append('//@fn-end %s' % fn.path)
            self.outlined.append('\n'.join(ol))
            self.log.add('R30', fn.path, head, ohead)
            lines.append('{ unimplemented!() } // body verified as %s' % oname)
        else:
            lines.append(self.body_text(fn, body))
        lines.append('//@fn-end %s' % fn.path)
        return header, is_trait_impl, assoc, '\n'.join(lines)

    def body_text(self, fn, body):
        log = self.log
        p = fn.path
        text = body
        if fn.tail:
            text = wrap_tail(text, fn.tail[0], fn.tail[1], p, fn.tail[2] if len(fn.tail) > 2 else '')
            log.add('R31-tail', p, 'tail expression', 'bound to ' + fn.tail[0])
        # function-specific rewrites first (on the expanded text; each needs a justification)
        for rw in fn.rewrites:
            old, new, why = rw[0], rw[1], rw[2]
            if len(rw) > 3 and rw[3] in ('re', 're?'):
                # pattern form: `old` is a regular expression, `new` may use back-references; 're?' may match nowhere
                if not re.search(old, text):
                    if rw[3] == 're?':
                        continue
                    raise AnchorError('%s: rewrite pattern not found: %r' % (p, old))
                text = re.sub(old, new, text)
            elif text.count(old) >= 1:
                text = text.replace(old, new)
            else:
                # tolerate the pretty-printer's line breaks: whitespace runs match any whitespace
                pat = r'\s*'.join(re.escape(tok) for tok in old.split())
                if not re.search(pat, text):
                    raise AnchorError('%s: rewrite anchor not found: %r' % (p, old))
                text = re.sub(pat, lambda _m: new, text)
            log.add('RX(%s)' % why, p, old, new)
        text = rules.r32_fold(text, p, log)
        text = rules.r33_enumerate_map(text, p, log)
        text = rules.r1_assert_eq(text, p, log)
        text = rules.r4_let_match(text, p, log)

        def site_expr(k):
            kind = fn.panics.get(k, None)
            if kind is None:
                raise AnchorError('%s: panic site %d has no classification in the side-car' % (p, k))
            if kind == 'DEAD':
                return 'true'
            if kind == 'REJECT':
                return fn.valid
            if kind.startswith('REJECT:'):
                return kind[len('REJECT:'):].strip()
            raise AnchorError('%s: bad panic kind %r' % (p, kind))
        text = text.replace('vpanic_raw()', '::core::panicking::panic("assert_eq")')
        text, npanics = rules.r2_panics(text, p, site_expr, log, inv=fn.panic_inv)
        if len(fn.panics) != npanics:
            raise AnchorError('%s: %d panic sites in the code, side-car classifies %d' % (p, npanics, len(fn.panics)))
        text = rules.r7_vec(text, p, log)
        text = rules.r21_range_contains(text, p, log)
        text = rules.r22_arr_contains(text, p, log)
        text = rules.r3_compound(text, p, log, fn.r3_skip)
        text = rules.r6_sum(text, p, log)
        text = rules.r5_casts(text, p, log, fn.float_casts)
        text = rules.r8r9_paths(text, p, log, extra=[(r'(?<![A-Za-z0-9_:])%s(?![A-Za-z0-9_])' % n, 'c_%s()' % n) for n in getattr(self, '_const_names', [])])
        text = rules.r14_wildcard(text, p, log)
        text = rules.r15_neg(text, p, log)
        # closures
        m = mask(text)
        cl = find_closures(m, 0, len(m))
        if fn.closures:
            edits = []
            for k, spec in fn.closures.items():
                if k > len(cl):
                    raise AnchorError('%s: closure %d not found (have %d)' % (p, k, len(cl)))
                b1, b2, bs, be = cl[k - 1]
                params = spec.get('params') or text[b1 + 1:b2]
                s = '|%s|' % params
                if spec.get('ret'):
                    s += ' -> (%s)' % spec['ret']
                cs = []
                if spec.get('requires'):
                    cs.append('requires ' + ', '.join(spec['requires']) + ',')
                if spec.get('ensures'):
                    cs.append('ensures ' + ', '.join(spec['ensures']) + ',')
                btxt = text[bs:be]
                if not btxt.lstrip().startswith('{') or '->' in text[b2:bs]:
                    if '->' in text[b2:bs]:
                        btxt = btxt
                    else:
                        btxt = '{ ' + btxt + ' }'
                        log.add('R16', p, text[bs:be], btxt)
                edits.append((b1, be, s + ' ' + ' '.join(cs) + ' ' + btxt))
            text = rules.apply_edits(text, edits)
        # loops
        m = mask(text)
        loops = find_loops(m, 0, len(m))
        nloops = len(loops)
        for k in fn.loops:
            if k > nloops:
                raise AnchorError('%s: loop %d not found (have %d)' % (p, k, nloops))
        if fn.loops and max(fn.loops) != nloops and fn.shape is None:
            pass
        edits = []
        for k, (ks, bo, bc, kw) in enumerate(loops, 1):
            spec = fn.loops.get(k)
            if spec is None:
                raise AnchorError('%s: loop %d (%s) has no invariant in the side-car' % (p, k, kw))
            ins = []
            for key in ('invariant_except_break', 'invariant', 'ensures'):
                if spec.get(key):
                    ins.append('        %s' % key)
                    for i, s in enumerate(spec[key]):
                        cid, e = clause(s, '%s.loop%d.%s.%d' % (fn.short, k, key, i + 1))
                        ins.append('            %s, //@[%s]' % (e, cid))
            if spec.get('decreases'):
                ins.append('        decreases %s, //@[%s.loop%d.decreases]' % (spec['decreases'], fn.short, k))
            body_pre = ''
            if spec.get('body_ghost'):
                body_pre = '\n ' + spec['body_ghost'] + '\n'
            if spec.get('body_start'):
                body_pre += '\n proof { ' + spec['body_start'] + ' }\n'
            body_post = ''
            if spec.get('body_end'):
                body_post = '\n; proof { ' + ' '.join(spec['body_end'].split('\n')) + ' } //@[%s.loop%d.step]\n' % (fn.short, k)
            if spec.get('iter_name'):
                mi = re.compile(r'\sin\s').search(m, ks, bo)
                if not mi:
                    raise AnchorError('%s: loop %d is not a `for .. in ..` loop' % (p, k))
                edits.append((mi.end(), mi.end(), spec['iter_name'] + ': '))
            edits.append((bo, bo + 1, '\n' + '\n'.join(ins) + '\n    {' + body_pre))
            if body_post:
                edits.append((bc, bc, body_post))
            if spec.get('after'):
                edits.append((bc + 1, bc + 1, '\n proof { ' + spec['after'] + ' }\n'))
            if spec.get('before'):
                # structural position: immediately in front of the loop keyword (no labelled loops in this crate)
                edits.append((ks, ks, ' proof { ' + spec['before'] + ' }\n '))
        text = rules.apply_edits(text, edits)
        # hints
        for anchor, where, h in fn.hints:
            if where == 'body_start':
                text = '{' + '\n' + h + '\n' + text[1:]
                continue
            if where == 'body_end':
                k = text.rstrip().rfind('}')
                # before the trailing expression is not generally possible; insert before last line's expr
                raise AnchorError('body_end hints unsupported; use an anchor')
            cnt = text.count(anchor)
            if cnt == 0 and where in ('before', 'after'):
                # a hint attached to a loop header keeps its place when only the range of that loop was edited: fall back to `for <var> in `
                mh = re.match(r'for (\w+(?:: \w+)?) in ', anchor)
                if mh and text.count(mh.group(0)) == 1:
                    log.add('RX-anchor', p, anchor, mh.group(0))
                    anchor = mh.group(0)
                    cnt = 1
            if cnt != 1:
                raise AnchorError('%s: hint anchor %r occurs %d times' % (p, anchor, cnt))
            k = text.index(anchor)
            if where == 'before':
                # start of the line containing the anchor
                ls = text.rfind('\n', 0, k) + 1
                text = text[:ls] + h + '\n' + text[ls:]
            elif where == 'after':
                le = text.find('\n', k)
                if le < 0:
                    le = len(text)
                text = text[:le] + '\n' + h + text[le:]
            elif where == 'pre':
                text = text[:k] + h + ' ' + text[k:]
            elif where == 'post':
                text = text[:k + len(anchor)] + ' ' + h + text[k + len(anchor):]
            elif where == 'replace':
                text = text[:k] + h + text[k + len(anchor):]
                log.add('RX-hint', p, anchor, h)
            else:
                raise AnchorError('bad hint position %r' % where)
        if fn.pre_body:
            text = '{\n' + fn.pre_body + '\n' + text[1:]
        self.fingerprints[p] = {'loops': nloops, 'panic_sites': npanics, 'closures': len(cl)}
        if fn.shape:
            for k, v in fn.shape.items():
                if self.fingerprints[p].get(k) != v:
                    raise AnchorError('%s: shape fingerprint %s=%s, side-car expects %s' % (p, k, self.fingerprints[p].get(k), v))
        return text

    # ---- items copied verbatim (structs, consts)
    def item_text(self, path):
        c = self.crate
        try:
            it, _ = c.find(path)
        except KeyError as e:
            raise AnchorError('lost anchor: %s' % e)
        t = c.src[it.start:it.end]
        t = re.sub(r'^pub(\s*\([^)]*\))?\s+', '', t)
        # strip attributes inside struct bodies (serde etc.) and make fields pub
        tm = mask(t)
        out = []
        i = 0
        while i < len(t):
            if tm[i] == '#' and tm[skip_ws(tm, i + 1, len(tm))] == '[':
                j = match_close(tm, tm.index('[', i))
                i = j + 1
                continue
            out.append(t[i] if tm[i] != ' ' or t[i].isspace() or t[i] == ' ' else t[i])
            i += 1
        t = ''.join(out)
        t = re.sub(r'pub\s*\(crate\)\s*', 'pub ', t)
        derive = ''
        if it.kind in ('struct', 'enum'):
            parts_ = split_path(path)
            mods_ = tuple(x for x in parts_ if not x.startswith('{'))
            try:
                hdrs = [x.header for x in c.mod_items(mods_) if x.kind == 'impl']
                if any(re.search(r'marker::Copy\s+for\s+%s$' % it.name, h) for h in hdrs):
                    derive = '#[derive(Clone, Copy)]\n'
            except KeyError:
                pass
        if it.kind == 'struct':
            # all fields public so that specs can read them
            body_open = t.index('{') if '{' in t else -1
            if body_open >= 0:
                inner = t[body_open + 1:t.rindex('}')]
                fields = []
                mi = mask(inner)
                for a, b in rules.split_top(mi, 0, len(mi)):
                    f = inner[a:b].strip()
                    f = re.sub(r'//[^\n]*\n', '', f).strip()
                    if not f:
                        continue
                    f = re.sub(r'^pub\s+', '', f)
                    fields.append('    pub ' + f + ',')
                t = t[:body_open + 1] + '\n' + '\n'.join(fields) + '\n}'
        return derive + 'pub ' + rules.r8r9_paths(t, path, rules.Log())

    def check_trait(self, path, annotated):
        """the annotated trait (with spec members and contracts) must declare exactly the fn signatures of the real trait"""
        c = self.crate
        try:
            it, _ = c.find(path)
        except KeyError as e:
            raise AnchorError('lost anchor: %s' % e)
        from .rsrc import items

        def sigs(src, m, a, b):
            out = set()
            for sub in items(src, m, a, b):
                if sub.kind == 'fn':
                    sg = ' '.join(src[sub.start:(sub.body_open if sub.body_open else sub.end - 1)].split())
                    sg = re.sub(r'\s*(requires|ensures)\b.*$', '', sg)
                    sg = re.sub(r'->\s*\(\w+:\s*([^)]*)\)', r'-> \1', sg)
                    if not sg.startswith('spec fn') and not sg.startswith('open spec') and ' spec fn ' not in ' ' + sg:
                        out.add(sg.strip())
            return out
        real = sigs(c.src, c.m, it.body_open + 1, it.body_close)
        am = mask(annotated)
        ob = am.index('{')
        mine = sigs(annotated, am, ob + 1, match_close(am, ob))
        if real != mine:
            raise AnchorError('trait %s: declared fns differ from the annotated trait: real=%s annotated=%s' % (path, sorted(real), sorted(mine)))

    def const_text(self, path):
        """crate-level `const NAME: f64 = INIT;` -> exec accessor c_NAME() + spec constant k_NAME() + an axiom for its
        real value derived mechanically from INIT (decimal literals, + - * / of them, PI)"""
        from fractions import Fraction
        c = self.crate
        try:
            it, _ = c.find(path)
        except KeyError as e:
            raise AnchorError('lost anchor: %s' % e)
        t = ' '.join(c.src[it.start:it.end].split())
        ma = re.match(r'(?:pub(?:\([^)]*\))?\s+)?const\s+(\w+)\s*:\s*\[f64;\s*(\d+)\]\s*=\s*\[(.*)\];$', t)
        if ma:
            # R9c for `const NAME: [f64; N] = [lit, ...];`: accessor returning the array, spec sequence k_NAME(), one real-value axiom per element
            name, n, elems = ma.group(1), int(ma.group(2)), [e.strip() for e in ma.group(3).split(',') if e.strip()]
            if len(elems) != n:
                raise AnchorError('%s: %d initialisers for [f64; %d]' % (path, len(elems), n))
            vals = [real_expr_of_const_init(e) for e in elems]
            if any(v is None for v in vals):
                raise AnchorError('%s: an initializer is outside the const evaluator' % path)
            self.log.add('R9c', path, t[:80], 'c_%s() array of %d with element-wise real values' % (name, n))
            ens = ', '.join(['#[trigger] k_%s().len() == %d' % (name, n)] + ['rv(k_%s()[%d]) == %s' % (name, k, v) for k, v in enumerate(vals)])
            return ('pub uninterp spec fn k_%s() -> Seq<f64>;\n#[verifier::external_body]\npub fn c_%s() -> (r: [f64; %d]) ensures r@ == k_%s() { unimplemented!() }\n'
                    '#[verifier::external_body]\npub broadcast proof fn ax_const_%s() ensures %s {}' % (name, name, n, name, name, ens)), name
        mk = re.match(r'(?:pub(?:\([^)]*\))?\s+)?const\s+(\w+)\s*:\s*f64\s*=\s*(.*);$', t)
        if not mk:
            raise AnchorError('%s is not a scalar f64 const: %s' % (path, t[:80]))
        name, init = mk.group(1), mk.group(2).strip()
        val = real_expr_of_const_init(init)
        if val is None:
            raise AnchorError('%s: initializer %r is outside the const evaluator' % (path, init))
        self.log.add('R9c', path, t, 'c_%s() with rv == %s' % (name, val[:60]))
        return ('pub uninterp spec fn k_%s() -> f64;\n#[verifier::external_body]\npub fn c_%s() -> (r: f64) ensures r == k_%s() { unimplemented!() }\n'
                '#[verifier::external_body]\npub broadcast proof fn ax_const_%s() ensures rv(#[trigger] k_%s()) == %s {}'
                % (name, name, name, name, name, val)), name

    # ---- whole unit
    def unit_text(self, unit):
        parts = []
        parts.append('// GENERATED by /verif/vc from the expanded text of /repo — do not edit.')
        parts.append('// unit %s (property %s, level %s)' % (unit.name, unit.prop, unit.level))
        parts.append('#![allow(unused_imports, unused_variables, unused_mut, dead_code, unused_parens, unused_braces, non_snake_case, unused_assignments, unreachable_code, unused_unsafe, non_upper_case_globals)]')
        parts.append('#![feature(allocator_api)]')
        parts.append('use vstd::prelude::*;')
        for pre in unit.preludes:
            parts.append(open(os.path.join(HERE, 'prelude', pre + '.rs')).read())
        self._lit_slot = len(parts)
        parts.append('/*LITS*/')
        parts.append('pub mod types {')
        parts.append('use vstd::prelude::*;')
        for pre in unit.preludes:
            parts.append('use crate::%s::*;' % pre.split('_')[0] if pre != 'alea' else 'use crate::alea;')
        parts.append('verus! {')
        typed_ax = []
        for tpath in unit.types:
            parts.append('//@item %s' % tpath)
            it_text = self.item_text(tpath)
            parts.append(it_text)
            me = re.search(r'pub enum\s+(\w+)\s*\{', it_text)
            if me:
                for vm in re.finditer(r'(\w+)\s*\(([^)]*)\)', it_text[me.end():]):
                    for k, ty in enumerate(x.strip() for x in vm.group(2).split(',')):
                        if ty == 'f64':
                            nm = 'ax_typed_%s_%s_%d' % (me.group(1), vm.group(1), k)
                            parts.append('#[verifier::external_body]\npub broadcast proof fn %s(s: %s) ensures typed(#[trigger] s->%s_%d) {}'
                                         % (nm, me.group(1), vm.group(1), k))
                            typed_ax.append(nm)
            ms = re.search(r'pub struct\s+(\w+)\s*\{', it_text)
            if ms:
                for fm in re.finditer(r'pub\s+(\w+)\s*:\s*f64\s*,', it_text):
                    nm = 'ax_typed_%s_%s' % (ms.group(1), fm.group(1))
                    parts.append('#[verifier::external_body]\npub broadcast proof fn %s(s: %s) ensures typed(#[trigger] s.%s) {}'
                                 % (nm, ms.group(1), fm.group(1)))
                    typed_ax.append(nm)
        self._typed = False
        self._const_names = []
        # crate-level scalar f64 consts referenced by the proved functions are pulled in automatically (rule R9c)
        consts = list(unit.consts)
        for f in unit.prove:
            try:
                fit, _ = self.crate.find(f.path)
            except KeyError:
                continue
            parts_ = split_path(f.path)
            mods = []
            for pp in parts_:
                if pp.startswith('{'):
                    break
                mods.append(pp)
            mods = mods[:-1] if not any(x.startswith('{') for x in parts_) else mods
            btxt = self.crate.m[fit.body_open:fit.body_close]
            for tok in sorted(set(re.findall(r'(?<![A-Za-z0-9_:])[A-Z][A-Z0-9_]{2,}(?![A-Za-z0-9_(!])', btxt))):
                cpath = '::'.join(mods + [tok])
                if cpath in consts:
                    continue
                try:
                    cit, _ = self.crate.find(cpath)
                except KeyError:
                    continue
                ctxt = ' '.join(self.crate.src[cit.start:cit.end].split())
                if cit.kind == 'const' and re.search(r'const\s+\w+\s*:\s*(f64|\[f64;\s*\d+\])\s*=', ctxt):
                    consts.append(cpath)
        for cpath in consts:
            ctext, cname = self.const_text(cpath)
            parts.append('//@item %s' % cpath)
            parts.append(ctext)
            typed_ax.append('ax_const_%s' % cname)
            self._const_names.append(cname)
        if typed_ax:
            parts.append('pub broadcast group typed_fields { %s }' % ', '.join(typed_ax))
            self._typed = True
        parts.append(unit.type_spec)
        parts.append('} // verus!')
        parts.append('} // mod types')
        parts.append('pub mod unit {')
        parts.append('use crate::types::*;')
        parts.append('use vstd::prelude::*;')
        parts.append('use vstd::std_specs::ops::*;')
        parts.append('use vstd::std_specs::cmp::*;')
        parts.append('use std::ops::{self, Deref, DerefMut, Index, IndexMut, Neg, Add, Sub, Mul, Div, AddAssign, SubAssign, MulAssign, DivAssign};')
        parts.append('use std::convert::{From, Into, TryInto, TryFrom};')
        parts.append('use std::mem::swap;')
        parts.append('use std::cmp;')
        parts.append('use std::iter::{FromIterator, IntoIterator};')
        for pre in unit.preludes:
            parts.append('use crate::%s::*;' % pre.split('_')[0] if pre != 'alea' else 'use crate::alea;')
        parts.append('/*USE-LITS*/')
        parts.append('verus! {')
        bc = list(unit.broadcast)
        if 'l1' in unit.preludes:
            bc.append('all_lits')
        if self._typed:
            bc.append('typed_fields')
        if 'ax_vector_refl' in unit.type_spec:
            bc.append('ax_vector_refl')
        if bc:
            parts.append('/*BROADCAST:%s*/' % ','.join(bc))
        for fpath, expect in unit.fingerprints:
            try:
                fit_, _ = self.crate.find(fpath)
            except KeyError as e:
                raise AnchorError('lost anchor: %s' % e)
            got = ' '.join(self.crate.src[fit_.body_open:fit_.body_close + 1].split())
            if got != ' '.join(expect.split()):
                raise AnchorError('%s: body %r differs from the definition a rewrite rule inlines (%r)' % (fpath, got, expect))
        for tpath, ttext in unit.traits:
            self.check_trait(tpath, ttext)
            parts.append('//@trait %s (annotated with specification members; fn signatures checked against the real trait)' % tpath)
            parts.append(ttext)
        for raw in unit.raw_items:
            parts.append(raw)
        parts.append('// ---- specification text (hand-written: spec fns and lemmas, no executable code) ----')
        parts.append(dedupe_spec(unit.spec))
        for lem in unit.nra:
            parts.append(lem.verus())
        # group functions by impl header
        groups = {}   # header -> (is_trait, assoc, [texts], [fn objects])
        order = []
        for fn, stub in [(f, True) for f in unit.use] + [(f, False) for f in unit.prove]:
            header, is_trait, assoc, text = self.fn_text(fn, stub=stub)
            key = header
            if key not in groups:
                groups[key] = (is_trait, assoc, [], [])
                order.append(key)
            groups[key][2].append(text)
            groups[key][3].append(fn)
        for key in order:
            header = key
            is_trait, assoc, texts, fobjs = groups[key]
            if header is None:
                parts += texts
            else:
                h = rules.r8r9_paths(header, 'impl', rules.Log())
                parts.append(h + ' {')
                if is_trait:
                    for k, v in assoc.items():
                        parts.append('    type %s = %s;' % (k, v))
                    seen_items = []
                    for fo in fobjs:
                        if fo.impl_items and fo.impl_items not in seen_items:
                            seen_items.append(fo.impl_items)
                            parts.append(fo.impl_items)
                parts += texts
                parts.append('}')
                if is_trait:
                    fobj = fobjs[0]
                    comp = r13_companion(h, fobj)
                    if fobj.companion:
                        comp = fobj.companion
                    if comp:
                        parts.append(comp)
                        self.log.add('R13', header, header, comp.split('{')[0])
        parts += self.outlined
        self.outlined = []
        # canaries (must FAIL): axiom consistency + one per function with requires
        parts.append('//@canary-begin')
        parts.append('proof fn canary_axioms() ensures false {} //@[canary.axioms]')
        parts += self.req_canaries
        self.req_canaries = []
        parts.append('//@canary-end')
        parts.append('} // verus!')
        parts.append('} // mod unit')
        parts.append('fn main() {}')
        text = '\n'.join(parts) + '\n'
        text = expand_broadcast(text)
        if 'l1' in unit.preludes:
            text = text.replace('/*LITS*/', literal_axioms(text, text.index('pub mod unit {')))
            text = text.replace('/*USE-LITS*/', 'use crate::lits::*;')
        return text


def dedupe_spec(text):
    """specification vocabularies are assembled by concatenation; a definition that arrives twice (same text) is kept once"""
    items_, cur, depth = [], [], 0
    for line in text.split('\n'):
        cur.append(line)
        depth += line.count('{') - line.count('}')
        st = line.strip()
        if depth == 0 and st and not st.startswith('//') and not st.startswith('#[') and (st.endswith('}') or st.endswith(';')):
            items_.append('\n'.join(cur))
            cur = []
    if cur:
        items_.append('\n'.join(cur))
    seen, out = set(), []
    for it in items_:
        key = ' '.join(' '.join(l for l in it.split('\n') if not l.strip().startswith('//')).split())     # doc comments do not make a definition different
        if key and key in seen:
            continue
        seen.add(key)
        out.append(it)
    return '\n'.join(out)


def real_expr_of_const_init(init):
    """translate a const initializer built from decimal literals, PI, + - * / and parentheses into the real
    expression it denotes under L1 (float operations are homomorphic)"""
    from fractions import Fraction
    e = init.strip()
    e = re.sub(r'(?:::)?(?:std|core)::f64::consts::PI', 'PI', e)
    out = []
    i = 0
    while i < len(e):
        c = e[i]
        if c.isspace():
            i += 1
        elif c in '+-*/()':
            out.append(c)
            i += 1
        elif e.startswith('PI', i):
            out.append('r_pi()')
            i += 2
        elif c.isdigit():
            mm = re.compile(r'[0-9][0-9_]*\.?[0-9_]*(?:[eE][+-]?[0-9]+)?(?:_?f64)?').match(e, i)
            lit = mm.group(0).replace('_f64', '').replace('f64', '').replace('_', '')
            if lit.endswith('.'):
                lit += '0'
            fr = Fraction(lit)
            out.append('(%dreal / %dreal)' % (fr.numerator, fr.denominator) if fr.denominator != 1 else '%dreal' % fr.numerator)
            i = mm.end()
        else:
            return None
    return '(' + ' '.join(out) + ')'


def expand_broadcast(text):
    """`broadcast use` of a *group* was observed not to activate 0-ary/compare axioms reliably in this Verus
    build; groups are therefore expanded mechanically into their member lemmas (transitively)."""
    mb = re.search(r'/\*BROADCAST:([^*]*)\*/', text)
    if not mb:
        return text
    groups = {}
    for mg in re.finditer(r'pub broadcast group\s+(\w+)\s*\{([^}]*)\}', text):
        groups[mg.group(1)] = [x.strip() for x in mg.group(2).split(',') if x.strip()]
    out = []

    def add(n):
        if n == 'all_lits':
            out.append(n)       # generated later; kept as a group of literal axioms (unary triggers work)
            return
        if n in groups:
            for k in groups[n]:
                add(k)
        elif n not in out:
            out.append(n)
    for n in mb.group(1).split(','):
        add(n.strip())
    return text.replace(mb.group(0), 'broadcast use {%s};' % ', '.join(out))


def literal_axioms(text, start):
    """rule R10: one trusted axiom per distinct float literal of the extracted code: rv(LIT) == its decimal value"""
    from fractions import Fraction
    m = mask(text)
    pat = re.compile(r'(?<![\w.])(\d[\d_]*\.(?!\.)(?![A-Za-z_])\d*(?:[eE][+-]?\d+)?(?:_?f64)?|\d[\d_]*\.\d+(?:[eE][+-]?\d+)?(?:_?f64)?|\d[\d_]*[eE][+-]?\d+(?:_?f64)?|\d[\d_]*_?f64)(?![\w])')
    lits = {}
    for mk in pat.finditer(m, start):
        raw = mk.group(1)
        if raw.endswith('real'):
            continue
        core_ = raw.replace('_f64', '').replace('f64', '').replace('_', '')
        try:
            val = Fraction(core_ if not core_.endswith('.') else core_ + '0')
        except Exception:
            continue
        lits[val] = core_
    out = ['pub mod lits {', 'use vstd::prelude::*;', 'use crate::l1::*;', 'verus! {']
    names = []
    for k, (val, core_) in enumerate(sorted(lits.items())):
        lit = core_ if ('.' in core_ and not core_.endswith('.')) or 'e' in core_.lower() else core_.rstrip('.') + '.0'
        if val.denominator == 1:
            rl = '%dreal' % val.numerator
        else:
            rl = '(%dreal / %dreal)' % (val.numerator, val.denominator)
        out.append('#[verifier::external_body]')
        out.append('pub broadcast proof fn ax_lit_%d() ensures #[trigger] rv(%sf64) == %s {}' % (k, lit, rl))
        names.append('ax_lit_%d' % k)
    out.append('pub broadcast group all_lits { %s }' % ', '.join(names) if names else 'pub broadcast proof fn ax_lit_none() ensures true {} pub broadcast group all_lits { ax_lit_none }')
    out.append('} }')
    return '\n'.join(out)


_OPS = {'Add': 'add', 'Sub': 'sub', 'Mul': 'mul', 'Div': 'div', 'Rem': 'rem', 'Neg': 'neg',
        'AddAssign': 'add_assign', 'SubAssign': 'sub_assign', 'MulAssign': 'mul_assign', 'DivAssign': 'div_assign'}


def _req_expr(fobj):
    if fobj is None:
        return 'true'
    cs = [clause(c, '')[1] for c in all_requires(fobj)]
    if not cs:
        return 'true'
    e = ' && '.join('(%s)' % c for c in cs)
    # spec-mode view of `&mut self` receivers
    return e.replace('*old(self)', '*self').replace('old(self)', 'self')


def r13_companion(header, fobj=None):
    req = _req_expr(fobj)
    ma = re.match(r'impl(<[^>]*>)?\s+(?:ops::|std::ops::|core::ops::)?(Add|Sub|Mul|Div|Rem)Assign(?:<(.*)>)?\s+for\s+(.+)$', header)
    if ma:
        gen, tr, rhs, ty = ma.group(1) or '', ma.group(2), ma.group(3), ma.group(4).strip()
        m = _OPS[tr] + '_assign'
        rhs = rhs or ty
        return '\n'.join([
            'impl%s vstd::std_specs::ops::%sAssignSpecImpl<%s> for %s {' % (gen, tr, rhs, ty),
            '    open spec fn obeys_%s_spec() -> bool { false }' % m,
            '    open spec fn %s_req(&self, other: %s) -> bool { %s }' % (m, rhs, req),
            '    open spec fn %s_spec(&self, other: %s) -> &Self { arbitrary() }' % (m, rhs),
            '}'])
    mk = re.match(r'impl(<[^>]*>)?\s+(?:ops::|std::ops::|core::ops::)?(Add|Sub|Mul|Div|Rem|Neg)(?:<(.*)>)?\s+for\s+(.+)$', header)
    if not mk:
        return None
    gen, tr, rhs, ty = mk.group(1) or '', mk.group(2), mk.group(3), mk.group(4).strip()
    m = _OPS[tr]
    if tr == 'Neg':
        return '\n'.join([
            'impl%s vstd::std_specs::ops::NegSpecImpl for %s {' % (gen, ty),
            '    open spec fn obeys_neg_spec() -> bool { false }',
            '    open spec fn neg_req(self) -> bool { %s }' % req,
            '    open spec fn neg_spec(self) -> Self::Output { arbitrary() }',
            '}'])
    rhs = rhs or ty
    return '\n'.join([
        'impl%s vstd::std_specs::ops::%sSpecImpl<%s> for %s {' % (gen, tr, rhs, ty),
        '    open spec fn obeys_%s_spec() -> bool { false }' % m,
        '    open spec fn %s_req(self, other: %s) -> bool { %s }' % (m, rhs, req),
        '    open spec fn %s_spec(self, other: %s) -> Self::Output { arbitrary() }' % (m, rhs),
        '}'])


def line_map(text):
    """returns (clause_by_line: {line: id}, fn_by_line: {line: fn path}, canary_lines:set)"""
    cl = {}
    fnl = {}
    canary = set()
    cur = None
    in_canary = False
    for n, line in enumerate(text.split('\n'), 1):
        if line.startswith('//@fn-begin '):
            cur = line[len('//@fn-begin '):].strip()
        elif line.startswith('//@fn-end '):
            fnl[n] = cur
            cur = None
        elif line.startswith('//@canary-begin'):
            in_canary = True
        elif line.startswith('//@canary-end'):
            in_canary = False
        if cur:
            fnl[n] = cur
        if in_canary:
            canary.add(n)
        mk = re.search(r'//@\[([^\]]+)\]', line)
        if mk:
            cl[n] = mk.group(1)
        mp = re.search(r'/\*panic-site (\d+)\*/', line)
        if mp and n not in cl:
            cl[n] = 'panic-site.%s' % mp.group(1)
    return cl, fnl, canary
