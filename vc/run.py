"""Runs Verus on a generated unit and maps its diagnostics back to named obligations."""
import json
import os
import re
import subprocess
import time

from .gen import line_map

DEFINITE = (
    'postcondition not satisfied', 'precondition not satisfied', 'invariant not satisfied',
    'assertion failed', 'possible arithmetic underflow/overflow', 'possible division by zero',
    'loop invariant not', 'decreases not satisfied', 'index out of bounds',
    'possible bit shift underflow/overflow', 'unable to prove', 'assertion not satisfied',
    'cannot show this call will not unwind', 'might unwind', 'precondition not met',
    'recommendation not met',  # only when reported as error
)
RESOURCE = ('rlimit', 'resource limit', 'timed out', 'Resource limit')


class UnitResult:
    def __init__(self, unit):
        self.unit = unit
        self.status = 'undecided'      # ok | failed | undecided
        self.reason = ''
        self.failures = []             # dicts: fn, clause, message, line, rendered
        self.fn_times = {}             # verus function name -> {success, ms, rlimit}
        self.verified = 0
        self.errors = 0
        self.canary_expected = 0
        self.canary_failed = 0
        self.wall_s = 0.0
        self.smt_ms = 0
        self.file = None
        self.trusted = []
        self.clauses = {}              # fn path -> [clause ids]
        self.cmd = ''
        self.raw_err = ''


def scan_trusted(text):
    """mechanical scan for assumptions in the generated file"""
    out = []
    lines = text.split('\n')
    for n, line in enumerate(lines):
        s = line.strip()
        if 'assume_specification' in s:
            mk = re.search(r'\[([^\]]+)\]', s)
            out.append('assume_specification ' + (mk.group(1).strip() if mk else s[:80]))
        elif '#[verifier::external_body]' in s:
            # name of the next fn
            for k in range(n, min(n + 4, len(lines))):
                mk = re.search(r'\bfn\s+([A-Za-z_0-9]+)', lines[k])
                if mk:
                    out.append('external_body ' + mk.group(1))
                    break
        elif re.search(r'\b(assume|admit)\s*\(', s) and not s.startswith('//'):
            out.append('assume/admit: ' + s[:80])
    seen = []
    for o in out:
        if o not in seen:
            seen.append(o)
    return seen


def run_verus(path, rlimit=30, seed=None, threads=4, timeout=600):
    cmd = ['verus', path, '--error-format=json', '--output-json', '--time-expanded', '--multiple-errors', '20',
           '--triggers-mode', 'silent', '--rlimit', str(rlimit), '--num-threads', str(threads)]
    if seed is not None:
        cmd += ['--smt-option', 'smt.random_seed=%d' % seed, '--smt-option', 'sat.random_seed=%d' % seed]
    t0 = time.time()
    try:
        p = subprocess.run(cmd, stdout=subprocess.PIPE, stderr=subprocess.PIPE, text=True, timeout=timeout,
                           cwd=os.path.dirname(path))
        return cmd, p.returncode, p.stdout, p.stderr, time.time() - t0, False
    except subprocess.TimeoutExpired as e:
        return cmd, -9, (e.stdout or b'').decode() if isinstance(e.stdout, bytes) else (e.stdout or ''), \
            (e.stderr or b'').decode() if isinstance(e.stderr, bytes) else (e.stderr or ''), time.time() - t0, True


def analyse(unit, text, path, cmd, rc, out, err, wall, timed_out):
    r = UnitResult(unit)
    r.file = path
    r.wall_s = wall
    r.cmd = ' '.join(cmd)
    r.trusted = scan_trusted(text)
    r.raw_err = err
    cl, fnl, canary = line_map(text)
    # clause inventory
    for n, cid in sorted(cl.items()):
        f = fnl.get(n)
        if f and n not in canary:
            r.clauses.setdefault(f, []).append(cid)
    r.canary_expected = len([n for n in canary if n in cl])
    if timed_out:
        r.reason = 'verus wall-clock timeout'
        return r
    try:
        j = json.loads(out[out.index('{'):]) if '{' in out else None
    except Exception:
        j = None
    diags = []
    for line in err.split('\n'):
        line = line.strip()
        if not line.startswith('{'):
            continue
        try:
            diags.append(json.loads(line))
        except Exception:
            pass
    hard = []
    canary_hit = set()
    for d in diags:
        if d.get('level') != 'error':
            continue
        msg = d.get('message', '')
        if msg.startswith('aborting due to'):
            continue
        spans = d.get('spans', [])
        lines = [s['line_start'] for s in spans]
        if any(l in canary for l in lines):
            for l in lines:
                if l in canary:
                    canary_hit.add(l)
            continue
        definite = any(k in msg for k in DEFINITE)
        resource = any(k in msg for k in RESOURCE)
        cid = None
        fpath = None
        # prefer the span that points at a contract clause line
        for s in sorted(spans, key=lambda s: (not s.get('is_primary'),)):
            if s['line_start'] in fnl and fpath is None:
                fpath = fnl[s['line_start']]
        for s in spans:
            if s['line_start'] in cl:
                cid = cl[s['line_start']]
                break
        prim = [s for s in spans if s.get('is_primary')]
        pl = prim[0]['line_start'] if prim else (lines[0] if lines else 0)
        src_line = prim[0]['text'][0]['text'].strip() if prim and prim[0].get('text') else ''
        rec = {'fn': fpath, 'clause': cid or ('safety@' + ' '.join(src_line.split())[:70]), 'message': msg,
               'line': pl, 'rendered': d.get('rendered', '')[:3000], 'definite': definite and not resource}
        if definite and not resource:
            r.failures.append(rec)
        else:
            hard.append(rec)
    r.canary_failed = len(canary_hit)
    if j:
        vr = j.get('verification-results', {})
        r.verified = vr.get('verified', 0)
        r.errors = vr.get('errors', 0)
        try:
            for mod in j['times-ms']['smt']['smt-run-module-times']:
                for fb in mod.get('function-breakdown', []):
                    r.fn_times[fb['function']] = {'success': fb.get('success'), 'ms': fb.get('time'),
                                                  'rlimit': fb.get('rlimit')}
                    r.smt_ms += fb.get('time', 0)
        except Exception:
            pass
    if hard:
        r.status = 'undecided'
        r.reason = 'verus: ' + hard[0]['message'][:300] + ' @line %s' % hard[0]['line']
        r.hard = hard
        return r
    if j is None:
        r.reason = 'verus produced no JSON result (rc=%s): %s' % (rc, err[-500:])
        return r
    if r.failures:
        r.status = 'failed'
        return r
    if r.canary_failed < r.canary_expected:
        r.reason = 'vacuity canary verified (axioms or preconditions inconsistent): %d of %d failed as required' % (
            r.canary_failed, r.canary_expected)
        return r
    if r.verified <= 0:
        r.reason = 'zero obligations verified'
        return r
    r.status = 'ok'
    return r
