#!/usr/bin/env python3
"""tools/mutate.py <worker-id> <count> <rng-seed>  — mutation self-test (DESIGN Appendix A).
Applies one small textual mutation at a time to a function that is under a proved contract, in a scratch worktree of /repo
(never in /repo itself), keeps the mutants that compile and pass the 66 tests, runs the quick checks of the properties whose
units prove that function against the patched tree (VERIF_REPO) and records the outcome in /var/tmp/mut/results-<worker>.jsonl:
  VIOLATION (exit 1) / UNDECIDED (exit 2) / OK (exit 0: the mutant survived the checks).
Survivors are either equivalent mutants or weak contracts; they are looked at by hand."""
import json, os, random, re, subprocess, sys
sys.path.insert(0, '/verif')
import contracts
from vc.rsrc import split_path

wid, count, seed = sys.argv[1], int(sys.argv[2]), int(sys.argv[3])
WT = '/var/tmp/mut/wt' + wid
TGT = '/var/tmp/mut/target' + wid
OUT = '/var/tmp/mut/results-%s.jsonl' % wid
os.makedirs('/var/tmp/mut', exist_ok=True)
env = dict(os.environ, CARGO_TARGET_DIR=TGT, CARGO_NET_OFFLINE='true')
rng = random.Random(seed)


def sh(cmd, cwd=WT, timeout=1800):
    r = subprocess.run(cmd, shell=True, cwd=cwd, env=env, stdout=subprocess.PIPE, stderr=subprocess.STDOUT, text=True, timeout=timeout)
    return r.returncode, r.stdout


# functions under proved contracts: (file, short name) -> properties
reg = contracts.registry()
fnprops = {}
for u in reg.values():
    props = u.props if hasattr(u, 'props') else ([u.prop] if isinstance(u.prop, str) else list(u.prop))
    for f in u.prove:
        if f.level == 'A':
            continue
        parts = split_path(f.path)
        mods = [p for p in parts if not p.startswith('{')][:-1]
        short = parts[-1]
        fnprops.setdefault(('/'.join(mods), short), set()).update(props)

OPS = [(r' \+ ', ' - '), (r' - ', ' + '), (r' \* ', ' / '), (r' / ', ' * '), (r' < ', ' <= '), (r' <= ', ' < '), (r' > ', ' >= '), (r' >= ', ' > '),
       (r'\bnrows\b', 'ncols'), (r'\bncols\b', 'nrows'), (r'\b0\.5\b', '0.25'), (r'\b2\.\B', '3.'), (r'\b1\.\B', '2.'), (r'\.max\(', '.min('), (r'\.min\(', '.max('),
       (r'\[i\]', '[j]'), (r'\[j\]', '[i]'), (r'\+ 1\b', '+ 2'), (r'- 1\b', '- 2'), (r' == ', ' != '), (r'\bi \* ', 'j * '), (r'\.\.n\b', '..(n - 1)'), (r'\btrue\b', 'false'),
       (r' \+= ', ' -= '), (r' -= ', ' += '), (r' \*= ', ' /= '), (r' && ', ' || '), (r' \|\| ', ' && '), (r'\[0\]', '[1]'), (r'\[1\]', '[0]'), (r'\b0\.\.', '1..'), (r'\bm1\b', 'm2'), (r'\bself\.(\w+) as i32, self\.(\w+) as i32', r'self.\2 as i32, self.\1 as i32'),
       (r'\.exp\(\)', '.ln()'), (r'\.sqrt\(\)', ''), (r'\.abs\(\)', ''), (r'\.powi\(2\)', '.powi(3)'), (r'\bx\b', 'y'), (r'\by\b', 'x'), (r'\.rev\(\)', '')]


def file_of(mods):
    for cand in ('src/' + mods + '.rs', 'src/' + mods + '/mod.rs'):
        if os.path.exists(os.path.join(WT, cand)):
            return cand
    return None


def fn_span(lines, short):
    """[(start, end)] line spans of `fn short` bodies (brace matching, good enough for this crate's formatting)"""
    spans = []
    for i, l in enumerate(lines):
        if re.search(r'\bfn\s+%s\b' % re.escape(short), l) and not l.strip().startswith('//'):
            depth, j, seen = 0, i, False
            while j < len(lines):
                depth += lines[j].count('{') - lines[j].count('}')
                if '{' in lines[j]:
                    seen = True
                if seen and depth <= 0:
                    break
                j += 1
            spans.append((i, j))
    return spans


if os.path.exists(WT):
    sh('git -C /repo worktree remove --force ' + WT, cwd='/')
sh('git -C /repo worktree add -q --detach %s HEAD' % WT, cwd='/')
rc, out = sh('cargo test --offline --lib 2>&1 | grep "test result"')
print('baseline:', out.strip())
keys = sorted(fnprops)
done = 0
tries = 0
while done < count and tries < count * 40:
    tries += 1
    mods, short = rng.choice(keys)
    path = file_of(mods)
    if not path or short in ('new', 'fmt', 'clone', 'default'):
        continue
    lines = open(os.path.join(WT, path)).read().split('\n')
    spans = fn_span(lines, short)
    if not spans:
        continue
    a, b = rng.choice(spans)
    cand = []
    for ln in range(a + 1, b + 1):
        t = lines[ln]
        if t.strip().startswith('//') or 'assert' in t or 'panic!' in t:
            continue
        for pat, rep in OPS:
            for mk in re.finditer(pat, t):
                cand.append((ln, mk.start(), mk.end(), rep, pat))
    if not cand:
        continue
    ln, s, e, rep, pat = rng.choice(cand)
    new = lines[ln][:s] + rep + lines[ln][e:]
    old_line = lines[ln]
    lines[ln] = new
    open(os.path.join(WT, path), 'w').write('\n'.join(lines))
    rec = {'file': path, 'fn': short, 'line': ln + 1, 'old': old_line.strip(), 'new': new.strip(), 'props': sorted(fnprops[(mods, short)])}
    ok = False
    for _ in range(2):
        rc, out = sh('cargo test --offline --lib 2>&1 | grep -E "test result|^error" | head -3')
        if 'ok. 66 passed' in out:
            ok = True
            break
        if 'error' in out:
            break
    if not ok:
        sh('git checkout -- .')
        continue
    res = {}
    for c in rec['props']:
        r = subprocess.run(['bin/check', c, '--no-evidence', '--tier', 'quick'], cwd='/verif', env=dict(os.environ, VERIF_REPO=WT), stdout=subprocess.PIPE, stderr=subprocess.PIPE, text=True)
        lines_ = [l for l in r.stdout.split('\n') if l.strip()]
        res[c] = {'exit': r.returncode, 'line': (lines_[0] if lines_ else '')[:300]}
    rec['checks'] = res
    exits = [v['exit'] for v in res.values()]
    rec['outcome'] = 'VIOLATION' if 1 in exits else ('UNDECIDED' if 2 in exits else 'SURVIVED')
    rc, d = sh('git diff')
    rec['diff'] = d
    with open(OUT, 'a') as f:
        f.write(json.dumps(rec) + '\n')
    print(done, rec['outcome'], path, short, '|', rec['old'][:60], '=>', rec['new'][:60], flush=True)
    sh('git checkout -- .')
    done += 1
sh('git -C /repo worktree remove --force ' + WT, cwd='/')
