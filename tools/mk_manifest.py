#!/usr/bin/env python3
"""regenerates /verif/MANIFEST.json from the table below (claims are edited here, never inferred)"""
import json
NA_FINAL = {
 'C03': 'statistical goodness-of-fit of random samplers (DKW band over an RNG stream) and termination of rejection loops are not expressible as a contract on one call; no deductive obligation decides them (DESIGN.md §7 C03)',
 'C09': 'accuracy of Lanczos/asymptotic/A&S approximations against the true transcendental Gamma/psi/erf in floating point: neither float abstraction level (L0 functions, L1 reals) contains the true functions, and an axiom relating them would be the property itself (DESIGN.md §7 C09)',
 'C10': 'optimizer updates are inlined in functions over reverse::Var nodes of an external autodiff tape with higher-ranked closures; no function boundary below `optimize` can carry a contract and Verus cannot take the dependency (DESIGN.md §7 C10)',
}
PENDING = {}
CLAIMS = {
 'C01': ('L1 (exact over the reals): the symmetry and positive-definiteness tests that route the solvers answer per their definitions; solve takes the Cholesky route exactly when the test passes and no pivot is non-positive and then satisfies L L^T = A, L y = b, L^T x = y row by row, otherwise the pivoted-LU solve equations (unit-lower y = P b, U x = y); solve_sys solves column by column through the row/column-major round trip, invert_matrix is solve_sys on the identity; shape mismatches rejected',
         'residual bounds in floating point (backward error analysis) are not expressible at L0/L1 and are NOT claimed; the LU route rests on the structural LU contract (permutation, bounded multipliers) - P A = L U of the in-place loop is not proved; the Matrix-level wrappers (Matrix::solve, inv) are replay-only; is_square (f32 sqrt) is an assumed contract'),
 'C02': ('L1 (machine arithmetic treated as mathematical): pdf/pmf/mean/var of 13 univariate laws equal the textbook formulas over the reals, with support clauses (0 outside, no panic); the multivariate normal pdf / ln_pdf equal exp(-q/2)/sqrt((2 pi)^k det) resp. its logarithm with q the quadratic form through the product contracts; Gamma/Beta functions abstract',
         'total mass 1 and moment integrals are not expressible (n/a); MVN::new (Cholesky/inverse/determinant of the covariance) is a hypothesis (object invariant), not under contract; no rounding/overflow/NaN at L1'),
 'C04': ('L0 (float operations are total deterministic functions): 53 loop-unrolled kernels, 75 Vector and 63 Matrix operator impls / maps and both negations proved for every length and operand form, mismatches rejected two-sidedly; dot, norm and sum equal their definitions over the reals (L1)',
         'worst-case rounding bounds, logsumexp/logmeanexp overflow behaviour and prod are not covered (n/a at L0/L1)'),
 'C05': ('L1: slice-level matmul and the cache-blocked matmul_blocked (any block size) equal sum_k op(A)[i,k]*op(B)[k,j] for all four transpose combinations and every shape, non-conformable shapes rejected two-sidedly; all 64 Dot methods (Matrix.Matrix, Matrix.Vector, Vector.Matrix, Vector.Vector; owned and borrowed) against those contracts (shape check, output shape, every entry)',
         'machine-integer range preconditions (lengths and block size <= i32::MAX); the BLAS feature path is not compiled'),
 'C06': ('integer + L1: which families carry a fixed dispersion, the convergence test (relative change of the loss below the tolerance, never on the first step), and the ridge penalty terms of the IRLS step (alpha*beta on the gradient and alpha on the Hessian diagonal, intercept unpenalised) as stated; products, reductions and the LU solve through their own contracts',
         'the IRLS fixed point (score equations at convergence), compute_dbeta/ddbeta composition, the per-family link tables and deviance are not yet under contract (replay battery only); convergence itself is a liveness claim (n/a)'),
 'C07': ('L1: the sampled trapezoid rule equals the exact integral of the piecewise-linear interpolant for every sample count; the five-point Gauss-Legendre table satisfies the moment equations for degree <= 9 (exact rational check of the table, outside Verus)',
         'trapz/quad5 on closures (callee is a caller-supplied Fn) are covered through the sampled form and the table only; Romberg convergence order and early exit are not decided by contracts (replay battery only)'),
 'C12': ('integer + L0 data-flow, for every pair of shapes: the classifier sends every NumPy-compatible pair to the leaf matching its shape case (also through the operand swap) and every incompatible pair to a rejection; each broadcast_{add,sub,mul,div} returns the element-wise-maximum shape with entry (i,j) = left[i|0][j|0] op right[i|0][j|0] in the written operand order and rejects exactly the incompatible pairs; the 48 Matrix/Matrix, Matrix/Vector, Vector/Matrix operator impls against those contracts',
         'assumed contracts: apply_along_row (closure argument) and the zip/for_each row statements of the two V-stack leaves (outlined, rule R27); machine-integer range precondition (result size <= i32::MAX, dimensions >= 1)'),
 'C14': ('L1: Vandermonde design matrix entries are the powers x_r^i for every length and degree, xtx is the product X^T X, fit stores inv(V^T V) (V^T y) composed from the matmul contract with the matrix inverse abstract, mismatched x/y rejected',
         'invert_matrix is assumed (inv_fn); predict (iterator adapters) and conditioning are not under contract'),
 'C08': ('L1: Welford aggregate invariant through every step (division-free), mean / welford_mean / population and sample variance / standard deviations and the two-pass covariances equal their textbook definitions over the reals; min / max return an attained bound and argmin / argmax the first index attaining it for every finite data set (folds verified as their defining loops); polynomial side lemmas by z3+cvc5 (QF_NRA)',
         'rounding-error and large-offset stability claims are n/a; hist_bin_centers (iterator adapters), one-pass and online covariance are not under contract (replay battery only)'),
 'C11': ('L1: Cholesky-Banachiewicz returns a lower-triangular factor with positive diagonal satisfying L L^T = A entry by entry, None only at a non-positive pivot of a valid partial factorisation; cholesky rejects asymmetric input and non-positive pivots; forward / backward substitution and cholesky_solve satisfy the triangular equations row by row; pivoted LU at slice and Matrix level keeps the pivots a permutation, picks a column-maximal pivot and bounds every multiplier by 1; lu_solve solves (unit lower) y = P b, U x = y',
         'P A = L U for the in-place pivoted loop, the determinant / permutation parity and the Matrix-level Cholesky and substitution wrappers are not under contract (replay battery only)'),
 'C13': ('L1: autocovariance and autocorrelation equal their biased-estimator definitions for every series and lag (acf = acovf(k)/acovf(0)), differencing element-wise; AR::fit is the Yule-Walker composition (mean, centring, autocorrelations 0..p, Toeplitz system through invert_matrix and a matrix-vector product, reversed storage) depending on the data only; AR::predict runs the forecasting recursion on the centred history and adds the intercept back',
         '|acf| <= 1 and asymptotic convergence of forecasts are not decided by contracts'),
 'C15': ('integer + L0/L1 data-flow: Matrix::new / reshape / reshape_mut / Index / IndexMut / constructors / transpose / t / t_mut / hcat / vcat / vrepeat / flat and column access / diag / eye / row<->column-major conversion keep rows*cols == len and the row-major view; impossible shapes rejected two-sidedly; toeplitz, design, diag_matrix, arange, linspace deliver their defining pattern with the documented end-point convention; is_upper/lower_triangular and is_design answer per their definitions',
         'hrepeat, apply_along_row/col, get_row_as_vector, rotations and the approximate-equality predicates are not under contract (replay battery only); Vector::extend and slice::repeat are assumed contracts; machine-integer range preconditions (len <= i32::MAX)'),
 'C16': ('L1: for every target the returned value is the chord through the bracketing knots inside the range (hence the ordinate at a knot), the fill value / extrapolated first or last segment / a rejection outside it according to the mode; the checked variant rejects unsorted or mismatched input',
         'strictly increasing abscissae and at least two knots are hypotheses of the property; L1 comparisons (no NaN)'),
 'C17': ('L1: logistic, logit and both Box-Cox transforms equal their defining formulas over the reals with domains rejected two-sidedly; range (0,1) and monotonicity of the logistic as lemmas; binom_coeff returns exactly C(n,k) (Pascal-rule definition, unbounded integers) for every 0 <= k <= n whose value fits in 64 bits, with no intermediate overflow; symmetry and the absorption identities as lemmas',
         'softmax and the large-magnitude clause are not under contract (replay battery only); binom_coeff_alt is n/a (Gamma accuracy)'),
 'C18': ('every constructor / setter / bulk update leaves the object equal to fresh(final parameters) including cached sampler objects, and rejects exactly the constructor-invalid values (two-sided REJECT)',
         'RNG stream equality is reduced to field equality; the alea RNG is trusted; state of the object after a rejected call is checked by the replay battery only'),
 'C19': ('L0 + integers: jackknife returns the n leave-one-out vectors in order; shuffle keeps the multiset; shuffle_two applies one common permutation (ghost witness); bootstrap returns n_bootstrap vectors of the data length whose every element is the datum at a position drawn by DiscreteUniform(0, len-1) (draw provenance predicate); index draws are in range from length 1 upward',
         '"every position equally likely" is reduced to provenance from the trusted alea generator (the distribution of the generator itself is not decided by contracts)'),
 'C20': ('L1: scalar RBF and rational-quadratic kernels equal the textbook forms; symmetry, k(x,x)=var and 0<k<=var as lemmas over the contract; parameter validation rejects non-positive parameters; the 8 matrix forms return one row per first-argument point and one column per second-argument point with every entry equal to the scalar form',
         'positive semi-definiteness of Gram matrices is n/a (spectral property); machine-integer range preconditions on the point counts'),
}
props = [json.loads(l) for l in open('/verif/properties.jsonl')]
checks = []
for p in props:
    pid = p['id']
    if pid in CLAIMS:
        t, n = CLAIMS[pid]
        checks.append({'property_id': pid, 'quick_cmd': 'bin/check %s --tier quick' % pid, 'thorough_cmd': 'bin/check %s --tier thorough' % pid,
                       'evidence_file': '/verif/evidence/%s.json' % pid, 'replay_cmd_template': 'bin/check --replay {path}', 'engine': 'verus-extract',
                       'level_claimed': {'category': 'proof', 'text': 'Verus proof, for all inputs and all loop iteration counts, of side-car contracts spliced onto mechanically extracted real functions. ' + t, 'design_ref': 'DESIGN.md §7 ' + pid},
                       'level_note': n + '; trusted: rustc macro expansion + rewrite rules, Verus/Z3/vstd, float axioms (L0/L1), assumed std/dependency contracts - enumerated in evidence.trusted_base',
                       'technique': 'contract-based deductive verification (Verus) of mechanically extracted functions; NRA side lemmas by z3+cvc5; replay battery only for counter-examples'})
na = [{'property_id': k, 'reason': v} for k, v in NA_FINAL.items()]
for p in props:
    if p['id'] not in CLAIMS and p['id'] not in NA_FINAL:
        na.append({'property_id': p['id'], 'reason': PENDING.get(p['id'], 'no contract unit of this property is discharged yet in /verif (planned as a Verus contract core, DESIGN.md §7); not claimed')})
m = {'version': 1, 'setup_cmd': 'bin/setup',
     'hooks': {'guard': 'cfg(kani)', 'enable': 'none needed: contracts live in side-cars under /verif/contracts and are spliced into text extracted from /repo on every run',
               'baseline_off_cmd': 'cd /repo && cargo test --workspace --no-fail-fast --offline', 'source_commits': [], 'add_only': True},
     'engines': [{'name': 'verus-extract', 'path': '/verif/vc', 'serves_properties': sorted(CLAIMS),
                  'kind_free_text': 'macro-expand /repo with the compiler, slice functions by path, apply documented rewrite rules, splice side-car contracts, discharge with Verus; pure real-arithmetic lemmas by z3+cvc5; replay driver for counter-examples'}],
     'checks': checks, 'not_applicable': na, 'notes': 'see DESIGN.md; known_findings.txt lists repaired defects (fix: commits in /repo)'}
json.dump(m, open('/verif/MANIFEST.json', 'w'), indent=1)
print('claimed', sorted(CLAIMS), 'n/a', [x['property_id'] for x in na])
