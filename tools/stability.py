#!/usr/bin/env python3
"""tools/stability.py [unit ...] : re-run generated units under several Z3 seeds and list the ones that do not re-verify
(proof-stability survey; uses the files already generated under .work/<prop>/ or .work/dev/)."""
import glob, os, sys, subprocess, json
sys.path.insert(0, '/verif')
from vc import run
import contracts
reg = contracts.registry()
names = sys.argv[1:] or sorted(reg)
for n in names:
    cands = glob.glob('/verif/.work/*/%s.rs' % n)
    if not cands:
        print(n, 'no generated file'); continue
    path = max(cands, key=os.path.getmtime)
    u = reg[n]
    bad = []
    for s in (11, 104729, 7919 * 3 + 1):
        cmd, rc, out, err, wall, to = run.run_verus(path, rlimit=u.rlimit, seed=s, threads=4, timeout=600)
        r = run.analyse(u, open(path).read(), path, cmd, rc, out, err, wall, to)
        if r.status != 'ok':
            bad.append((s, r.status, [f['clause'][:60] for f in r.failures][:2] or r.reason[:100]))
    print(n, 'STABLE' if not bad else 'UNSTABLE %s' % bad)
