#!/usr/bin/env python3
"""tools/seed_confirm.py <deliver_dir> <seed_id> <property> [--checks C04,C15]
Confirms a seeded change in a scratch worktree of /repo HEAD (applies, suite passes, demo fails with / passes without),
then runs the named checks against the patched tree (VERIF_REPO) and stores it under /verif/seeded/<seed_id>/."""
import json, os, shutil, subprocess, sys
d, sid, prop = sys.argv[1], sys.argv[2], sys.argv[3]
checks = [prop]
if '--checks' in sys.argv:
    checks = sys.argv[sys.argv.index('--checks') + 1].split(',')
tier = sys.argv[sys.argv.index('--tier') + 1] if '--tier' in sys.argv else 'quick'
SFX = os.environ.get('SEED_SFX', '')  # distinct suffixes allow confirmations of different properties to run side by side
WT = '/var/tmp/seedcheck' + SFX
TGT = '/var/tmp/seedcheck-target' + SFX
env = dict(os.environ, CARGO_TARGET_DIR=TGT, CARGO_NET_OFFLINE='true')
def sh(cmd, cwd=WT, check=False):
    r = subprocess.run(cmd, shell=True, cwd=cwd, env=env, stdout=subprocess.PIPE, stderr=subprocess.STDOUT, text=True)
    return r.returncode, r.stdout
if os.path.exists(WT):
    sh('git -C /repo worktree remove --force ' + WT, cwd='/')
sh('git -C /repo worktree add -q --detach %s HEAD' % WT, cwd='/')
ran = []
rc, out = sh('git apply --check %s/patch.diff' % d)
if rc != 0:
    print('PATCH DOES NOT APPLY to current HEAD:', out[-400:]); sys.exit(3)
sh('git apply %s/patch.diff' % d)
ok_suite = False
for _ in range(3):
    rc, out = sh('cargo test --offline --lib 2>&1 | grep "test result"')
    if 'ok. 66 passed' in out:
        ok_suite = True; break
ran.append('cargo test --lib with patch: ' + out.strip())
os.makedirs(WT + '/tests', exist_ok=True)
shutil.copy(d + '/demo.rs', WT + '/tests/seed_demo.rs')
rc1, out1 = sh('cargo test --offline --test seed_demo 2>&1 | grep "test result"')
ran.append('demo with patch: ' + out1.strip())
sh('git checkout -- src')
rc2, out2 = sh('cargo test --offline --test seed_demo 2>&1 | grep "test result"')
ran.append('demo without patch: ' + out2.strip())
demo_fails = 'FAILED' in out1
demo_passes = 'ok.' in out2 and 'FAILED' not in out2
print('suite_with_patch_ok=%s demo_fails_with=%s demo_passes_without=%s' % (ok_suite, demo_fails, demo_passes))
# run checks against patched tree
sh('git apply %s/patch.diff' % d)
os.remove(WT + '/tests/seed_demo.rs')
res = {}
for c in checks:
    r = subprocess.run(['bin/check', c, '--no-evidence', '--tier', tier], cwd='/verif', env=dict(os.environ, VERIF_REPO=WT), stdout=subprocess.PIPE, stderr=subprocess.PIPE, text=True)
    lines = [l for l in r.stdout.split('\n') if l.strip()]
    res[c if tier == 'quick' else c + ':' + tier] = {'exit': r.returncode, 'lines': lines[:6]}
    print('check', c, 'exit', r.returncode, '|', ' || '.join(l[:200] for l in lines[:3]))
sh('git -C /repo worktree remove --force ' + WT, cwd='/')
if ok_suite and demo_fails and demo_passes:
    dst = '/verif/seeded/' + sid
    os.makedirs(dst, exist_ok=True)
    if os.path.abspath(d) != os.path.abspath(dst):
        shutil.copy(d + '/patch.diff', dst + '/patch.diff')
        shutil.copy(d + '/demo.rs', dst + '/demo.rs')
    meta = json.load(open(d + '/meta.json')) if os.path.exists(d + '/meta.json') else {}
    old = meta.get('check_results', {}) if tier != 'quick' else {}
    old.update(res)
    meta.update({'property': prop, 'confirmed': ran, 'check_results': old,
                 'detected_by': [c for c in old if old[c]['exit'] == 1]})
    json.dump(meta, open(dst + '/meta.json', 'w'), indent=1)
    print('KEPT', dst)
else:
    print('NOT KEPT')
