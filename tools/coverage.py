#!/usr/bin/env python3
"""dev helper: which functions of the crate (expanded text, tests excluded) are under a proved contract, which only assumed, which not at all."""
import sys, re
sys.path.insert(0, '/verif')
import contracts
from vc import expand
from vc.rsrc import Crate, items

reg = contracts.registry()
units = reg if isinstance(reg, list) else list(reg.values())
proved, assumed = set(), set()
for u in units:
    for f in u.prove:
        (assumed if f.level == 'A' else proved).add(f.path)
    for f in u.use:
        if f.level == 'A':
            assumed.add(f.path)
r = expand.expanded()
txt = r[0] if isinstance(r, tuple) else r
c = Crate(txt)
allf = []


def walk(path):
    for it in c.mod_items(path):
        if it.kind == 'mod':
            if it.name in ('tests', 'test'):
                continue
            try:
                walk(tuple(path) + (it.name,))
            except KeyError:
                pass
        elif it.kind == 'fn':
            allf.append('::'.join(path + (it.name,)))
        elif it.kind == 'impl' and it.body_open is not None:
            hdr = ' '.join(it.header.split())
            for sub in items(c.src, c.m, it.body_open + 1, it.body_close):
                if sub.kind == 'fn':
                    allf.append('::'.join(path) + '::{' + hdr + '}::' + sub.name)


walk(())
want = sys.argv[1:] or ['']
for p in sorted(allf):
    if not any(p.startswith(w) for w in want):
        continue
    st = 'P' if p in proved else ('A' if p in assumed else '-')
    if '--missing' in sys.argv and st != '-':
        continue
    print(st, p)
n = [p for p in allf if any(p.startswith(w) for w in want if not w.startswith('--'))]
print('total %d proved %d assumed %d' % (len(n), len([p for p in n if p in proved]), len([p for p in n if p in assumed and p not in proved])), file=sys.stderr)
