#!/bin/bash
# dev helper: run every claimed quick check (3 at a time) and collect the summary lines
cd "$(dirname "$0")/.."
TIER=${1:-quick}
OUT=${2:-/var/tmp/allchecks.log}
rm -f "$OUT"
ids=$(python3 -c "import json;print(' '.join(sorted(set(p['property_id'] for p in json.load(open('MANIFEST.json'))['checks'])))" 2>/dev/null)
[ -z "$ids" ] && ids="C01 C02 C04 C05 C06 C07 C08 C11 C12 C13 C14 C15 C16 C17 C18 C19 C20"
printf '%s\n' $ids | xargs -P 3 -I{} sh -c 'bin/check {} --tier '"$TIER"' > /var/tmp/check_{}.out 2>&1; echo "rc=$? $(grep -E "^(OK|VIOLATION|UNDECIDED|KNOWN)" /var/tmp/check_{}.out | tail -1)" >> '"$OUT"
sort -k2 "$OUT"
