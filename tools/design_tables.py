#!/usr/bin/env python3
"""regenerate the machine-written tables of DESIGN.md (between <!-- BEGIN:x --> / <!-- END:x --> markers)"""
import re
import subprocess
import sys
sys.path.insert(0, '/verif')
import contracts


def units_table():
    reg = contracts.registry()
    out = ['| unit | properties | level | functions proved | contracts only used (stubs) | assumed (tier A) among them | what it states |', '|---|---|---|---|---|---|---|']
    tot = 0
    for n, u in reg.items():
        A = sorted({f.path.split('::')[-1] for f in u.use if getattr(f, 'level', '') == 'A'})
        tot += len(u.prove)
        out.append('| %s | %s | %s | %d | %d | %s | %s |' % (n, ','.join(u.props), u.level, len(u.prove), len(u.use), ', '.join(A) or '-', re.sub(r'\s+', ' ', u.notes).replace('|', '/')))
    out.append('')
    out.append('Total: %d functions proved in %d units.' % (tot, len(reg)))
    return '\n'.join(out)


def seeds_table():
    return subprocess.run(['python3', '/verif/tools/seed_table.py'], stdout=subprocess.PIPE, text=True).stdout.strip()


def main():
    p = '/verif/DESIGN.md'
    s = open(p).read()
    for name, fn in (('units', units_table), ('seeds', seeds_table)):
        a = '<!-- BEGIN:%s -->' % name
        b = '<!-- END:%s -->' % name
        if a in s and b in s:
            i = s.index(a) + len(a)
            j = s.index(b)
            s = s[:i] + '\n' + fn() + '\n' + s[j:]
    open(p, 'w').write(s)


main()
