#!/usr/bin/env python3
"""print the seeded-change table (markdown) from /verif/seeded/*/meta.json"""
import glob
import json
import re
rows = []
for f in sorted(glob.glob('/verif/seeded/*/meta.json')):
    d = json.load(open(f))
    sid = f.split('/')[-2]
    res = d.get('check_results', {})
    how = []
    for prop, r in sorted(res.items()):
        lines = ' '.join(r.get('lines', []))
        if r.get('exit') == 1:
            obl = re.findall(r'obligation=([^|]+?)(?: \|\||$)', lines)
            first = obl[0].strip() if obl else ''
            first = re.sub(r'\s+', ' ', first)[:110]
            kind = 'undecided+replayed counter-example' if 'verifier undecided' in lines else 'failed obligation'
            how.append('%s: %s `%s`' % (prop, kind, first.replace('|', '/')))
        else:
            how.append('%s: exit %s (missed)' % (prop, r.get('exit')))
    summ = re.sub(r'\s+', ' ', d.get('summary', ''))[:150].replace('|', '/')
    rows.append('| %s | %s | %s |' % (sid, summ, '; '.join(how)))
print('| seed | change (abridged) | check result on the patched tree |')
print('|---|---|---|')
print('\n'.join(rows))
