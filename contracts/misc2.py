"""Constructors, setters and accessors that complete the objects of C02 / C06 / C13 / C14 / C20: each writes or returns exactly the
stated field (so the hypotheses `glm_fitted_inv`, `mvn_inv`, ... of the other units are about values these functions store)."""
from vc.gen import Fn, Unit
from contracts import core
from contracts import C06 as c06
from contracts import C13ar as c13ar
from contracts import C14 as c14
from contracts import C02mvn as c02
from contracts import C17 as c17
from contracts import C20 as c20
from contracts import C15 as c15
from contracts.C06 import IG, TYPES as GLM_TYPES

PRE = ('fax_l0', 'fmeth', 'stdspec', 'l1')
BC = ('l0', 'l1_arith', 'l1_fun', 'ax_vec_from_refl', 'ax_f64_cloned')

# ---------------------------------------------------------------- GLM::new and the configuration setters
UNFITTED = 'g.coef is None && g.deviance is None && g.information_matrix is None && g.n is None && g.p is None'
GLM_SPEC = r'''
pub open spec fn glm_unfitted(g: GLM) -> bool { ''' + UNFITTED + r''' }
/// g1 is g0 with only the named configuration field replaced (the fit results are untouched)
pub open spec fn glm_same_results(g0: GLM, g1: GLM) -> bool {
    g1.deviance == g0.deviance && g1.information_matrix == g0.information_matrix && g1.n == g0.n && g1.p == g0.p
}
'''
gnew = Fn(IG + 'new', ret='g', level='L1',
          ensures=['C06.new.family:: g.family == family', 'C06.new.defaults:: rv(g.alpha) == 0real && rv(g.tolerance) == 1real / 100000real && g.weights is None && g.offsets is None',
                   'C06.new.unfitted:: glm_unfitted(g)'])


def setter(name, field, value, others):
    keep = ' && '.join('r.%s == old(self).%s' % (f, f) for f in others)
    return Fn(IG + name, ret='r', level='L0',
              ensures=['C06.%s.field:: %s' % (name, value), 'C06.%s.frame:: %s && glm_same_results(*old(self), *r)' % (name, keep), 'C06.%s.ret:: *final(r) == *final(self)' % name])


CFG = ['family', 'alpha', 'tolerance', 'weights', 'offsets', 'coef']
set_penalty = setter('set_penalty', 'alpha', 'r.alpha == alpha', [f for f in CFG if f != 'alpha'])
set_tolerance = setter('set_tolerance', 'tolerance', 'r.tolerance == tolerance', [f for f in CFG if f != 'tolerance'])
set_coef = setter('set_coef', 'coef', 'r.coef is Some && r.coef->Some_0@ == coefs@', [f for f in CFG if f != 'coef'])
set_weights = setter('set_weights', 'weights', 'r.weights is Some && r.weights->Some_0@ == weights@', [f for f in CFG if f != 'weights'])
set_offset = setter('set_offset', 'offsets', 'r.offsets is Some && r.offsets->Some_0@ == offset@', [f for f in CFG if f != 'offsets'])

# ---------------------------------------------------------------- AR::new, PolynomialRegressor::new
ar_new = Fn(c13ar.A + '{impl AR}::new', ret='r', level='L1', valid='p > 0', panics={1: 'REJECT'},
            ensures=['C13.ar.new.valid:: p > 0', 'C13.ar.new.fields:: r.p == p && r.coeffs@.len() == p && rv(r.intercept) == 0real && forall|i: int| 0 <= i < p ==> rv(#[trigger] r.coeffs@[i]) == 0real'])
poly_new = Fn(c14.P + '{impl PolynomialRegressor}::new', ret='r', level='L1', requires=['C14.new.machine:: deg < usize::MAX'],
              ensures=['C14.new.coef:: r.coef@.len() == deg + 1 && forall|i: int| 0 <= i <= deg ==> rv(#[trigger] r.coef@[i]) == 0real'])

# ---------------------------------------------------------------- MVN accessors
MV = c02.MV
mvn_mean = Fn(MV + "{impl<'a> Mean for &'a MVN}::mean", ret='r', level='L0', outline='only', ensures=['C02.mvn.mean:: r@ == self.mean.v@'])
mvn_var = Fn(MV + "{impl<'a> Variance for &'a MVN}::var", ret='r', level='L0', outline='only', ensures=['C02.mvn.var:: *r == self.covariance_matrix'])
mvn_dim = Fn(MV + '{impl DistributionND for MVN}::get_dim', ret='r', level='L0', inherent=True, ensures=['C02.mvn.dim:: r == self.mean.v@.len()'])

UNITS = [
    Unit('C06_config', 'C06', [gnew, set_penalty, set_tolerance, set_coef, set_weights, set_offset], types=GLM_TYPES, type_spec=core.TYPE_SPEC, spec=c06.SPEC + GLM_SPEC, preludes=PRE, broadcast=BC, level='L1',
         notes='GLM::new starts unfitted with alpha = 0, tolerance = 1e-5 and no weights / offsets; each setter replaces exactly its field and leaves the fit results alone'),
    Unit('C13_ar_new', 'C13', [ar_new], types=core.TYPES + [c13ar.AR_STRUCT], type_spec=core.TYPE_SPEC, spec=core.SPEC if hasattr(core, 'SPEC') else '', preludes=PRE, broadcast=BC, level='L1',
         notes='AR::new(p): p zero coefficients and a zero intercept; p = 0 rejected'),
    Unit('C14_new', 'C14', [poly_new], types=core.TYPES + [c14.poly_struct], type_spec=core.TYPE_SPEC, spec='', preludes=PRE, broadcast=BC, level='L1',
         notes='PolynomialRegressor::new(deg): deg + 1 zero coefficients'),
    Unit('C02_mvn_accessors', 'C02', [mvn_mean, mvn_var, mvn_dim], use=core.core_stubs(), types=core.TYPES + [MV + '{struct MVN}'], type_spec=core.TYPE_SPEC, spec=c15.SPEC, preludes=PRE, broadcast=BC, level='L0',
         notes='MVN mean / var / get_dim return the stored mean, covariance matrix and the length of the mean'),
]

# ---------------------------------------------------------------- scalar kernels on references (Kernel<&f64, f64>)
K = c17.K
REFSUB = ('(x - y).powi(2)', '(*x - *y).powi(2)', "R17: `&f64 - &f64` is std's forwarding impl `*x - *y`")
rbf_ref = Fn(K + '{impl Kernel<&f64, f64> for RBFKernel}::forward', ret='r', level='L1', inherent=True, name_as='forward_ref', rewrites=[REFSUB],
             ensures=['C20.rbf_ref.formula:: rv(self.length_scale) > 0real ==> rv(r) == k_rbf(rv(self.var), rv(self.length_scale), rv(*x), rv(*y))'],
             pre_body=c17.RBF_HINT)
rq_ref = Fn(K + '{impl Kernel<&f64, f64> for RationalQuadraticKernel}::forward', ret='r', level='L1', inherent=True, name_as='forward_ref', rewrites=[REFSUB],
            ensures=['C20.rq_ref.formula:: rv(self.length_scale) > 0real && rv(self.alpha) > 0real ==> rv(r) == k_rq(rv(self.var), rv(self.alpha), rv(self.length_scale), rv(*x), rv(*y))'],
            pre_body=c17.RQ_HINT)
UNITS.append(Unit('C20_scalar_ref', 'C20', [rbf_ref, rq_ref], types=c17.TYPES20, spec=c17.SPEC20, preludes=PRE, broadcast=BC, level='L1',
                  notes='the by-reference scalar forms of the RBF and rational-quadratic kernels equal the same textbook formulas'))

# ---------------------------------------------------------------- row / column sums and the infinity norm
from contracts import C04 as c04
from contracts import C08 as c08
from contracts import C08w as c08w
from contracts import C01 as c01
from contracts.core import IM, IV
SUMS_SPEC = c04.RSUM_SPEC + r'''
pub open spec fn row_of(m: Seq<f64>, ncols: int, i: int) -> Seq<f64> { m.subrange(i * ncols, (i + 1) * ncols) }
/// sum over the first k rows of column c
pub open spec fn col_sum(m: Seq<f64>, ncols: int, c: int, k: int) -> real decreases k { if k <= 0 { 0real } else { col_sum(m, ncols, c, k - 1) + rv(at2(m, ncols, k - 1, c)) } }
'''
sum_rows = Fn(IM + 'sum_rows', ret='r', level='L1', requires=['C04.sum_rows.wf:: wf(*self)'],
              ensures=['C04.sum_rows.len:: r.v@.len() == self.nrows',
                       'C04.sum_rows.def:: forall|i: int| 0 <= i < self.nrows ==> rv(#[trigger] r.v@[i]) == rsum(row_of(self.data.v@, self.ncols as int, i), self.ncols as int)'],
              loops={1: {'invariant': ['wf(*self)', 'sums.v@.len() == self.nrows',
                                       'C04.sum_rows.done:: forall|q: int| 0 <= q < row ==> rv(#[trigger] sums.v@[q]) == rsum(row_of(self.data.v@, self.ncols as int, q), self.ncols as int)'],
                         'body_start': 'lemma_row(row as int, self.nrows as int, self.ncols as int);'}})
sum_cols = Fn(IM + 'sum_cols', ret='r', level='L1', requires=['C04.sum_cols.wf:: wf(*self)'],
              ensures=['C04.sum_cols.len:: r.v@.len() == self.ncols',
                       'C04.sum_cols.def:: forall|c: int| 0 <= c < self.ncols ==> rv(#[trigger] r.v@[c]) == col_sum(self.data.v@, self.ncols as int, c, self.nrows as int)'],
              loops={1: {'invariant': ['wf(*self)', 'sums.v@.len() == self.ncols',
                                       'C04.sum_cols.rows:: forall|c: int| 0 <= c < self.ncols ==> rv(#[trigger] sums.v@[c]) == col_sum(self.data.v@, self.ncols as int, c, row as int)']},
                     2: {'invariant': ['wf(*self)', 'sums.v@.len() == self.ncols', '0 <= row < self.nrows',
                                       'C04.sum_cols.done:: forall|c: int| 0 <= c < col ==> rv(#[trigger] sums.v@[c]) == col_sum(self.data.v@, self.ncols as int, c, row as int + 1)',
                                       'C04.sum_cols.todo:: forall|c: int| col <= c < self.ncols ==> rv(#[trigger] sums.v@[c]) == col_sum(self.data.v@, self.ncols as int, c, row as int)'],
                         'body_start': 'lemma_row(row as int, self.nrows as int, self.ncols as int); lemma_idx(row as int, col as int, self.nrows as int, self.ncols as int);'}})
UNITS.append(Unit('C04_matrix_sums', 'C04', [sum_rows, sum_cols], use=core.core_stubs() + [c08w.vec_methods['sum']], types=core.TYPES, type_spec=core.TYPE_SPEC, spec=c15.SPEC + SUMS_SPEC,
                  preludes=PRE, broadcast=BC, level='L1', notes='Matrix::sum_rows / sum_cols: entry i is the sum of row i resp. column i over the reals'))

INF_SPEC = c08.ORDER_SPEC + r'''
/// the running float sum of |x[i,0..j)| exactly as the loop accumulates it (L0), and its value over the reals (L1)
pub open spec fn fabs_row(x: Seq<f64>, ncols: int, i: int, j: int) -> f64 decreases j { if j <= 0 { 0.0f64 } else { f_add(fabs_row(x, ncols, i, j - 1), f_abs(x[i * ncols + j - 1])) } }
pub open spec fn rabs_row(x: Seq<f64>, ncols: int, i: int, j: int) -> real decreases j { if j <= 0 { 0real } else { rabs_row(x, ncols, i, j - 1) + r_abs(rv(x[i * ncols + j - 1])) } }
pub proof fn lemma_fabs_row(x: Seq<f64>, ncols: int, i: int, j: int) ensures rv(fabs_row(x, ncols, i, j)) == rabs_row(x, ncols, i, j) decreases j
{ if j > 0 { lemma_fabs_row(x, ncols, i, j - 1); } }
'''
NCOLS = '((x@.len() as int) / (nrows as int))'
inf_norm = Fn('linalg::utils::inf_norm', ret='r', level='L1', valid='(x@.len() as int) % (nrows as int) == 0', panics={1: 'REJECT'},
              rewrites=[('is_matrix(x, nrows).unwrap()', 'match is_matrix(x, nrows) { Ok(v_) => v_, Err(_) => ::core::panicking::panic("unwrap") }', 'R2b')],
              requires=['C04.inf_norm.machine:: nrows > 0 && x@.len() <= 0x7fff_ffff',
                        'C04.inf_norm.finite:: forall|i: int| 0 <= i < nrows ==> finite(#[trigger] fabs_row(x@, %s, i, %s))' % (NCOLS, NCOLS)],
              ensures=['C04.inf_norm.valid:: (x@.len() as int) % (nrows as int) == 0',
                       'C04.inf_norm.attained:: exists|i: int| 0 <= i < nrows && r == #[trigger] fabs_row(x@, %s, i, %s)' % (NCOLS, NCOLS),
                       'C04.inf_norm.max:: forall|i: int| 0 <= i < nrows ==> #[trigger] rabs_row(x@, %s, i, %s) <= rv(r)' % (NCOLS, NCOLS)],
              loops={1: {'invariant': ['nrows * ncols == x@.len() && ncols == ' + NCOLS, 'x@.len() <= 0x7fff_ffff', 'abs_row_sums@.len() == i',
                                       'forall|q: int| 0 <= q < nrows ==> finite(#[trigger] fabs_row(x@, ncols as int, q, ncols as int))',
                                       'C04.inf_norm.rows:: forall|q: int| 0 <= q < i ==> #[trigger] abs_row_sums@[q] == fabs_row(x@, ncols as int, q, ncols as int)']},
                     2: {'invariant': ['nrows * ncols == x@.len()', 'x@.len() <= 0x7fff_ffff', '0 <= i < nrows', 'C04.inf_norm.partial:: s == fabs_row(x@, ncols as int, i as int, j as int)'],
                         'body_start': 'lemma_idx(i as int, j as int, nrows as int, ncols as int);'}},
              hints=[('max(&abs_row_sums)', 'replace',
                      '({ proof { lemma_mul_div(nrows as int, ncols as int); assert(all_finite(abs_row_sums@)); } let m_ = max(&abs_row_sums); proof { '
                      'let k_ = choose|k: int| 0 <= k < abs_row_sums@.len() && m_ == #[trigger] abs_row_sums@[k]; assert(m_ == fabs_row(x@, ncols as int, k_, ncols as int)); '
                      'assert forall|q: int| 0 <= q < nrows implies #[trigger] rabs_row(x@, ncols as int, q, ncols as int) <= rv(m_) by { lemma_fabs_row(x@, ncols as int, q, ncols as int); assert(rv(abs_row_sums@[q]) <= rv(m_)); } } m_ })')])
UNITS.append(Unit('C04_inf_norm', 'C04', [inf_norm], use=[c15.is_matrix, c08.omax], types=core.TYPES, type_spec=core.TYPE_SPEC, spec=c15.SPEC + INF_SPEC, preludes=PRE, broadcast=BC + ('l1_minmax',), level='L1',
                  notes='inf_norm returns the largest row sum of absolute values: it is attained by a row and bounds every row (hypothesis: no row sum overflows or is NaN)'))

# ---------------------------------------------------------------- GLM::score = family deviance of the predictions
from contracts import C06c as c06c
SCORE_VALID = 'self.coef is Some && glm_pred_valid(*self, x@) && y@.len() == (x@.len() as int) / (self.p->Some_0 as int)'
gscore = Fn(IG + 'score', ret='r', level='L1', valid=SCORE_VALID,
            rewrites=[(r'self\.family\.deviance\((\w+), &self\.predict\((\w+)\)\.unwrap\(\)\)',
                       r'({ let pr_ = self.predict(\2); let m_ = match pr_ { Ok(v_) => v_, Err(_) => ::core::panicking::panic("unwrap") }; let d_ = self.family.deviance(\1, &m_); '
                       r'proof { assert(glm_pred_values(*self, x@, m_.v@)); assert(is_family_deviance(self.family, y@, m_.v@, d_)); } d_ })', 'R2b + R31 (argument names kept verbatim)', 're')],
            panics={1: 'REJECT'},
            requires=['C06.score.inv:: glm_fitted_inv(*self)', 'C06.score.machine:: 0 < x@.len() <= 0x7fff_ffff'],
            ensures=['C06.score.valid:: ' + SCORE_VALID,
                     'C06.score.def:: exists|m: Seq<f64>| #[trigger] glm_pred_values(*self, x@, m) && is_family_deviance(self.family, y@, m, r)'])
UNITS.append(Unit('C06_glm_score', 'C06', [gscore], use=[c06.predict, c06.deviance] + core.core_stubs(), types=GLM_TYPES, type_spec=core.TYPE_SPEC,
                  spec=c06.SPEC + c06.FAM_SPEC + c06.PRED_SPEC + c06.DEV_SPEC + c06c.PDEV_SPEC, preludes=PRE, broadcast=BC, level='L1',
                  notes='GLM::score is the family deviance of the responses against the predictions of the fitted model (unfitted model / shape mismatch rejected)'))

# ---------------------------------------------------------------- remaining trivial constructors / accessors of Vector and Matrix
from contracts.core import VEC, MAT
m_with_cap = Fn(IM + 'with_capacity', ret='m', level='L0', requires=['C15.with_capacity.machine:: nrows * ncols <= usize::MAX'],
                ensures=['C15.with_capacity.empty:: m.nrows == 0 && m.ncols == 0 && m.data.v@.len() == 0 && wf(m)'])
m_default = Fn(MAT + '{impl Default for Matrix}::default', ret='m', level='L0', inherent=True,
               ensures=['C15.default.matrix:: m.nrows == 0 && m.ncols == 0 && m.data.v@.len() == 0 && wf(m)'])
v_default = Fn(VEC + '{impl Default for Vector}::default', ret='r', level='L0', inherent=True, ensures=['C15.default.vector:: r.v@.len() == 0'])
m_data_mut = Fn(IM + 'data_mut', ret='r', level='L0', ensures=['C15.data_mut.cur:: *r == old(self).data', 'C15.data_mut.fin:: final(self).data == *final(r) && final(self).nrows == old(self).nrows && final(self).ncols == old(self).ncols'])
v_as_ref = Fn(VEC + '{impl AsRef<[f64]> for Vector}::as_ref', ret='r', level='L0', inherent=True, ensures=['C15.as_ref:: r@ == self.v@'])
UNITS.append(Unit('C15_trivia', 'C15', [m_with_cap, m_default, v_default, m_data_mut, v_as_ref], use=core.core_stubs(), types=core.TYPES, type_spec=core.TYPE_SPEC, spec=c15.SPEC, preludes=PRE, broadcast=BC, level='L0',
                  notes='Matrix::with_capacity / Default: the empty 0 x 0 matrix (well-formed); Vector::default: empty; data_mut / as_ref hand out the stored data'))
