"""C15 — shape operations and constructors preserve data and the matrix invariant (integers + L0 data-flow).
The core (Matrix::new / reshape / Index ...) lives in contracts/core.py; this module adds the structural operations."""
from vc.gen import Fn, Unit
from contracts import core
from contracts.core import VEC, MAT, IM, IV

PRE = ('fax_l0', 'fmeth', 'stdspec')
BC = ('l0', 'ax_vec_from_refl', 'ax_f64_cloned')
U = 'linalg::utils::'

SPEC = core.CORE_SPEC + r'''
pub open spec fn ncols_of(len: int, nrows: int) -> int { len / nrows }
/// b is the transpose of the nrows x ncols row-major matrix a
pub open spec fn is_transpose(a: Seq<f64>, b: Seq<f64>, nrows: int, ncols: int) -> bool {
    b.len() == a.len() && forall|i: int, j: int| 0 <= i < nrows && 0 <= j < ncols ==> #[trigger] at2(b, nrows, j, i) == at2(a, ncols, i, j)
}
'''

is_matrix = Fn(U + 'is_matrix', ret='r', requires=['C15.is_matrix.nrows:: nrows > 0'],
               ensures=['C15.is_matrix:: match r { Ok(c) => c * nrows == m@.len() && c == (m@.len() as int) / (nrows as int), Err(_) => (m@.len() as int) % (nrows as int) != 0 }'],
               pre_body='proof { lemma_div_facts(m@.len() as int, nrows as int); }')

UNWRAP_IS_MATRIX = ('is_matrix(a, nrows).unwrap()', 'match is_matrix(a, nrows) { Ok(v_) => v_, Err(_) => ::core::panicking::panic("unwrap") }',
                    'R2b: Result::unwrap is this match by definition; its panic is a REJECT site')
TV = '(a@.len() as int) % (nrows as int) == 0'
transpose = Fn(U + 'transpose', ret='at', valid=TV, panics={1: 'REJECT'}, rewrites=[UNWRAP_IS_MATRIX],
               attrs=['#[verifier::loop_isolation(false)]'],
               requires=['C15.transpose.nrows:: nrows > 0'],
               ensures=['C15.transpose.valid:: ' + TV,
                        'C15.transpose.view:: is_transpose(a@, at@, nrows as int, (a@.len() as int) / (nrows as int))'],
               loops={1: {'invariant': ['at@.len() == j * nrows', 'ncols * nrows == a@.len()', 'nrows * ncols == a@.len()', 'ncols == (a@.len() as int) / (nrows as int)',
                                        'C15.transpose.cols_done:: forall|i: int, jj: int| 0 <= i < nrows && 0 <= jj < j ==> #[trigger] at2(at@, nrows as int, jj, i) == at2(a@, ncols as int, i, jj)'],
                          'body_start': 'lemma_row(j as int, ncols as int, nrows as int);'},
                      2: {'invariant': ['at@.len() == j * nrows + i', '0 <= j < ncols', 'ncols * nrows == a@.len()', 'nrows * ncols == a@.len()',
                                        'C15.transpose.cols_done.inner:: forall|ii: int, jj: int| 0 <= ii < nrows && 0 <= jj < j ==> #[trigger] at2(at@, nrows as int, jj, ii) == at2(a@, ncols as int, ii, jj)',
                                        'C15.transpose.col_partial:: forall|ii: int| 0 <= ii < i ==> #[trigger] at2(at@, nrows as int, j as int, ii) == at2(a@, ncols as int, ii, j as int)'],
                          'body_start': 'lemma_idx(i as int, j as int, nrows as int, ncols as int); lemma_row(j as int, ncols as int, nrows as int);',
                          }},
               hints=[('let mut at = Vec::with_capacity(a.len());', 'after', 'proof { lemma_div_facts(a@.len() as int, nrows as int); assert(0 * nrows == 0) by(nonlinear_arith); assert(ncols * nrows == nrows * ncols) by(nonlinear_arith); }'),
                      ('at.push(a[i * ncols + j]);', 'pre', 'let ghost pre_at = at@;'),
                      ('at.push(a[i * ncols + j]);', 'post',
                       'proof { assert forall|ii: int, jj: int| 0 <= ii < nrows && 0 <= jj < j implies #[trigger] at2(at@, nrows as int, jj, ii) == at2(a@, ncols as int, ii, jj) by { lemma_idx(jj, ii, ncols as int, nrows as int); assert(at2(pre_at, nrows as int, jj, ii) == at2(a@, ncols as int, ii, jj)); lemma_row(jj, j as int, nrows as int); } '
                       'assert forall|ii: int| 0 <= ii < i + 1 implies #[trigger] at2(at@, nrows as int, j as int, ii) == at2(a@, ncols as int, ii, j as int) by { if ii < i { assert(at2(pre_at, nrows as int, j as int, ii) == at2(a@, ncols as int, ii, j as int)); } } }')])

mt = Fn(IM + 't', ret='r', requires=['C15.t.wf:: wf(*self) && self.nrows > 0'],
        pre_body='proof { lemma_mul_div(self.nrows as int, self.ncols as int); }',
        ensures=['C15.t.shape:: r.nrows == self.ncols && r.ncols == self.nrows && wf(r)',
                 'C15.t.view:: is_transpose(self.data.v@, r.data.v@, self.nrows as int, self.ncols as int)'])
mt_mut = Fn(IM + 't_mut', ret='r', requires=['C15.t_mut.wf:: wf(*old(self)) && old(self).nrows > 0'],
            pre_body='proof { lemma_mul_div(self.nrows as int, self.ncols as int); }',
            ensures=['C15.t_mut.shape:: r.nrows == old(self).ncols && r.ncols == old(self).nrows && wf(*r)',
                     'C15.t_mut.view:: is_transpose(old(self).data.v@, r.data.v@, old(self).nrows as int, old(self).ncols as int)',
                     'C15.t_mut.ret:: *final(r) == *final(self)'])

_core_all = core.core_stubs()
UNITS = [
    Unit('C15_transpose', 'C15', [is_matrix, transpose, mt, mt_mut], use=_core_all, types=core.TYPES, spec=SPEC, type_spec=core.TYPE_SPEC,
         preludes=PRE, broadcast=BC, notes='is_matrix, slice transpose (nested push loops), Matrix::t and t_mut: every entry lands at the transposed position'),
]
