"""C15 — shape operations and constructors preserve data and the matrix invariant (integers + L0 data-flow).
The core (Matrix::new / reshape / Index ...) lives in contracts/core.py; this module adds the structural operations."""
from vc.gen import Fn, Unit
from contracts import core
from contracts.core import VEC, MAT, IM, IV

PRE = ('fax_l0', 'fmeth', 'stdspec')
BC = ('l0', 'ax_vec_from_refl', 'ax_f64_cloned')
U = 'linalg::utils::'

SPEC = core.CORE_SPEC + r'''
pub open spec fn ncols_of(len: int, nrows: int) -> int { len / nrows }
/// b is the transpose of the nrows x ncols row-major matrix a
pub open spec fn is_transpose(a: Seq<f64>, b: Seq<f64>, nrows: int, ncols: int) -> bool {
    b.len() == a.len() && forall|i: int, j: int| 0 <= i < nrows && 0 <= j < ncols ==> #[trigger] at2(b, nrows, j, i) == at2(a, ncols, i, j)
}
'''

is_matrix = Fn(U + 'is_matrix', ret='r', requires=['C15.is_matrix.nrows:: nrows > 0'],
               ensures=['C15.is_matrix:: match r { Ok(c) => c * nrows == m@.len() && c == (m@.len() as int) / (nrows as int), Err(_) => (m@.len() as int) % (nrows as int) != 0 }'],
               pre_body='proof { lemma_div_facts(m@.len() as int, nrows as int); }')

UNWRAP_IS_MATRIX = ('is_matrix(a, nrows).unwrap()', 'match is_matrix(a, nrows) { Ok(v_) => v_, Err(_) => ::core::panicking::panic("unwrap") }',
                    'R2b: Result::unwrap is this match by definition; its panic is a REJECT site')
TV = '(a@.len() as int) % (nrows as int) == 0'
transpose = Fn(U + 'transpose', ret='at', valid=TV, panics={1: 'REJECT'}, rewrites=[UNWRAP_IS_MATRIX],
               attrs=['#[verifier::loop_isolation(false)]'],
               requires=['C15.transpose.nrows:: nrows > 0'],
               ensures=['C15.transpose.valid:: ' + TV,
                        'C15.transpose.view:: is_transpose(a@, at@, nrows as int, (a@.len() as int) / (nrows as int))'],
               loops={1: {'invariant': ['at@.len() == j * nrows', 'ncols * nrows == a@.len()', 'nrows * ncols == a@.len()', 'ncols == (a@.len() as int) / (nrows as int)',
                                        'C15.transpose.cols_done:: forall|i: int, jj: int| 0 <= i < nrows && 0 <= jj < j ==> #[trigger] at2(at@, nrows as int, jj, i) == at2(a@, ncols as int, i, jj)'],
                          'body_start': 'lemma_row(j as int, ncols as int, nrows as int);'},
                      2: {'invariant': ['at@.len() == j * nrows + i', '0 <= j < ncols', 'ncols * nrows == a@.len()', 'nrows * ncols == a@.len()',
                                        'C15.transpose.cols_done.inner:: forall|ii: int, jj: int| 0 <= ii < nrows && 0 <= jj < j ==> #[trigger] at2(at@, nrows as int, jj, ii) == at2(a@, ncols as int, ii, jj)',
                                        'C15.transpose.col_partial:: forall|ii: int| 0 <= ii < i ==> #[trigger] at2(at@, nrows as int, j as int, ii) == at2(a@, ncols as int, ii, j as int)'],
                          'body_start': 'lemma_idx(i as int, j as int, nrows as int, ncols as int); lemma_row(j as int, ncols as int, nrows as int);',
                          }},
               hints=[('let mut at = Vec::with_capacity(a.len());', 'after', 'proof { lemma_div_facts(a@.len() as int, nrows as int); assert(0 * nrows == 0) by(nonlinear_arith); assert(ncols * nrows == nrows * ncols) by(nonlinear_arith); }'),
                      ('at.push(a[i * ncols + j]);', 'pre', 'let ghost pre_at = at@;'),
                      ('at.push(a[i * ncols + j]);', 'post',
                       'proof { assert forall|ii: int, jj: int| 0 <= ii < nrows && 0 <= jj < j implies #[trigger] at2(at@, nrows as int, jj, ii) == at2(a@, ncols as int, ii, jj) by { lemma_idx(jj, ii, ncols as int, nrows as int); assert(at2(pre_at, nrows as int, jj, ii) == at2(a@, ncols as int, ii, jj)); lemma_row(jj, j as int, nrows as int); } '
                       'assert forall|ii: int| 0 <= ii < i + 1 implies #[trigger] at2(at@, nrows as int, j as int, ii) == at2(a@, ncols as int, ii, j as int) by { if ii < i { assert(at2(pre_at, nrows as int, j as int, ii) == at2(a@, ncols as int, ii, j as int)); } } }')])

mt = Fn(IM + 't', ret='r', requires=['C15.t.wf:: wf(*self) && self.nrows > 0'],
        pre_body='proof { lemma_mul_div(self.nrows as int, self.ncols as int); }',
        ensures=['C15.t.shape:: r.nrows == self.ncols && r.ncols == self.nrows && wf(r)',
                 'C15.t.view:: is_transpose(self.data.v@, r.data.v@, self.nrows as int, self.ncols as int)'])
mt_mut = Fn(IM + 't_mut', ret='r', requires=['C15.t_mut.wf:: wf(*old(self)) && old(self).nrows > 0'],
            pre_body='proof { lemma_mul_div(self.nrows as int, self.ncols as int); }',
            ensures=['C15.t_mut.shape:: r.nrows == old(self).ncols && r.ncols == old(self).nrows && wf(*r)',
                     'C15.t_mut.view:: is_transpose(old(self).data.v@, r.data.v@, old(self).nrows as int, old(self).ncols as int)',
                     'C15.t_mut.ret:: *final(r) == *final(self)'])

_core_all = core.core_stubs()
UNITS = [
    Unit('C15_transpose', 'C15', [is_matrix, transpose, mt, mt_mut], use=_core_all, types=core.TYPES, spec=SPEC, type_spec=core.TYPE_SPEC,
         preludes=PRE, broadcast=BC, notes='is_matrix, slice transpose (nested push loops), Matrix::t and t_mut: every entry lands at the transposed position'),
]

# ---------------------------------------------------------------- element access / extraction
flat_idx = Fn(IM + 'flat_idx', ret='r', valid='idx < self.nrows * self.ncols', panics={1: 'REJECT'},
              requires=['C15.flat_idx.wf:: wf(*self)'],
              ensures=['C15.flat_idx.valid:: idx < self.nrows * self.ncols', 'C15.flat_idx.view:: r == self.data.v@[idx as int]'])
flat_idx_replace = Fn(IM + 'flat_idx_replace', ret='r', valid='idx < old(self).nrows * old(self).ncols', panics={1: 'REJECT'},
                      requires=['C15.flat_idx_replace.wf:: wf(*old(self))'],
                      ensures=['C15.flat_idx_replace.valid:: idx < old(self).nrows * old(self).ncols',
                               'C15.flat_idx_replace.view:: r.data.v@ == old(self).data.v@.update(idx as int, val) && r.nrows == old(self).nrows && r.ncols == old(self).ncols',
                               'C15.flat_idx_replace.ret:: *final(r) == *final(self)'])
get_col = Fn(IM + 'get_col_as_vector', ret='v', valid='col < self.ncols', panics={1: 'REJECT'},
             attrs=['#[verifier::loop_isolation(false)]'],
             requires=['C15.get_col.wf:: wf(*self)'],
             ensures=['C15.get_col.valid:: col < self.ncols', 'C15.get_col.len:: v.v@.len() == self.nrows',
                      'C15.get_col.view:: forall|i: int| 0 <= i < self.nrows ==> v.v@[i] == at2(self.data.v@, self.ncols as int, i, col as int)'],
             loops={1: {'invariant': ['v.v@.len() == self.nrows',
                                      'C15.get_col.sofar:: forall|k: int| 0 <= k < i ==> v.v@[k] == at2(self.data.v@, self.ncols as int, k, col as int)'],
                        'body_start': 'lemma_idx(i as int, col as int, self.nrows as int, self.ncols as int); lemma_row(i as int, self.nrows as int, self.ncols as int);'}})
mdiag = Fn(IM + 'diag', ret='d', attrs=['#[verifier::loop_isolation(false)]'],
           requires=['C15.diag.wf:: wf(*self)'],
           ensures=['C15.diag.len:: d.v@.len() == (if self.nrows <= self.ncols { self.nrows } else { self.ncols })',
                    'C15.diag.view:: forall|i: int| 0 <= i < d.v@.len() ==> d.v@[i] == at2(self.data.v@, self.ncols as int, i, i)'],
           loops={1: {'invariant': ['n == (if self.nrows <= self.ncols { self.nrows } else { self.ncols })', 'diag.v@.len() == i',
                                    'C15.diag.sofar:: forall|k: int| 0 <= k < i ==> diag.v@[k] == at2(self.data.v@, self.ncols as int, k, k)'],
                      'body_start': 'lemma_idx(i as int, i as int, self.nrows as int, self.ncols as int);'}})
eye = Fn(IM + 'eye', ret='m', attrs=['#[verifier::loop_isolation(false)]'],
         requires=['C15.eye.range:: dims <= i32max() && dims * dims <= i32max()'],
         ensures=['C15.eye.shape:: m.nrows == dims && m.ncols == dims && wf(m)',
                  'C15.eye.view:: forall|i: int, j: int| 0 <= i < dims && 0 <= j < dims ==> #[trigger] at2(m.data.v@, dims as int, i, j) == (if i == j { 1.0f64 } else { 0.0f64 })'],
         loops={1: {'invariant': ['m.nrows == dims && m.ncols == dims && wf(m)',
                                  'C15.eye.sofar:: forall|r: int, c: int| 0 <= r < dims && 0 <= c < dims ==> #[trigger] at2(m.data.v@, dims as int, r, c) == (if r == c && r < i { 1.0f64 } else { 0.0f64 })'],
                    'body_ghost': 'let ghost pre_m = m.data.v@;', 'body_start': 'lemma_idx(i as int, i as int, dims as int, dims as int);',
                    'body_end': 'assert forall|r: int, c: int| 0 <= r < dims && 0 <= c < dims implies #[trigger] at2(m.data.v@, dims as int, r, c) == (if r == c && r < i + 1 { 1.0f64 } else { 0.0f64 }) by { lemma_idx(r, c, dims as int, dims as int); if r * dims + c == i * dims + i { lemma_idx_inj(r, c, i as int, i as int, dims as int); } assert(at2(pre_m, dims as int, r, c) == (if r == c && r < i { 1.0f64 } else { 0.0f64 })); }'}},
         hints=[('for i in 0..dims', 'before', 'proof { assert forall|r: int, c: int| 0 <= r < dims && 0 <= c < dims implies #[trigger] at2(m.data.v@, dims as int, r, c) == 0.0f64 by { lemma_idx(r, c, dims as int, dims as int); } }')])

UNITS.append(Unit('C15_access', 'C15', [flat_idx, flat_idx_replace, get_col, mdiag, eye], use=_core_all, types=core.TYPES, spec=SPEC,
                  type_spec=core.TYPE_SPEC, preludes=PRE, broadcast=BC,
                  notes='flat / column / diagonal extraction and the identity constructor against the row-major reference position'))

# ---------------------------------------------------------------- concatenation
HC_W = '(self.ncols + other.ncols) as int'
hcat = Fn(IM + 'hcat', ret='r', valid='self.nrows == other.nrows', panics={1: 'REJECT'}, attrs=['#[verifier::loop_isolation(false)]'],
          requires=['C15.hcat.wf:: wf(*self) && wf(other)', 'C15.hcat.range:: self.nrows * (self.ncols + other.ncols) <= i32max() && self.ncols + other.ncols <= i32max()'],
          ensures=['C15.hcat.valid:: self.nrows == other.nrows',
                   'C15.hcat.shape:: r.nrows == self.nrows && r.ncols == self.ncols + other.ncols && wf(r)',
                   'C15.hcat.left:: forall|i: int, j: int| 0 <= i < self.nrows && 0 <= j < self.ncols ==> #[trigger] at2(r.data.v@, %s, i, j) == at2(self.data.v@, self.ncols as int, i, j)' % HC_W,
                   'C15.hcat.right:: forall|i: int, j: int| 0 <= i < self.nrows && 0 <= j < other.ncols ==> #[trigger] at2(r.data.v@, %s, i, self.ncols + j) == at2(other.data.v@, other.ncols as int, i, j)' % HC_W],
          loops={
              1: {'invariant': ['new_vec.v@.len() == i * (self.ncols + other.ncols)',
                                'C15.hcat.rows_done:: forall|ii: int, jj: int| 0 <= ii < i && 0 <= jj < self.ncols + other.ncols ==> #[trigger] at2(new_vec.v@, %s, ii, jj) == (if jj < self.ncols { at2(self.data.v@, self.ncols as int, ii, jj) } else { at2(other.data.v@, other.ncols as int, ii, jj - self.ncols) })' % HC_W],
                  'body_start': 'lemma_row(i as int, self.nrows as int, %s);' % HC_W,
                  'body_end': ('assert forall|ii: int, jj: int| 0 <= ii < i + 1 && 0 <= jj < self.ncols + other.ncols implies #[trigger] at2(new_vec.v@, {W}, ii, jj) == (if jj < self.ncols {{ at2(self.data.v@, self.ncols as int, ii, jj) }} else {{ at2(other.data.v@, other.ncols as int, ii, jj - self.ncols) }}) by {{ if ii == i && jj >= self.ncols {{ assert(at2(new_vec.v@, {W}, i as int, self.ncols + (jj - self.ncols)) == at2(other.data.v@, other.ncols as int, i as int, jj - self.ncols)); }} }}').format(W=HC_W)},
              2: {'invariant': ['new_vec.v@.len() == i * (self.ncols + other.ncols) + j', '0 <= i < self.nrows',
                                'C15.hcat.rows_done.l:: forall|ii: int, jj: int| 0 <= ii < i && 0 <= jj < self.ncols + other.ncols ==> #[trigger] at2(new_vec.v@, %s, ii, jj) == (if jj < self.ncols { at2(self.data.v@, self.ncols as int, ii, jj) } else { at2(other.data.v@, other.ncols as int, ii, jj - self.ncols) })' % HC_W,
                                'C15.hcat.row_left:: forall|jj: int| 0 <= jj < j ==> #[trigger] at2(new_vec.v@, %s, i as int, jj) == at2(self.data.v@, self.ncols as int, i as int, jj)' % HC_W],
                  'body_ghost': 'let ghost pre_v = new_vec.v@;',
                  'body_start': 'lemma_idx(i as int, j as int, self.nrows as int, self.ncols as int);',
                  'body_end': ('assert forall|ii: int, jj: int| 0 <= ii < i && 0 <= jj < self.ncols + other.ncols implies #[trigger] at2(new_vec.v@, {W}, ii, jj) == (if jj < self.ncols {{ at2(self.data.v@, self.ncols as int, ii, jj) }} else {{ at2(other.data.v@, other.ncols as int, ii, jj - self.ncols) }}) by {{ lemma_idx(ii, jj, i as int, {W}); assert(at2(pre_v, {W}, ii, jj) == at2(new_vec.v@, {W}, ii, jj)); }} '
                               'assert forall|jj: int| 0 <= jj < j + 1 implies #[trigger] at2(new_vec.v@, {W}, i as int, jj) == at2(self.data.v@, self.ncols as int, i as int, jj) by {{ if jj < j {{ assert(at2(pre_v, {W}, i as int, jj) == at2(new_vec.v@, {W}, i as int, jj)); }} }}').format(W=HC_W)},
              3: {'invariant': ['new_vec.v@.len() == i * (self.ncols + other.ncols) + self.ncols + j', '0 <= i < self.nrows',
                                'C15.hcat.rows_done.r:: forall|ii: int, jj: int| 0 <= ii < i && 0 <= jj < self.ncols + other.ncols ==> #[trigger] at2(new_vec.v@, %s, ii, jj) == (if jj < self.ncols { at2(self.data.v@, self.ncols as int, ii, jj) } else { at2(other.data.v@, other.ncols as int, ii, jj - self.ncols) })' % HC_W,
                                'C15.hcat.row_left.r:: forall|jj: int| 0 <= jj < self.ncols ==> #[trigger] at2(new_vec.v@, %s, i as int, jj) == at2(self.data.v@, self.ncols as int, i as int, jj)' % HC_W,
                                'C15.hcat.row_right:: forall|jj: int| 0 <= jj < j ==> #[trigger] at2(new_vec.v@, %s, i as int, self.ncols + jj) == at2(other.data.v@, other.ncols as int, i as int, jj)' % HC_W],
                  'body_ghost': 'let ghost pre_v = new_vec.v@;',
                  'body_start': 'lemma_idx(i as int, j as int, other.nrows as int, other.ncols as int);',
                  'body_end': ('assert forall|ii: int, jj: int| 0 <= ii < i && 0 <= jj < self.ncols + other.ncols implies #[trigger] at2(new_vec.v@, {W}, ii, jj) == (if jj < self.ncols {{ at2(self.data.v@, self.ncols as int, ii, jj) }} else {{ at2(other.data.v@, other.ncols as int, ii, jj - self.ncols) }}) by {{ lemma_idx(ii, jj, i as int, {W}); assert(at2(pre_v, {W}, ii, jj) == at2(new_vec.v@, {W}, ii, jj)); }} '
                               'assert forall|jj: int| 0 <= jj < self.ncols implies #[trigger] at2(new_vec.v@, {W}, i as int, jj) == at2(self.data.v@, self.ncols as int, i as int, jj) by {{ assert(at2(pre_v, {W}, i as int, jj) == at2(new_vec.v@, {W}, i as int, jj)); }} '
                               'assert forall|jj: int| 0 <= jj < j + 1 implies #[trigger] at2(new_vec.v@, {W}, i as int, self.ncols + jj) == at2(other.data.v@, other.ncols as int, i as int, jj) by {{ if jj < j {{ assert(at2(pre_v, {W}, i as int, self.ncols + jj) == at2(new_vec.v@, {W}, i as int, self.ncols + jj)); }} }}').format(W=HC_W)},
          },
          hints=[('for i in 0..self.nrows', 'before', 'proof { assert(0 * (self.ncols + other.ncols) == 0) by(nonlinear_arith); }'),
                 ('Matrix::new(new_vec,', 'before', 'proof { assert(self.nrows * (self.ncols + other.ncols) == new_vec.v@.len()); }')])

UNITS.append(Unit('C15_concat', 'C15', [hcat], use=_core_all, types=core.TYPES, spec=SPEC, type_spec=core.TYPE_SPEC, preludes=PRE, broadcast=BC,
                  notes='horizontal concatenation: every entry of both operands lands at its row-major position'))
