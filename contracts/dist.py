"""C02 (densities / moments match the textbook formulas) and C18 (distribution objects are a pure
function of their current parameters).  Level L1.  Formula post-conditions are written from the
distributions' textbook definitions; validity predicates are the constructors' domains; every setter
and bulk update must leave the object equal to `fresh_X(final parameters)`."""
from vc.gen import Fn, Unit

D = 'distributions::'
PRE = ('fax_l0', 'fmeth', 'stdspec', 'l1')
BC = ('l0', 'l1_arith', 'l1_fun')

# fresh_X(params): the object a constructor builds (C18: "observationally identical to one freshly constructed")
TYPE_SPEC = r'''
pub open spec fn fresh_normal(mu: f64, sigma: f64) -> Normal { Normal { mu: mu, sigma: sigma } }
pub open spec fn fresh_uniform(lower: f64, upper: f64) -> Uniform { Uniform { lower: lower, upper: upper } }
pub open spec fn fresh_gamma(alpha: f64, beta: f64) -> Gamma {
    Gamma { alpha: alpha, beta: beta, normal_gen: fresh_normal(0.0f64, 1.0f64), uniform_gen: fresh_uniform(0.0f64, 1.0f64) } }
pub open spec fn fresh_beta(alpha: f64, beta: f64) -> Beta {
    Beta { alpha: alpha, beta: beta, alpha_gen: fresh_gamma(alpha, 1.0f64), beta_gen: fresh_gamma(beta, 1.0f64) } }
pub open spec fn fresh_chi(dof: usize) -> ChiSquared {
    ChiSquared { dof: dof, sampler: fresh_gamma(f_div(f_of_int(dof as int), 2.0f64), 0.5f64) } }
pub open spec fn fresh_gumbel(mu: f64, beta: f64) -> Gumbel { Gumbel { mu: mu, beta: beta, uniform_gen: fresh_uniform(0.0f64, 1.0f64) } }
pub open spec fn fresh_exponential(lambda: f64) -> Exponential { Exponential { lambda: lambda, rng: fresh_uniform(0.0f64, 1.0f64) } }
'''

SPEC = r'''
pub open spec fn sq(x: real) -> real { x * x }
/// the true Gamma function, abstract (C09 — its numerical accuracy — is not applicable to this family)
pub uninterp spec fn r_gamma(x: real) -> real;
pub open spec fn r_beta(a: real, b: real) -> real { r_gamma(a) * r_gamma(b) / r_gamma(a + b) }
pub uninterp spec fn r_binom(n: int, k: int) -> real;
/// value returned by binom_coeff (its exactness is property C17)
pub uninterp spec fn binom_fn(n: u64, k: u64) -> u64;
pub uninterp spec fn r_euler_gamma() -> real;
#[verifier::external_body]
pub proof fn ax_gamma_pos(x: real) requires x > 0real ensures r_gamma(x) > 0real {}
'''

FNS = []
TYPES = []
STUBS = []


def dist(mod, name):
    TYPES.append(D + mod + '::{struct %s}' % name)


DOMV = {}      # struct name -> validity predicate of its constructor (over the parameter = field names)


def dom_of(name, obj):
    """domain invariant of a distribution object: the constructor's validity predicate read over the object's fields"""
    import re
    v = DOMV[name]
    return re.sub(r'\b([a-z_][a-z_0-9]*)\b', lambda mm: mm.group(0) if mm.group(1) in ('rv',) else '%s.%s' % (obj, mm.group(1)), v)


def m(mod, name, fn, trait=None, **kw):
    hdr = 'impl %s for %s' % (trait, name) if trait else 'impl %s' % name
    if fn == 'new':
        DOMV[name] = kw.get('valid', 'true')
    elif (fn.startswith('set_') or fn == 'update') and name in DOMV and DOMV[name] != 'true':
        # `&mut self` methods: the object satisfies its domain invariant on entry and at every panic site (property C18)
        kw['requires'] = list(kw.get('requires', [])) + ['C18.%s.%s.dom:: %s' % (mod, fn, dom_of(name, 'old(self)'))]
        kw['panic_inv'] = dom_of(name, 'self')
    f = Fn(D + mod + '::{%s}::%s' % (hdr, fn), inherent=bool(trait), level='L1', **kw)
    FNS.append(f)
    return f


def setter(mod, name, fn, param, valid, fresh_new, tag=None, panics=1, **kw):
    """`&mut self -> &mut Self` builder: REJECT iff !valid; the object becomes fresh(final parameters)"""
    tag = tag or 'C18.%s.%s' % (mod, fn)
    ens = []
    if valid != 'true':
        ens.append(tag + '.valid:: ' + valid)
    ens += [tag + '.fresh:: *r == ' + fresh_new, tag + '.ret:: *final(r) == *final(self)']
    return m(mod, name, fn, ret='r', valid=valid, panics={k: 'REJECT' for k in range(1, panics + 1)} if valid != 'true' else {},
             ensures=ens, **kw)


# ------------------------------------------------------------------ Normal
dist('normal', 'Normal')
m('normal', 'Normal', 'new', ret='r', valid='rv(sigma) >= 0real', panics={1: 'REJECT'},
  ensures=['C18.normal.new.valid:: rv(sigma) >= 0real', 'C18.normal.new.fresh:: r == fresh_normal(mu, sigma)'])
setter('normal', 'Normal', 'set_mu', 'mu', 'true', 'fresh_normal(mu, old(self).sigma)')
setter('normal', 'Normal', 'set_sigma', 'sigma', 'rv(sigma) >= 0real', 'fresh_normal(old(self).mu, sigma)')
m('normal', 'Normal', 'update', trait='Distribution1D', valid='rv(params@[1]) >= 0real',
  requires=['C18.normal.update.len:: params@.len() >= 2'],
  ensures=['C18.normal.update.valid:: rv(params@[1]) >= 0real',
           'C18.normal.update.fresh:: *final(self) == fresh_normal(params@[0], params@[1])'])
m('normal', 'Normal', 'pdf', trait='Continuous', ret='r',
  ensures=['C02.normal.pdf.formula:: rv(self.sigma) > 0real ==> rv(r) == 1real / (rv(self.sigma) * r_sqrt(2real * r_pi())) * r_exp(-(sq((rv(x) - rv(self.mu)) / rv(self.sigma))) / 2real)'],
  pre_body='proof { if rv(self.sigma) > 0real { lemma_mul_pos(rv(self.sigma), r_sqrt(2real * r_pi())); } }')
m('normal', 'Normal', 'ln_pdf', trait='Continuous', ret='r',
  ensures=['C02.normal.ln_pdf.formula:: rv(self.sigma) > 0real ==> rv(r) == -(sq((rv(x) - rv(self.mu)) / rv(self.sigma))) / 2real - r_ln(rv(self.sigma) * r_sqrt(2real * r_pi()))'])
m('normal', 'Normal', 'mean', trait='Mean', ret='r', ensures=['C02.normal.mean:: r == self.mu'])
m('normal', 'Normal', 'var', trait='Variance', ret='r', ensures=['C02.normal.var:: rv(r) == rv(self.sigma) * rv(self.sigma)'])

# ------------------------------------------------------------------ Uniform
dist('uniform', 'Uniform')
m('uniform', 'Uniform', 'new', ret='r', valid='rv(lower) <= rv(upper)', panics={1: 'REJECT'},
  ensures=['C18.uniform.new.valid:: rv(lower) <= rv(upper)', 'C18.uniform.new.fresh:: r == fresh_uniform(lower, upper)'])
setter('uniform', 'Uniform', 'set_lower', 'lower', 'rv(lower) <= rv(old(self).upper)', 'fresh_uniform(lower, old(self).upper)')
setter('uniform', 'Uniform', 'set_upper', 'upper', 'rv(old(self).lower) <= rv(upper)', 'fresh_uniform(old(self).lower, upper)')
m('uniform', 'Uniform', 'update', trait='Distribution1D', valid='rv(params@[0]) <= rv(params@[1])', panics={1: 'REJECT'},
  requires=['C18.uniform.update.len:: params@.len() >= 2'],
  ensures=['C18.uniform.update.valid:: rv(params@[0]) <= rv(params@[1])',
           'C18.uniform.update.fresh:: *final(self) == fresh_uniform(params@[0], params@[1])'])
m('uniform', 'Uniform', 'pdf', trait='Continuous', ret='r',
  ensures=['C02.uniform.pdf.support:: (rv(x) < rv(self.lower) || rv(x) > rv(self.upper)) ==> rv(r) == 0real',
           'C02.uniform.pdf.formula:: rv(self.lower) < rv(self.upper) && rv(self.lower) <= rv(x) <= rv(self.upper) ==> rv(r) == 1real / (rv(self.upper) - rv(self.lower))'])
m('uniform', 'Uniform', 'mean', trait='Mean', ret='r', ensures=['C02.uniform.mean:: rv(r) == (rv(self.lower) + rv(self.upper)) / 2real'])
m('uniform', 'Uniform', 'var', trait='Variance', ret='r',
  ensures=['C02.uniform.var:: rv(r) == sq(rv(self.upper) - rv(self.lower)) / 12real'])

# ------------------------------------------------------------------ Exponential
dist('exponential', 'Exponential')
m('exponential', 'Exponential', 'new', ret='r', valid='rv(lambda) > 0real', panics={1: 'REJECT'},
  ensures=['C18.exponential.new.valid:: rv(lambda) > 0real', 'C18.exponential.new.fresh:: r == fresh_exponential(lambda)'])
setter('exponential', 'Exponential', 'set_lambda', 'lambda', 'rv(lambda) > 0real', 'fresh_exponential(lambda)',
       requires=['C18.exponential.inv:: old(self).rng == fresh_uniform(0.0f64, 1.0f64)'])
m('exponential', 'Exponential', 'update', trait='Distribution1D', valid='rv(params@[0]) > 0real',
  requires=['C18.exponential.update.len:: params@.len() >= 1', 'C18.exponential.update.inv:: old(self).rng == fresh_uniform(0.0f64, 1.0f64)'],
  ensures=['C18.exponential.update.valid:: rv(params@[0]) > 0real',
           'C18.exponential.update.fresh:: *final(self) == fresh_exponential(params@[0])'])
m('exponential', 'Exponential', 'pdf', trait='Continuous', ret='r',
  ensures=['C02.exponential.pdf.support:: rv(x) < 0real ==> rv(r) == 0real',
           'C02.exponential.pdf.formula:: rv(x) >= 0real ==> rv(r) == rv(self.lambda) * r_exp(-(rv(self.lambda) * rv(x)))'],
  pre_body='proof { lemma_neg_mul(rv(self.lambda), rv(x)); }')
m('exponential', 'Exponential', 'mean', trait='Mean', ret='r', ensures=['C02.exponential.mean:: rv(self.lambda) > 0real ==> rv(r) == 1real / rv(self.lambda)'])
m('exponential', 'Exponential', 'var', trait='Variance', ret='r',
  ensures=['C02.exponential.var:: rv(self.lambda) > 0real ==> rv(r) == 1real / (rv(self.lambda) * rv(self.lambda))'],
  pre_body='proof { if rv(self.lambda) > 0real { lemma_mul_pos(rv(self.lambda), rv(self.lambda)); } }')

# ------------------------------------------------------------------ Gamma
dist('gamma', 'Gamma')
GAMMA_FN = Fn('functions::gamma::gamma', ret='r', level='L1', ensures=['A.gamma:: rv(r) == r_gamma(rv(z))'])
STUBS += [GAMMA_FN]
BETA_FN = Fn('functions::gamma::beta', ret='r', level='L1', ensures=['C02.beta_fn:: r_gamma(rv(a) + rv(b)) != 0real ==> rv(r) == r_beta(rv(a), rv(b))'])
FNS.append(BETA_FN)
GV = 'rv(alpha) > 0real && rv(beta) > 0real'
m('gamma', 'Gamma', 'new', ret='r', valid=GV, panics={1: 'REJECT'},
  ensures=['C18.gamma.new.valid:: ' + GV, 'C18.gamma.new.fresh:: r == fresh_gamma(alpha, beta)'])
GINV = 'old(self).normal_gen == fresh_normal(0.0f64, 1.0f64) && old(self).uniform_gen == fresh_uniform(0.0f64, 1.0f64)'
setter('gamma', 'Gamma', 'set_alpha', 'alpha', 'rv(alpha) > 0real', 'fresh_gamma(alpha, old(self).beta)', requires=['C18.gamma.inv:: ' + GINV])
setter('gamma', 'Gamma', 'set_beta', 'beta', 'rv(beta) > 0real', 'fresh_gamma(old(self).alpha, beta)', requires=['C18.gamma.inv:: ' + GINV])
m('gamma', 'Gamma', 'update', trait='Distribution1D', valid='rv(params@[0]) > 0real && rv(params@[1]) > 0real',
  requires=['C18.gamma.update.len:: params@.len() >= 2', 'C18.gamma.update.inv:: ' + GINV],
  ensures=['C18.gamma.update.valid:: rv(params@[0]) > 0real && rv(params@[1]) > 0real',
           'C18.gamma.update.fresh:: *final(self) == fresh_gamma(params@[0], params@[1])'])
m('gamma', 'Gamma', 'pdf', trait='Continuous', ret='r',
  ensures=['C02.gamma.pdf.support:: rv(x) <= 0real ==> rv(r) == 0real',
           'C02.gamma.pdf.formula:: rv(x) > 0real && rv(self.alpha) > 0real ==> rv(r) == r_pow(rv(self.beta), rv(self.alpha)) / r_gamma(rv(self.alpha)) * r_pow(rv(x), rv(self.alpha) - 1real) * r_exp(-(rv(self.beta) * rv(x)))'],
  pre_body='proof { lemma_neg_mul(rv(self.beta), rv(x)); if rv(self.alpha) > 0real { ax_gamma_pos(rv(self.alpha)); } }')
m('gamma', 'Gamma', 'mean', trait='Mean', ret='r', ensures=['C02.gamma.mean:: rv(self.beta) > 0real ==> rv(r) == rv(self.alpha) / rv(self.beta)'])
m('gamma', 'Gamma', 'var', trait='Variance', ret='r',
  ensures=['C02.gamma.var:: rv(self.beta) > 0real ==> rv(r) == rv(self.alpha) / (rv(self.beta) * rv(self.beta))'],
  pre_body='proof { if rv(self.beta) > 0real { lemma_mul_pos(rv(self.beta), rv(self.beta)); } }')

# ------------------------------------------------------------------ Beta
dist('beta', 'Beta')
m('beta', 'Beta', 'new', ret='r', valid=GV, panics={1: 'REJECT'},
  ensures=['C18.beta.new.valid:: ' + GV, 'C18.beta.new.fresh:: r == fresh_beta(alpha, beta)'])
BINV = '*old(self) == fresh_beta(old(self).alpha, old(self).beta)'
setter('beta', 'Beta', 'set_alpha', 'alpha', 'rv(alpha) > 0real', 'fresh_beta(alpha, old(self).beta)', requires=['C18.beta.inv:: ' + BINV])
setter('beta', 'Beta', 'set_beta', 'beta', 'rv(beta) > 0real', 'fresh_beta(old(self).alpha, beta)', requires=['C18.beta.inv:: ' + BINV])
m('beta', 'Beta', 'update', trait='Distribution1D', valid='rv(params@[0]) > 0real && rv(params@[1]) > 0real',
  requires=['C18.beta.update.len:: params@.len() >= 2', 'C18.beta.update.inv:: ' + BINV],
  ensures=['C18.beta.update.valid:: rv(params@[0]) > 0real && rv(params@[1]) > 0real',
           'C18.beta.update.fresh:: *final(self) == fresh_beta(params@[0], params@[1])'])
m('beta', 'Beta', 'pdf', trait='Continuous', ret='r',
  ensures=['C02.beta.pdf.support:: (rv(x) < 0real || rv(x) > 1real) ==> rv(r) == 0real',
           'C02.beta.pdf.formula:: 0real <= rv(x) <= 1real && rv(self.alpha) > 0real && rv(self.beta) > 0real ==> rv(r) == r_pow(rv(x), rv(self.alpha) - 1real) * r_pow(1real - rv(x), rv(self.beta) - 1real) / r_beta(rv(self.alpha), rv(self.beta))'],
  pre_body='proof { if rv(self.alpha) > 0real && rv(self.beta) > 0real { let a = rv(self.alpha); let b = rv(self.beta); ax_gamma_pos(a); ax_gamma_pos(b); ax_gamma_pos(a + b); lemma_mul_pos(r_gamma(a), r_gamma(b)); lemma_div_pos(r_gamma(a) * r_gamma(b), r_gamma(a + b)); } }')
m('beta', 'Beta', 'mean', trait='Mean', ret='r',
  ensures=['C02.beta.mean:: rv(self.alpha) + rv(self.beta) > 0real ==> rv(r) == rv(self.alpha) / (rv(self.alpha) + rv(self.beta))'])
m('beta', 'Beta', 'var', trait='Variance', ret='r',
  ensures=['C02.beta.var:: rv(self.alpha) > 0real && rv(self.beta) > 0real ==> rv(r) == (rv(self.alpha) * rv(self.beta)) / (sq(rv(self.alpha) + rv(self.beta)) * (rv(self.alpha) + rv(self.beta) + 1real))'],
  pre_body='proof { if rv(self.alpha) > 0real && rv(self.beta) > 0real { let s = rv(self.alpha) + rv(self.beta); lemma_mul_pos(s, s); lemma_mul_pos(s * s, s + 1real); } }')

# ------------------------------------------------------------------ ChiSquared
dist('chi_squared', 'ChiSquared')
m('chi_squared', 'ChiSquared', 'new', ret='r', valid='dof > 0', panics={1: 'REJECT'},
  ensures=['C18.chi.new.valid:: dof > 0', 'C18.chi.new.fresh:: r == fresh_chi(dof)'])
setter('chi_squared', 'ChiSquared', 'set_dof', 'dof', 'dof > 0', 'fresh_chi(dof)')
m('chi_squared', 'ChiSquared', 'update', trait='Distribution1D', valid='f_to_int(params@[0]) > 0', float_casts=(1,),
  requires=['C18.chi.update.len:: params@.len() >= 1', 'C18.chi.update.range:: 0 <= f_to_int(params@[0]) <= usize::MAX'],
  ensures=['C18.chi.update.valid:: f_to_int(params@[0]) > 0', 'C18.chi.update.fresh:: *final(self) == fresh_chi(f_to_int(params@[0]) as usize)'])
m('chi_squared', 'ChiSquared', 'pdf', trait='Continuous', ret='r',
  ensures=['C02.chi.pdf.support:: rv(x) < 0real || (self.dof == 1 && rv(x) == 0real) ==> rv(r) == 0real',
           'C02.chi.pdf.formula:: (rv(x) > 0real || (rv(x) == 0real && self.dof != 1)) && self.dof > 0 ==> rv(r) == 1real / (r_pow(2real, (self.dof as real) / 2real) * r_gamma((self.dof as real) / 2real)) * r_pow(rv(x), (self.dof as real) / 2real - 1real) * r_exp(-(rv(x) / 2real))'],
  hints=[('1. / (', 'before', 'proof { if self.dof > 0 { ax_gamma_pos((self.dof as real) / 2real); ax_pow_pos(2real, (self.dof as real) / 2real); lemma_mul_pos(r_pow(2real, (self.dof as real) / 2real), r_gamma((self.dof as real) / 2real)); } }')])
m('chi_squared', 'ChiSquared', 'mean', trait='Mean', ret='r', ensures=['C02.chi.mean:: rv(r) == self.dof as real'])
m('chi_squared', 'ChiSquared', 'var', trait='Variance', ret='r', ensures=['C02.chi.var:: rv(r) == 2real * (self.dof as real)'])

# ------------------------------------------------------------------ T
dist('t', 'T')
m('t', 'T', 'new', ret='r', valid='rv(dof) > 0real', panics={1: 'REJECT'},
  ensures=['C18.t.new.valid:: rv(dof) > 0real', 'C18.t.new.fresh:: r == (T { dof: dof })'])
setter('t', 'T', 'set_dof', 'dof', 'rv(dof) > 0real', '(T { dof: dof })')
m('t', 'T', 'update', trait='Distribution1D', valid='rv(params@[0]) > 0real', requires=['C18.t.update.len:: params@.len() >= 1'],
  ensures=['C18.t.update.valid:: rv(params@[0]) > 0real', 'C18.t.update.fresh:: *final(self) == (T { dof: params@[0] })'])
m('t', 'T', 'pdf', trait='Continuous', ret='r',
  ensures=['C02.t.pdf.formula:: rv(self.dof) > 0real ==> rv(r) == r_gamma((rv(self.dof) + 1real) / 2real) / (r_sqrt(rv(self.dof) * r_pi()) * r_gamma(rv(self.dof) / 2real)) * r_pow(1real + sq(rv(x)) / rv(self.dof), -((rv(self.dof) + 1real) / 2real))'],
  pre_body='proof { if rv(self.dof) > 0real { lemma_mul_pos(rv(self.dof), r_pi()); ax_gamma_pos(rv(self.dof) / 2real); lemma_mul_pos(r_sqrt(rv(self.dof) * r_pi()), r_gamma(rv(self.dof) / 2real)); } }')
m('t', 'T', 'mean', trait='Mean', ret='r', ensures=['C02.t.mean:: rv(self.dof) > 1real ==> rv(r) == 0real', 'C02.t.mean.undefined:: rv(self.dof) <= 1real ==> r == f_nan()'])
m('t', 'T', 'var', trait='Variance', ret='r', ensures=['C02.t.var:: rv(self.dof) > 2real ==> rv(r) == rv(self.dof) / (rv(self.dof) - 2real)',
                                                         'C02.t.var.inf:: 1real < rv(self.dof) <= 2real ==> r == f_inf()', 'C02.t.var.undefined:: rv(self.dof) <= 1real ==> r == f_nan()'],
  rewrites=[(r'(\([^()&|]*\)) & (\([^()&|]*\))', r'\1 && \2',
             'R23: non-short-circuit `&` on two pure bool comparisons equals `&&` (Verus rejects `&` on bool)', 're')])

# ------------------------------------------------------------------ Pareto
dist('pareto', 'Pareto')
PV = 'rv(alpha) > 0real && rv(minval) > 0real'
m('pareto', 'Pareto', 'new', ret='r', valid=PV, panics={1: 'REJECT'},
  ensures=['C18.pareto.new.valid:: ' + PV, 'C18.pareto.new.fresh:: r == (Pareto { alpha: alpha, minval: minval })'])
setter('pareto', 'Pareto', 'set_alpha', 'alpha', 'rv(alpha) > 0real', '(Pareto { alpha: alpha, minval: old(self).minval })')
setter('pareto', 'Pareto', 'set_minval', 'minval', 'rv(minval) > 0real', '(Pareto { alpha: old(self).alpha, minval: minval })')
m('pareto', 'Pareto', 'update', trait='Distribution1D', valid='params@.len() == 2 && rv(params@[0]) > 0real && rv(params@[1]) > 0real',
  panics={1: 'REJECT'},
  ensures=['C18.pareto.update.valid:: params@.len() == 2 && rv(params@[0]) > 0real && rv(params@[1]) > 0real',
           'C18.pareto.update.fresh:: *final(self) == (Pareto { alpha: params@[0], minval: params@[1] })'])
m('pareto', 'Pareto', 'pdf', trait='Continuous', ret='r',
  ensures=['C02.pareto.pdf.support:: rv(x) < rv(self.minval) ==> rv(r) == 0real',
           'C02.pareto.pdf.formula:: rv(x) >= rv(self.minval) && rv(self.minval) > 0real ==> rv(r) == rv(self.alpha) * r_pow(rv(self.minval), rv(self.alpha)) / r_pow(rv(x), rv(self.alpha) + 1real)'],
  pre_body='proof { if rv(x) > 0real { ax_pow_pos(rv(x), rv(self.alpha) + 1real); ax_pow_pos(rv(x), rv(self.alpha) - 1real); } }')
m('pareto', 'Pareto', 'mean', trait='Mean', ret='r',
  ensures=['C02.pareto.mean:: rv(self.alpha) > 1real ==> rv(r) == rv(self.alpha) * rv(self.minval) / (rv(self.alpha) - 1real)',
           'C02.pareto.mean.inf:: rv(self.alpha) <= 1real ==> r == f_inf()'])
m('pareto', 'Pareto', 'var', trait='Variance', ret='r',
  ensures=['C02.pareto.var:: rv(self.alpha) > 2real ==> rv(r) == sq(rv(self.minval)) * rv(self.alpha) / (sq(rv(self.alpha) - 1real) * (rv(self.alpha) - 2real))',
           'C02.pareto.var.inf:: rv(self.alpha) <= 2real ==> r == f_inf()'],
  pre_body='proof { if rv(self.alpha) > 2real { let a1 = rv(self.alpha) - 1real; lemma_mul_pos(a1, a1); lemma_mul_pos(a1 * a1, rv(self.alpha) - 2real); } }')

# ------------------------------------------------------------------ Gumbel
dist('gumbel', 'Gumbel')
CONSTS = [D + 'gumbel::EULER_MASCHERONI', D + 'gumbel::PISQ6']
m('gumbel', 'Gumbel', 'new', ret='r', valid='rv(beta) > 0real', panics={1: 'REJECT'},
  ensures=['C18.gumbel.new.valid:: rv(beta) > 0real', 'C18.gumbel.new.fresh:: r == fresh_gumbel(mu, beta)'])
GUINV = 'old(self).uniform_gen == fresh_uniform(0.0f64, 1.0f64)'
setter('gumbel', 'Gumbel', 'set_mu', 'mu', 'true', 'fresh_gumbel(mu, old(self).beta)', requires=['C18.gumbel.inv:: ' + GUINV])
setter('gumbel', 'Gumbel', 'set_beta', 'beta', 'rv(beta) > 0real', 'fresh_gumbel(old(self).mu, beta)', requires=['C18.gumbel.inv:: ' + GUINV])
m('gumbel', 'Gumbel', 'update', trait='Distribution1D', valid='rv(params@[1]) > 0real',
  requires=['C18.gumbel.update.len:: params@.len() >= 2', 'C18.gumbel.update.inv:: ' + GUINV],
  ensures=['C18.gumbel.update.valid:: rv(params@[1]) > 0real',
           'C18.gumbel.update.fresh:: *final(self) == fresh_gumbel(params@[0], params@[1])'])
m('gumbel', 'Gumbel', 'pdf', trait='Continuous', ret='r',
  ensures=['C02.gumbel.pdf.formula:: rv(self.beta) > 0real ==> ({ let z = (rv(x) - rv(self.mu)) / rv(self.beta); rv(r) == 1real / rv(self.beta) * r_exp(-(z + r_exp(-z))) })'])
m('gumbel', 'Gumbel', 'mean', trait='Mean', ret='r',
  ensures=['C02.gumbel.mean:: rv(r) == rv(self.mu) + rv(self.beta) * rv(k_EULER_MASCHERONI())',
           'C02.gumbel.euler_constant:: 0.5772156649015328real < rv(k_EULER_MASCHERONI()) < 0.5772156649015329real'])
m('gumbel', 'Gumbel', 'var', trait='Variance', ret='r',
  ensures=['C02.gumbel.var:: rv(r) == (r_pi() * r_pi() / 6real) * (rv(self.beta) * rv(self.beta))'])

# ------------------------------------------------------------------ Bernoulli
dist('bernoulli', 'Bernoulli')
BV = '0real <= rv(p) <= 1real'
m('bernoulli', 'Bernoulli', 'new', ret='r', valid=BV, panics={1: 'REJECT'},
  ensures=['C18.bernoulli.new.valid:: ' + BV, 'C18.bernoulli.new.fresh:: r == (Bernoulli { p: p })'])
setter('bernoulli', 'Bernoulli', 'set_p', 'p', BV, '(Bernoulli { p: p })')
m('bernoulli', 'Bernoulli', 'update', trait='Distribution1D', valid='0real <= rv(params@[0]) <= 1real',
  requires=['C18.bernoulli.update.len:: params@.len() >= 1'],
  ensures=['C18.bernoulli.update.valid:: 0real <= rv(params@[0]) <= 1real', 'C18.bernoulli.update.fresh:: *final(self) == (Bernoulli { p: params@[0] })'])
m('bernoulli', 'Bernoulli', 'pmf', trait='Discrete', ret='r',
  ensures=['C02.bernoulli.pmf:: rv(r) == (if k == 0 { 1real - rv(self.p) } else if k == 1 { rv(self.p) } else { 0real })'])
m('bernoulli', 'Bernoulli', 'mean', trait='Mean', ret='r', ensures=['C02.bernoulli.mean:: rv(r) == rv(self.p)'])
m('bernoulli', 'Bernoulli', 'var', trait='Variance', ret='r', ensures=['C02.bernoulli.var:: rv(r) == rv(self.p) * (1real - rv(self.p))'])

# ------------------------------------------------------------------ DiscreteUniform
dist('discreteuniform', 'DiscreteUniform')
m('discreteuniform', 'DiscreteUniform', 'new', ret='r', valid='lower <= upper', panics={1: 'REJECT'},
  ensures=['C18.du.new.valid:: lower <= upper', 'C18.du.new.fresh:: r == (DiscreteUniform { lower: lower, upper: upper })'])
setter('discreteuniform', 'DiscreteUniform', 'set_lower', 'lower', 'lower <= old(self).upper', '(DiscreteUniform { lower: lower, upper: old(self).upper })')
setter('discreteuniform', 'DiscreteUniform', 'set_upper', 'upper', 'old(self).lower <= upper', '(DiscreteUniform { lower: old(self).lower, upper: upper })')
m('discreteuniform', 'DiscreteUniform', 'update', trait='Distribution1D', valid='f_to_int(params@[0]) <= f_to_int(params@[1])', panics={1: 'REJECT'}, float_casts=(1, 2),
  requires=['C18.du.update.len:: params@.len() >= 2', 'C18.du.update.range:: i64::MIN <= f_to_int(params@[0]) <= i64::MAX && i64::MIN <= f_to_int(params@[1]) <= i64::MAX'],
  ensures=['C18.du.update.valid:: f_to_int(params@[0]) <= f_to_int(params@[1])',
           'C18.du.update.fresh:: *final(self) == (DiscreteUniform { lower: f_to_int(params@[0]) as i64, upper: f_to_int(params@[1]) as i64 })'])
m('discreteuniform', 'DiscreteUniform', 'pmf', trait='Discrete', ret='r',
  requires=['C02.du.range:: self.lower <= self.upper && self.upper - self.lower < 0x7fff_ffff_ffff_ffff'],
  ensures=['C02.du.pmf.support:: (x < self.lower || x > self.upper) ==> rv(r) == 0real',
           'C02.du.pmf.formula:: self.lower <= x <= self.upper ==> rv(r) == 1real / ((self.upper - self.lower + 1) as real)'])
m('discreteuniform', 'DiscreteUniform', 'mean', trait='Mean', ret='r',
  requires=['C02.du.mean.range:: -0x3fff_ffff_ffff_ffff <= self.lower <= self.upper <= 0x3fff_ffff_ffff_ffff'],
  ensures=['C02.du.mean:: rv(r) * 2real == (self.lower + self.upper) as real'])
m('discreteuniform', 'DiscreteUniform', 'var', trait='Variance', ret='r',
  requires=['C02.du.var.range:: self.lower <= self.upper && self.upper - self.lower < 0x7fff_ffff_ffff_ffff'],
  ensures=['C02.du.var:: rv(r) * 12real == sq((self.upper - self.lower + 1) as real) - 1real'])

# ------------------------------------------------------------------ Poisson
dist('poisson', 'Poisson')
m('poisson', 'Poisson', 'new', ret='r', valid='rv(lambda) > 0real', panics={1: 'REJECT'},
  ensures=['C18.poisson.new.valid:: rv(lambda) > 0real', 'C18.poisson.new.fresh:: r == (Poisson { lambda: lambda })'])
setter('poisson', 'Poisson', 'set_lambda', 'lambda', 'rv(lambda) > 0real', '(Poisson { lambda: lambda })')
m('poisson', 'Poisson', 'update', trait='Distribution1D', valid='rv(params@[0]) > 0real', requires=['C18.poisson.update.len:: params@.len() >= 1'],
  ensures=['C18.poisson.update.valid:: rv(params@[0]) > 0real', 'C18.poisson.update.fresh:: *final(self) == (Poisson { lambda: params@[0] })'])
m('poisson', 'Poisson', 'pmf', trait='Discrete', ret='r', requires=['C02.poisson.range:: k <= 0x7fff_ffff'],
  ensures=['C02.poisson.pmf.support:: k < 0 ==> rv(r) == 0real',
           'C02.poisson.pmf.formula:: k >= 0 ==> rv(r) == r_powi(rv(self.lambda), k as int) * r_exp(-rv(self.lambda)) / r_gamma((k + 1) as real)'],
  pre_body='proof { if k >= 0 { ax_gamma_pos((k + 1) as real); } }')
m('poisson', 'Poisson', 'mean', trait='Mean', ret='r', ensures=['C02.poisson.mean:: r == self.lambda'])
m('poisson', 'Poisson', 'var', trait='Variance', ret='r', ensures=['C02.poisson.var:: r == self.lambda'])

# ------------------------------------------------------------------ Binomial
dist('binomial', 'Binomial')
m('binomial', 'Binomial', 'new', ret='r', valid=BV, panics={1: 'REJECT'},
  ensures=['C18.binomial.new.valid:: ' + BV, 'C18.binomial.new.fresh:: r == (Binomial { n: n, p: p })'])
setter('binomial', 'Binomial', 'set_n', 'n', 'true', '(Binomial { n: n, p: old(self).p })')
setter('binomial', 'Binomial', 'set_p', 'p', BV, '(Binomial { n: old(self).n, p: p })')
BINOM_FN = Fn('functions::combinatorial::binom_coeff', ret='r', level='L1', ensures=['A.binom_coeff:: r == binom_fn(n, k)'])
STUBS.append(BINOM_FN)
m('binomial', 'Binomial', 'update', trait='Distribution1D', valid=BV.replace('rv(p)', 'rv(params@[1])'), float_casts=(1,),
  requires=['C18.binomial.update.len:: params@.len() >= 2', 'C18.binomial.update.range:: 0 <= f_to_int(params@[0]) <= u64::MAX'],
  ensures=['C18.binomial.update.valid:: ' + BV.replace('rv(p)', 'rv(params@[1])'), 'C18.binomial.update.fresh:: *final(self) == (Binomial { n: f_to_int(params@[0]) as u64, p: params@[1] })'])
m('binomial', 'Binomial', 'pmf', trait='Discrete', ret='r',
  requires=['C02.binomial.range:: self.n <= 0x7fff_ffff'],
  ensures=['C02.binomial.pmf.support:: (k < 0 || k > self.n) ==> rv(r) == 0real',
           'C02.binomial.pmf.formula:: 0 <= k <= self.n ==> rv(r) == (binom_fn(self.n, k as u64) as real) * r_powi(rv(self.p), k as int) * r_powi(1real - rv(self.p), self.n - k)'])
m('binomial', 'Binomial', 'mean', trait='Mean', ret='r', ensures=['C02.binomial.mean:: rv(r) == (self.n as real) * rv(self.p)'])
m('binomial', 'Binomial', 'var', trait='Variance', ret='r',
  ensures=['C02.binomial.var:: rv(r) == (self.n as real) * rv(self.p) * (1real - rv(self.p))'])

# ------------------------------------------------------------------ Default impls: the documented default parameters, accepted by `new` (never a panic)
DEFAULTS = [('normal', 'Normal', 'fresh_normal(0.0f64, 1.0f64)'), ('uniform', 'Uniform', 'fresh_uniform(0.0f64, 1.0f64)'), ('exponential', 'Exponential', 'fresh_exponential(1.0f64)'),
            ('gamma', 'Gamma', 'fresh_gamma(1.0f64, 1.0f64)'), ('beta', 'Beta', 'fresh_beta(1.0f64, 1.0f64)'), ('chi_squared', 'ChiSquared', 'fresh_chi(1usize)'),
            ('t', 'T', '(T { dof: 1.0f64 })'), ('pareto', 'Pareto', '(Pareto { alpha: 1.0f64, minval: 1.0f64 })'), ('gumbel', 'Gumbel', 'fresh_gumbel(0.0f64, 1.0f64)'),
            ('bernoulli', 'Bernoulli', '(Bernoulli { p: 0.5f64 })'), ('discreteuniform', 'DiscreteUniform', '(DiscreteUniform { lower: 0i64, upper: 1i64 })'),
            ('poisson', 'Poisson', '(Poisson { lambda: 1.0f64 })'), ('binomial', 'Binomial', '(Binomial { n: 1u64, p: 0.5f64 })')]
for _mod, _name, _fresh in DEFAULTS:
    m(_mod, _name, 'default', trait='Default', ret='r', ensures=['C18.%s.default:: r == %s' % (_mod, _fresh)])

UNITS = [
    Unit('C02_dist', ('C02', 'C18'), FNS, use=STUBS, types=TYPES, consts=CONSTS, spec=SPEC, type_spec=TYPE_SPEC, preludes=PRE, broadcast=BC, level='L1',
         notes='densities, masses, means and variances of 13 univariate laws against textbook formulas over the reals; '
               'constructors, setters and bulk updates against fresh(final parameters) with two-sided REJECT'),
]
