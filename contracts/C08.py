"""C08 — descriptive statistics equal their textbook definitions (L1; definitions stated division-free over the reals)."""
from vc.gen import Fn, Unit
from vc.nra import Lemma
from contracts import C04 as c04

PRE = ('fax_l0', 'fmeth', 'stdspec', 'l1')
BC = ('l0', 'l1_arith', 'l1_fun')
M = 'statistics::moments::'
CV = 'statistics::covariance::'

SPEC = c04.RSUM_SPEC + r'''
/// sum of squares over i < k
pub open spec fn rsq(x: Seq<f64>, k: int) -> real decreases k { if k <= 0 { 0real } else { rsq(x, k - 1) + rv(x[k - 1]) * rv(x[k - 1]) } }
/// sum of products over i < k
pub open spec fn rxy(x: Seq<f64>, y: Seq<f64>, k: int) -> real decreases k { if k <= 0 { 0real } else { rxy(x, y, k - 1) + rv(x[k - 1]) * rv(y[k - 1]) } }
/// Welford aggregate invariant after k observations, division-free:  k*mean = sum,  M2 = sum of squares - mean*sum
pub open spec fn welford_inv(x: Seq<f64>, k: int, count: usize, mean: f64, m2: f64) -> bool {
    count == k && (k as real) * rv(mean) == rsum(x, k) && rv(m2) == rsq(x, k) - rv(mean) * rsum(x, k)
}
/// n^2 * (population variance) = n * sum x^2 - (sum x)^2   (textbook definition, cleared of denominators)
pub open spec fn is_var(x: Seq<f64>, v: real, d: real) -> bool {
    let n = x.len() as int; v * d * (n as real) == (n as real) * rsq(x, n) - rsum(x, n) * rsum(x, n)
}
/// n * d * cov = n * sum xy - sum x * sum y   (d = n: population, d = n - 1: sample)
pub open spec fn is_cov(x: Seq<f64>, y: Seq<f64>, c: real, d: real) -> bool {
    let n = x.len() as int; c * d * (n as real) == (n as real) * rxy(x, y, n) - rsum(x, n) * rsum(y, n)
}
'''

NRA = [
    Lemma('nra_welford_step', 'k mean m2 x s q mean1 m21',
          ['(>= k 0)', '(= (* k mean) s)', '(= m2 (- q (* mean s)))', '(= mean1 (+ mean (/ (- x mean) (+ k 1))))', '(= m21 (+ m2 (* (- x mean) (- x mean1))))'],
          ['(= (* (+ k 1) mean1) (+ s x))', '(= m21 (- (+ q (* x x)) (* mean1 (+ s x))))']),
    Lemma('nra_var_from_m2', 'n mean m2 s q v d',
          ['(> n 0)', '(distinct d 0)', '(= (* n mean) s)', '(= m2 (- q (* mean s)))', '(= v (/ m2 d))'],
          ['(= (* (* v d) n) (- (* n q) (* s s)))']),
    Lemma('nra_mean', 'n s m', ['(> n 0)', '(= m (/ s n))'], ['(= (* n m) s)']),
]

welford_update = Fn(M + 'welford_update', ret='r', level='L1',
                    requires=['C08.welford.machine:: existing_aggregate.0 < 0x7fff_ffff'],
                    ensures=['C08.welford.count:: r.0 == existing_aggregate.0 + 1',
                             'C08.welford.step:: forall|x: Seq<f64>, k: int| #[trigger] welford_inv(x, k, existing_aggregate.0, existing_aggregate.1, existing_aggregate.2) && 0 <= k < x.len() && x[k] == *new_val '
                             '==> welford_inv(x, k + 1, r.0, r.1, r.2)'],
                    hints=[('(count, mean, m2)\n', 'replace',
                            '({ proof { assert forall|x: Seq<f64>, k: int| #[trigger] welford_inv(x, k, existing_aggregate.0, existing_aggregate.1, existing_aggregate.2) && 0 <= k < x.len() && x[k] == *new_val implies welford_inv(x, k + 1, count, mean, m2) by { '
                            'nra_welford_step(k as real, rv(existing_aggregate.1), rv(existing_aggregate.2), rv(*new_val), rsum(x, k), rsq(x, k), rv(mean), rv(m2)); } } (count, mean, m2) })\n')])
welford_statistics = Fn(M + 'welford_statistics', ret='r', level='L1', requires=['C08.welford.machine:: data@.len() < 0x7fff_ffff'],
                        ensures=['C08.welford.stats:: welford_inv(data@, data@.len() as int, r.0, r.1, r.2)'],
                        loops={1: {'iter_name': 'it', 'invariant': ['C08.welford.inv:: welford_inv(data@, it.index@, aggregate.0, aggregate.1, aggregate.2)', 'it.index@ <= data@.len()', 'data@.len() < 0x7fff_ffff'],
                                   'body_start': 'assert(*i == data@[it.index@]); assert(it.index@ < data@.len()); assert(aggregate.0 == it.index@);'}})
MACH = 'C08.machine:: 0 < data@.len() < 0x7fff_ffff'
welford_mean = Fn(M + 'welford_mean', ret='r', level='L1', requires=[MACH],
                  ensures=['C08.welford_mean:: (data@.len() as real) * rv(r) == rsum(data@, data@.len() as int)'])
var = Fn(M + 'var', ret='r', level='L1', requires=[MACH],
         ensures=['C08.var.def:: is_var(data@, rv(r), data@.len() as real)'],
         hints=[('m2 / cast_f64(count)', 'before', 'proof { nra_var_from_m2(data@.len() as real, rv(_welford.1), rv(m2), rsum(data@, data@.len() as int), rsq(data@, data@.len() as int), rv(f_div(m2, f_of_int(count as int))), count as real); }')],
         rewrites=[('let (count, _, m2) = welford_statistics(data);', 'let _welford = welford_statistics(data); let (count, _, m2) = _welford;',
                    'RX: name the tuple so the proof hint can refer to its middle component')])
sample_var = Fn(M + 'sample_var', ret='r', level='L1', requires=['C08.machine.sample:: 1 < data@.len() < 0x7fff_ffff'],
                ensures=['C08.sample_var.def:: is_var(data@, rv(r), data@.len() as real - 1real)'],
                hints=[('m2 / cast_f64((count - 1))', 'before', 'proof { nra_var_from_m2(data@.len() as real, rv(_welford.1), rv(m2), rsum(data@, data@.len() as int), rsq(data@, data@.len() as int), rv(f_div(m2, f_of_int((count - 1) as int))), (count - 1) as real); }')],
                rewrites=[('let (count, _, m2) = welford_statistics(data);', 'let _welford = welford_statistics(data); let (count, _, m2) = _welford;',
                           'RX: name the tuple so the proof hint can refer to its middle component')])
mean = Fn(M + 'mean', ret='r', level='L1', requires=[MACH],
          ensures=['C08.mean.def:: (data@.len() as real) * rv(r) == rsum(data@, data@.len() as int)'],
          pre_body='proof { nra_mean(data@.len() as real, rsum(data@, data@.len() as int), rsum(data@, data@.len() as int) / (data@.len() as real)); }')
std = Fn(M + 'std', ret='r', level='L1', requires=[MACH],
         ensures=['C08.std.def:: exists|v: f64| is_var(data@, rv(v), data@.len() as real) && rv(r) == r_sqrt(rv(v))'])
sample_std = Fn(M + 'sample_std', ret='r', level='L1', requires=['C08.machine.sample:: 1 < data@.len() < 0x7fff_ffff'],
                ensures=['C08.sample_std.def:: exists|v: f64| is_var(data@, rv(v), data@.len() as real - 1real) && rv(r) == r_sqrt(rv(v))'])

UNITS = [
    Unit('C08_moments', 'C08', [welford_update, welford_statistics, welford_mean, var, sample_var, mean, std, sample_std], use=[c04.vsum_fn],
         spec=SPEC, nra=NRA, preludes=PRE, broadcast=BC, level='L1',
         notes='Welford aggregate invariant (division-free) through every step; mean, population / sample variance and standard deviations '
               'equal their textbook definitions over the reals; the polynomial step identities are discharged by z3 + cvc5 (QF_NRA)'),
]

# ---------------------------------------------------------------- covariance (two-pass forms)
COV_SPEC = r'''
/// sum over i < k of (x_i - mx)(y_i - my)
pub open spec fn rcxy(x: Seq<f64>, y: Seq<f64>, mx: real, my: real, k: int) -> real decreases k {
    if k <= 0 { 0real } else { rcxy(x, y, mx, my, k - 1) + (rv(x[k - 1]) - mx) * (rv(y[k - 1]) - my) }
}
pub proof fn lemma_centered(x: Seq<f64>, y: Seq<f64>, mx: real, my: real, k: int) requires k >= 0
    ensures rcxy(x, y, mx, my, k) == rxy(x, y, k) - mx * rsum(y, k) - my * rsum(x, k) + (k as real) * (mx * my)
    decreases k
{
    if k <= 0 {
        assert(mx * 0real == 0real && my * 0real == 0real && 0real * (mx * my) == 0real) by(nonlinear_arith);
    }
    if k > 0 {
        lemma_centered(x, y, mx, my, k - 1);
        assert(((k - 1) as real) + 1real == (k as real));
        nra_centered_step(rv(x[k - 1]), rv(y[k - 1]), mx, my, rxy(x, y, k - 1), rsum(y, k - 1), rsum(x, k - 1), (k - 1) as real);
    }
}
/// the collected products are the centred products, hence their sum is rcxy
pub proof fn lemma_prod_sum(v: Seq<f64>, x: Seq<f64>, y: Seq<f64>, mx: f64, my: f64, k: int)
    requires 0 <= k <= v.len(), v.len() == x.len(), v.len() == y.len(),
             forall|i: int| 0 <= i < v.len() ==> #[trigger] v[i] == f_mul(f_sub(x[i], mx), f_sub(y[i], my))
    ensures rsum(v, k) == rcxy(x, y, rv(mx), rv(my), k)
    decreases k
{
    if k > 0 { lemma_prod_sum(v, x, y, mx, my, k - 1); assert(v[k - 1] == f_mul(f_sub(x[k - 1], mx), f_sub(y[k - 1], my))); }
}
'''
NRA_COV = [
    Lemma('nra_centered_step', 'xv yv mx my sxy sy sx k', [],
          ['(= (+ (- (- (+ sxy (* xv yv)) (* mx (+ sy yv))) (* my (+ sx xv))) (* (+ k 1) (* mx my))) (+ (+ (- (- sxy (* mx sy)) (* my sx)) (* k (* mx my))) (* (- xv mx) (- yv my))))']),
    Lemma('nra_cov_final', 'n d mx my sx sy sxy c tot',
          ['(> n 0)', '(distinct d 0)', '(= (* n mx) sx)', '(= (* n my) sy)', '(= tot (+ (- (- sxy (* mx sy)) (* my sx)) (* n (* mx my))))', '(= c (/ tot d))'],
          ['(= (* (* c d) n) (- (* n sxy) (* sx sy)))']),
]


def cov_fn(name, div, dspec, mach):
    hints = ('lemma_prod_sum(pv_, x@, y@, mean_x, mean_y, n as int); lemma_centered(x@, y@, rv(mean_x), rv(mean_y), n as int); '
             'nra_cov_final(n as real, %s, rv(mean_x), rv(mean_y), rsum(x@, n as int), rsum(y@, n as int), rxy(x@, y@, n as int), rv(f_div(tot_, f_of_int(%s as int))), rv(tot_));' % (dspec, div))
    return Fn(CV + name, ret='r', level='L1', valid='x@.len() == y@.len()', panics={1: 'REJECT'},
              requires=[mach],
              ensures=['C08.%s.valid:: x@.len() == y@.len()' % name, 'C08.%s.def:: is_cov(x@, y@, rv(r), %s)' % (name, dspec)],
              rewrites=[('(0..n).into_iter().map(|i|', 'let prods_: Vec<f64> = (0..n).into_iter().map(|i|', 'R6b: bind the collected products of `.map(..).sum()`'),
                        ('.sum::<f64>() / %s as f64' % div, '.collect::<Vec<f64>>(); let ghost pv_ = prods_@; let tot_ = vsum(prods_); proof { %s } tot_ / %s as f64' % (hints, div),
                         'R6b: `.sum::<f64>()` == vsum(collected), named so that proof hints can refer to it')],
              closures={1: {'params': 'i: usize', 'ret': 'o: f64', 'requires': ['i < n'],
                            'ensures': ['o == f_mul(f_sub(x@[i as int], mean_x), f_sub(y@[i as int], mean_y))']}})


MACH2 = 'C08.machine:: 0 < x@.len() < 0x7fff_ffff && 0 < y@.len() < 0x7fff_ffff'
MACH2S = 'C08.machine.sample:: 1 < x@.len() < 0x7fff_ffff && 1 < y@.len() < 0x7fff_ffff'
covariance = cov_fn('covariance', 'n', 'x@.len() as real', MACH2)
sample_covariance = cov_fn('sample_covariance', '(n - 1)', 'x@.len() as real - 1real', MACH2S)

UNITS.append(Unit('C08_covariance', 'C08', [covariance, sample_covariance], use=[mean], spec=SPEC + COV_SPEC, nra=NRA + NRA_COV, preludes=PRE, broadcast=BC, level='L1',
                  notes='population and sample covariance (two-pass) equal (sum xy - sum x sum y / n) / d over the reals'))

# ---------------------------------------------------------------- order statistics: min / max / argmin / argmax (rule R32: fold -> its defining loop)
O = 'statistics::order::'
ORDER_SPEC = r'''
pub open spec fn all_finite(d: Seq<f64>) -> bool { forall|k: int| 0 <= k < d.len() ==> finite(#[trigger] d[k]) }
'''
omax = Fn(O + 'max', ret='r', level='L1', requires=['C08.max.finite:: all_finite(data@)'],
          ensures=['C08.max.empty:: data@.len() == 0 ==> f_is_nan(r)',
                   'C08.max.attained:: data@.len() > 0 ==> exists|k: int| 0 <= k < data@.len() && r == #[trigger] data@[k]',
                   'C08.max.bound:: forall|k: int| 0 <= k < data@.len() ==> rv(#[trigger] data@[k]) <= rv(r)'],
          loops={1: {'invariant': ['all_finite(data@)', 'k_ == 0 ==> f_is_nan(acc)',
                                   'C08.max.prefix.attained:: k_ > 0 ==> exists|q: int| 0 <= q < k_ && acc == #[trigger] data@[q]',
                                   'C08.max.prefix.bound:: forall|q: int| 0 <= q < k_ ==> rv(#[trigger] data@[q]) <= rv(acc)'],
                     'body_start': 'assert(finite(data@[k_ as int]));'}})
omin = Fn(O + 'min', ret='r', level='L1', requires=['C08.min.finite:: all_finite(data@)'],
          ensures=['C08.min.empty:: data@.len() == 0 ==> f_is_nan(r)',
                   'C08.min.attained:: data@.len() > 0 ==> exists|k: int| 0 <= k < data@.len() && r == #[trigger] data@[k]',
                   'C08.min.bound:: forall|k: int| 0 <= k < data@.len() ==> rv(#[trigger] data@[k]) >= rv(r)'],
          loops={1: {'invariant': ['all_finite(data@)', 'k_ == 0 ==> f_is_nan(acc)',
                                   'C08.min.prefix.attained:: k_ > 0 ==> exists|q: int| 0 <= q < k_ && acc == #[trigger] data@[q]',
                                   'C08.min.prefix.bound:: forall|q: int| 0 <= q < k_ ==> rv(#[trigger] data@[q]) >= rv(acc)'],
                     'body_start': 'assert(finite(data@[k_ as int]));'}})
oargmax = Fn(O + 'argmax', ret='r', level='L1', requires=['C08.argmax.finite:: all_finite(data@)'],
             ensures=['C08.argmax.empty:: data@.len() == 0 ==> r == 0',
                      'C08.argmax.index:: data@.len() > 0 ==> r < data@.len()',
                      'C08.argmax.max:: forall|k: int| 0 <= k < data@.len() ==> rv(#[trigger] data@[k]) <= rv(data@[r as int])',
                      'C08.argmax.first:: forall|k: int| 0 <= k < r ==> rv(#[trigger] data@[k]) < rv(data@[r as int])'],
             loops={1: {'invariant': ['all_finite(data@)', 'acc.0 <= i', '(acc.0 < i && acc.1 == data@[acc.0 as int]) || (acc.0 == 0 && acc.1 == f_minval())',
                                      'C08.argmax.prefix.max:: forall|q: int| 0 <= q < i ==> rv(#[trigger] data@[q]) <= rv(acc.1)',
                                      'C08.argmax.prefix.first:: forall|q: int| 0 <= q < acc.0 ==> rv(#[trigger] data@[q]) < rv(acc.1)'],
                        'body_start': 'assert(finite(data@[i as int]));'}})
oargmin = Fn(O + 'argmin', ret='r', level='L1', requires=['C08.argmin.finite:: all_finite(data@)'],
             ensures=['C08.argmin.empty:: data@.len() == 0 ==> r == 0',
                      'C08.argmin.index:: data@.len() > 0 ==> r < data@.len()',
                      'C08.argmin.min:: forall|k: int| 0 <= k < data@.len() ==> rv(#[trigger] data@[k]) >= rv(data@[r as int])',
                      'C08.argmin.first:: forall|k: int| 0 <= k < r ==> rv(#[trigger] data@[k]) > rv(data@[r as int])'],
             loops={1: {'invariant': ['all_finite(data@)', 'acc.0 <= i', '(acc.0 < i && acc.1 == data@[acc.0 as int]) || (acc.0 == 0 && acc.1 == f_maxval())',
                                      'C08.argmin.prefix.min:: forall|q: int| 0 <= q < i ==> rv(#[trigger] data@[q]) >= rv(acc.1)',
                                      'C08.argmin.prefix.first:: forall|q: int| 0 <= q < acc.0 ==> rv(#[trigger] data@[q]) > rv(acc.1)'],
                        'body_start': 'assert(finite(data@[i as int]));'}})
UNITS.append(Unit('C08_order', 'C08', [omin, omax, oargmin, oargmax], spec=ORDER_SPEC, preludes=PRE, broadcast=BC + ('l1_minmax',), level='L1',
                  notes='min / max return an attained bound of the data (NaN on empty input), argmin / argmax the first index attaining it, for every finite data set; '
                        'the folds are verified as their defining loops (rule R32)'))

# ---------------------------------------------------------------- one-pass (shifted data) and online (Welford) covariance, histogram bin centres
ONE_SPEC = r'''
/// shifted sums after k observations:  sx = sum(x_i - x_0),  sy likewise,  sxy = sum (x_i - x_0)(y_i - y_0)
pub open spec fn shifted_inv(x: Seq<f64>, y: Seq<f64>, k: int, sx: real, sy: real, sxy: real) -> bool {
    sx == rsum(x, k) - (k as real) * rv(x[0]) && sy == rsum(y, k) - (k as real) * rv(y[0])
    && sxy == rxy(x, y, k) - rv(x[0]) * rsum(y, k) - rv(y[0]) * rsum(x, k) + (k as real) * (rv(x[0]) * rv(y[0]))
}
/// online co-moment after k observations (division-free): k*mx = sum x, k*my = sum y, k*c = k*sum xy - sum x * sum y
pub open spec fn online_inv(x: Seq<f64>, y: Seq<f64>, k: int, n: real, mx: real, my: real, c: real) -> bool {
    n == k as real && n * mx == rsum(x, k) && n * my == rsum(y, k) && n * c == n * rxy(x, y, k) - rsum(x, k) * rsum(y, k) && (k == 0 ==> c == 0real)
}
'''
NRA_ONE = [
    Lemma('nra_shift_step', 'k x0 y0 xv yv sx sy sxy sumx sumy rxyv',
          ['(= sx (- sumx (* k x0)))', '(= sy (- sumy (* k y0)))', '(= sxy (+ (- (- rxyv (* x0 sumy)) (* y0 sumx)) (* k (* x0 y0))))'],
          ['(= (+ sx (- xv x0)) (- (+ sumx xv) (* (+ k 1) x0)))', '(= (+ sy (- yv y0)) (- (+ sumy yv) (* (+ k 1) y0)))',
           '(= (+ sxy (* (- xv x0) (- yv y0))) (+ (- (- (+ rxyv (* xv yv)) (* x0 (+ sumy yv))) (* y0 (+ sumx xv))) (* (+ k 1) (* x0 y0))))']),
    Lemma('nra_shift_final', 'n x0 y0 sx sy sxy sumx sumy rxyv c',
          ['(> n 1)', '(= sx (- sumx (* n x0)))', '(= sy (- sumy (* n y0)))', '(= sxy (+ (- (- rxyv (* x0 sumy)) (* y0 sumx)) (* n (* x0 y0))))', '(= c (/ (- sxy (/ (* sx sy) n)) (- n 1)))'],
          ['(= (* (* c (- n 1)) n) (- (* n rxyv) (* sumx sumy)))']),
    Lemma('nra_online_step', 'k mx my c xv yv sumx sumy rxyv n1 mx1 my1 c1',
          ['(>= k 0)', '(or (> k 0) (= c 0))', '(or (> k 0) (= sumx 0))', '(or (> k 0) (= sumy 0))', '(or (> k 0) (= rxyv 0))', '(= (* k mx) sumx)', '(= (* k my) sumy)', '(= (* k c) (- (* k rxyv) (* sumx sumy)))', '(= n1 (+ k 1))',
           '(= mx1 (+ mx (/ (- xv mx) n1)))', '(= my1 (+ my (/ (- yv my) n1)))', '(= c1 (+ c (* (- xv mx) (- yv my1))))'],
          ['(= (* n1 mx1) (+ sumx xv))', '(= (* n1 my1) (+ sumy yv))', '(= (* n1 c1) (- (* n1 (+ rxyv (* xv yv))) (* (+ sumx xv) (+ sumy yv))))']),
    Lemma('nra_online_final', 'n c r', ['(> n 1)', '(= r (/ c (- n 1)))'], ['(= (* (* r (- n 1)) n) (* n c))']),
]
onepass = Fn(CV + 'sample_covariance_onepass', ret='r', level='L1', valid='x@.len() == y@.len()', panics={1: 'REJECT'}, requires=[MACH2S],
             ensures=['C08.onepass.valid:: x@.len() == y@.len()', 'C08.onepass.def:: is_cov(x@, y@, rv(r), x@.len() as real - 1real)'],
             loops={1: {'invariant': ['n == x@.len()', 'n == y@.len()', 'n > 1',
                                      'C08.onepass.sums:: shifted_inv(x@, y@, i as int, rv(sx), rv(sy), rv(sxy))'],
                        'body_ghost': 'let ghost (sx0, sy0, sxy0) = (rv(sx), rv(sy), rv(sxy));',
                        'body_end': ('nra_shift_step(i as real, rv(x@[0]), rv(y@[0]), rv(x@[i as int]), rv(y@[i as int]), sx0, sy0, sxy0, rsum(x@, i as int), rsum(y@, i as int), rxy(x@, y@, i as int)); '
                                     'assert(((i + 1) as real) == (i as real) + 1real);')}},
             hints=[('for i in 0..n', 'before', 'proof { assert(shifted_inv(x@, y@, 0, rv(sx), rv(sy), rv(sxy))) by { assert(0real * rv(x@[0]) == 0real && 0real * rv(y@[0]) == 0real && 0real * (rv(x@[0]) * rv(y@[0])) == 0real && rv(x@[0]) * 0real == 0real && rv(y@[0]) * 0real == 0real) by(nonlinear_arith); } }'),
                    ('(sxy - sx * sy / cast_f64(n)) / cast_f64((n - 1))', 'replace',
                     '({ let c_ = (sxy - sx * sy / cast_f64(n)) / cast_f64((n - 1)); proof { assert(((n - 1) as real) == (n as real) - 1real); '
                     'nra_shift_final(n as real, rv(x@[0]), rv(y@[0]), rv(sx), rv(sy), rv(sxy), rsum(x@, n as int), rsum(y@, n as int), rxy(x@, y@, n as int), rv(c_)); } c_ })')])
online = Fn(CV + 'sample_covariance_online', ret='r', level='L1', valid='x@.len() == y@.len()', panics={1: 'REJECT'}, requires=[MACH2S],
            ensures=['C08.online.valid:: x@.len() == y@.len()', 'C08.online.def:: is_cov(x@, y@, rv(r), x@.len() as real - 1real)'],
            rewrites=[('let dx = i - meanx;', 'let dx = *i - meanx;', 'R17: `&f64 - f64` is `*i - rhs`'), ('let dy = j - meany;', 'let dy = *j - meany;', 'R17'),
                      ('c += dx * (j - meany);', 'c += dx * (*j - meany);', 'R17')],
            loops={1: {'iter_name': 'it', 'invariant': ['x@.len() == y@.len()', 'C08.online.comoment:: online_inv(x@, y@, it.index@, rv(n), rv(meanx), rv(meany), rv(c))'],
                       'body_ghost': 'let ghost (n0, mx0, my0, c0) = (rv(n), rv(meanx), rv(meany), rv(c)); let ghost k_ = it.index@;',
                       'body_start': 'assert(*i == x@[k_]); assert(*j == y@[k_]);',
                       'body_end': ('assert(rv(n) == n0 + 1real); assert(rv(n) != 0real); '
                                    'nra_online_step(n0, mx0, my0, c0, rv(x@[k_]), rv(y@[k_]), rsum(x@, k_), rsum(y@, k_), rxy(x@, y@, k_), rv(n), rv(meanx), rv(meany), rv(c)); '
                                    'assert(((k_ + 1) as real) == (k_ as real) + 1real);')}},
            hints=[('for (i, j) in it: x.iter().zip(y.iter())', 'before', 'proof { assert(online_inv(x@, y@, 0, rv(n), rv(meanx), rv(meany), rv(c))) by { assert(0real * rv(meanx) == 0real && 0real * rv(meany) == 0real && 0real * rv(c) == 0real && 0real * 0real == 0real) by(nonlinear_arith); } }'),
                   ('c / (n - 1.)', 'replace', '({ let r_ = c / (n - 1.); proof { assert(rv(n) == x@.len() as real); nra_online_final(rv(n), rv(c), rv(r_)); } r_ })')])
hist = Fn('statistics::hist::hist_bin_centers', ret='r', level='L0', requires=['C08.hist.edges:: edges@.len() >= 1'],
          ensures=['C08.hist.count:: r.v@.len() == edges@.len() - 1',
                   'C08.hist.centres:: forall|i: int| 0 <= i < r.v@.len() ==> #[trigger] r.v@[i] == f_div(f_add(edges@[i], edges@[i + 1]), 2.0f64)'],
          rewrites=[('(0..edges.len() - 1).map(', 'Vector { v: (0..edges.len() - 1).map(', 'R26'), ('.collect()', '.collect::<Vec<f64>>() }', 'R26 (second half)')],
          closures={1: {'params': 'i: usize', 'ret': 'o: f64', 'requires': ['i + 1 < edges@.len()'], 'ensures': ['o == f_div(f_add(edges@[i as int], edges@[i + 1]), 2.0f64)']}})
from contracts import core as core_
UNITS.append(Unit('C08_onepass', 'C08', [onepass, online, hist], spec=SPEC + COV_SPEC + ONE_SPEC, nra=NRA_COV + NRA_ONE, preludes=PRE, broadcast=BC, level='L1',
                  types=['linalg::array::vec::{struct Vector}'],
                  fingerprints=[('linalg::array::vec::{impl FromIterator<f64> for Vector}::from_iter', '{ Self { v: Vec::from_iter(iter) } }')],
                  notes='the one-pass (shifted data) and online (Welford co-moment) sample covariances equal the definition for every data set; histogram bin centres are the midpoints of adjacent edges'))
