"""C11 — pivoted LU reconstructs the input: P A = L U entry by entry over the reals, for the in-place column-oriented loop with
partial pivoting (second contract of `lu`; the first, in C01.py, proves the permutation / bounded-multiplier facts)."""
from vc.gen import Fn, Unit
from vc.nra import Lemma
from contracts import core
from contracts import C15 as c15
from contracts import C01 as c01

PRE = ('fax_l0', 'fmeth', 'stdspec', 'l1')
BC = ('l0', 'l1_arith', 'l1_fun', 'ax_vec_from_refl', 'ax_f64_cloned')
LUP = c01.LUP

REC_SPEC = r'''
pub open spec fn imin(a: int, b: int) -> int { if a <= b { a } else { b } }
/// sum over k < kk of f[i,k] * f[k,c]
pub open spec fn lusum(f: Seq<f64>, n: int, i: int, c: int, kk: int) -> real decreases kk
{ if kk <= 0 { 0real } else { lusum(f, n, i, c, kk - 1) + rv(at2(f, n, i, kk - 1)) * rv(at2(f, n, kk - 1, c)) } }
pub proof fn lemma_lusum_frame(f: Seq<f64>, g: Seq<f64>, n: int, i: int, c: int, i2: int, kk: int)
    requires forall|k: int| 0 <= k < kk ==> #[trigger] at2(f, n, i, k) == at2(g, n, i2, k) && at2(f, n, k, c) == at2(g, n, k, c)
    ensures lusum(f, n, i, c, kk) == lusum(g, n, i2, c, kk)
    decreases kk
{ if kk > 0 { lemma_lusum_frame(f, g, n, i, c, i2, kk - 1); assert(at2(f, n, i, kk - 1) == at2(g, n, i2, kk - 1)); } }
/// entry (i,c) of L*U read off the compact storage (L = unit lower triangle, U = upper triangle incl. diagonal)
pub open spec fn lu_entry(f: Seq<f64>, n: int, i: int, c: int) -> real {
    lusum(f, n, i, c, imin(i, c)) + (if i <= c { rv(at2(f, n, i, c)) } else { rv(at2(f, n, c, c)) * rv(at2(f, n, i, c)) })
}
/// residual form: f[i,c] holds a[p_i,c] minus the already eliminated part
pub open spec fn resid(a: Seq<f64>, f: Seq<f64>, piv: Seq<i32>, n: int, i: int, c: int) -> bool {
    lusum(f, n, i, c, imin(i, c)) + rv(at2(f, n, i, c)) == rv(at2(a, n, piv[i] as int, c))
}
/// columns [0,j) of P A = L U hold (property C11)
pub open spec fn factored(a: Seq<f64>, f: Seq<f64>, piv: Seq<i32>, n: int, j: int) -> bool {
    forall|i: int, c: int| 0 <= i < n && 0 <= c < j ==> #[trigger] lu_entry(f, n, i, c) == rv(at2(a, n, piv[i] as int, c))
}
pub open spec fn untouched(a: Seq<f64>, f: Seq<f64>, piv: Seq<i32>, n: int, j: int) -> bool {
    forall|i: int, c: int| 0 <= i < n && j <= c < n ==> #[trigger] at2(f, n, i, c) == at2(a, n, piv[i] as int, c)
}
pub open spec fn col_resid(a: Seq<f64>, f: Seq<f64>, piv: Seq<i32>, n: int, j: int, lo: int, hi: int) -> bool {
    forall|i: int| lo <= i < hi ==> #[trigger] resid(a, f, piv, n, i, j)
}
pub open spec fn col_orig(a: Seq<f64>, f: Seq<f64>, piv: Seq<i32>, n: int, j: int, lo: int, hi: int) -> bool {
    forall|i: int| lo <= i < hi ==> #[trigger] at2(f, n, i, j) == at2(a, n, piv[i] as int, j)
}
pub open spec fn col_scaled(a: Seq<f64>, f: Seq<f64>, piv: Seq<i32>, n: int, j: int, lo: int, hi: int) -> bool {
    forall|i: int| lo <= i < hi ==> lusum(f, n, i, j, j) + rv(at2(f, n, j, j)) * rv(#[trigger] at2(f, n, i, j)) == rv(at2(a, n, piv[i] as int, j))
}
pub open spec fn rowswap(f0: Seq<f64>, f: Seq<f64>, n: int, p: int, j: int, k: int) -> bool {
    f.len() == f0.len() && forall|r: int, c: int| 0 <= r < n && 0 <= c < n ==> #[trigger] at2(f, n, r, c) ==
        (if c < k && r == p { at2(f0, n, j, c) } else if c < k && r == j { at2(f0, n, p, c) } else { at2(f0, n, r, c) })
}
pub open spec fn swap32(p0: Seq<i32>, a: int, b: int) -> Seq<i32> { p0.update(a, p0[b]).update(b, p0[a]) }
pub proof fn lemma_swap_preserves(a: Seq<f64>, f0: Seq<f64>, f: Seq<f64>, piv0: Seq<i32>, n: int, p: int, j: int)
    requires 0 <= j < p < n, piv0.len() == n, rowswap(f0, f, n, p, j, n),
             factored(a, f0, piv0, n, j), untouched(a, f0, piv0, n, j + 1), col_resid(a, f0, piv0, n, j, 0, n)
    ensures factored(a, f, swap32(piv0, p, j), n, j), untouched(a, f, swap32(piv0, p, j), n, j + 1), col_resid(a, f, swap32(piv0, p, j), n, j, 0, n)
{
    let piv = swap32(piv0, p, j);
    let src = |r: int| if r == p { j } else if r == j { p } else { r };
    assert forall|r: int| 0 <= r < n implies piv[r] == piv0[src(r)] by { }
    assert forall|i: int, c: int| 0 <= i < n && 0 <= c < j implies #[trigger] lu_entry(f, n, i, c) == rv(at2(a, n, piv[i] as int, c)) by {
        let i0 = src(i);
        assert forall|k: int| 0 <= k < imin(i, c) implies #[trigger] at2(f, n, i, k) == at2(f0, n, i0, k) && at2(f, n, k, c) == at2(f0, n, k, c) by { }
        lemma_lusum_frame(f, f0, n, i, c, i0, imin(i, c));
        assert(imin(i, c) == imin(i0, c));
        assert(at2(f, n, i, c) == at2(f0, n, i0, c));
        assert(at2(f, n, c, c) == at2(f0, n, c, c));
        assert((i <= c) == (i0 <= c));
        assert(lu_entry(f0, n, i0, c) == rv(at2(a, n, piv0[i0] as int, c)));
    }
    assert forall|i: int, c: int| 0 <= i < n && j + 1 <= c < n implies #[trigger] at2(f, n, i, c) == at2(a, n, piv[i] as int, c) by {
        let i0 = src(i);
        assert(at2(f, n, i, c) == at2(f0, n, i0, c));
        assert(at2(f0, n, i0, c) == at2(a, n, piv0[i0] as int, c));
    }
    assert forall|i: int| 0 <= i < n implies #[trigger] resid(a, f, piv, n, i, j) by {
        let i0 = src(i);
        assert forall|k: int| 0 <= k < imin(i, j) implies #[trigger] at2(f, n, i, k) == at2(f0, n, i0, k) && at2(f, n, k, j) == at2(f0, n, k, j) by { }
        lemma_lusum_frame(f, f0, n, i, j, i0, imin(i, j));
        assert(imin(i, j) == imin(i0, j));
        assert(at2(f, n, i, j) == at2(f0, n, i0, j));
        assert(resid(a, f0, piv0, n, i0, j));
    }
}
/// writing entry (wi, wj) leaves the factored columns [0,j) alone when wj >= j
pub proof fn lemma_factored_frame(a: Seq<f64>, f0: Seq<f64>, f: Seq<f64>, piv: Seq<i32>, n: int, j: int, wi: int, wj: int)
    requires factored(a, f0, piv, n, j), wj >= j, 0 <= j <= n,
             forall|r: int, c: int| 0 <= r < n && 0 <= c < n && !(r == wi && c == wj) ==> #[trigger] at2(f, n, r, c) == at2(f0, n, r, c)
    ensures factored(a, f, piv, n, j)
{
    assert forall|i: int, c: int| 0 <= i < n && 0 <= c < j implies #[trigger] lu_entry(f, n, i, c) == rv(at2(a, n, piv[i] as int, c)) by {
        assert forall|k: int| 0 <= k < imin(i, c) implies #[trigger] at2(f, n, i, k) == at2(f0, n, i, k) && at2(f, n, k, c) == at2(f0, n, k, c) by { }
        lemma_lusum_frame(f, f0, n, i, c, i, imin(i, c));
        assert(lu_entry(f0, n, i, c) == rv(at2(a, n, piv[i] as int, c)));
    }
}
/// writing entry (wi, j) keeps the residual / scaled form of the rows of column j that do not read it
pub proof fn lemma_resid_frame(a: Seq<f64>, f0: Seq<f64>, f: Seq<f64>, piv: Seq<i32>, n: int, j: int, wi: int, i: int)
    requires 0 <= j < n, 0 <= i < n, i != wi, wi >= imin(i, j),
             forall|r: int, c: int| 0 <= r < n && 0 <= c < n && !(r == wi && c == j) ==> #[trigger] at2(f, n, r, c) == at2(f0, n, r, c)
    ensures lusum(f, n, i, j, imin(i, j)) == lusum(f0, n, i, j, imin(i, j)), at2(f, n, i, j) == at2(f0, n, i, j)
{
    assert forall|k: int| 0 <= k < imin(i, j) implies #[trigger] at2(f, n, i, k) == at2(f0, n, i, k) && at2(f, n, k, j) == at2(f0, n, k, j) by { }
    lemma_lusum_frame(f, f0, n, i, j, i, imin(i, j));
}
'''
NRA = [Lemma('nra_div_cancel', 'c d q', ['(distinct d 0)', '(= q (/ c d))'], ['(= (* d q) c)'])]

A_ = 'matrix@'
CTX = ['lu@.len() == n * n', 'n * n == matrix@.len()', 'matrix@.len() <= 0x7fff_ffff', 'is_perm32(pivots@, n as int)']
FRAME1 = ('assert forall|r: int, c: int| 0 <= r < n && 0 <= c < n && !(r == {R} && c == j) implies #[trigger] at2(lu@, n as int, r, c) == at2(pre_lu, n as int, r, c) by '
          '{{ lemma_idx(r, c, n as int, n as int); if r * n + c == {R} * n + j {{ lemma_idx_inj(r, c, {R} as int, j as int, n as int); }} }} ')
lu_rec = Fn(LUP + 'lu', ret='r', level='L1', valid=c01.LUV, panics={1: 'REJECT'}, rewrites=[c01.UNWRAP_SQM],
            requires=['C11.machine:: matrix@.len() <= 0x7fff_ffff'],
            ensures=['C11.lu.valid:: ' + c01.LUV,
                     'C11.lu.reconstruct:: forall|n: int| 0 <= n && n * n == matrix@.len() ==> r.0@.len() == n * n && #[trigger] factored(matrix@, r.0@, r.1@, n, n)'],
            closures={1: {'params': 'x: usize', 'ret': 'o: i32', 'requires': ['x < n', 'n <= 0x7fff_ffff'], 'ensures': ['o == x']}},
            loops={
                1: {'invariant': CTX + ['C11.rec.cols_done:: factored(matrix@, lu@, pivots@, n as int, j as int)', 'C11.rec.cols_todo:: untouched(matrix@, lu@, pivots@, n as int, j as int)'],
                    'body_end': ('assert(col_resid(matrix@, lu@, pivots@, n as int, j as int, 0, j as int + 1)); '
                                 'assert forall|r: int| j < r < n implies lusum(lu@, n as int, r, j as int, j as int) + rv(at2(lu@, n as int, j as int, j as int)) * rv(#[trigger] at2(lu@, n as int, r, j as int)) == rv(at2(matrix@, n as int, pivots@[r] as int, j as int)) by { '
                                 'if rv(at2(lu@, n as int, j as int, j as int)) == 0real { assert(resid(matrix@, lu@, pivots@, n as int, r, j as int)); assert(imin(r, j as int) == j); '
                                 'assert(r_abs(rv(at2(lu@, n as int, r, j as int))) <= r_abs(rv(at2(lu@, n as int, j as int, j as int)))); assert(rv(at2(lu@, n as int, r, j as int)) == 0real); '
                                 'assert(rv(at2(lu@, n as int, j as int, j as int)) * rv(at2(lu@, n as int, r, j as int)) == 0real) by(nonlinear_arith) requires rv(at2(lu@, n as int, r, j as int)) == 0real; } } '
                                 'assert forall|i: int, c: int| 0 <= i < n && 0 <= c < j + 1 implies #[trigger] lu_entry(lu@, n as int, i, c) == rv(at2(matrix@, n as int, pivots@[i] as int, c)) by { '
                                 'if c == j { if i <= j { assert(resid(matrix@, lu@, pivots@, n as int, i, j as int)); } else { assert(imin(i, j as int) == j); assert(at2(lu@, n as int, i, j as int) == at2(lu@, n as int, i, j as int)); } } }')},
                2: {'invariant': CTX + ['0 <= j < n', 'C11.rec.done.i:: factored(matrix@, lu@, pivots@, n as int, j as int)', 'C11.rec.todo.i:: untouched(matrix@, lu@, pivots@, n as int, j as int + 1)',
                                        'C11.rec.col_resid:: col_resid(matrix@, lu@, pivots@, n as int, j as int, 0, i as int)',
                                        'C11.rec.col_orig:: col_orig(matrix@, lu@, pivots@, n as int, j as int, i as int, n as int)']},
                3: {'iter_name': 'kt', 'invariant': ['kt.iter.end == imin(i as int, j as int)', 'lu@.len() == n * n', 'n * n <= 0x7fff_ffff', '0 <= j < n', '0 <= i < n',
                                                      'C11.rec.partial_sum:: rv(s) == lusum(lu@, n as int, i as int, j as int, k as int)'],
                    'body_start': 'lemma_idx(i as int, k as int, n as int, n as int); lemma_idx(k as int, j as int, n as int, n as int);'},
                4: {'iter_name': 'it4', 'invariant': ['it4.iter.end == n', 'lu@.len() == n * n', 'n * n <= 0x7fff_ffff', '0 <= j < n', 'j <= p < n',
                                                       'C11.rec.pivot_max:: colmax(lu@, n as int, j as int, p as int, j as int, j + 1 + it4.index@)'],
                    'body_start': 'lemma_idx(i as int, j as int, n as int, n as int); lemma_idx(p as int, j as int, n as int, n as int);'},
                5: {'invariant': ['lu@.len() == n * n', 'n * n <= 0x7fff_ffff', '0 <= j < p < n', 'f0_.len() == n * n', 'C11.rec.rowswap:: rowswap(f0_, lu@, n as int, p as int, j as int, k as int)'],
                    'body_ghost': 'let ghost pre_lu = lu@;',
                    'body_start': 'lemma_idx(p as int, k as int, n as int, n as int); lemma_idx(j as int, k as int, n as int, n as int);',
                    'body_end': ('assert forall|r: int, c: int| 0 <= r < n && 0 <= c < n implies #[trigger] at2(lu@, n as int, r, c) == (if c == k && r == p { at2(pre_lu, n as int, j as int, k as int) } else if c == k && r == j { at2(pre_lu, n as int, p as int, k as int) } else { at2(pre_lu, n as int, r, c) }) by '
                                 '{ lemma_idx(r, c, n as int, n as int); if r * n + c == p * n + k { lemma_idx_inj(r, c, p as int, k as int, n as int); } if r * n + c == j * n + k { lemma_idx_inj(r, c, j as int, k as int, n as int); } }')},
                6: {'iter_name': 'it6', 'invariant': ['it6.iter.end == n'] + CTX + ['0 <= j < n', 'rv(at2(lu@, n as int, j as int, j as int)) != 0real',
                                        'C11.rec.done.s:: factored(matrix@, lu@, pivots@, n as int, j as int)', 'C11.rec.todo.s:: untouched(matrix@, lu@, pivots@, n as int, j as int + 1)',
                                        'C11.rec.upper:: col_resid(matrix@, lu@, pivots@, n as int, j as int, 0, j as int + 1)',
                                        'C11.rec.scaled:: col_scaled(matrix@, lu@, pivots@, n as int, j as int, j as int + 1, j + 1 + it6.index@)',
                                        'C11.rec.unscaled:: col_resid(matrix@, lu@, pivots@, n as int, j as int, j + 1 + it6.index@, n as int)'],
                    'body_ghost': 'let ghost pre_lu = lu@;',
                    'body_start': 'lemma_idx(i as int, j as int, n as int, n as int); lemma_idx(j as int, j as int, n as int, n as int);',
                    'body_end': (FRAME1.format(R='i') +
                                 'lemma_factored_frame(matrix@, pre_lu, lu@, pivots@, n as int, j as int, i as int, j as int); '
                                 'assert forall|r: int| 0 <= r < n && r != i implies lusum(lu@, n as int, r, j as int, imin(r, j as int)) == lusum(pre_lu, n as int, r, j as int, imin(r, j as int)) && #[trigger] at2(lu@, n as int, r, j as int) == at2(pre_lu, n as int, r, j as int) by '
                                 '{ lemma_resid_frame(matrix@, pre_lu, lu@, pivots@, n as int, j as int, i as int, r); } '
                                 'lemma_resid_frame(matrix@, pre_lu, lu@, pivots@, n as int, j as int, i as int, j as int); '
                                 'assert forall|k: int| 0 <= k < j implies #[trigger] at2(lu@, n as int, i as int, k) == at2(pre_lu, n as int, i as int, k) && at2(lu@, n as int, k, j as int) == at2(pre_lu, n as int, k, j as int) by { } '
                                 'lemma_lusum_frame(lu@, pre_lu, n as int, i as int, j as int, i as int, j as int); '
                                 'assert(resid(matrix@, pre_lu, pivots@, n as int, i as int, j as int)); assert(imin(i as int, j as int) == j); '
                                 'nra_div_cancel(rv(at2(pre_lu, n as int, i as int, j as int)), rv(at2(pre_lu, n as int, j as int, j as int)), rv(at2(lu@, n as int, i as int, j as int))); '
                                 'assert forall|r: int| j < r < i + 1 implies lusum(lu@, n as int, r, j as int, j as int) + rv(at2(lu@, n as int, j as int, j as int)) * rv(#[trigger] at2(lu@, n as int, r, j as int)) == rv(at2(matrix@, n as int, pivots@[r] as int, j as int)) by '
                                 '{ if r < i { assert(imin(r, j as int) == j); } } '
                                 'assert forall|r: int| 0 <= r < n && (r <= j || r > i) implies #[trigger] resid(matrix@, lu@, pivots@, n as int, r, j as int) by { assert(resid(matrix@, pre_lu, pivots@, n as int, r, j as int)); }')},
            },
            hints=[('let mut pivots: Vec<i32>', 'before', 'proof { assert(n <= 0x7fff_ffff) by(nonlinear_arith) requires n * n <= 0x7fff_ffff, n >= 0; }'),
                   ('for j in 0..n', 'before', 'proof { assert(lu@ =~= matrix@); assert(is_perm32(pivots@, n as int)); lemma_sq_unique(n as int, matrix@.len() as int); '
                    'assert forall|r: int, c: int| 0 <= r < n && 0 <= c < n implies #[trigger] at2(lu@, n as int, r, c) == at2(matrix@, n as int, pivots@[r] as int, c) by { } }'),
                   ('let mut s = 0.;', 'before', 'proof { assert(imin(i as int, j as int) <= n); }'),
                   ('lu[i * n + j] = lu[i * n + j] - (s);', 'pre', 'let ghost pre_lu = lu@; proof { lemma_idx(i as int, j as int, n as int, n as int); }'),
                   ('lu[i * n + j] = lu[i * n + j] - (s);', 'post',
                    'proof { ' + FRAME1.format(R='i') +
                    'lemma_factored_frame(matrix@, pre_lu, lu@, pivots@, n as int, j as int, i as int, j as int); '
                    'assert forall|r: int| 0 <= r < i implies #[trigger] resid(matrix@, lu@, pivots@, n as int, r, j as int) by { lemma_resid_frame(matrix@, pre_lu, lu@, pivots@, n as int, j as int, i as int, r); assert(resid(matrix@, pre_lu, pivots@, n as int, r, j as int)); } '
                    'assert forall|k: int| 0 <= k < imin(i as int, j as int) implies #[trigger] at2(lu@, n as int, i as int, k) == at2(pre_lu, n as int, i as int, k) && at2(lu@, n as int, k, j as int) == at2(pre_lu, n as int, k, j as int) by { } '
                    'lemma_lusum_frame(lu@, pre_lu, n as int, i as int, j as int, i as int, imin(i as int, j as int)); '
                    'assert(rv(s) == lusum(pre_lu, n as int, i as int, j as int, imin(i as int, j as int))); '
                    'assert(at2(pre_lu, n as int, i as int, j as int) == at2(matrix@, n as int, pivots@[i as int] as int, j as int)); '
                    'assert(rv(at2(lu@, n as int, i as int, j as int)) == rv(at2(pre_lu, n as int, i as int, j as int)) - rv(s)); '
                    'assert(resid(matrix@, lu@, pivots@, n as int, i as int, j as int)); '
                    'assert forall|r: int| i + 1 <= r < n implies #[trigger] at2(lu@, n as int, r, j as int) == at2(matrix@, n as int, pivots@[r] as int, j as int) by { assert(at2(pre_lu, n as int, r, j as int) == at2(matrix@, n as int, pivots@[r] as int, j as int)); } }'),
                   ('let mut p = j;', 'after', 'proof { assert(col_resid(matrix@, lu@, pivots@, n as int, j as int, 0, n as int)); lemma_idx(j as int, j as int, n as int, n as int); }'),
                   ('if p != j {', 'after', 'let ghost f0_ = lu@; let ghost piv0_ = pivots@; proof { assert(rowswap(f0_, lu@, n as int, p as int, j as int, 0)); }'),
                   ('pivots.swap(p, j);', 'before', 'proof { lemma_perm32_swap(pivots@, n as int, p as int, j as int); lemma_swap_preserves(matrix@, f0_, lu@, piv0_, n as int, p as int, j as int); }'),
                   ('pivots.swap(p, j);', 'after', 'proof { assert(pivots@ == swap32(piv0_, p as int, j as int)); '
                    'assert(colmax(lu@, n as int, j as int, j as int, j as int, n as int)) by { assert forall|r: int| j <= r < n implies r_abs(rv(#[trigger] at2(lu@, n as int, r, j as int))) <= r_abs(rv(at2(lu@, n as int, j as int, j as int))) by '
                    '{ let r0 = if r == p { j as int } else if r == j { p as int } else { r }; assert(at2(lu@, n as int, r, j as int) == at2(f0_, n as int, r0, j as int)); assert(at2(lu@, n as int, j as int, j as int) == at2(f0_, n as int, p as int, j as int)); '
                    'assert(r_abs(rv(at2(f0_, n as int, r0, j as int))) <= r_abs(rv(at2(f0_, n as int, p as int, j as int)))); } } }'),
                   ('if j < n && lu[j * n + j] != 0.', 'before',
                    'proof { lemma_idx(j as int, j as int, n as int, n as int); assert(colmax(lu@, n as int, j as int, j as int, j as int, n as int)); '
                    'assert(col_resid(matrix@, lu@, pivots@, n as int, j as int, 0, n as int)); }'),
                   ('\n                (lu, pivots)\n', 'replace', '\n proof { lemma_sq_unique(n as int, matrix@.len() as int); }\n (lu, pivots)\n')])
UNITS = [
    Unit('C11_lu_reconstruct', ('C11', 'C01'), [lu_rec], use=[c01.is_square], types=core.TYPES, type_spec=core.TYPE_SPEC,
         spec=c01.SPEC + c01.LU_SPEC + REC_SPEC, nra=NRA, preludes=PRE, broadcast=BC, level='L1', rlimit=300,
         notes='pivoted LU reconstructs the input: with L the unit lower triangle and U the upper triangle of the returned array and P the returned permutation, '
               '(L U)[i,c] = A[p_i, c] for every entry, through the residual / row-swap / scaling phases of every column (zero pivots included)'),
]

# contract-only view of `lu` for callers: the union of what the two units prove about it
lu_full = Fn(LUP + 'lu', ret='r', level='L1', valid=c01.LUV, requires=['C11.machine:: matrix@.len() <= 0x7fff_ffff'],
             ensures=['C11.lu.valid:: ' + c01.LUV, 'C11.lu.shape:: r.0@.len() == matrix@.len()',
                      'C11.lu.permutation:: forall|n: int| 0 <= n && n * n == matrix@.len() ==> is_perm32(r.1@, n)',
                      'C11.lu.l_bounded:: forall|n: int| 0 <= n && n * n == matrix@.len() ==> bounded(r.0@, n, n)',
                      'C11.lu.reconstruct:: forall|n: int| 0 <= n && n * n == matrix@.len() ==> r.0@.len() == n * n && #[trigger] factored(matrix@, r.0@, r.1@, n, n)'])

# ---------------------------------------------------------------- the same reconstruction contract for Matrix::lu (derived textually)
from contracts.core import IM


def _m(t):
    """slice-level proof text -> Matrix-level: the array is lu.data.v@, the input is self.data.v@"""
    return (t.replace('lu@', 'lu.data.v@').replace('matrix@', 'self.data.v@')
             .replace('lu[i * n + j] = lu[i * n + j] - (s);', 'lu[[i, j]] = lu[[i, j]] - (s);')
             .replace('if j < n && lu[j * n + j] != 0.', 'if j < n && lu[[j, j]] != 0.'))


SHP = 'lu.nrows == n && lu.ncols == n && wf(lu) && self.nrows == n && self.ncols == n && wf(*self)'


def _mloops(loops):
    out = {}
    for k, v in loops.items():
        d = {}
        for kk, vv in v.items():
            if kk == 'invariant':
                d[kk] = [SHP] + [_m(x).replace('lu.data.v@.len() == n * n', 'lu.data.v@.len() == n * n') for x in vv if x not in ('n * n == matrix@.len()', 'matrix@.len() <= 0x7fff_ffff')]
            elif isinstance(vv, str):
                d[kk] = _m(vv)
            else:
                d[kk] = vv
        out[k] = d
    return out


mlu_rec = Fn(IM + 'lu', ret='r', level='L1', valid='self.nrows == self.ncols', panics={1: 'REJECT'},
             requires=['C11.mlu.wf:: wf(*self)'],
             ensures=['C11.mlu.valid:: self.nrows == self.ncols',
                      'C11.mlu.reconstruct:: r.0.nrows == self.nrows && r.0.ncols == self.ncols && wf(r.0) && factored(self.data.v@, r.0.data.v@, r.1@, self.nrows as int, self.nrows as int)'],
             closures={1: {'params': 'x: usize', 'ret': 'o: i32', 'requires': ['x < n', 'n <= 0x7fff_ffff'], 'ensures': ['o == x']}},
             loops=_mloops(lu_rec.loops),
             hints=[('let mut pivots: Vec<i32>', 'before', 'proof { assert(n <= 0x7fff_ffff); }'),
                    ('for j in 0..n', 'before', 'proof { assert(is_perm32(pivots@, n as int)); '
                     'assert forall|r: int, c: int| 0 <= r < n && 0 <= c < n implies #[trigger] at2(lu.data.v@, n as int, r, c) == at2(self.data.v@, n as int, pivots@[r] as int, c) by { } }')] +
                   [(_m(a), pos, _m(txt)) for (a, pos, txt) in lu_rec.hints[2:-1]])
UNITS.append(Unit('C11_matrix_lu_reconstruct', ('C11', 'C01'), [mlu_rec], use=core.core_stubs(), types=core.TYPES, type_spec=core.TYPE_SPEC,
                  spec=c01.SPEC + c01.LU_SPEC + REC_SPEC, nra=NRA, preludes=PRE, broadcast=BC, level='L1', rlimit=300,
                  notes='Matrix::lu reconstructs the input: the same P A = L U contract as the slice-level routine, over the matrix data'))

# ---------------------------------------------------------------- permutation parity (integers only)
PAR_SPEC = c01.PERM_SPEC + r'''
pub open spec fn swap32(p0: Seq<i32>, a: int, b: int) -> Seq<i32> { p0.update(a, p0[b]).update(b, p0[a]) }
pub open spec fn apply_swaps(p: Seq<i32>, ts: Seq<(int, int)>) -> Seq<i32> decreases ts.len()
{ if ts.len() == 0 { p } else { swap32(apply_swaps(p, ts.drop_last()), ts.last().0, ts.last().1) } }
pub open spec fn m1(p: Seq<i32>, x: int) -> int { if p[x] != x { 1 } else { 0 } }
/// number of positions q < k that are not fixed points
pub open spec fn mis(p: Seq<i32>, k: int) -> int decreases k { if k <= 0 { 0 } else { mis(p, k - 1) + m1(p, k - 1) } }
pub proof fn lemma_mis_two(p: Seq<i32>, q: Seq<i32>, k: int, a: int, b: int)
    requires a != b, 0 <= k <= p.len(), p.len() == q.len(), forall|x: int| 0 <= x < p.len() && x != a && x != b ==> p[x] == q[x]
    ensures mis(q, k) == mis(p, k) + (if 0 <= a < k { m1(q, a) - m1(p, a) } else { 0 }) + (if 0 <= b < k { m1(q, b) - m1(p, b) } else { 0 }), 0 <= mis(p, k) <= k
    decreases k
{ if k > 0 { lemma_mis_two(p, q, k - 1, a, b); } }
pub proof fn lemma_mis_swap(p: Seq<i32>, n: int, i: int)
    requires is_perm32(p, n), 0 <= i < n, p[i] != i
    ensures mis(swap32(p, i, p[i] as int), n) < mis(p, n), 0 <= mis(swap32(p, i, p[i] as int), n)
{
    let j = p[i] as int;
    let q = swap32(p, i, j);
    assert(p[j] != j) by { if i < j { assert(p[i] != p[j]); } else { assert(p[j] != p[i]); } }
    lemma_mis_two(p, q, n, i, j);
    assert(q[j] == j);
    lemma_mis_two(q, q, n, i, j);
}

/// ts is a sequence of proper transpositions of positions that sorts p
pub open spec fn sorts(p: Seq<i32>, ts: Seq<(int, int)>) -> bool {
    (forall|k: int| 0 <= k < ts.len() ==> 0 <= (#[trigger] ts[k]).0 < p.len() && 0 <= ts[k].1 < p.len() && ts[k].0 != ts[k].1)
    && (forall|q: int| 0 <= q < p.len() ==> #[trigger] apply_swaps(p, ts)[q] == q) && apply_swaps(p, ts).len() == p.len()
}
/// the sign of a permutation: (-1)^(length of any decomposition into transpositions) - well defined by the parity theorem
pub open spec fn is_sign(p: Seq<i32>, s: i32) -> bool { exists|ts: Seq<(int, int)>| #[trigger] sorts(p, ts) && s == (if ts.len() % 2 == 0 { 1i32 } else { -1i32 }) }
'''
U_ = 'linalg::utils::'
parity = Fn(U_ + 'ipiv_parity', ret='r', level='int',
            requires=['C11.parity.perm:: is_perm32(ipiv@, ipiv@.len() as int) && ipiv@.len() <= 0x7fff_ffff'],
            ensures=['C11.parity.sign:: is_sign(ipiv@, r)'],
            rewrites=[('let mut par = 0;', 'let mut par: u32 = 0;', 'R4c: integer literal given the type rustc infers for it (u32, the exponent of i32::pow)')],
            loops={1: {'iter_name': 'it1', 'invariant': ['it1.iter.end == ipiv@.len()', 'perm@.len() == ipiv@.len()', 'ipiv@.len() <= 0x7fff_ffff', 'is_perm32(perm@, perm@.len() as int)',
                                     'C11.parity.prefix_fixed:: forall|q: int| 0 <= q < i ==> #[trigger] perm@[q] == q',
                                     'C11.parity.swaps:: apply_swaps(ipiv@, ts_) == perm@ && ts_.len() == par && par + mis(perm@, perm@.len() as int) <= perm@.len()',
                                     'forall|k: int| 0 <= k < ts_.len() ==> 0 <= (#[trigger] ts_[k]).0 < ipiv@.len() && 0 <= ts_[k].1 < ipiv@.len() && ts_[k].0 != ts_[k].1']},
                   2: {'invariant': ['perm@.len() == ipiv@.len()', 'ipiv@.len() <= 0x7fff_ffff', 'is_perm32(perm@, perm@.len() as int)', '0 <= i < perm@.len()',
                                     'C11.parity.prefix_fixed.w:: forall|q: int| 0 <= q < i ==> #[trigger] perm@[q] == q',
                                     'C11.parity.swaps.w:: apply_swaps(ipiv@, ts_) == perm@ && ts_.len() == par && par + mis(perm@, perm@.len() as int) <= perm@.len()',
                                     'forall|k: int| 0 <= k < ts_.len() ==> 0 <= (#[trigger] ts_[k]).0 < ipiv@.len() && 0 <= ts_[k].1 < ipiv@.len() && ts_[k].0 != ts_[k].1'],
                       'decreases': 'mis(perm@, perm@.len() as int)',
                       'body_ghost': 'let ghost pre_p = perm@;',
                       'body_start': 'lemma_mis_swap(perm@, perm@.len() as int, i as int); lemma_perm32_swap(perm@, perm@.len() as int, i as int, perm@[i as int] as int);',
                       'body_end': ('assert(perm@ == swap32(pre_p, i as int, pre_p[i as int] as int)); '
                                    'ts_ = ts_.push((i as int, pre_p[i as int] as int)); assert(ts_.drop_last() =~= old_ts_); '
                                    'assert forall|q: int| 0 <= q < i implies #[trigger] perm@[q] == q by { if pre_p[i as int] as int == q { assert(pre_p[q] != pre_p[i as int]); } }')}},
            hints=[('let mut par: u32 = 0;', 'after', 'let ghost mut ts_: Seq<(int, int)> = Seq::empty(); proof { assert(perm@ =~= ipiv@); lemma_mis_two(perm@, perm@, perm@.len() as int, 0, 1); }'),
                   ('let j = perm[i] as usize;', 'before', 'let ghost old_ts_ = ts_;'),
                   ('(-1_i32).pow(par)', 'replace', '({ proof { assert(sorts(ipiv@, ts_)); } (-1_i32).pow(par) })')])
UNITS.append(Unit('C11_parity', 'C11', [parity], types=core.TYPES, type_spec=core.TYPE_SPEC, spec=c15.SPEC + PAR_SPEC + c01.PERM_SWAP_LEMMA, preludes=('fax_l0', 'fmeth', 'stdspec'), broadcast=('l0',), level='int',
                  notes='ipiv_parity returns (-1)^k for a sequence of k proper transpositions that sorts the pivot permutation (its sign); the cycle-chasing loop terminates (misplaced positions decrease)'))


def c15_diag():
    from contracts import C15 as c15_
    return c15_.mdiag


def mlu_full():
    """contract-only view of Matrix::lu: union of what C11_matrix_lu and C11_matrix_lu_reconstruct prove"""
    return Fn(IM + 'lu', ret='r', level='L1', valid='self.nrows == self.ncols', requires=['C11.mlu.wf:: wf(*self)'],
              ensures=['C11.mlu.valid:: self.nrows == self.ncols',
                       'C11.mlu.shape:: r.0.nrows == self.nrows && r.0.ncols == self.ncols && wf(r.0)',
                       'C11.mlu.permutation:: is_perm32(r.1@, self.nrows as int)',
                       'C11.mlu.l_bounded:: bounded(r.0.data.v@, self.nrows as int, self.nrows as int)',
                       'C11.mlu.reconstruct:: factored(self.data.v@, r.0.data.v@, r.1@, self.nrows as int, self.nrows as int)'])

# ---------------------------------------------------------------- determinant = signed product of U's diagonal
DET_SPEC = r'''
/// product of the diagonal of the n x n array f
pub open spec fn diag_prod(f: Seq<f64>, n: int, k: int) -> real decreases k { if k <= 0 { 1real } else { diag_prod(f, n, k - 1) * rv(at2(f, n, k - 1, k - 1)) } }
pub proof fn lemma_rprod_diag(d: Seq<f64>, f: Seq<f64>, n: int, k: int)
    requires 0 <= k <= d.len(), forall|i: int| 0 <= i < d.len() ==> d[i] == at2(f, n, i, i)
    ensures rprod(d, k) == diag_prod(f, n, k)
    decreases k
{ if k > 0 { lemma_rprod_diag(d, f, n, k - 1); } }
/// det A = sign(P) * prod_i U[i,i] for some factorisation P A = L U produced by the pivoted elimination (property C11)
pub open spec fn det_witness(a: Matrix, r: f64, f: Seq<f64>, piv: Seq<i32>, s: i32) -> bool {
    f.len() == a.nrows * a.nrows && factored(a.data.v@, f, piv, a.nrows as int, a.nrows as int) && is_perm32(piv, a.nrows as int)
        && is_sign(piv, s) && rv(r) == diag_prod(f, a.nrows as int, a.nrows as int) * (s as real)
}
pub open spec fn is_det(a: Matrix, r: f64) -> bool { exists|f: Seq<f64>, piv: Seq<i32>, s: i32| #[trigger] det_witness(a, r, f, piv, s) }
'''
prod_u = Fn(U_ + 'prod', ret='r', level='L1', ensures=['C04.prod.def:: rv(r) == rprod(x@, x@.len() as int)'],
            rewrites=[('x.iter().product()', '({ let c_ = x.to_vec(); proof { assert(c_@ =~= x@); } vprod(c_) })', 'R6c: `slice.iter().product()` is the in-order product of the elements, i.e. vprod of a copy (std Product<&f64> for f64)')])
vprod_m = Fn(core.IV + 'prod', ret='r', level='L1', ensures=['C04.vec.prod.def:: rv(r) == rprod(self.v@, self.v@.len() as int)'])
det = Fn(IM + 'det', ret='r', level='L1', valid='self.nrows == self.ncols',
         requires=['C11.det.wf:: wf(*self)'],
         ensures=['C11.det.valid:: self.nrows == self.ncols', 'C11.det.signed_product:: is_det(*self, r)'],
         rewrites=[(r'lu\.diag\(\)\.prod\(\) ([*/]) ipiv_parity\(&p\) as f64',
                    r'({ let d_ = lu.diag(); let pr_ = d_.prod(); let s_ = ipiv_parity(&p); let out_ = pr_ \1 s_ as f64; '
                    r'proof { lemma_rprod_diag(d_.v@, lu.data.v@, self.nrows as int, self.nrows as int); assert(s_ == 1 || s_ == -1); let sr_ = rv(f_of_int(s_ as int)); assert(sr_ == (s_ as real)); if s_ == 1 { assert(sr_ == 1real); assert(rv(pr_) / 1real == rv(pr_) * 1real); } else { assert(sr_ == -1real); assert(rv(pr_) / (-1real) == rv(pr_) * (-1real)); } assert(rv(out_) == rv(pr_) * (s_ as real)); assert(det_witness(*self, out_, lu.data.v@, p@, s_)); } out_ })',
                    'R31: the result expression in A-normal form (operator kept verbatim: dividing by a sign +-1 equals multiplying by it)', 're')])
UNITS.append(Unit('C11_det', ('C11', 'C04'), [prod_u, vprod_m, det], use=core.core_stubs() + [c15_diag(), mlu_full(), parity], types=core.TYPES, type_spec=core.TYPE_SPEC,
                  spec=c01.SPEC + c01.LU_SPEC + REC_SPEC + PAR_SPEC + DET_SPEC, preludes=PRE, broadcast=BC, level='L1', rlimit=100,
                  notes='Matrix::det is the product of the diagonal of U times the sign of the pivot permutation for the factorisation P A = L U it computes; prod is the in-order product'))
