"""C01 — the Matrix right-hand-side variants of the Solve trait and Matrix::inv (column by column through the Vector variants)."""
from vc.gen import Fn, Unit
from contracts import core
from contracts import C01 as c01
from contracts import C15 as c15
from contracts import C15b as c15b
from contracts import C11tri as t
from contracts import C11rec as rec
from contracts import C11m as c11m
from contracts import C01solve as s1
from contracts.core import MAT, IM

PRE = ('fax_l0', 'fmeth', 'stdspec', 'l1')
BC = ('l0', 'l1_arith', 'l1_fun', 'ax_vec_from_refl', 'ax_f64_cloned')
MSM = MAT + '{impl Solve<Matrix> for Matrix}::'

MSYS_SPEC = r'''
/// column s of a row-major matrix with `w` columns and n rows
pub open spec fn colv(m: Seq<f64>, n: int, w: int, s: int) -> Seq<f64> { Seq::new(n as nat, |i: int| m[i * w + s]) }
/// every column of x satisfies the pivoted-LU solve equations of (f, piv) against the matching column of b
pub open spec fn cols_lu_solved(f: Seq<f64>, n: int, piv: Seq<i32>, b: Seq<f64>, x: Seq<f64>, w: int, upto: int) -> bool {
    forall|s: int| 0 <= s < upto ==> #[trigger] lu_solved(f, n, piv, colv(b, n, w, s), colv(x, n, w, s))
}
/// every column of x satisfies the Cholesky solve equations of l against the matching column of b
pub open spec fn cols_chol_solved(l: Seq<f64>, n: int, b: Seq<f64>, x: Seq<f64>, w: int, upto: int) -> bool {
    forall|s: int| 0 <= s < upto ==> #[trigger] chol_solved(l, n, colv(x, n, w, s), colv(b, n, w, s))
}
'''
SEG = 'solutions.v@.subrange(s * n_, (s + 1) * n_)'


def col_loop(done, valid, extra=()):
    """the column loop shared by lu_solve / cholesky_solve for a Matrix right-hand side"""
    return {1: {'invariant': ['wf(*self) && wf(*system)', 'system.nrows * system.ncols <= i32max()', 'system.ncols > 0 && system.nrows > 0'] + list(extra) + [
                              'solutions.v@.len() == i * system.nrows',
                              '(%s) || may_reject()' % valid, 'C01.msys.valid_seen:: i > 0 ==> (%s)' % valid,
                              'C01.msys.cols_eq:: forall|s: int| 0 <= s < i ==> #[trigger] %s' % done],
                'body_ghost': 'let ghost pre_s = solutions.v@; let ghost n_ = system.nrows as int; let ghost w_ = system.ncols as int;',
                'body_start': 'lemma_row(i as int, w_, n_);',
                'body_end': ''}}


LU_DONE = 'lu_solved(self.data.v@, system.nrows as int, pivots@, colv(system.data.v@, system.nrows as int, system.ncols as int, s), solutions.v@.subrange(s * system.nrows, (s + 1) * system.nrows))'
CH_DONE = 'chol_solved(self.data.v@, system.nrows as int, solutions.v@.subrange(s * system.nrows, (s + 1) * system.nrows), colv(system.data.v@, system.nrows as int, system.ncols as int, s))'

COL_IS = ('assert(x.v@ =~= colv(system.data.v@, n_, w_, i as int)) by { assert forall|q: int| 0 <= q < n_ implies x.v@[q] == colv(system.data.v@, n_, w_, i as int)[q] by { lemma_idx(q, i as int, n_, w_); } }')


def body_step(done_fmt):
    return ('proof { let ghost sol_ = s_.v@; assert(solutions.v@ =~= pre_s + sol_); '
            'assert forall|s: int| 0 <= s < i + 1 implies #[trigger] ' + done_fmt + ' by { lemma_row(s, i as int + 1, n_); '
            'if s < i { lemma_row(s, i as int, n_); assert(' + SEG + ' =~= pre_s.subrange(s * n_, (s + 1) * n_)); } else { assert(' + SEG + ' =~= sol_); } } }')


def tail_proof(pred):
    """proof about the value returned, in terms of the stacked column solutions only (sol_ is their ghost snapshot after the loop)"""
    return ('let ghost n_ = system.nrows as int; let ghost w_ = system.ncols as int; '
            'assert(w_ * n_ == n_ * w_) by(nonlinear_arith); lemma_mul_div(w_, n_); lemma_mul_div(n_, w_); '
            'assert(is_transpose(sol_, r_.data.v@, w_, n_)); '
            'assert forall|s: int| 0 <= s < w_ implies colv(r_.data.v@, n_, w_, s) =~= sol_.subrange(s * n_, (s + 1) * n_) by { lemma_row(s, w_, n_); '
            'assert forall|q: int| 0 <= q < n_ implies colv(r_.data.v@, n_, w_, s)[q] == sol_.subrange(s * n_, (s + 1) * n_)[q] by '
            '{ lemma_idx(q, s, n_, w_); lemma_idx(s, q, w_, n_); assert(at2(sol_, n_, s, q) == at2(r_.data.v@, w_, q, s)); } } '
            'assert(' + pred + ');')


TAIL_PRE = ('let ghost sol_ = solutions.v@; proof { let ghost n_ = system.nrows as int; let ghost w_ = system.ncols as int; '
            'assert(w_ * n_ == n_ * w_) by(nonlinear_arith); lemma_mul_div(w_, n_); lemma_mul_div(n_, w_); }')

VALID_M = 'self.nrows == self.ncols && self.nrows == system.nrows'
REQ_M = ['C01.msys.wf:: wf(*self) && wf(*system)', 'C01.msys.nonempty:: system.ncols > 0 && system.nrows > 0', 'C01.msys.machine:: system.nrows * system.ncols <= i32max()']

mlu_solve_m = Fn(MSM + 'lu_solve', ret='r', level='L1', inherent=True, name_as='lu_solve_m', valid=VALID_M,
                 requires=REQ_M + ['C01.mlu_solve_m.pivots:: is_perm32(pivots@, self.nrows as int)'],
                 ensures=['C01.mlu_solve_m.valid:: ' + VALID_M, 'C01.mlu_solve_m.shape:: r.nrows == system.nrows && r.ncols == system.ncols && wf(r)',
                          'C01.mlu_solve_m.columns:: cols_lu_solved(self.data.v@, system.nrows as int, pivots@, system.data.v@, r.data.v@, system.ncols as int, system.ncols as int)'],
                 loops=col_loop(LU_DONE, VALID_M, ['is_perm32(pivots@, self.nrows as int)']),
                 hints=[('for i in 0..system.ncols', 'before', 'proof { assert(0 * system.nrows == 0); }')],
                 tail=('r_', tail_proof('cols_lu_solved(self.data.v@, n_, pivots@, system.data.v@, r_.data.v@, w_, w_)'), TAIL_PRE),
                 rewrites=[('solutions.extend(self.lu_solve(pivots, &x));',
                            'proof { ' + COL_IS + ' } let s_ = self.lu_solve(pivots, &x); solutions.extend(s_); ' + body_step(LU_DONE.replace('system.nrows as int', 'n_').replace('system.ncols as int', 'w_').replace('system.nrows', 'n_')),
                            'R31: the column solution bound to a name')],
                 )
mchs_m = Fn(MSM + 'cholesky_solve', ret='r', level='L1', inherent=True, name_as='cholesky_solve_m', valid='lower_tri(*self) && self.nrows == system.nrows',
            requires=REQ_M + ['C01.mchs_m.square:: self.nrows == self.ncols && self.nrows > 0'],
            ensures=['C01.mchs_m.valid:: lower_tri(*self) && self.nrows == system.nrows', 'C01.mchs_m.shape:: r.nrows == system.nrows && r.ncols == system.ncols && wf(r)',
                     'C01.mchs_m.columns:: cols_chol_solved(self.data.v@, system.nrows as int, system.data.v@, r.data.v@, system.ncols as int, system.ncols as int)'],
            loops=col_loop(CH_DONE, 'lower_tri(*self) && self.nrows == system.nrows', ['self.nrows == self.ncols && self.nrows > 0']),
            hints=[('for i in 0..system.ncols', 'before', 'proof { assert(0 * system.nrows == 0); }')],
            tail=('r_', tail_proof('cols_chol_solved(self.data.v@, n_, system.data.v@, r_.data.v@, w_, w_)'), TAIL_PRE),
            rewrites=[('solutions.extend(self.cholesky_solve(&x));',
                       'proof { ' + COL_IS + ' } let s_ = self.cholesky_solve(&x); solutions.extend(s_); ' + body_step(CH_DONE.replace('system.nrows as int', 'n_').replace('system.ncols as int', 'w_').replace('system.nrows', 'n_')),
                       'R31: the column solution bound to a name')],
            )

SPEC = s1.SPEC + MSYS_SPEC
UNITS = [
    Unit('C01_matrix_sys', ('C01', 'C11'), [mlu_solve_m, mchs_m], use=core.core_stubs() + [c15.get_col, c15b.vext, c15.mt, t.mlu_solve, c11m.mchs], types=core.TYPES, type_spec=core.TYPE_SPEC,
         spec=SPEC + c15b.TRI_SPEC, preludes=PRE, broadcast=BC, level='L1', rlimit=100,
         notes='Solve<Matrix>::lu_solve / cholesky_solve: column c of the result satisfies the Vector-level solve equations against column c of the right-hand side '
               '(columns extracted, solved, appended, and the stack transposed back); mismatched systems rejected'),
]

# ---------------------------------------------------------------- Solve<Matrix>::solve (the LU route, several right-hand sides) and Matrix::inv
MINV_SPEC = r'''
/// one pivoted-LU factorisation of a solves every column: P A = L U, and column s of x satisfies the solve equations (and, over the
/// reals, every row of A x = b when no pivot is zero) against column s of b
pub open spec fn msys_lu_witness(a: Seq<f64>, n: int, b: Seq<f64>, x: Seq<f64>, w: int, f: Seq<f64>, piv: Seq<i32>) -> bool {
    f.len() == n * n && is_perm32(piv, n) && bounded(f, n, n) && factored(a, f, piv, n, n) && cols_lu_solved(f, n, piv, b, x, w, w)
        && (forall|s: int| 0 <= s < w ==> #[trigger] lu_exact(a, n, colv(b, n, w, s), colv(x, n, w, s), f, piv))
}
pub open spec fn msys_lu(a: Seq<f64>, n: int, b: Seq<f64>, x: Seq<f64>, w: int) -> bool {
    exists|f: Seq<f64>, piv: Seq<i32>| #[trigger] msys_lu_witness(a, n, b, x, w, f, piv)
}
pub open spec fn is_identity(m: Seq<f64>, n: int) -> bool {
    m.len() == n * n && forall|i: int, j: int| 0 <= i < n && 0 <= j < n ==> rv(#[trigger] at2(m, n, i, j)) == (if i == j { 1real } else { 0real })
}
/// r is the inverse computed column by column through the LU route: column c of r solves A x = e_c
pub open spec fn minverse_of(a: Seq<f64>, n: int, r: Seq<f64>) -> bool {
    exists|id: Seq<f64>| #[trigger] is_identity(id, n) && msys_lu(a, n, id, r, n)
}
'''
msolve_m = Fn(MSM + 'solve', ret='r', level='L1', inherent=True, name_as='solve_m', valid=VALID_M,
              requires=REQ_M,
              ensures=['C01.msolve_m.valid:: ' + VALID_M, 'C01.msolve_m.shape:: r.nrows == system.nrows && r.ncols == system.ncols && wf(r)',
                       'C01.msolve_m.lu_route:: msys_lu(self.data.v@, system.nrows as int, system.data.v@, r.data.v@, system.ncols as int)'],
              rewrites=[('lu.lu_solve(&piv, system)',
                         '({ let r_ = lu.lu_solve_m(&piv, system); proof { let ghost n_ = system.nrows as int; let ghost w_ = system.ncols as int; '
                         'assert forall|s: int| 0 <= s < w_ implies #[trigger] lu_exact(self.data.v@, n_, colv(system.data.v@, n_, w_, s), colv(r_.data.v@, n_, w_, s), lu.data.v@, piv@) by { '
                         'assert(lu_solved(lu.data.v@, n_, piv@, colv(system.data.v@, n_, w_, s), colv(r_.data.v@, n_, w_, s))); '
                         'lemma_lu_route_exact(self.data.v@, lu.data.v@, piv@, n_, colv(system.data.v@, n_, w_, s), colv(r_.data.v@, n_, w_, s)); } '
                         'assert(msys_lu_witness(self.data.v@, n_, system.data.v@, r_.data.v@, w_, lu.data.v@, piv@)); } r_ })',
                         'R31 + trait dispatch: the argument is a &Matrix, so this is Solve<Matrix>::lu_solve (emitted here under the name lu_solve_m)')])
minv = Fn(IM + 'inv', ret='r', level='L1', valid='self.nrows == self.ncols', panics={1: 'REJECT'},
          requires=['C01.minv.wf:: wf(*self) && self.nrows > 0', 'C01.minv.machine:: self.nrows * self.nrows <= i32max()'],
          ensures=['C01.minv.valid:: self.nrows == self.ncols', 'C01.minv.shape:: r.nrows == self.nrows && r.ncols == self.nrows && wf(r)',
                   'C01.minv.columns:: minverse_of(self.data.v@, self.nrows as int, r.data.v@)'],
          rewrites=[(r'self\.solve\(&Matrix::eye\(self\.(nrows|ncols)\)\)',
                     r'({ let id_ = Matrix::eye(self.\1); proof { let ghost n_ = self.nrows as int; assert(is_identity(id_.data.v@, n_)) by { '
                     r'assert forall|i: int, j: int| 0 <= i < n_ && 0 <= j < n_ implies rv(#[trigger] at2(id_.data.v@, n_, i, j)) == (if i == j { 1real } else { 0real }) by { } } } '
                     r'let r_ = self.solve_m(&id_); proof { assert(minverse_of(self.data.v@, self.nrows as int, r_.data.v@)); } r_ })',
                     'R31 + trait dispatch: the argument is a &Matrix, so this is Solve<Matrix>::solve (emitted here under the name solve_m)', 're')])
UNITS.append(Unit('C01_matrix_inv', ('C01', 'C11'), [msolve_m, minv], use=core.core_stubs() + [rec.mlu_full(), mlu_solve_m, c15.eye], types=core.TYPES, type_spec=core.TYPE_SPEC,
                  spec=SPEC + MINV_SPEC, preludes=PRE, broadcast=BC, level='L1', rlimit=100,
                  notes='Matrix::solve(&Matrix) is lu + the column-by-column lu_solve: one factorisation P A = L U, every column of the result satisfies the solve equations and (theorem_lu_solves) '
                        'every row of A x = b when no pivot is zero; Matrix::inv is that solve against Matrix::eye (non-square rejected)'))
