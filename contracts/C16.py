"""C16 — linear interpolation reproduces knots and honours the out-of-range mode (L1)."""
from vc.gen import Fn, Unit
from contracts import core
from contracts.core import VEC

PRE = ('fax_l0', 'fmeth', 'stdspec', 'l1')
BC = ('l0', 'l1_arith', 'l1_fun', 'ax_vec_from_refl')
I = 'functions::interpolate::'

SPEC = core.CORE_SPEC + r'''
/// strictly increasing abscissae (the property's hypothesis)
pub open spec fn increasing(x: Seq<f64>) -> bool { forall|i: int, j: int| 0 <= i < j < x.len() ==> rv(#[trigger] x[i]) < rv(#[trigger] x[j]) }
/// value at t on the straight line through knots m and m+1
pub open spec fn chord(x: Seq<f64>, y: Seq<f64>, m: int, t: real) -> real {
    rv(y[m]) + (rv(y[m + 1]) - rv(y[m])) * ((t - rv(x[m])) / (rv(x[m + 1]) - rv(x[m])))
}
pub open spec fn in_range(x: Seq<f64>, t: f64) -> bool { rv(x[0]) <= rv(t) <= rv(x[x.len() - 1]) }
/// what the property demands of the value r returned for target t
pub open spec fn interp_ok(x: Seq<f64>, y: Seq<f64>, t: f64, mode: ExtrapolationMode, r: f64) -> bool {
    let n = x.len() as int;
    &&& (rv(t) < rv(x[0]) ==> match mode {
            ExtrapolationMode::Panic => false,
            ExtrapolationMode::Fill(left, right) => r == left,
            ExtrapolationMode::Extrapolate => rv(r) == chord(x, y, 0, rv(t)) })
    &&& (rv(t) > rv(x[n - 1]) ==> match mode {
            ExtrapolationMode::Panic => false,
            ExtrapolationMode::Fill(left, right) => r == right,
            ExtrapolationMode::Extrapolate => rv(r) == chord(x, y, n - 2, rv(t)) })
    &&& (forall|m: int| 0 <= m < n - 1 && rv(#[trigger] x[m]) <= rv(t) && (rv(t) < rv(x[m + 1]) || (m == n - 2 && rv(t) == rv(x[n - 1])))
            ==> rv(r) == chord(x, y, m, rv(t)))
}
/// "at a knot returns that knot's ordinate exactly" follows from the chord form
pub proof fn lemma_knot(x: Seq<f64>, y: Seq<f64>, m: int) requires 0 <= m < x.len() - 1, rv(x[m]) < rv(x[m + 1])
    ensures chord(x, y, m, rv(x[m])) == rv(y[m]), chord(x, y, m, rv(x[m + 1])) == rv(y[m + 1])
{
    let d = rv(x[m + 1]) - rv(x[m]);
    assert(0real / d == 0real) by(nonlinear_arith) requires d > 0real;
    assert(d / d == 1real) by(nonlinear_arith) requires d > 0real;
    let dy = rv(y[m + 1]) - rv(y[m]);
    assert(dy * 0real == 0real) by(nonlinear_arith);
    assert(dy * 1real == dy) by(nonlinear_arith);
}
pub proof fn lemma_lerp(rho: real, y0: real, y1: real) ensures rho * y1 + (1real - rho) * y0 == y0 + (y1 - y0) * rho {
    assert(rho * y1 + (1real - rho) * y0 == y0 + (y1 - y0) * rho) by(nonlinear_arith);
}
pub proof fn lemma_extrap_left(s: real, x0: real, t: real, y0: real, dy: real, dx: real) requires dx != 0real, s == dy / dx
    ensures (-s) * (x0 - t) + y0 == y0 + dy * ((t - x0) / dx)
{
    assert((-(dy / dx)) * (x0 - t) + y0 == y0 + dy * ((t - x0) / dx)) by(nonlinear_arith) requires dx != 0real;
}
pub proof fn lemma_extrap_right(s: real, x1: real, x0: real, t: real, y1: real, y0: real) requires x1 - x0 != 0real, s == (y1 - y0) / (x1 - x0)
    ensures s * (t - x1) + y1 == y0 + (y1 - y0) * ((t - x0) / (x1 - x0))
{
    let dx = x1 - x0; let dy = y1 - y0;
    assert((dy / dx) * (t - x1) + y1 == y0 + dy * ((t - x0) / dx)) by(nonlinear_arith) requires dx == x1 - x0, dy == y1 - y0, dx != 0real;
}
'''

ALLIN = 'forall|q: int| 0 <= q < tgt@.len() ==> in_range(x@, #[trigger] tgt@[q])'
VALID_U = 'x@.len() == y@.len() && ((extrapolate is Panic) ==> (%s))' % ALLIN
unchecked = Fn(I + 'interp1d_linear_unchecked', ret='r', level='L1', valid=VALID_U, attrs=['#[verifier::loop_isolation(false)]'],
               requires=['C16.hyp.knots:: x@.len() >= 2', 'C16.hyp.machine:: x@.len() < usize::MAX'],
               ensures=['C16.valid:: ' + VALID_U,
                        'C16.len:: r.v@.len() == tgt@.len()',
                        'C16.value:: increasing(x@) ==> forall|q: int| 0 <= q < tgt@.len() ==> interp_ok(x@, y@, tgt@[q], extrapolate, #[trigger] r.v@[q])'],
               panics={1: 'REJECT', 2: 'REJECT'},
               loops={
                   1: {'invariant': ['n == x@.len()', 'n == y@.len()', 'k == tgt@.len()', 'n >= 2', 'interp.v@.len() == i',
                                     'C16.value.sofar:: increasing(x@) ==> forall|q: int| 0 <= q < i ==> interp_ok(x@, y@, tgt@[q], extrapolate, #[trigger] interp.v@[q])',
                                     '(extrapolate is Panic) ==> forall|q: int| 0 <= q < i ==> in_range(x@, #[trigger] tgt@[q])']},
                   2: {'invariant_except_break': ['idx == j'],
                       'invariant': ['n == x@.len()', 'n >= 2', '0 <= i < tgt@.len()', 'idx <= j', 'idx <= n - 1',
                                     'C16.scan.below:: forall|p: int| 0 <= p < idx ==> rv(#[trigger] x@[p]) <= rv(tgt@[i as int])'],
                       'ensures': ['idx <= n - 1', 'C16.scan.below.exit:: forall|p: int| 0 <= p < idx ==> rv(#[trigger] x@[p]) <= rv(tgt@[i as int])',
                                   'C16.scan.above:: idx < n - 1 ==> rv(x@[idx as int]) > rv(tgt@[i as int])']},
               },
               hints=[('ExtrapolationMode::Fill(left, right) => {', 'after', 'proof { assert(left == extrapolate->Fill_0); assert(right == extrapolate->Fill_1); assert(typed(left)); assert(typed(right)); }'),
                      ('let ratio =', 'before', 'proof { lemma_lerp((rv(tgt@[i as int]) - rv(x@[idx - 1])) / (rv(x@[idx as int]) - rv(x@[idx - 1])), rv(y@[idx - 1]), rv(y@[idx as int])); }'),
                      ('let slope = (y[1] - y[0]) / (x[1] - x[0]);', 'after', 'proof { if increasing(x@) { lemma_extrap_left(rv(slope), rv(x@[0]), rv(tgt@[i as int]), rv(y@[0]), rv(y@[1]) - rv(y@[0]), rv(x@[1]) - rv(x@[0])); } }'),
                      ('let slope = (y[n - 1] - y[n - 2]) / (x[n - 1] - x[n - 2]);', 'after', 'proof { if increasing(x@) { lemma_extrap_right(rv(slope), rv(x@[n - 1]), rv(x@[n - 2]), rv(tgt@[i as int]), rv(y@[n - 1]), rv(y@[n - 2])); } }')],
               rewrites=[('return interp;', 'interp', 'R24: trailing `return e;` is the tail expression `e`')])

SORTED = 'forall|p: int| 0 <= p < x@.len() - 1 ==> rv(x@[p + 1]) - rv(#[trigger] x@[p]) >= 0real'
checked = Fn(I + 'interp1d_linear', ret='r', level='L1', attrs=['#[verifier::loop_isolation(false)]'],
             valid='x@.len() == y@.len() && (%s) && ((extrapolate is Panic) ==> (%s))' % (SORTED, ALLIN),
             requires=['C16.hyp.knots:: x@.len() >= 2', 'C16.hyp.machine:: x@.len() < usize::MAX'],
             ensures=['C16.checked.valid:: x@.len() == y@.len() && (%s)' % SORTED,
                      'C16.checked.len:: r.v@.len() == tgt@.len()',
                      'C16.checked.value:: increasing(x@) ==> forall|q: int| 0 <= q < tgt@.len() ==> interp_ok(x@, y@, tgt@[q], extrapolate, #[trigger] r.v@[q])'],
             panics={1: 'REJECT', 2: 'REJECT'},
             loops={1: {'invariant': ['n == x@.len()', 'n >= 2',
                                      'C16.checked.sorted.sofar:: forall|p: int| 0 <= p < i ==> rv(x@[p + 1]) - rv(#[trigger] x@[p]) >= 0real']}})

_core = [core.F[VEC + '{impl Deref for Vector}::deref'], core.F[VEC + '{impl DerefMut for Vector}::deref_mut'],
         core.F[core.IV + 'with_capacity']]
UNITS = [
    Unit('C16_interp', 'C16', [unchecked, checked], use=_core, types=core.TYPES + [I + '{enum ExtrapolationMode}'],
         spec=SPEC, type_spec=core.TYPE_SPEC, preludes=PRE, broadcast=BC, level='L1',
         notes='per target: chord of the bracketing knots inside the range, mode-specific value outside; unsorted / mismatched input rejected'),
]
