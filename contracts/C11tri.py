"""C11 / C01 — triangular solves and Cholesky (slice level, L1): the returned vectors / factors satisfy the triangular
resp. Cholesky equations over the reals, for every size."""
from vc.gen import Fn, Unit
from vc.nra import Lemma
from contracts import core
from contracts import C15 as c15
from contracts import C04 as c04
from contracts import C01 as c01

PRE = ('fax_l0', 'fmeth', 'stdspec', 'l1')
BC = ('l0', 'l1_arith', 'l1_fun', 'ax_vec_from_refl', 'ax_f64_cloned')
S = 'linalg::decomposition::substitution::'
CH = 'linalg::decomposition::cholesky::'

SPEC = c15.SPEC + c04.RED_SPEC + r'''
/// sum over lo <= j < hi of m[i,j] * x[j]   (row i of an n-column matrix against a vector)
pub open spec fn tsum(m: Seq<f64>, n: int, x: Seq<f64>, i: int, lo: int, hi: int) -> real decreases hi - lo
{ if hi <= lo { 0real } else { tsum(m, n, x, i, lo, hi - 1) + rv(at2(m, n, i, hi - 1)) * rv(x[hi - 1]) } }
/// the dot product of a row segment with the matching vector segment is that sum
pub proof fn lemma_dsum_tsum(m: Seq<f64>, n: int, x: Seq<f64>, i: int, lo: int, hi: int, k: int)
    requires 0 <= lo <= hi <= x.len(), 0 <= i * n + lo, i * n + hi <= m.len(), 0 <= k <= hi - lo
    ensures dsum(m.subrange(i * n + lo, i * n + hi), x.subrange(lo, hi), k) == tsum(m, n, x, i, lo, lo + k)
    decreases k
{
    if k > 0 {
        lemma_dsum_tsum(m, n, x, i, lo, hi, k - 1);
        assert(m.subrange(i * n + lo, i * n + hi)[k - 1] == m[i * n + lo + k - 1]);
        assert(x.subrange(lo, hi)[k - 1] == x[lo + k - 1]);
        assert(at2(m, n, i, lo + k - 1) == m[i * n + (lo + k - 1)]);
    }
}
/// the sum only reads x[lo..hi)
pub proof fn lemma_tsum_frame(m: Seq<f64>, n: int, x: Seq<f64>, y: Seq<f64>, i: int, lo: int, hi: int)
    requires forall|j: int| lo <= j < hi ==> x[j] == y[j]
    ensures tsum(m, n, x, i, lo, hi) == tsum(m, n, y, i, lo, hi)
    decreases hi - lo
{ if hi > lo { lemma_tsum_frame(m, n, x, y, i, lo, hi - 1); } }
/// row i of  L x = b  for lower-triangular L (entries right of the diagonal are not read)
pub open spec fn lower_row(l: Seq<f64>, n: int, x: Seq<f64>, b: Seq<f64>, i: int) -> bool {
    tsum(l, n, x, i, 0, i) + rv(at2(l, n, i, i)) * rv(x[i]) == rv(b[i])
}
/// row i of  U x = b  for upper-triangular U (entries left of the diagonal are not read)
pub open spec fn upper_row(u: Seq<f64>, n: int, x: Seq<f64>, b: Seq<f64>, i: int) -> bool {
    rv(at2(u, n, i, i)) * rv(x[i]) + tsum(u, n, x, i, i + 1, n) == rv(b[i])
}
pub open spec fn diag_nonzero(m: Seq<f64>, n: int) -> bool { forall|i: int| 0 <= i < n ==> rv(#[trigger] at2(m, n, i, i)) != 0real }
'''
NRA = [Lemma('nra_div_cancel', 'c d q', ['(distinct d 0)', '(= q (/ c d))'], ['(= (* d q) c)'])]

UNWRAP_L = ('is_square(l).unwrap()', 'match is_square(l) { Ok(v_) => v_, Err(_) => ::core::panicking::panic("unwrap") }', 'R2b: Result::unwrap is this match by definition; its panic is a REJECT site')
UNWRAP_U = ('is_square(u).unwrap()', 'match is_square(u) { Ok(v_) => v_, Err(_) => ::core::panicking::panic("unwrap") }', 'R2b')
FV = lambda m: '(exists|k: int| 0 <= k && #[trigger] (k * k) == %s@.len() && b@.len() == k)' % m
fwd = Fn(S + 'forward_substitution', ret='x', level='L1', valid=FV('l'), panics={1: 'REJECT', 2: 'REJECT'}, rewrites=[UNWRAP_L],
         requires=['C11.tri.machine:: l@.len() <= 0x7fff_ffff'],
         ensures=['C11.fwd.valid:: ' + FV('l'), 'C11.fwd.len:: x@.len() == b@.len()',
                  'C11.fwd.triangular:: forall|i: int| 0 <= i < b@.len() && rv(at2(l@, b@.len() as int, i, i)) != 0real ==> #[trigger] lower_row(l@, b@.len() as int, x@, b@, i)'],
         loops={1: {'invariant': ['n * n == l@.len()', 'b@.len() == n', 'x@.len() == n', 'l@.len() <= 0x7fff_ffff',
                                  'C11.fwd.rows_done:: forall|ii: int| 0 <= ii < i && rv(at2(l@, n as int, ii, ii)) != 0real ==> #[trigger] lower_row(l@, n as int, x@, b@, ii)'],
                    'body_ghost': 'let ghost pre_x = x@;',
                    'body_start': 'lemma_idx(i as int, i as int, n as int, n as int); lemma_row(i as int, n as int, n as int); lemma_dsum_tsum(l@, n as int, x@, i as int, 0, i as int, i as int);',
                    'body_end': ('assert forall|ii: int| 0 <= ii < i + 1 && rv(at2(l@, n as int, ii, ii)) != 0real implies #[trigger] lower_row(l@, n as int, x@, b@, ii) by { '
                                 'lemma_tsum_frame(l@, n as int, x@, pre_x, ii, 0, ii); '
                                 'if ii < i { assert(lower_row(l@, n as int, pre_x, b@, ii)); } else { '
                                 'nra_div_cancel(rv(b@[i as int]) - tsum(l@, n as int, pre_x, i as int, 0, i as int), rv(at2(l@, n as int, i as int, i as int)), rv(x@[i as int])); } }')}},
         hints=[('if !((b.len()) == (n))', 'before', 'proof { lemma_sq_unique(n as int, l@.len() as int); }')])
bwd = Fn(S + 'backward_substitution', ret='x', level='L1', valid=FV('u'), panics={1: 'REJECT', 2: 'REJECT'}, rewrites=[UNWRAP_U],
         requires=['C11.tri.machine:: u@.len() <= 0x7fff_ffff'],
         ensures=['C11.bwd.valid:: ' + FV('u'), 'C11.bwd.len:: x@.len() == b@.len()',
                  'C11.bwd.triangular:: forall|i: int| 0 <= i < b@.len() && rv(at2(u@, b@.len() as int, i, i)) != 0real ==> #[trigger] upper_row(u@, b@.len() as int, x@, b@, i)'],
         loops={1: {'iter_name': 'it',
                    'invariant': ['n * n == u@.len()', 'b@.len() == n', 'x@.len() == n', 'u@.len() <= 0x7fff_ffff',
                                  'C11.bwd.rows_done:: forall|ii: int| n - it.index@ <= ii < n && rv(at2(u@, n as int, ii, ii)) != 0real ==> #[trigger] upper_row(u@, n as int, x@, b@, ii)'],
                    'body_ghost': 'let ghost pre_x = x@;',
                    'body_start': 'lemma_idx(i as int, i as int, n as int, n as int); lemma_row(i as int, n as int, n as int); lemma_dsum_tsum(u@, n as int, x@, i as int, i as int + 1, n as int, n as int - i as int - 1);',
                    'body_end': ('assert forall|ii: int| i <= ii < n && rv(at2(u@, n as int, ii, ii)) != 0real implies #[trigger] upper_row(u@, n as int, x@, b@, ii) by { '
                                 'lemma_tsum_frame(u@, n as int, x@, pre_x, ii, ii + 1, n as int); '
                                 'if ii > i { assert(upper_row(u@, n as int, pre_x, b@, ii)); } else { '
                                 'nra_div_cancel(rv(b@[i as int]) - tsum(u@, n as int, pre_x, i as int, i as int + 1, n as int), rv(at2(u@, n as int, i as int, i as int)), rv(x@[i as int])); } }')}},
         hints=[('if !((b.len()) == (n))', 'before', 'proof { lemma_sq_unique(n as int, u@.len() as int); }')])

UNITS = [
    Unit('C11_tri', ('C11', 'C01'), [fwd, bwd], use=[c01.is_square, c04.dot], types=core.TYPES, type_spec=core.TYPE_SPEC, spec=SPEC + c01.SQ_UNIQUE, nra=NRA, preludes=PRE, broadcast=BC, level='L1',
         notes='forward / backward substitution: every row of L x = b resp. U x = b holds over the reals whenever its diagonal entry is non-zero; '
               'size mismatches rejected; the uninitialised result buffer (set_len) is fully written'),
]

# ---------------------------------------------------------------- Cholesky-Banachiewicz: the factor satisfies L L^T = A on the lower triangle
CHOL_SPEC = r'''
/// sum over t < kk of l[j,t] * l[i,t]
pub open spec fn csum(l: Seq<f64>, n: int, i: int, j: int, kk: int) -> real decreases kk
{ if kk <= 0 { 0real } else { csum(l, n, i, j, kk - 1) + rv(at2(l, n, j, kk - 1)) * rv(at2(l, n, i, kk - 1)) } }
pub proof fn lemma_dsum_csum(l: Seq<f64>, n: int, i: int, j: int, k: int)
    requires 0 <= j <= i < n, l.len() == n * n, 0 <= k <= j
    ensures dsum(l.subrange(j * n, j * n + j), l.subrange(i * n, i * n + j), k) == csum(l, n, i, j, k)
    decreases k
{
    lemma_idx(j, j, n, n); lemma_idx(i, j, n, n); lemma_row(j, n, n); lemma_row(i, n, n);
    if k > 0 {
        lemma_dsum_csum(l, n, i, j, k - 1);
        assert(l.subrange(j * n, j * n + j)[k - 1] == l[j * n + (k - 1)]);
        assert(l.subrange(i * n, i * n + j)[k - 1] == l[i * n + (k - 1)]);
    }
}
pub proof fn lemma_csum_frame(l: Seq<f64>, l2: Seq<f64>, n: int, i: int, j: int, kk: int)
    requires forall|t: int| 0 <= t < kk ==> #[trigger] at2(l, n, i, t) == at2(l2, n, i, t) && at2(l, n, j, t) == at2(l2, n, j, t)
    ensures csum(l, n, i, j, kk) == csum(l2, n, i, j, kk)
    decreases kk
{ if kk > 0 { lemma_csum_frame(l, l2, n, i, j, kk - 1); assert(at2(l, n, i, kk - 1) == at2(l2, n, i, kk - 1)); } }
/// entry (i,j), j <= i, of  L L^T = A
pub open spec fn chol_eq(a: Seq<f64>, l: Seq<f64>, n: int, i: int, j: int) -> bool {
    csum(l, n, i, j, j) + rv(at2(l, n, j, j)) * rv(at2(l, n, i, j)) == rv(at2(a, n, i, j))
}
/// rows [0, r) of the factor are complete: equations hold, diagonal positive
pub open spec fn chol_rows(a: Seq<f64>, l: Seq<f64>, n: int, r: int) -> bool {
    (forall|i: int, j: int| 0 <= j <= i < r ==> #[trigger] chol_eq(a, l, n, i, j)) && (forall|i: int| 0 <= i < r ==> rv(#[trigger] at2(l, n, i, i)) > 0real)
}
/// entries that were never written are still 0
pub open spec fn chol_zero(l: Seq<f64>, n: int, r: int, c: int) -> bool {
    forall|i: int, j: int| 0 <= i < n && 0 <= j < n && (j > i || i > r || (i == r && j >= c)) ==> rv(#[trigger] at2(l, n, i, j)) == 0real
}
/// what try_cholesky returns for an n x n input
pub open spec fn chol_post(a: Seq<f64>, r: Option<Vec<f64>>, n: int) -> bool {
    match r {
        Some(l) => l@.len() == n * n && chol_rows(a, l@, n, n) && chol_zero(l@, n, n, 0),
        None => exists|lp: Seq<f64>, p: int| 0 <= p < n && #[trigger] chol_rows(a, lp, n, p) && !(rv(at2(a, n, p, p)) - csum(lp, n, p, p, p) > 0real),
    }
}
'''
UNWRAP_A = ('is_square(a).unwrap()', 'match is_square(a) { Ok(v_) => v_, Err(_) => ::core::panicking::panic("unwrap") }', 'R2b')
SQA = '(exists|k: int| 0 <= k && #[trigger] (k * k) == a@.len())'
ENTRY_FRAME = ('assert forall|r: int, c: int| 0 <= r < n && 0 <= c < n && !(r == i && c == j) implies #[trigger] at2(l@, n as int, r, c) == at2(pre_l, n as int, r, c) by '
               '{ lemma_idx(r, c, n as int, n as int); if r * n + c == i * n + j { lemma_idx_inj(r, c, i as int, j as int, n as int); } } ')
ROWS_KEEP = ('assert forall|r: int, c: int| 0 <= c <= r < i implies #[trigger] chol_eq(a@, l@, n as int, r, c) by { lemma_csum_frame(l@, pre_l, n as int, r, c, c); assert(chol_eq(a@, pre_l, n as int, r, c)); } '
             'assert forall|c: int| 0 <= c < j implies #[trigger] chol_eq(a@, l@, n as int, i as int, c) by { lemma_csum_frame(l@, pre_l, n as int, i as int, c, c); assert(chol_eq(a@, pre_l, n as int, i as int, c)); } '
             'lemma_csum_frame(l@, pre_l, n as int, i as int, j as int, j as int); ')
try_chol = Fn(CH + 'try_cholesky', ret='r', level='L1', valid=SQA, panics={1: 'REJECT'}, rewrites=[UNWRAP_A], rej_clause=False,
              requires=['C11.chol.machine:: a@.len() <= 0x7fff_ffff'],
              ensures=['C11.chol.valid:: ' + SQA,
                       'C11.chol.factor:: forall|n: int| 0 <= n && n * n == a@.len() ==> #[trigger] chol_post(a@, r, n)'],
              loops={1: {'invariant': ['n * n == a@.len()', 'l@.len() == n * n', 'a@.len() <= 0x7fff_ffff',
                                       'C11.chol.rows:: chol_rows(a@, l@, n as int, i as int)', 'C11.chol.zero:: chol_zero(l@, n as int, i as int, 0)']},
                     2: {'iter_name': 'jt', 'invariant': ['jt.iter.end == i + 1', 'n * n == a@.len()', 'l@.len() == n * n', 'a@.len() <= 0x7fff_ffff', '0 <= i < n',
                                       'C11.chol.rows.j:: chol_rows(a@, l@, n as int, i as int)', 'C11.chol.zero.j:: chol_zero(l@, n as int, i as int, j as int)',
                                       'C11.chol.row:: forall|c: int| 0 <= c < j ==> #[trigger] chol_eq(a@, l@, n as int, i as int, c)',
                                       'C11.chol.diag:: j > i ==> rv(at2(l@, n as int, i as int, i as int)) > 0real'],
                         'body_ghost': 'let ghost pre_l = l@;',
                         'body_start': ('lemma_idx(i as int, j as int, n as int, n as int); lemma_idx(j as int, j as int, n as int, n as int); lemma_idx(i as int, i as int, n as int, n as int); '
                                        'lemma_row(i as int, n as int, n as int); lemma_row(j as int, n as int, n as int); lemma_dsum_csum(l@, n as int, i as int, j as int, j as int);')}},
              hints=[('let mut l = vec![0.; n * n];', 'after', 'proof { lemma_sq_unique(n as int, a@.len() as int); assert forall|r: int, c: int| 0 <= r < n && 0 <= c < n implies rv(#[trigger] at2(l@, n as int, r, c)) == 0real by { lemma_idx(r, c, n as int, n as int); } }'),
                     ('\n                Some(l)\n', 'replace', '\n proof { lemma_sq_unique(n as int, a@.len() as int); }\n Some(l)\n'),
                     ('return None;', 'pre', 'proof { lemma_sq_unique(n as int, a@.len() as int); assert(chol_rows(a@, l@, n as int, i as int)); assert(!(rv(at2(a@, n as int, i as int, i as int)) - csum(l@, n as int, i as int, i as int, i as int) > 0real)); }'),
                     ('l[i * n + j] = d.sqrt();', 'after',
                      'proof { ' + ENTRY_FRAME + ROWS_KEEP +
                      'assert(chol_eq(a@, l@, n as int, i as int, j as int)); assert(rv(at2(l@, n as int, i as int, i as int)) > 0real); }'),
                     ('l[i * n + j] = (a[i * n + j] - s) / l[j * n + j];', 'post',
                      'proof { ' + ENTRY_FRAME + ROWS_KEEP +
                      'assert(j < i); assert(chol_rows(a@, pre_l, n as int, i as int)); assert(rv(at2(pre_l, n as int, j as int, j as int)) > 0real); assert(at2(l@, n as int, j as int, j as int) == at2(pre_l, n as int, j as int, j as int)); '
                      'nra_div_cancel(rv(a@[i * n + j]) - csum(pre_l, n as int, i as int, j as int, j as int), rv(at2(pre_l, n as int, j as int, j as int)), rv(at2(l@, n as int, i as int, j as int))); '
                      'assert(chol_eq(a@, l@, n as int, i as int, j as int)); }')])
UNITS.append(Unit('C11_chol', ('C11', 'C01'), [try_chol], use=[c01.is_square, c04.dot], types=core.TYPES, type_spec=core.TYPE_SPEC, spec=SPEC + c01.SQ_UNIQUE + CHOL_SPEC, nra=NRA,
                  preludes=PRE, broadcast=BC, level='L1', rlimit=100,
                  notes='Cholesky-Banachiewicz: a returned factor satisfies L L^T = A entry by entry on the lower triangle with a positive diagonal and zeros above it; '
                        'None is returned only at a non-positive pivot of a valid partial factorisation (the matrix is not positive definite)'))

# ---------------------------------------------------------------- cholesky (checked wrapper) and cholesky_solve
CHOL2_SPEC = c01.SYM_SPEC + r'''
pub open spec fn no_bad_pivot(a: Seq<f64>, n: int) -> bool {
    !(exists|lp: Seq<f64>, p: int| 0 <= p < n && #[trigger] chol_rows(a, lp, n, p) && !(rv(at2(a, n, p, p)) - csum(lp, n, p, p, p) > 0real))
}
pub open spec fn chol_input_ok(a: Seq<f64>) -> bool { exists|k: int| 0 <= k && #[trigger] (k * k) == a.len() && sym_eps(a, k) }
/// sum over lo <= j < hi of m[j,i] * x[j]   (column i of an n-column matrix against a vector)
pub open spec fn tsum_t(m: Seq<f64>, n: int, x: Seq<f64>, i: int, lo: int, hi: int) -> real decreases hi - lo
{ if hi <= lo { 0real } else { tsum_t(m, n, x, i, lo, hi - 1) + rv(at2(m, n, hi - 1, i)) * rv(x[hi - 1]) } }
pub proof fn lemma_tsum_transpose(m: Seq<f64>, mt: Seq<f64>, n: int, x: Seq<f64>, i: int, lo: int, hi: int)
    requires is_transpose(m, mt, n, n), 0 <= i < n, 0 <= lo <= hi <= n
    ensures tsum(mt, n, x, i, lo, hi) == tsum_t(m, n, x, i, lo, hi)
    decreases hi - lo
{ if hi > lo { lemma_tsum_transpose(m, mt, n, x, i, lo, hi - 1); assert(at2(mt, n, i, hi - 1) == at2(m, n, hi - 1, i)); } }
/// L y = b  and  L^T x = y  row by row (rows with a non-zero diagonal entry)
pub open spec fn chol_solved(l: Seq<f64>, n: int, x: Seq<f64>, b: Seq<f64>) -> bool {
    exists|y: Seq<f64>| y.len() == n
        && (forall|i: int| 0 <= i < n && rv(at2(l, n, i, i)) != 0real ==> #[trigger] lower_row(l, n, y, b, i))
        && (forall|i: int| 0 <= i < n && rv(at2(l, n, i, i)) != 0real ==> rv(at2(l, n, i, i)) * rv(x[i]) + #[trigger] tsum_t(l, n, x, i, i + 1, n) == rv(y[i]))
}
'''
cholesky = Fn(CH + 'cholesky', ret='l', level='L1',
              valid='(exists|k: int| 0 <= k && #[trigger] (k * k) == a@.len() && sym_eps(a@, k) && no_bad_pivot(a@, k))',
              panics={1: 'REJECT: chol_input_ok(a@)', 2: 'REJECT: (forall|k: int| 0 <= k && #[trigger] (k * k) == a@.len() ==> no_bad_pivot(a@, k))'},
              rewrites=[('try_cholesky(a).expect("matrix not positive definite")', '({ let r_ = try_cholesky(a); proof { let k0 = choose|k: int| 0 <= k && #[trigger] (k * k) == a@.len(); lemma_sq_unique(k0, a@.len() as int); assert(chol_post(a@, r_, k0)); } '
                         'match r_ { Some(v_) => v_, None => ::core::panicking::panic("expect") } })',
                         'R2b: Option::expect is this match by definition (scrutinee bound to a name for the proof hint); its panic is a REJECT site')],
              requires=['C11.chol.machine:: a@.len() <= 0x7fff_ffff'],
              ensures=['C11.cholesky.valid:: chol_input_ok(a@)',
                       'C11.cholesky.factor:: forall|n: int| 0 <= n && n * n == a@.len() ==> l@.len() == n * n && #[trigger] chol_rows(a@, l@, n, n) && chol_zero(l@, n, n, 0)'],
              hints=[('if !is_symmetric(a)', 'before', 'proof { if exists|k: int| 0 <= k && #[trigger] (k * k) == a@.len() { let k0 = choose|k: int| 0 <= k && #[trigger] (k * k) == a@.len(); lemma_sq_unique(k0, a@.len() as int); } }'),
                     ])
LT_HINT = ('proof { lemma_sq_unique(n as int, l@.len() as int); lemma_mul_div(n as int, n as int); '
           'assert forall|i: int| 0 <= i < n implies at2(lt@, n as int, i, i) == at2(l@, n as int, i, i) by { } }')
chol_solve = Fn(CH + 'cholesky_solve', ret='x', level='L1', valid=FV('l'), panics={1: 'REJECT', 2: 'REJECT'}, rewrites=[UNWRAP_L],
                requires=['C11.tri.machine:: l@.len() <= 0x7fff_ffff', 'C11.chol_solve.nonempty:: b@.len() > 0'],
                ensures=['C11.chol_solve.valid:: ' + FV('l'), 'C11.chol_solve.len:: x@.len() == b@.len()',
                         'C11.chol_solve.equations:: chol_solved(l@, b@.len() as int, x@, b@)'],
                hints=[('if !((b.len()) == (n))', 'before', 'proof { lemma_sq_unique(n as int, l@.len() as int); }'),
                       ('let lt = transpose(l, n);', 'before', 'proof { lemma_mul_div(n as int, n as int); }'),
                       ('let lt = transpose(l, n);', 'after', LT_HINT),
                       ('backward_substitution(&lt, &y)', 'replace',
                        '({ let x_ = backward_substitution(&lt, &y); proof { '
                        'assert forall|i: int| 0 <= i < n && rv(at2(l@, n as int, i, i)) != 0real implies rv(at2(l@, n as int, i, i)) * rv(x_@[i]) + #[trigger] tsum_t(l@, n as int, x_@, i, i + 1, n as int) == rv(y@[i]) by '
                        '{ lemma_tsum_transpose(l@, lt@, n as int, x_@, i, i + 1, n as int); assert(upper_row(lt@, n as int, x_@, y@, i)); } '
                        'assert(chol_solved(l@, n as int, x_@, b@)); } x_ })')])
UNITS.append(Unit('C11_chol_solve', ('C11', 'C01'), [cholesky, chol_solve], use=[c01.is_square, c01.is_symmetric, try_chol, fwd, bwd, c15.transpose, c15.is_matrix], types=core.TYPES, type_spec=core.TYPE_SPEC,
                  spec=SPEC + c01.SQ_UNIQUE + CHOL_SPEC + CHOL2_SPEC, nra=NRA, preludes=PRE, broadcast=BC, level='L1', rlimit=100,
                  notes='cholesky: asymmetric input and a non-positive pivot are rejected, a returned factor satisfies the Cholesky equations; '
                        'cholesky_solve: the result solves L y = b, L^T x = y row by row (composition of the two substitutions with the transpose)'))

# ---------------------------------------------------------------- lu_solve: (unit-lower L) y = P b, U x = y, column-oriented in place
LUS = 'linalg::decomposition::lu::'
LUS_SPEC = c01.PERM_SPEC + r'''
pub open spec fn imin(a: int, b: int) -> int { if a <= b { a } else { b } }
/// sum over lo <= j < hi of x[j] * m[i,j]   (factor order as computed by lu_solve)
pub open spec fn xsum(m: Seq<f64>, n: int, x: Seq<f64>, i: int, lo: int, hi: int) -> real decreases hi - lo
{ if hi <= lo { 0real } else { xsum(m, n, x, i, lo, hi - 1) + rv(x[hi - 1]) * rv(at2(m, n, i, hi - 1)) } }
pub proof fn lemma_xsum_frame(m: Seq<f64>, n: int, x: Seq<f64>, y: Seq<f64>, i: int, lo: int, hi: int)
    requires forall|j: int| lo <= j < hi ==> x[j] == y[j]
    ensures xsum(m, n, x, i, lo, hi) == xsum(m, n, y, i, lo, hi)
    decreases hi - lo
{ if hi > lo { lemma_xsum_frame(m, n, x, y, i, lo, hi - 1); } }
pub proof fn lemma_xsum_low(m: Seq<f64>, n: int, x: Seq<f64>, i: int, lo: int, hi: int)
    requires lo < hi
    ensures xsum(m, n, x, i, lo, hi) == rv(x[lo]) * rv(at2(m, n, i, lo)) + xsum(m, n, x, i, lo + 1, hi)
    decreases hi - lo
{ if hi > lo + 1 { lemma_xsum_low(m, n, x, i, lo, hi - 1); } else { assert(xsum(m, n, x, i, lo, lo) == 0real); assert(xsum(m, n, x, i, lo + 1, lo + 1) == 0real); } }
/// y solves (unit lower triangle of lu) y = P b
pub open spec fn lu_fwd(lu: Seq<f64>, n: int, piv: Seq<i32>, b: Seq<f64>, y: Seq<f64>, kk: int) -> bool {
    forall|i: int| 0 <= i < n ==> rv(#[trigger] y[i]) == rv(b[piv[i] as int]) - xsum(lu, n, y, i, 0, imin(i, kk))
}
/// rows [p, n) of (upper triangle of lu) x = y hold; rows below p still carry the partial right-hand side
pub open spec fn lu_bwd(lu: Seq<f64>, n: int, y: Seq<f64>, x: Seq<f64>, p: int) -> bool {
    (forall|i: int| p <= i < n && rv(at2(lu, n, i, i)) != 0real ==> rv(at2(lu, n, i, i)) * rv(#[trigger] x[i]) + xsum(lu, n, x, i, i + 1, n) == rv(y[i]))
    && (forall|i: int| 0 <= i < p && i < n ==> rv(#[trigger] x[i]) == rv(y[i]) - xsum(lu, n, x, i, p, n))
}
pub open spec fn lu_solved(lu: Seq<f64>, n: int, piv: Seq<i32>, b: Seq<f64>, x: Seq<f64>) -> bool {
    exists|y: Seq<f64>| y.len() == n && #[trigger] lu_fwd(lu, n, piv, b, y, n) && lu_bwd(lu, n, y, x, 0)
}
'''
lu_solve = Fn(LUS + 'lu_solve', ret='x', level='L1', valid='lu@.len() == b@.len() * b@.len()', panics={1: 'REJECT'},
              requires=['C11.lu_solve.machine:: lu@.len() <= 0x7fff_ffff && b@.len() <= 0x7fff_ffff && b@.len() * b@.len() <= usize::MAX', 'C11.lu_solve.pivots:: is_perm32(pivots@, b@.len() as int)'],
              ensures=['C11.lu_solve.valid:: lu@.len() == b@.len() * b@.len()', 'C11.lu_solve.len:: x@.len() == b@.len()',
                       'C11.lu_solve.equations:: lu_solved(lu@, b@.len() as int, pivots@, b@, x@)'],
              loops={1: {'invariant': ['n == b@.len()', 'x@.len() == n', 'is_perm32(pivots@, n as int)',
                                       'C11.lu_solve.permuted_rhs:: forall|r: int| 0 <= r < i ==> #[trigger] x@[r] == b@[pivots@[r] as int]']},
                     2: {'invariant': ['n == b@.len()', 'x@.len() == n', 'lu@.len() == n * n', 'lu@.len() <= 0x7fff_ffff', 'is_perm32(pivots@, n as int)',
                                       'C11.lu_solve.fwd:: lu_fwd(lu@, n as int, pivots@, b@, x@, k as int)']},
                     3: {'invariant': ['n == b@.len()', 'x@.len() == n', 'lu@.len() == n * n', 'lu@.len() <= 0x7fff_ffff', 'is_perm32(pivots@, n as int)', '0 <= k < n',
                                       'C11.lu_solve.fwd.done:: forall|r: int| 0 <= r < i && r < n ==> rv(#[trigger] x@[r]) == rv(b@[pivots@[r] as int]) - xsum(lu@, n as int, x@, r, 0, imin(r, k as int + 1))',
                                       'C11.lu_solve.fwd.todo:: forall|r: int| i <= r < n ==> rv(#[trigger] x@[r]) == rv(b@[pivots@[r] as int]) - xsum(lu@, n as int, x@, r, 0, imin(r, k as int))'],
                         'body_ghost': 'let ghost pre_x = x@;',
                         'body_start': 'lemma_idx(i as int, k as int, n as int, n as int);',
                         'body_end': ('assert forall|r: int| 0 <= r < n implies #[trigger] xsum(lu@, n as int, x@, r, 0, imin(r, k as int + 1)) == xsum(lu@, n as int, pre_x, r, 0, imin(r, k as int + 1)) by { lemma_xsum_frame(lu@, n as int, x@, pre_x, r, 0, imin(r, k as int + 1)); } assert forall|r: int| 0 <= r < n implies #[trigger] xsum(lu@, n as int, x@, r, 0, imin(r, k as int)) == xsum(lu@, n as int, pre_x, r, 0, imin(r, k as int)) by { lemma_xsum_frame(lu@, n as int, x@, pre_x, r, 0, imin(r, k as int)); } assert(xsum(lu@, n as int, pre_x, i as int, 0, k as int + 1) == xsum(lu@, n as int, pre_x, i as int, 0, k as int) + rv(pre_x[k as int]) * rv(at2(lu@, n as int, i as int, k as int)));')},
                     4: {'iter_name': 'it',
                         'invariant': ['n == b@.len()', 'x@.len() == n', 'lu@.len() == n * n', 'lu@.len() <= 0x7fff_ffff', 'y_.len() == n',
                                       'lu_fwd(lu@, n as int, pivots@, b@, y_, n as int)',
                                       'C11.lu_solve.bwd:: lu_bwd(lu@, n as int, y_, x@, n - it.index@)']},
                     5: {'invariant': ['n == b@.len()', 'x@.len() == n', 'lu@.len() == n * n', 'lu@.len() <= 0x7fff_ffff', 'y_.len() == n', '0 <= k < n',
                                       'C11.lu_solve.bwd.final:: forall|r: int| k <= r < n && rv(at2(lu@, n as int, r, r)) != 0real ==> rv(at2(lu@, n as int, r, r)) * rv(#[trigger] x@[r]) + xsum(lu@, n as int, x@, r, r + 1, n as int) == rv(y_[r])',
                                       'C11.lu_solve.bwd.done:: forall|r: int| 0 <= r < i ==> rv(#[trigger] x@[r]) == rv(y_[r]) - xsum(lu@, n as int, x@, r, k as int, n as int)',
                                       'C11.lu_solve.bwd.todo:: forall|r: int| i <= r < k ==> rv(#[trigger] x@[r]) == rv(y_[r]) - xsum(lu@, n as int, x@, r, k as int + 1, n as int)'],
                         'body_ghost': 'let ghost pre_x = x@;',
                         'body_start': 'lemma_idx(i as int, k as int, n as int, n as int);',
                         'body_end': ('assert forall|r: int| 0 <= r < n implies #[trigger] xsum(lu@, n as int, x@, r, k as int, n as int) == xsum(lu@, n as int, pre_x, r, k as int, n as int) by { lemma_xsum_frame(lu@, n as int, x@, pre_x, r, k as int, n as int); } assert forall|r: int| 0 <= r < n implies #[trigger] xsum(lu@, n as int, x@, r, k as int + 1, n as int) == xsum(lu@, n as int, pre_x, r, k as int + 1, n as int) by { lemma_xsum_frame(lu@, n as int, x@, pre_x, r, k as int + 1, n as int); } assert forall|r: int| k <= r < n implies #[trigger] xsum(lu@, n as int, x@, r, r + 1, n as int) == xsum(lu@, n as int, pre_x, r, r + 1, n as int) by { lemma_xsum_frame(lu@, n as int, x@, pre_x, r, r + 1, n as int); } lemma_xsum_low(lu@, n as int, pre_x, i as int, k as int, n as int);')}},
              hints=[('let n = b.len();', 'after', 'proof { assert(n * n <= 0x7fff_ffff * 0x7fff_ffff) by(nonlinear_arith) requires 0 <= n <= 0x7fff_ffff; }'),
                     ('for k in 0..n', 'before', 'proof { assert(lu_fwd(lu@, n as int, pivots@, b@, x@, 0)) by { assert forall|r: int| 0 <= r < n implies xsum(lu@, n as int, x@, r, 0, imin(r, 0)) == 0real by { } } }'),
                     ('for k in it: (0..n).rev()', 'before', 'let ghost y_ = x@; proof { assert(lu_bwd(lu@, n as int, y_, x@, n as int)) by { assert forall|r: int| 0 <= r < n implies xsum(lu@, n as int, x@, r, n as int, n as int) == 0real by { } } }'),
                     ('x[k] = x[k] / (lu[k * n + k]);', 'pre', 'let ghost px_ = x@; proof { lemma_idx(k as int, k as int, n as int, n as int); }'),
                     ('x[k] = x[k] / (lu[k * n + k]);', 'post',
                      'proof { assert forall|r: int| 0 <= r < n implies #[trigger] xsum(lu@, n as int, x@, r, k as int + 1, n as int) == xsum(lu@, n as int, px_, r, k as int + 1, n as int) by { lemma_xsum_frame(lu@, n as int, x@, px_, r, k as int + 1, n as int); } assert forall|r: int| k < r < n implies #[trigger] xsum(lu@, n as int, x@, r, r + 1, n as int) == xsum(lu@, n as int, px_, r, r + 1, n as int) by { lemma_xsum_frame(lu@, n as int, x@, px_, r, r + 1, n as int); } '
                      'if rv(at2(lu@, n as int, k as int, k as int)) != 0real { nra_div_cancel(rv(y_[k as int]) - xsum(lu@, n as int, px_, k as int, k as int + 1, n as int), rv(at2(lu@, n as int, k as int, k as int)), rv(x@[k as int])); } }'),
                     ('\n                x\n', 'replace', '\n proof { assert(lu_solved(lu@, n as int, pivots@, b@, x@)); }\n x\n')])
UNITS.append(Unit('C11_lu_solve', ('C11', 'C01'), [lu_solve], types=core.TYPES, type_spec=core.TYPE_SPEC, spec=SPEC + LUS_SPEC, nra=NRA, preludes=PRE, broadcast=BC, level='L1', rlimit=100,
                  notes='lu_solve: the permuted right-hand side is read through the pivots, the in-place column sweeps solve (unit lower) y = P b and then U x = y row by row; size mismatch rejected'))

# ---------------------------------------------------------------- Matrix-level lu_solve / solve for a Vector right-hand side (derived textually from the slice-level proof)
import re as _re
from contracts.core import MAT as _MAT


def _mv(t):
    """slice-level proof text -> Matrix-level: lu is self.data, b is system.v, x is a Vector, n is self.ncols"""
    t = _re.sub(r'\blu@', 'self.data.v@', t)
    t = _re.sub(r'(?<![A-Za-z0-9_.])b@', 'system.v@', t)
    t = _re.sub(r'(?<![A-Za-z0-9_.])x@', 'x.v@', t)
    t = _re.sub(r'\bn\b', 'self.ncols', t)
    t = t.replace('x[k] = x[k] / (lu[k * self.ncols + k]);', 'x[k] = x[k] / (self[[k, k]]);')
    return t


MSHP = 'wf(*self) && self.nrows == self.ncols && system.v@.len() == self.ncols'


def _mv_loops(loops):
    out = {}
    for k, v in loops.items():
        d = {}
        for kk, vv in v.items():
            if kk == 'invariant':
                d[kk] = [MSHP] + [_mv(x) for x in vv if x not in ('n == b@.len()',)]
            elif isinstance(vv, str):
                d[kk] = _mv(vv)
            else:
                d[kk] = vv
        out[k] = d
    return out


MSV = _MAT + '{impl Solve<Vector> for Matrix}::'
mlu_solve = Fn(MSV + 'lu_solve', ret='x', level='L1', inherent=True, valid='self.nrows == self.ncols && self.nrows == system.v@.len()', panics={1: 'REJECT', 2: 'REJECT'},
               requires=['C11.mlu_solve.wf:: wf(*self)', 'C11.mlu_solve.pivots:: is_perm32(pivots@, self.nrows as int)'],
               ensures=['C11.mlu_solve.valid:: self.nrows == self.ncols && self.nrows == system.v@.len()', 'C11.mlu_solve.len:: x.v@.len() == system.v@.len()',
                        'C11.mlu_solve.equations:: lu_solved(self.data.v@, system.v@.len() as int, pivots@, system.v@, x.v@)'],
               loops=_mv_loops(lu_solve.loops),
               hints=[(_mv(a), pos, _mv(txt)) for (a, pos, txt) in lu_solve.hints[1:-1]] +
                     [('\n                    x\n', 'replace', _mv(lu_solve.hints[-1][2]).replace('\n x\n', '\n x\n'))])
msolve = Fn(MSV + 'solve', ret='x', level='L1', inherent=True, valid='self.nrows == self.ncols && self.nrows == system.v@.len()',
            requires=['C01.msolve.wf:: wf(*self)'],
            ensures=['C01.msolve.valid:: self.nrows == self.ncols && self.nrows == system.v@.len()', 'C01.msolve.len:: x.v@.len() == system.v@.len()',
                     'C01.msolve.lu_route:: exists|f: Seq<f64>, piv: Seq<i32>| f.len() == self.nrows * self.nrows && is_perm32(piv, self.nrows as int) && bounded(f, self.nrows as int, self.nrows as int) '
                     '&& factored(self.data.v@, f, piv, self.nrows as int, self.nrows as int) && #[trigger] lu_solved(f, self.nrows as int, piv, system.v@, x.v@) && lu_exact(self.data.v@, self.nrows as int, system.v@, x.v@, f, piv)'],
            hints=[('lu.lu_solve(&piv, system)', 'replace', '({ let x_ = lu.lu_solve(&piv, system); proof { assert(lu_solved(lu.data.v@, self.nrows as int, piv@, system.v@, x_.v@)); lemma_lu_route_exact(self.data.v@, lu.data.v@, piv@, self.nrows as int, system.v@, x_.v@); } x_ })')])
