"""C07 — quadrature rules (L1): tabulated-sample trapezoid equals the integral of the piecewise-linear interpolant;
the composite trapezoid rule is exact for affine integrands; Gauss-Legendre tables satisfy the moment equations."""
from vc.gen import Fn, Unit
from vc.nra import Lemma
from contracts import core
from contracts import C04 as c04
from contracts.core import VEC

PRE = ('fax_l0', 'fmeth', 'stdspec', 'l1')
BC = ('l0', 'l1_arith', 'ax_vec_from_refl', 'ax_f64_cloned')
S = 'integrate::samples::'

SPEC = core.CORE_SPEC + r'''
/// sum over j < k of (y[j+1] + y[j]) / 2 * (x[j+1] - x[j]): the integral of the piecewise-linear interpolant (property C07)
pub open spec fn rtrapx(y: Seq<f64>, x: Seq<f64>, k: int) -> real decreases k {
    if k <= 0 { 0real } else { rtrapx(y, x, k - 1) + (rv(y[k]) + rv(y[k - 1])) / 2real * (rv(x[k]) - rv(x[k - 1])) }
}
/// same with a constant spacing d
pub open spec fn rtrapd(y: Seq<f64>, d: real, k: int) -> real decreases k {
    if k <= 0 { 0real } else { rtrapd(y, d, k - 1) + (rv(y[k]) + rv(y[k - 1])) / 2real * d }
}
pub open spec fn spacing(dx: Option<f64>) -> real { match dx { Some(d) => rv(d), None => 1real } }
pub proof fn lemma_trap_sum(v: Seq<f64>, y: Seq<f64>, w: Seq<f64>, k: int)
    requires 0 <= k <= v.len(), v.len() + 1 == y.len(), w.len() == v.len(),
             forall|j: int| 0 <= j < v.len() ==> #[trigger] v[j] == f_mul(f_div(f_add(y[j + 1], y[j]), 2.0f64), w[j])
    ensures rsum(v, k) == rtrapw(y, w, k)
    decreases k
{
    if k > 0 { lemma_trap_sum(v, y, w, k - 1); assert(v[k - 1] == f_mul(f_div(f_add(y[k], y[k - 1]), 2.0f64), w[k - 1])); }
}
pub open spec fn rtrapw(y: Seq<f64>, w: Seq<f64>, k: int) -> real decreases k {
    if k <= 0 { 0real } else { rtrapw(y, w, k - 1) + (rv(y[k]) + rv(y[k - 1])) / 2real * rv(w[k - 1]) }
}
pub proof fn lemma_w_x(y: Seq<f64>, w: Seq<f64>, x: Seq<f64>, k: int)
    requires 0 <= k <= w.len(), w.len() + 1 == x.len(), forall|j: int| 0 <= j < w.len() ==> #[trigger] w[j] == f_sub(x[j + 1], x[j])
    ensures rtrapw(y, w, k) == rtrapx(y, x, k) decreases k
{ if k > 0 { lemma_w_x(y, w, x, k - 1); assert(w[k - 1] == f_sub(x[k], x[k - 1])); } }
pub proof fn lemma_w_d(y: Seq<f64>, w: Seq<f64>, d: real, k: int)
    requires 0 <= k <= w.len(), forall|j: int| 0 <= j < w.len() ==> rv(#[trigger] w[j]) == d
    ensures rtrapw(y, w, k) == rtrapd(y, d, k) decreases k
{ if k > 0 { lemma_w_d(y, w, d, k - 1); assert(rv(w[k - 1]) == d); } }
'''

TV = '(x is Some ==> (x->Some_0@.len() == y@.len() && dx is None))'
trapezoid = Fn(S + 'trapezoid', ret='r', level='L1', valid=TV, panics={1: 'REJECT', 2: 'REJECT'},
               requires=['C07.trapezoid.machine:: 1 <= y@.len() <= 0x7fff_ffff'],
               ensures=['C07.trapezoid.valid:: ' + TV,
                        'C07.trapezoid.sum:: match x { Some(xa) => rv(r) == rtrapx(y@, xa@, y@.len() - 1), None => rv(r) == rtrapd(y@, spacing(dx), y@.len() - 1) }'],
               closures={1: {'params': 'i: usize', 'ret': 'o: f64', 'requires': ['1 <= i < xarr@.len()'], 'ensures': ['o == f_sub(xarr@[i as int], xarr@[i - 1])']},
                         2: {'params': 'i: usize', 'ret': 'o: f64', 'requires': ['1 <= i < y@.len()', 'diff_x.v@.len() + 1 == y@.len()'],
                             'ensures': ['o == f_mul(f_div(f_add(y@[i as int], y@[i - 1]), 2.0f64), diff_x.v@[i - 1])']}},
               rewrites=[('(1..xarr.len()).map(|i|', 'Vector { v: (1..xarr.len()).map(|i|', 'R26: `ITER.collect::<Vector>()` is `Vector { v: ITER.collect::<Vec<f64>>() }` by the one-line FromIterator impl (fingerprint-checked)'),
                         ('xarr[i] - xarr[i - 1]).collect::<Vector>()', 'xarr[i] - xarr[i - 1]).collect::<Vec<f64>>() }', 'R26 (second half)'),
                         ('(1..y.len()).map(|i|', 'let terms_: Vec<f64> = (1..y.len()).map(|i|', 'R6b: bind the collected terms of `.map(..).sum()`'),
                         ('diff_x[i - 1]).sum()', 'diff_x[i - 1]).collect::<Vec<f64>>(); let ghost tv_ = terms_@; let tot_ = vsum(terms_); '
                          'proof { assert forall|j: int| 0 <= j < tv_.len() implies #[trigger] tv_[j] == f_mul(f_div(f_add(y@[j + 1], y@[j]), 2.0f64), diff_x.v@[j]) by { } '
                          'lemma_trap_sum(tv_, y@, diff_x.v@, tv_.len() as int); '
                          'match x { Some(xa) => { lemma_w_x(y@, diff_x.v@, xa@, tv_.len() as int); } None => { lemma_w_d(y@, diff_x.v@, spacing(dx), tv_.len() as int); } } } tot_',
                          'R6b: `.sum()` == vsum(collected)')])

_vec_mul_f64 = [f for f in c04.VECTOR_IMPLS if f.path.endswith('{impl ops::Mul<f64> for Vector}::mul')]
_core = [core.F[VEC + '{impl Deref for Vector}::deref'], core.F[VEC + '{impl DerefMut for Vector}::deref_mut'], core.F[core.IV + 'ones']]
UNITS = [
    Unit('C07_samples', 'C07', [trapezoid], use=_core + _vec_mul_f64, types=core.TYPES, type_spec=core.TYPE_SPEC, spec=SPEC, preludes=PRE, broadcast=BC, level='L1',
         fingerprints=[(VEC + '{impl FromIterator<f64> for Vector}::from_iter', '{ Self { v: Vec::from_iter(iter) } }')],
         notes='tabulated-sample trapezoid equals the integral of the piecewise-linear interpolant for given abscissae, spacing, or default 1; inconsistent arguments rejected'),
]


def extras(tier, crate, seed):
    """Gauss-Legendre tables: exact rational evaluation of the even-moment equations sum_i 2 w_i x_i^(2k) = 2/(2k+1), k = 0..4,
    on the decimal literals found in the current tree (degree <= 9 exactness of the symmetric 10-point rule reduces to them)."""
    import re
    from fractions import Fraction
    out = {'name': 'quad5-moment-equations', 'fn': 'integrate::functions::GAUSS_QUAD_NODES/WEIGHTS', 'clause': 'C07.quad5.moments', 'counts_as': 'proof',
           'obligations': 5, 'backend': 'exact rational arithmetic (python fractions) on the literals sliced from the expanded crate'}
    try:
        vals = {}
        for nm in ('GAUSS_QUAD_NODES', 'GAUSS_QUAD_WEIGHTS'):
            it, _ = crate.find('integrate::functions::' + nm)
            txt = crate.src[it.start:it.end]
            body = txt[txt.index('=') + 1:]
            vals[nm] = [Fraction(x) for x in re.findall(r'[0-9]+\.[0-9]+(?:[eE][+-]?[0-9]+)?', body)]
        xs, ws = vals['GAUSS_QUAD_NODES'], vals['GAUSS_QUAD_WEIGHTS']
        if len(xs) != 5 or len(ws) != 5:
            out.update(status='undecided', reason='tables do not have 5 entries each: %d nodes, %d weights' % (len(xs), len(ws)))
            return [out]
        worst = Fraction(0)
        bad = []
        for k in range(5):
            lhs = sum(2 * w * x ** (2 * k) for w, x in zip(ws, xs))
            err = abs(lhs - Fraction(2, 2 * k + 1))
            worst = max(worst, err)
            if err > Fraction(1, 10 ** 14):
                bad.append((k, float(err)))
        out['detail'] = {'max_residual': float(worst), 'nodes': [float(x) for x in xs], 'weights': [float(w) for w in ws]}
        if bad:
            out.update(status='failed', message='Gauss-Legendre moment equation(s) violated: %s' % bad,
                       rendered='sum_i 2 w_i x_i^(2k) - 2/(2k+1) for the tables in the tree: %s' % bad,
                       input='quad5(|x| x.powi(%d), -1., 1.)' % (2 * bad[0][0]))
        else:
            out['status'] = 'ok'
    except Exception as e:
        out.update(status='undecided', reason='cannot slice the quadrature tables: %s' % e)
    return [out]

# ---------------------------------------------------------------- composite trapezoid rule on a caller-supplied integrand: exact for affine integrands
I = 'integrate::functions::'
TRAPZ_SPEC = r'''
/// the integrand, whatever it computes, returns c0 + c1 x  (hypothesis of the exactness clause of property C07)
pub open spec fn is_affine<F: Fn(f64) -> f64>(f: F, c0: real, c1: real) -> bool { forall|x: f64, y: f64| f.ensures((x,), y) ==> rv(y) == c0 + c1 * rv(x) }
/// sum over k = 1..m of c0 + c1 (a + k dx)
pub open spec fn aff_sum(c0: real, c1: real, a: real, dx: real, m: int) -> real decreases m
{ if m <= 0 { 0real } else { aff_sum(c0, c1, a, dx, m - 1) + (c0 + c1 * (a + (m as real) * dx)) } }
pub proof fn lemma_aff_sum_closed(c0: real, c1: real, a: real, dx: real, m: int) requires m >= 0
    ensures aff_sum(c0, c1, a, dx, m) == (m as real) * (c0 + c1 * a) + c1 * dx * ((m as real) * ((m as real) + 1real) / 2real)
    decreases m
{
    if m > 0 { lemma_aff_sum_closed(c0, c1, a, dx, m - 1); nra_aff_step(m as real, c0, c1, a, dx); assert(((m - 1) as real) == (m as real) - 1real); }
    else { nra_aff_zero(c0, c1, a, dx); }
}
pub proof fn lemma_terms_affine(tv: Seq<f64>, c0: real, c1: real, a: real, dx: real, k: int)
    requires 0 <= k <= tv.len(), forall|j: int| 0 <= j < tv.len() ==> rv(#[trigger] tv[j]) == c0 + c1 * (a + ((j + 1) as real) * dx)
    ensures rsum(tv, k) == aff_sum(c0, c1, a, dx, k)
    decreases k
{ if k > 0 { lemma_terms_affine(tv, c0, c1, a, dx, k - 1); assert(rv(tv[k - 1]) == c0 + c1 * (a + (k as real) * dx)); } }
'''
TRAPZ_NRA = [
    Lemma('nra_aff_step', 'm c0 c1 a dx', [],
          ['(= (+ (* (- m 1) (+ c0 (* c1 a))) (* (* c1 dx) (/ (* (- m 1) (+ (- m 1) 1)) 2)) (+ c0 (* c1 (+ a (* m dx))))) (+ (* m (+ c0 (* c1 a))) (* (* c1 dx) (/ (* m (+ m 1)) 2))))']),
    Lemma('nra_aff_zero', 'c0 c1 a dx', [], ['(= 0 (+ (* 0 (+ c0 (* c1 a))) (* (* c1 dx) (/ (* 0 (+ 0 1)) 2))))']),
    Lemma('nra_trapz_affine', 'n a b c0 c1 dx s ya yb', ['(>= n 1)', '(= dx (/ (- b a) n))', '(= s (+ (* (- n 1) (+ c0 (* c1 a))) (* (* c1 dx) (/ (* (- n 1) (+ (- n 1) 1)) 2))))', '(= ya (+ c0 (* c1 a)))', '(= yb (+ c0 (* c1 b)))'],
          ['(= (* dx (+ s (/ (+ yb ya) 2))) (* (- b a) (+ c0 (/ (* c1 (+ a b)) 2))))']),
]
trapz = Fn(I + 'trapz', ret='r', level='L1',
           requires=['C07.trapz.panels:: n >= 1', 'C07.trapz.total:: forall|x: f64| f.requires((x,))'],
           ensures=['C07.trapz.affine:: forall|c0: real, c1: real| #[trigger] is_affine(f, c0, c1) ==> rv(r) == (rv(b) - rv(a)) * (c0 + c1 * (rv(a) + rv(b)) / 2real)'],
           rewrites=[('dx * ((1..n).map(|k| f(a + k as f64 * dx)).sum::<f64>() + (f(b) + f(a)) / 2.)',
                      '({ let mut acc_ = 0.; for k in 1..n { acc_ = acc_ + f(a + k as f64 * dx); } let yb_ = f(b); let ya_ = f(a); let out_ = dx * (acc_ + (yb_ + ya_) / 2.); '
                      'proof { assert forall|c0: real, c1: real| #[trigger] is_affine(f, c0, c1) implies rv(out_) == (rv(b) - rv(a)) * (c0 + c1 * (rv(a) + rv(b)) / 2real) by { '
                      'lemma_aff_sum_closed(c0, c1, rv(a), rv(dx), n - 1); assert(((n - 1) as real) == (n as real) - 1real); '
                      'nra_trapz_affine(n as real, rv(a), rv(b), c0, c1, rv(dx), rv(acc_), rv(ya_), rv(yb_)); } } out_ })',
                      'R37: `(A..B).map(|k| E).sum::<f64>()` is the in-order sum of E over k = A..B, written as its defining loop (same assumption as R6: std Sum<f64> is an in-order fold; '
                      'the iterator-adapter form loses its vstd specification inside functions generic over a closure type); R31: end-point evaluations bound to names in evaluation order')],
           loops={1: {'invariant': ['n >= 1', 'forall|x: f64| f.requires((x,))',
                                    'C07.trapz.interior:: forall|c0: real, c1: real| #[trigger] is_affine(f, c0, c1) ==> rv(acc_) == aff_sum(c0, c1, rv(a), rv(dx), k - 1)'],
                      'body_ghost': 'let ghost pre_acc = acc_;',
                      'body_end': ('assert forall|c0: real, c1: real| #[trigger] is_affine(f, c0, c1) implies rv(acc_) == aff_sum(c0, c1, rv(a), rv(dx), k as int) by { '
                                   'assert(rv(pre_acc) == aff_sum(c0, c1, rv(a), rv(dx), k - 1)); }')}})
UNITS.append(Unit('C07_trapz', 'C07', [trapz], spec=SPEC + TRAPZ_SPEC, nra=TRAPZ_NRA, preludes=PRE, broadcast=BC, level='L1', types=core.TYPES, type_spec=core.TYPE_SPEC,
                  notes='trapz on a caller-supplied integrand: for every number of panels n >= 1 and every integrand that returns c0 + c1 x the result is (b - a)(c0 + c1 (a + b)/2), the exact integral; '
                        'the interior sum runs over k = 1..n-1 exactly once each'))

# ---------------------------------------------------------------- Romberg: Richardson tableau structure and the level of the returned estimate
ROM_SPEC = r'''
pub open spec fn ipow2(e: nat) -> int { vstd::arithmetic::power2::pow2(e) as int }
pub proof fn lemma_ipow2_bound(e: nat) requires e <= 30 ensures 1 <= ipow2(e) <= 0x4000_0000
{
    vstd::arithmetic::power2::lemma2_to64();
    vstd::arithmetic::power2::lemma_pow2_pos(e);
    if e < 30 { vstd::arithmetic::power2::lemma_pow2_strictly_increases(e, 30); }
}
pub assume_specification [u32::pow] (base: u32, exp: u32) -> (r: u32)
    requires base == 2 && exp <= 30
    ensures r == ipow2(exp as nat);
/// `approx_eq::rel_diff` - assumed contract of the dependency, abstract
pub uninterp spec fn rel_diff_fn(a: f64, b: f64) -> f64;
#[verifier::external_body]
pub fn rel_diff(a: f64, b: f64) -> (r: f64) ensures r == rel_diff_fn(a, b) { unimplemented!() }
/// Richardson extrapolation: entry (n,m) of the tableau from its left and upper-left neighbours, for 1 <= m <= n <= upto
pub open spec fn richardson(t: Seq<f64>, w: int, upto: int) -> bool {
    forall|n: int, m: int| 1 <= m <= n <= upto && n < w ==> #[trigger] at2(t, w, n, m)
        == f_add(at2(t, w, n, m - 1), f_div(f_sub(at2(t, w, n, m - 1), at2(t, w, n - 1, m - 1)), f_sub(f_powi(4.0f64, m as i32), 1.0f64)))
}
/// what romberg returns: a diagonal entry of a Richardson tableau, of the last level or of a level >= 2 (property C07: "k levels")
pub open spec fn romberg_result(nmax: int, r: f64) -> bool {
    exists|t: Seq<f64>, lvl: int| t.len() == nmax * nmax && #[trigger] richardson(t, nmax, lvl) && r == at2(t, nmax, lvl, lvl) && 0 <= lvl < nmax && (lvl == nmax - 1 || lvl >= 2)
}
'''
RSHP = 'r.nrows == nmax && r.ncols == nmax && wf(r)'
romberg = Fn(I + 'romberg', ret='res', level='L0',
             requires=['C07.romberg.levels:: 1 <= nmax <= 31', 'C07.romberg.total:: forall|x: f64| f.requires((x,))'],
             ensures=['C07.romberg.level:: romberg_result(nmax as int, res)'],
             rewrites=[('let s: f64 = (1..=2_u32.pow((n - 1) as u32)).map(|k| f(a + (2 * k - 1) as f64 * hn)).sum();',
                        'let s: f64 = ({ let e_ = 2_u32.pow((n - 1) as u32); let mut acc_ = 0.; for k in 1..=e_ { acc_ = acc_ + f(a + (2 * k - 1) as f64 * hn); } acc_ });',
                        'R37: `(A..=B).map(|k| E).sum()` written as its defining loop (iterator adapters lose their specification in functions generic over a closure)')],
             loops={1: {'invariant': [RSHP, '1 <= nmax <= 31', 'forall|x: f64| f.requires((x,))'],
                        'body_start': 'lemma_ipow2_bound((n - 1) as nat); lemma_idx(n as int, 0, nmax as int, nmax as int); lemma_row(n as int - 1, nmax as int, nmax as int);'},
                    2: {'invariant': ['forall|x: f64| f.requires((x,))', '1 <= e_ <= 0x4000_0000']},
                    3: {'invariant': [RSHP, '1 <= nmax <= 31', 'C07.romberg.rows:: richardson(r.data.v@, nmax as int, n - 1)']},
                    4: {'invariant': [RSHP, '1 <= n < nmax', 'C07.romberg.rows.m:: richardson(r.data.v@, nmax as int, n - 1)',
                                                         'C07.romberg.row:: forall|q: int| 1 <= q < m && q <= n ==> #[trigger] at2(r.data.v@, nmax as int, n as int, q) == f_add(at2(r.data.v@, nmax as int, n as int, q - 1), f_div(f_sub(at2(r.data.v@, nmax as int, n as int, q - 1), at2(r.data.v@, nmax as int, n - 1, q - 1)), f_sub(f_powi(4.0f64, q as i32), 1.0f64)))'],
                        'body_ghost': 'let ghost pre_t = r.data.v@;',
                        'body_start': 'lemma_idx(n as int, m as int, nmax as int, nmax as int); lemma_idx(n as int, m as int - 1, nmax as int, nmax as int); lemma_idx(n as int - 1, m as int - 1, nmax as int, nmax as int);',
                        'body_end': ('assert forall|i: int, j: int| 0 <= i < nmax && 0 <= j < nmax && !(i == n && j == m) implies #[trigger] at2(r.data.v@, nmax as int, i, j) == at2(pre_t, nmax as int, i, j) by '
                                     '{ lemma_idx(i, j, nmax as int, nmax as int); if i * nmax + j == n * nmax + m { lemma_idx_inj(i, j, n as int, m as int, nmax as int); } }')}},
             hints=[('let mut r = Matrix::zeros(nmax, nmax);', 'before', 'proof { assert(nmax * nmax <= 961) by(nonlinear_arith) requires 1 <= nmax <= 31; }'),
                    ('return r[[n, n]];', 'replace',
                     '{ let out_ = r[[n, n]]; proof { let t_ = r.data.v@; lemma_idx(n as int, n as int, nmax as int, nmax as int); assert(t_.len() == nmax * nmax); assert(richardson(t_, nmax as int, n as int)); '
                     'assert(out_ == at2(t_, nmax as int, n as int, n as int)); assert(0 <= n < nmax && n >= 2); assert(romberg_result(nmax as int, out_)); } return out_; }'),
                    ('\n            r[[nmax - 1, nmax - 1]]\n', 'replace',
                     '\n ({ let out_ = r[[nmax - 1, nmax - 1]]; proof { let t_ = r.data.v@; lemma_idx(nmax - 1, nmax - 1, nmax as int, nmax as int); assert(t_.len() == nmax * nmax); assert(richardson(t_, nmax as int, nmax - 1)); '
                     'assert(out_ == at2(t_, nmax as int, nmax - 1, nmax - 1)); assert(romberg_result(nmax as int, out_)); } out_ })\n')])
# the unit for romberg (Richardson structure + first column) lives in contracts/C07b.py; `romberg` above is its base contract

# ---------------------------------------------------------------- quad5: the 5-pair symmetric Gauss-Legendre sum on a caller-supplied integrand
QUAD_SPEC = r"""
/// the integrand, whatever it computes, returns g(x)
pub open spec fn is_graph<F: Fn(f64) -> f64>(f: F, g: spec_fn(real) -> real) -> bool { forall|x: f64, y: f64| f.ensures((x,), y) ==> rv(y) == g(rv(x)) }
/// sum over the first k table pairs of  w_i * (g(xm + xr n_i) + g(xm - xr n_i))
pub open spec fn gl5(g: spec_fn(real) -> real, xm: real, xr: real, k: int) -> real decreases k
{ if k <= 0 { 0real } else { gl5(g, xm, xr, k - 1) + rv(k_GAUSS_QUAD_WEIGHTS()[k - 1]) * (g(xm + xr * rv(k_GAUSS_QUAD_NODES()[k - 1])) + g(xm - xr * rv(k_GAUSS_QUAD_NODES()[k - 1]))) } }
/// the value quad5 returns for an integrand with graph g
pub open spec fn quad5_value(g: spec_fn(real) -> real, a: real, b: real) -> real { gl5(g, (b + a) / 2real, (b - a) / 2real, 5) * ((b - a) / 2real) }
/// the node pairs are symmetric about the midpoint: reversing the half-width leaves the sum unchanged ...
pub proof fn lemma_gl5_symmetric(g: spec_fn(real) -> real, xm: real, xr: real, k: int)
    ensures gl5(g, xm, -xr, k) == gl5(g, xm, xr, k) decreases k
{
    if k > 0 {
        lemma_gl5_symmetric(g, xm, xr, k - 1);
        let n = rv(k_GAUSS_QUAD_NODES()[k - 1]);
        assert(xm + (-xr) * n == xm - xr * n) by(nonlinear_arith);
        assert(xm - (-xr) * n == xm + xr * n) by(nonlinear_arith);
    }
}
/// ... so swapping the limits changes the sign of the result (property C07)
pub proof fn lemma_quad5_swap(g: spec_fn(real) -> real, a: real, b: real)
    ensures quad5_value(g, b, a) == -quad5_value(g, a, b)
{
    let xm = (b + a) / 2real; let xr = (b - a) / 2real;
    assert((a + b) / 2real == xm); assert((a - b) / 2real == -xr);
    lemma_gl5_symmetric(g, xm, xr, 5);
    let s = gl5(g, xm, xr, 5);
    assert(s * (-xr) == -(s * xr)) by(nonlinear_arith);
}
/// the rule is linear in the integrand (property C07): gh = al g + be h pointwise
pub proof fn lemma_gl5_linear(g: spec_fn(real) -> real, h: spec_fn(real) -> real, gh: spec_fn(real) -> real, al: real, be: real, xm: real, xr: real, k: int)
    requires forall|x: real| #[trigger] gh(x) == al * g(x) + be * h(x)
    ensures gl5(gh, xm, xr, k) == al * gl5(g, xm, xr, k) + be * gl5(h, xm, xr, k) decreases k
{
    if k > 0 {
        lemma_gl5_linear(g, h, gh, al, be, xm, xr, k - 1);
        let w = rv(k_GAUSS_QUAD_WEIGHTS()[k - 1]); let n = rv(k_GAUSS_QUAD_NODES()[k - 1]);
        let p = xm + xr * n; let q = xm - xr * n;
        let gp = g(p); let gq = g(q); let hp = h(p); let hq = h(q);
        assert(gh(p) == al * gp + be * hp); assert(gh(q) == al * gq + be * hq);
        let s1 = gl5(g, xm, xr, k - 1); let s2 = gl5(h, xm, xr, k - 1);
        nra_gl5_lin(al, be, s1, s2, w, gp, gq, hp, hq);
    } else {
        nra_gl5_lin0(al, be);
    }
}
"""
QUAD_NRA = [
    Lemma('nra_gl5_lin', 'al be s1 s2 w gp gq hp hq', [],
          ['(= (+ (+ (* al s1) (* be s2)) (* w (+ (+ (* al gp) (* be hp)) (+ (* al gq) (* be hq))))) (+ (* al (+ s1 (* w (+ gp gq)))) (* be (+ s2 (* w (+ hp hq))))))']),
    Lemma('nra_gl5_lin0', 'al be', [], ['(= (+ (* al 0) (* be 0)) 0)']),
]
quad5 = Fn(I + 'quad5', ret='r', level='L1',
           requires=['C07.quad5.total:: forall|x: f64| f.requires((x,))'],
           ensures=['C07.quad5.rule:: forall|g: spec_fn(real) -> real| #[trigger] is_graph(f, g) ==> rv(r) == quad5_value(g, rv(a), rv(b))'],
           rewrites=[(r'(?s)\(0\.\.5\)\.map\(\|i\|\s*(\{.*?\})\)\.sum::<f64>\(\)', r'({ let mut acc_ = 0.; for i in 0..5 { acc_ = acc_ + (\1); } acc_ })',
                      'R37: `(A..B).map(|i| E).sum::<f64>()` is the in-order sum of E over i = A..B, written as its defining loop', 're')],
           loops={1: {'invariant': ['forall|x: f64| f.requires((x,))',
                                    'C07.quad5.partial:: forall|g: spec_fn(real) -> real| #[trigger] is_graph(f, g) ==> rv(acc_) == gl5(g, rv(xm), rv(xr), i as int)'],
                      'body_ghost': 'let ghost pre_acc = acc_;',
                      'body_end': ('assert forall|g: spec_fn(real) -> real| #[trigger] is_graph(f, g) implies rv(acc_) == gl5(g, rv(xm), rv(xr), i + 1) by { '
                                   'assert(rv(pre_acc) == gl5(g, rv(xm), rv(xr), i as int)); }')}})
UNITS.append(Unit('C07_quad5', 'C07', [quad5], spec=SPEC + QUAD_SPEC, nra=QUAD_NRA, preludes=PRE, broadcast=BC, level='L1', types=core.TYPES, type_spec=core.TYPE_SPEC,
                  notes='quad5 returns half the width times the symmetric 5-pair weighted sum of the integrand about the midpoint, with the nodes and weights of the tables; '
                        'linearity in the integrand and sign reversal under swapped limits follow as lemmas over that sum; polynomial exactness of the tables is the moment-equation check'))
