"""C17 — statistical transforms and combinatorics (L1 for the transforms, integers for binom_coeff);
C20 — covariance kernels, scalar forms (L1)."""
from vc.gen import Fn, Unit
from vc.nra import Lemma

PRE = ('fax_l0', 'fmeth', 'stdspec', 'l1')
BC = ('l0', 'l1_arith', 'l1_fun')
S = 'functions::statistical::'

SPEC17 = r'''
pub open spec fn r_logistic(x: real) -> real { 1real / (1real + r_exp(-x)) }
pub proof fn lemma_recip_unit(d: real) requires d > 1real ensures 0real < 1real / d < 1real {
    assert(0real < 1real / d < 1real) by(nonlinear_arith) requires d > 1real;
}
/// logistic takes values in (0,1)  (property C17)
pub proof fn lemma_logistic_range(x: real) ensures 0real < r_logistic(x) < 1real {
    ax_exp_pos(-x); lemma_recip_unit(1real + r_exp(-x));
}
/// logistic is non-decreasing  (property C17)
pub proof fn lemma_logistic_mono(x: real, y: real) requires x <= y ensures r_logistic(x) <= r_logistic(y) {
    ax_exp_pos(-x); ax_exp_pos(-y); ax_exp_mono(-y, -x);
    let a = 1real + r_exp(-x); let b = 1real + r_exp(-y);
    assert(1real / a <= 1real / b) by(nonlinear_arith) requires 0real < b <= a;
}
'''

logistic = Fn(S + 'logistic', ret='r', level='L1',
              ensures=['C17.logistic.formula:: rv(r) == r_logistic(rv(x))', 'C17.logistic.range:: 0real < rv(r) < 1real'],
              pre_body='proof { lemma_logistic_range(rv(x)); ax_exp_pos(-rv(x)); }')
logit = Fn(S + 'logit', ret='r', level='L1', valid='0real <= rv(p) <= 1real', panics={1: 'REJECT'},
           ensures=['C17.logit.valid:: 0real <= rv(p) <= 1real',
                    'C17.logit.formula:: rv(p) < 1real ==> rv(r) == r_ln(rv(p) / (1real - rv(p)))'])
boxcox = Fn(S + 'boxcox', ret='r', level='L1', valid='rv(x) > 0real', panics={1: 'REJECT'},
            ensures=['C17.boxcox.valid:: rv(x) > 0real',
                     'C17.boxcox.zero:: rv(lambda) == 0real ==> rv(r) == r_ln(rv(x))',
                     'C17.boxcox.formula:: rv(lambda) != 0real ==> rv(r) == (r_pow(rv(x), rv(lambda)) - 1real) / rv(lambda)'])
boxcox_shifted = Fn(S + 'boxcox_shifted', ret='r', level='L1', valid='rv(x) + rv(alpha) > 0real', panics={1: 'REJECT'},
                    ensures=['C17.boxcox_shifted.valid:: rv(x) + rv(alpha) > 0real',
                             'C17.boxcox_shifted.zero:: rv(lambda) == 0real ==> rv(r) == r_ln(rv(x) + rv(alpha))',
                             'C17.boxcox_shifted.formula:: rv(lambda) != 0real ==> rv(r) == (r_pow(rv(x) + rv(alpha), rv(lambda)) - 1real) / rv(lambda)'])

K = 'predict::gps::kernels::'
SPEC20 = r'''
pub open spec fn sq(x: real) -> real { x * x }
pub open spec fn k_rbf(var: real, l: real, x: real, y: real) -> real { r_exp(-(sq(x - y)) / (2real * sq(l))) * var }
pub open spec fn k_rq(var: real, a: real, l: real, x: real, y: real) -> real { r_pow(1real + sq(x - y) / (2real * a * sq(l)), -a) * var }
pub proof fn lemma_sq_sym(x: real, y: real) ensures sq(x - y) == sq(y - x) { assert((x - y) * (x - y) == (y - x) * (y - x)) by(nonlinear_arith); }
/// symmetric, equals the output variance at zero distance, positive and never above the variance (property C20)
pub proof fn lemma_rbf_props(var: real, l: real, x: real, y: real) requires var > 0real, l > 0real
    ensures k_rbf(var, l, x, y) == k_rbf(var, l, y, x), k_rbf(var, l, x, x) == var, 0real < k_rbf(var, l, x, y) <= var
{
    lemma_sq_sym(x, y);
    lemma_mul_pos(l, l); lemma_sq_nonneg(x - y);
    let d = 2real * sq(l); let q = sq(x - y);
    assert(-(q) / d <= 0real) by(nonlinear_arith) requires q >= 0real, d > 0real;
    ax_exp_mono(-(q) / d, 0real); ax_exp_pos(-(q) / d);
    assert(sq(x - x) == 0real) by(nonlinear_arith);
    assert(-(0real) / d == 0real) by(nonlinear_arith) requires d > 0real;
    let e = r_exp(-(q) / d);
    assert(0real < e * var <= var) by(nonlinear_arith) requires 0real < e <= 1real, var > 0real;
    assert(1real * var == var) by(nonlinear_arith);
}
'''
TYPES20 = [K + '{struct RBFKernel}', K + '{struct RationalQuadraticKernel}', K + '{type RQKernel}']
RBFV = 'rv(var) > 0real && rv(length_scale) > 0real'
rbf_new = Fn(K + '{impl RBFKernel}::new', ret='r', level='L1', valid=RBFV, panics={1: 'REJECT', 2: 'REJECT'},
             ensures=['C20.rbf.new.valid:: ' + RBFV, 'C20.rbf.new.fields:: r.var == var && r.length_scale == length_scale'])
RQV = 'rv(var) > 0real && rv(alpha) > 0real && rv(length_scale) > 0real'
rq_new = Fn(K + '{impl RQKernel}::new', ret='r', level='L1', valid=RQV, panics={1: 'REJECT', 2: 'REJECT', 3: 'REJECT'},
            ensures=['C20.rq.new.valid:: ' + RQV, 'C20.rq.new.fields:: r.var == var && r.alpha == alpha && r.length_scale == length_scale'])
RBF_HINT = 'proof { if rv(self.length_scale) > 0real { lemma_mul_pos(rv(self.length_scale), rv(self.length_scale)); } }'
rbf_f = Fn(K + '{impl Kernel<f64, f64> for RBFKernel}::forward', ret='r', level='L1', inherent=True, name_as='forward_f64',
           ensures=['C20.rbf.formula:: rv(self.length_scale) > 0real ==> rv(r) == k_rbf(rv(self.var), rv(self.length_scale), rv(x), rv(y))'],
           pre_body=RBF_HINT)
RQ_HINT = 'proof { if rv(self.length_scale) > 0real && rv(self.alpha) > 0real { lemma_mul_pos(rv(self.length_scale), rv(self.length_scale)); lemma_mul_pos(2real * rv(self.alpha), rv(self.length_scale) * rv(self.length_scale)); } }'
rq_f = Fn(K + '{impl Kernel<f64, f64> for RationalQuadraticKernel}::forward', ret='r', level='L1', inherent=True, name_as='forward_f64',
          ensures=['C20.rq.formula:: rv(self.length_scale) > 0real && rv(self.alpha) > 0real ==> rv(r) == k_rq(rv(self.var), rv(self.alpha), rv(self.length_scale), rv(x), rv(y))'],
          pre_body=RQ_HINT)

UNITS = [
    Unit('C17_transforms', 'C17', [logistic, logit, boxcox, boxcox_shifted], spec=SPEC17, preludes=PRE, broadcast=BC, level='L1',
         notes='logistic / logit / Box-Cox against their defining formulas over the reals, domains rejected two-sidedly; '
               'range and monotonicity of the logistic as lemmas over the contract'),
    Unit('C20_scalar', 'C20', [rbf_new, rq_new, rbf_f, rq_f], types=TYPES20, spec=SPEC20, preludes=PRE, broadcast=BC, level='L1',
         notes='scalar RBF and rational-quadratic kernels equal the textbook forms; symmetry, k(x,x)=var, 0<k<=var as lemmas'),
]

# ---------------------------------------------------------------- binomial coefficient: exact integer arithmetic (no floats)
BINOM_SPEC = r'''
pub open spec fn binom(n: nat, k: nat) -> nat decreases n
{ if k == 0 { 1 } else if n == 0 { 0 } else { binom((n - 1) as nat, (k - 1) as nat) + binom((n - 1) as nat, k) } }

pub proof fn lemma_binom_zero(n: nat, k: nat) requires k > n ensures binom(n, k) == 0 decreases n
{ if n > 0 { lemma_binom_zero((n - 1) as nat, (k - 1) as nat); lemma_binom_zero((n - 1) as nat, k); } }

pub proof fn lemma_binom_nn(n: nat) ensures binom(n, n) == 1 decreases n
{ if n > 0 { lemma_binom_nn((n - 1) as nat); lemma_binom_zero((n - 1) as nat, n); } }

/// k * C(n,k) == n * C(n-1,k-1)
pub proof fn lemma_absorb(n: nat, k: nat) requires n >= 1, k >= 1
    ensures k * binom(n, k) == n * binom((n - 1) as nat, (k - 1) as nat) decreases n
{
    let a = binom((n - 1) as nat, (k - 1) as nat);
    let b = binom((n - 1) as nat, k);
    assert(binom(n, k) == a + b);
    if n == 1 {
        if k == 1 { assert(b == 0); assert(a == 1); } else { lemma_binom_zero(0, k); lemma_binom_zero(0, (k - 1) as nat); }
        assert(k * (a + b) == n * a) by(nonlinear_arith) requires n == 1, (k == 1 && a == 1 && b == 0) || (a == 0 && b == 0);
    } else if k == 1 {
        // 1*C(n,1) = n*C(n-1,0) = n ; b = C(n-1,1) = n-1 by IH
        lemma_absorb((n - 1) as nat, 1);
        assert(a == 1);
        assert(binom((n - 2) as nat, 0) == 1);
        assert(1 * b == (n - 1) * 1) ;
        assert(k * (a + b) == n * a) by(nonlinear_arith) requires k == 1, a == 1, b == n - 1;
    } else {
        lemma_absorb((n - 1) as nat, k);         // k*b == (n-1)*C(n-2,k-1)
        lemma_absorb((n - 1) as nat, (k - 1) as nat);   // (k-1)*a == (n-1)*C(n-2,k-2)
        let c = binom((n - 2) as nat, (k - 1) as nat);
        let d = binom((n - 2) as nat, (k - 2) as nat);
        assert(a == d + c);
        assert(k * (a + b) == n * a) by(nonlinear_arith) requires k * b == (n - 1) * c, (k - 1) * a == (n - 1) * d, a == d + c, k >= 2, n >= 2;
    }
}

/// (n-k) * C(n,k) == n * C(n-1,k)
pub proof fn lemma_absorb2(n: nat, k: nat) requires n >= 1, k <= n
    ensures (n - k) * binom(n, k) == n * binom((n - 1) as nat, k)
{
    if k == 0 { assert(binom(n, 0) == 1); assert(binom((n - 1) as nat, 0) == 1); }
    else {
        lemma_absorb(n, k);
        let a = binom((n - 1) as nat, (k - 1) as nat);
        let b = binom((n - 1) as nat, k);
        assert(binom(n, k) == a + b);
        assert((n - k) * (a + b) == n * b) by(nonlinear_arith) requires k * (a + b) == n * a, k <= n;
    }
}

/// i * C(n,i) == (n-i+1) * C(n,i-1)
pub proof fn lemma_step(n: nat, i: nat) requires 1 <= i <= n
    ensures i * binom(n, i) == (n - i + 1) * binom(n, (i - 1) as nat)
{
    lemma_absorb(n, i);
    lemma_absorb2(n, (i - 1) as nat);
}

pub proof fn lemma_sym(n: nat, k: nat) requires k <= n ensures binom(n, k) == binom(n, (n - k) as nat) decreases n
{
    if k == 0 { lemma_binom_nn(n); } else if k == n { lemma_binom_nn(n); }
    else {
        lemma_sym((n - 1) as nat, (k - 1) as nat);
        lemma_sym((n - 1) as nat, k);
        assert(binom(n, k) == binom((n - 1) as nat, (k - 1) as nat) + binom((n - 1) as nat, k));
        assert(binom(n, (n - k) as nat) == binom((n - 1) as nat, (n - k - 1) as nat) + binom((n - 1) as nat, (n - k) as nat));
    }
}

/// C(n,i-1) <= C(n,i) while 2i <= n+1
pub proof fn lemma_mono(n: nat, i: nat) requires 1 <= i, 2 * i <= n + 1
    ensures binom(n, (i - 1) as nat) <= binom(n, i)
{
    lemma_step(n, i);
    let x = binom(n, i); let y = binom(n, (i - 1) as nat);
    assert(y <= x) by(nonlinear_arith) requires i * x == (n - i + 1) * y, n - i + 1 >= i, i >= 1;
}
pub proof fn lemma_mono_chain(n: nat, i: nat, j: nat) requires i <= j, 2 * j <= n + 1
    ensures binom(n, i) <= binom(n, j) decreases j - i
{
    if i < j { lemma_mono_chain(n, i, (j - 1) as nat); lemma_mono(n, j); }
}
pub proof fn lemma_binom_pos(n: nat, k: nat) requires k <= n ensures binom(n, k) >= 1 decreases n
{ if k > 0 && n > 0 { if k <= n - 1 { lemma_binom_pos((n - 1) as nat, k); } else { lemma_binom_pos((n - 1) as nat, (k - 1) as nat); } } }

'''
binom_coeff = Fn('functions::combinatorial::binom_coeff', ret='r', level='int',
                 requires=['C17.binom.domain:: k <= n', 'C17.binom.fits:: binom(n as nat, k as nat) <= u64::MAX'],
                 ensures=['C17.binom.exact:: r == binom(n as nat, k as nat)'],
                 rewrites=[('std::u64::MAX', 'u64::MAX', 'R9: `std::u64::MAX` is the deprecated alias of the associated constant `u64::MAX`'),
                           ('let mut c = 1;', 'let mut c: u64 = 1;', 'R4c: integer literal given the type rustc infers for it (u64, from `c / i` with i: u64)')],
                 hints=[('let mut c: u64 = 1;', 'before', 'proof { lemma_sym(n as nat, k as nat); }')],
                 loops={1: {'invariant': ['2 * nk <= n', 'binom(n as nat, k as nat) == binom(n as nat, nk as nat)', 'binom(n as nat, nk as nat) <= u64::MAX',
                                          'C17.binom.prefix:: c == binom(n as nat, (i - 1) as nat)'],
                            'body_ghost': 'let ghost bi = binom(n as nat, i as nat) as int; let ghost bn = binom(n as nat, nk as nat) as int; let ghost q = c as int / i as int; let ghost r = c as int % i as int; let ghost t = (n - i + 1) as int; let ghost mx = u64::MAX as int;',
                            'body_start': 'lemma_step(n as nat, i as nat);\n            lemma_mono_chain(n as nat, i as nat, nk as nat);\n            assert(bi <= bn <= mx);\n            assert(c as int == q * i + r && 0 <= r < i) by { vstd::arithmetic::div_mod::lemma_fundamental_div_mod(c as int, i as int); vstd::arithmetic::div_mod::lemma_mod_bound(c as int, i as int); }\n            assert(q >= 0) by { vstd::arithmetic::div_mod::lemma_div_pos_is_pos(c as int, i as int); }\n            assert(i * bi == t * c);\n            assert(r * t == i * (bi - q * t)) by(nonlinear_arith) requires i * bi == t * c, c == q * i + r;\n            vstd::arithmetic::div_mod::lemma_div_multiples_vanish(bi - q * t, i as int);\n            assert((i * (bi - q * t)) / (i as int) == bi - q * t) by { vstd::arithmetic::mul::lemma_mul_is_commutative(i as int, bi - q * t); }\n            assert(q * t + (r * t) / (i as int) == bi);\n            assert(bi - q * t >= 0) by(nonlinear_arith) requires r * t == i * (bi - q * t), r >= 0, t >= 0, i > 0;\n            assert(0 <= q * t <= bi) by(nonlinear_arith) requires bi - q * t >= 0, q >= 0, t >= 0;\n            assert(r * t <= mx) by {\n                if i >= 2 {\n                    lemma_mono_chain(n as nat, 2, i as nat);\n                    lemma_step(n as nat, 1); lemma_step(n as nat, 2);\n                    assert(binom(n as nat, 0) == 1);\n                    let b2 = binom(n as nat, 2) as int; let b1 = binom(n as nat, 1) as int;\n                    assert(2 * b2 == n * (n - 1)) by(nonlinear_arith) requires 1 * b1 == (n - 1 + 1) * 1, 2 * b2 == (n - 2 + 1) * b1;\n                    assert(2 * (r * t) <= n * (n - 1)) by(nonlinear_arith) requires 0 <= r <= i - 1, t == n - i + 1, 2 * i <= n, i >= 2;\n                } else { assert(r == 0); assert(r * t == 0) by(nonlinear_arith) requires r == 0; }\n            }\n            // guard is false\n            vstd::arithmetic::div_mod::lemma_fundamental_div_mod(mx, nk as int);\n            vstd::arithmetic::div_mod::lemma_mod_bound(mx, nk as int);\n            assert(q * nk <= q * t) by(nonlinear_arith) requires t >= nk, q >= 0;\n            assert(q <= mx / (nk as int)) by(nonlinear_arith) requires q * nk <= mx, mx == (nk as int) * (mx / (nk as int)) + mx % (nk as int), 0 <= mx % (nk as int) < nk, nk > 0, q >= 0;'}})
UNITS.append(Unit('C17_binom', 'C17', [binom_coeff], spec=BINOM_SPEC, preludes=('fax_l0', 'fmeth', 'stdspec'), broadcast=('l0',), level='int',
                  notes='binom_coeff returns exactly C(n,k) (Pascal-rule definition) for every 0 <= k <= n whose value fits in 64 bits: no intermediate overflow, '
                        'the overflow guard never fires on such inputs; symmetry and the absorption identities are lemmas over the definition'))

# ---------------------------------------------------------------- softmax (max-shifted): formula, positivity, sum to one, order
SOFT_SPEC = r'''
pub open spec fn all_finite(d: Seq<f64>) -> bool { forall|k: int| 0 <= k < d.len() ==> finite(#[trigger] d[k]) }
/// sum over j < k of exp(x_j - m)
pub open spec fn esum(x: Seq<f64>, m: real, k: int) -> real decreases k { if k <= 0 { 0real } else { esum(x, m, k - 1) + r_exp(rv(x[k - 1]) - m) } }
pub proof fn lemma_esum_pos(x: Seq<f64>, m: real, k: int) requires k >= 1 ensures esum(x, m, k) > 0real decreases k
{ ax_exp_pos(rv(x[k - 1]) - m); if k > 1 { lemma_esum_pos(x, m, k - 1); } else { assert(esum(x, m, 0) == 0real); } }
pub proof fn lemma_exps_sum(e: Seq<f64>, x: Seq<f64>, m: f64, k: int)
    requires 0 <= k <= e.len(), e.len() == x.len(), forall|j: int| 0 <= j < e.len() ==> #[trigger] e[j] == f_exp(f_sub(x[j], m))
    ensures rsum(e, k) == esum(x, rv(m), k) decreases k
{ if k > 0 { lemma_exps_sum(e, x, m, k - 1); assert(e[k - 1] == f_exp(f_sub(x[k - 1], m))); } }
/// the quotients e_j / s sum to (sum of e_j) / s, division-free
pub proof fn lemma_quot_sum(r: Seq<f64>, e: Seq<f64>, s: real, k: int)
    requires 0 <= k <= r.len(), r.len() == e.len(), s != 0real, forall|j: int| 0 <= j < r.len() ==> rv(#[trigger] r[j]) == rv(e[j]) / s
    ensures rsum(r, k) * s == rsum(e, k) decreases k
{
    if k > 0 { lemma_quot_sum(r, e, s, k - 1); nra_quot_step(rsum(r, k - 1), rv(r[k - 1]), rv(e[k - 1]), s, rsum(e, k - 1)); }
    else { assert(0real * s == 0real) by(nonlinear_arith); }
}
/// what softmax returns: p_i = exp(x_i - m) / sum_j exp(x_j - m) with m an attained maximum of x (hence shift-invariant), positive, summing to one
pub open spec fn is_softmax(x: Seq<f64>, p: Seq<f64>) -> bool {
    p.len() == x.len() && (x.len() >= 1 ==> exists|m: f64| (exists|q: int| 0 <= q < x.len() && m == #[trigger] x[q]) && (forall|j: int| 0 <= j < x.len() ==> rv(#[trigger] x[j]) <= rv(m))
        && #[trigger] soft_values(x, p, rv(m)))
}
pub open spec fn soft_values(x: Seq<f64>, p: Seq<f64>, m: real) -> bool {
    esum(x, m, x.len() as int) > 0real && (forall|i: int| 0 <= i < x.len() ==> rv(#[trigger] p[i]) == r_exp(rv(x[i]) - m) / esum(x, m, x.len() as int))
}
'''
SOFT_NRA = [Lemma('nra_quot_step', 'a q e s b', ['(distinct s 0)', '(= (* a s) b)', '(= q (/ e s))'], ['(= (* (+ a q) s) (+ b e))']),
            Lemma('nra_unit', 't s', ['(distinct s 0)', '(= (* t s) s)'], ['(= t 1)']),
            Lemma('nra_quot_pos', 'e s q', ['(> e 0)', '(> s 0)', '(= q (/ e s))'], ['(> q 0)']),
            Lemma('nra_quot_mono', 'e1 e2 s q1 q2', ['(<= e1 e2)', '(> s 0)', '(= q1 (/ e1 s))', '(= q2 (/ e2 s))'], ['(<= q1 q2)'])]
softmax = Fn('functions::statistical::softmax', ret='r', level='L1',
             requires=['C17.softmax.finite:: all_finite(x@)'],
             ensures=['C17.softmax.formula:: is_softmax(x@, r@)',
                      'C17.softmax.positive:: forall|i: int| 0 <= i < r@.len() ==> rv(#[trigger] r@[i]) > 0real',
                      'C17.softmax.sum1:: x@.len() >= 1 ==> rsum(r@, r@.len() as int) == 1real',
                      'C17.softmax.order:: forall|i: int, j: int| 0 <= i < r@.len() && 0 <= j < r@.len() && rv(x@[i]) <= rv(x@[j]) ==> rv(#[trigger] r@[i]) <= rv(#[trigger] r@[j])'],
             rewrites=[('(i - m).exp()', '(*i - m).exp()', 'R17: `&f64 - f64` is `*i - rhs`'), ('e / sum_exp', '*e / sum_exp', 'R17'),
                       ('let sum_exp: f64 = exps.iter().sum();', 'let sum_exp: f64 = vsum(exps.clone());', 'R6c: `slice.iter().sum()` is the in-order sum of the elements, i.e. vsum of a copy (std Sum<&f64> for f64)'),
                       ('let exps: Vec<f64> = x.iter().map(|i| (*i - m).exp()).collect();', 'let exps: Vec<f64> = x.iter().map(|i| (*i - m).exp()).collect::<Vec<f64>>();', 'R26b'),
                       ('exps.iter().map(|e| *e / sum_exp).collect()',
                        '({ let out_: Vec<f64> = exps.iter().map(|e| *e / sum_exp).collect::<Vec<f64>>(); proof { let n_ = x@.len() as int; let s_ = esum(x@, rv(m), n_); '
                        'lemma_exps_sum(exps@, x@, m, n_); '
                        'if n_ >= 1 { lemma_esum_pos(x@, rv(m), n_); assert(rv(sum_exp) == s_); '
                        'assert forall|i: int| 0 <= i < n_ implies rv(#[trigger] out_@[i]) == rv(exps@[i]) / s_ by { } '
                        'lemma_quot_sum(out_@, exps@, s_, n_); nra_unit(rsum(out_@, n_), s_); '
                        'assert forall|i: int| 0 <= i < n_ implies rv(#[trigger] out_@[i]) > 0real by { ax_exp_pos(rv(x@[i]) - rv(m)); nra_quot_pos(rv(exps@[i]), s_, rv(out_@[i])); } '
                        'assert forall|i: int, j: int| 0 <= i < n_ && 0 <= j < n_ && rv(x@[i]) <= rv(x@[j]) implies rv(#[trigger] out_@[i]) <= rv(#[trigger] out_@[j]) by '
                        '{ ax_exp_mono(rv(x@[i]) - rv(m), rv(x@[j]) - rv(m)); nra_quot_mono(rv(exps@[i]), rv(exps@[j]), s_, rv(out_@[i]), rv(out_@[j])); } '
                        'assert(soft_values(x@, out_@, rv(m))); } } out_ })', 'R31 + R26b: result bound to a name')],
             closures={1: {'params': 'i: &f64', 'ret': 'o: f64', 'ensures': ['o == f_exp(f_sub(*i, m))']},
                       2: {'params': 'e: &f64', 'ret': 'o: f64', 'requires': ['rv(sum_exp) != 0real || x@.len() == 0'], 'ensures': ['rv(sum_exp) != 0real ==> rv(o) == rv(*e) / rv(sum_exp)']}},
             loops={1: {'invariant': ['all_finite(x@)', 'k_ == 0 ==> acc == f_neg_inf()',
                                      'C17.softmax.max.attained:: k_ > 0 ==> exists|q: int| 0 <= q < k_ && acc == #[trigger] x@[q]',
                                      'C17.softmax.max.bound:: forall|q: int| 0 <= q < k_ ==> rv(#[trigger] x@[q]) <= rv(acc)'],
                        'body_start': 'assert(finite(x@[k_ as int]));'}},
             hints=[('let sum_exp: f64 = vsum(exps.clone());', 'after', 'proof { assert(exps@.len() == x@.len()); lemma_exps_sum(exps@, x@, m, x@.len() as int); if x@.len() >= 1 { lemma_esum_pos(x@, rv(m), x@.len() as int); } }')])
UNITS.append(Unit('C17_softmax', 'C17', [softmax], spec=SOFT_SPEC, nra=SOFT_NRA, preludes=PRE, broadcast=BC + ('l1_minmax', 'ax_f64_cloned'), level='L1',
                  notes='softmax: p_i = exp(x_i - m) / sum_j exp(x_j - m) with m an attained maximum (hence shift-invariant), every p_i positive, the p_i sum to one, and the input order is preserved'))
