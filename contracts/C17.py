"""C17 — statistical transforms and combinatorics (L1 for the transforms, integers for binom_coeff);
C20 — covariance kernels, scalar forms (L1)."""
from vc.gen import Fn, Unit

PRE = ('fax_l0', 'fmeth', 'stdspec', 'l1')
BC = ('l0', 'l1_arith', 'l1_fun')
S = 'functions::statistical::'

SPEC17 = r'''
pub open spec fn r_logistic(x: real) -> real { 1real / (1real + r_exp(-x)) }
pub proof fn lemma_recip_unit(d: real) requires d > 1real ensures 0real < 1real / d < 1real {
    assert(0real < 1real / d < 1real) by(nonlinear_arith) requires d > 1real;
}
/// logistic takes values in (0,1)  (property C17)
pub proof fn lemma_logistic_range(x: real) ensures 0real < r_logistic(x) < 1real {
    ax_exp_pos(-x); lemma_recip_unit(1real + r_exp(-x));
}
/// logistic is non-decreasing  (property C17)
pub proof fn lemma_logistic_mono(x: real, y: real) requires x <= y ensures r_logistic(x) <= r_logistic(y) {
    ax_exp_pos(-x); ax_exp_pos(-y); ax_exp_mono(-y, -x);
    let a = 1real + r_exp(-x); let b = 1real + r_exp(-y);
    assert(1real / a <= 1real / b) by(nonlinear_arith) requires 0real < b <= a;
}
'''

logistic = Fn(S + 'logistic', ret='r', level='L1',
              ensures=['C17.logistic.formula:: rv(r) == r_logistic(rv(x))', 'C17.logistic.range:: 0real < rv(r) < 1real'],
              pre_body='proof { lemma_logistic_range(rv(x)); ax_exp_pos(-rv(x)); }')
logit = Fn(S + 'logit', ret='r', level='L1', valid='0real <= rv(p) <= 1real', panics={1: 'REJECT'},
           ensures=['C17.logit.valid:: 0real <= rv(p) <= 1real',
                    'C17.logit.formula:: rv(p) < 1real ==> rv(r) == r_ln(rv(p) / (1real - rv(p)))'])
boxcox = Fn(S + 'boxcox', ret='r', level='L1', valid='rv(x) > 0real', panics={1: 'REJECT'},
            ensures=['C17.boxcox.valid:: rv(x) > 0real',
                     'C17.boxcox.zero:: rv(lambda) == 0real ==> rv(r) == r_ln(rv(x))',
                     'C17.boxcox.formula:: rv(lambda) != 0real ==> rv(r) == (r_pow(rv(x), rv(lambda)) - 1real) / rv(lambda)'])
boxcox_shifted = Fn(S + 'boxcox_shifted', ret='r', level='L1', valid='rv(x) + rv(alpha) > 0real', panics={1: 'REJECT'},
                    ensures=['C17.boxcox_shifted.valid:: rv(x) + rv(alpha) > 0real',
                             'C17.boxcox_shifted.zero:: rv(lambda) == 0real ==> rv(r) == r_ln(rv(x) + rv(alpha))',
                             'C17.boxcox_shifted.formula:: rv(lambda) != 0real ==> rv(r) == (r_pow(rv(x) + rv(alpha), rv(lambda)) - 1real) / rv(lambda)'])

K = 'predict::gps::kernels::'
SPEC20 = r'''
pub open spec fn sq(x: real) -> real { x * x }
pub open spec fn k_rbf(var: real, l: real, x: real, y: real) -> real { r_exp(-(sq(x - y)) / (2real * sq(l))) * var }
pub open spec fn k_rq(var: real, a: real, l: real, x: real, y: real) -> real { r_pow(1real + sq(x - y) / (2real * a * sq(l)), -a) * var }
pub proof fn lemma_sq_sym(x: real, y: real) ensures sq(x - y) == sq(y - x) { assert((x - y) * (x - y) == (y - x) * (y - x)) by(nonlinear_arith); }
/// symmetric, equals the output variance at zero distance, positive and never above the variance (property C20)
pub proof fn lemma_rbf_props(var: real, l: real, x: real, y: real) requires var > 0real, l > 0real
    ensures k_rbf(var, l, x, y) == k_rbf(var, l, y, x), k_rbf(var, l, x, x) == var, 0real < k_rbf(var, l, x, y) <= var
{
    lemma_sq_sym(x, y);
    lemma_mul_pos(l, l); lemma_sq_nonneg(x - y);
    let d = 2real * sq(l); let q = sq(x - y);
    assert(-(q) / d <= 0real) by(nonlinear_arith) requires q >= 0real, d > 0real;
    ax_exp_mono(-(q) / d, 0real); ax_exp_pos(-(q) / d);
    assert(sq(x - x) == 0real) by(nonlinear_arith);
    assert(-(0real) / d == 0real) by(nonlinear_arith) requires d > 0real;
    let e = r_exp(-(q) / d);
    assert(0real < e * var <= var) by(nonlinear_arith) requires 0real < e <= 1real, var > 0real;
    assert(1real * var == var) by(nonlinear_arith);
}
'''
TYPES20 = [K + '{struct RBFKernel}', K + '{struct RationalQuadraticKernel}', K + '{type RQKernel}']
RBFV = 'rv(var) > 0real && rv(length_scale) > 0real'
rbf_new = Fn(K + '{impl RBFKernel}::new', ret='r', level='L1', valid=RBFV, panics={1: 'REJECT', 2: 'REJECT'},
             ensures=['C20.rbf.new.valid:: ' + RBFV, 'C20.rbf.new.fields:: r.var == var && r.length_scale == length_scale'])
RQV = 'rv(var) > 0real && rv(alpha) > 0real && rv(length_scale) > 0real'
rq_new = Fn(K + '{impl RQKernel}::new', ret='r', level='L1', valid=RQV, panics={1: 'REJECT', 2: 'REJECT', 3: 'REJECT'},
            ensures=['C20.rq.new.valid:: ' + RQV, 'C20.rq.new.fields:: r.var == var && r.alpha == alpha && r.length_scale == length_scale'])
RBF_HINT = 'proof { if rv(self.length_scale) > 0real { lemma_mul_pos(rv(self.length_scale), rv(self.length_scale)); } }'
rbf_f = Fn(K + '{impl Kernel<f64, f64> for RBFKernel}::forward', ret='r', level='L1', inherent=True, name_as='forward_f64',
           ensures=['C20.rbf.formula:: rv(self.length_scale) > 0real ==> rv(r) == k_rbf(rv(self.var), rv(self.length_scale), rv(x), rv(y))'],
           pre_body=RBF_HINT)
RQ_HINT = 'proof { if rv(self.length_scale) > 0real && rv(self.alpha) > 0real { lemma_mul_pos(rv(self.length_scale), rv(self.length_scale)); lemma_mul_pos(2real * rv(self.alpha), rv(self.length_scale) * rv(self.length_scale)); } }'
rq_f = Fn(K + '{impl Kernel<f64, f64> for RationalQuadraticKernel}::forward', ret='r', level='L1', inherent=True, name_as='forward_f64',
          ensures=['C20.rq.formula:: rv(self.length_scale) > 0real && rv(self.alpha) > 0real ==> rv(r) == k_rq(rv(self.var), rv(self.alpha), rv(self.length_scale), rv(x), rv(y))'],
          pre_body=RQ_HINT)

UNITS = [
    Unit('C17_transforms', 'C17', [logistic, logit, boxcox, boxcox_shifted], spec=SPEC17, preludes=PRE, broadcast=BC, level='L1',
         notes='logistic / logit / Box-Cox against their defining formulas over the reals, domains rejected two-sidedly; '
               'range and monotonicity of the logistic as lemmas over the contract'),
    Unit('C20_scalar', 'C20', [rbf_new, rq_new, rbf_f, rq_f], types=TYPES20, spec=SPEC20, preludes=PRE, broadcast=BC, level='L1',
         notes='scalar RBF and rational-quadratic kernels equal the textbook forms; symmetry, k(x,x)=var, 0<k<=var as lemmas'),
]
