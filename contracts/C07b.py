"""C07 — Romberg: the first column of the tableau (refined trapezoid sums) pinned in addition to the Richardson structure."""
import copy
from vc.gen import Fn, Unit
from contracts import core
from contracts import C07 as c07

COL_SPEC = r'''
/// sum over j = 1..k of g(a + (2j - 1) h): the new (odd) abscissae of one refinement
pub open spec fn odd_sum(g: spec_fn(real) -> real, a: real, h: real, k: int) -> real decreases k
{ if k <= 0 { 0real } else { odd_sum(g, a, h, k - 1) + g(a + ((2 * k - 1) as real) * h) } }
pub open spec fn rom_h(a: real, b: real, n: int) -> real { (b - a) / r_powi(2real, n) }
pub proof fn lemma_two_pow_pos(n: int) ensures r_powi(2real, n) > 0real decreases n { if n > 0 { lemma_two_pow_pos(n - 1); lemma_mul_pos(2real, r_powi(2real, n - 1)); } }
/// first column of the Romberg tableau: T_0 = (b-a)/2 (g(a)+g(b)),  T_n = T_{n-1}/2 + h_n * (sum of g at the 2^(n-1) new abscissae), h_n = (b-a)/2^n
pub open spec fn col0(g: spec_fn(real) -> real, a: real, b: real, n: int) -> real decreases n
{ if n <= 0 { (b - a) / 2real * (g(a) + g(b)) } else { (1real / 2real) * col0(g, a, b, n - 1) + rom_h(a, b, n) * odd_sum(g, a, rom_h(a, b, n), ipow2((n - 1) as nat)) } }
pub open spec fn first_col(t: Seq<f64>, w: int, g: spec_fn(real) -> real, a: real, b: real, upto: int) -> bool {
    forall|n: int| 0 <= n <= upto && n < w ==> rv(#[trigger] at2(t, w, n, 0)) == col0(g, a, b, n)
}
pub open spec fn is_graph_r<F: Fn(f64) -> f64>(f: F, g: spec_fn(real) -> real) -> bool { forall|x: f64, y: f64| f.ensures((x,), y) ==> rv(y) == g(rv(x)) }
/// what romberg returns: a diagonal entry (last level, or a level >= 2) of ONE tableau that has the Richardson structure and whose first column is the refined trapezoid sums of the integrand
pub open spec fn romberg_result2<F: Fn(f64) -> f64>(f: F, a: f64, b: f64, nmax: int, r: f64) -> bool {
    exists|t: Seq<f64>, lvl: int| t.len() == nmax * nmax && #[trigger] richardson(t, nmax, lvl) && r == at2(t, nmax, lvl, lvl) && 0 <= lvl < nmax && (lvl == nmax - 1 || lvl >= 2)
        && (forall|g: spec_fn(real) -> real| #[trigger] is_graph_r(f, g) ==> first_col(t, nmax, g, rv(a), rv(b), nmax - 1))
}
'''
FC = 'forall|g: spec_fn(real) -> real| #[trigger] is_graph_r(f, g) ==> first_col(r.data.v@, nmax as int, g, rv(a), rv(b), %s)'
romberg2 = copy.deepcopy(c07.romberg)
romberg2.level = 'L1'
romberg2.ensures = ['C07.romberg.level:: romberg_result2(f, a, b, nmax as int, res)']
romberg2.rewrites = [(r'(?s)let s: f64 =\s*\(1\.\.=2_u32\.pow\(\(n - 1\) as\s+u32\)\)\s*\.map\(\|k\|\s*(.*?)\)\s*\.sum\(\);',
                      r'let s: f64 = ({ let e_ = 2_u32.pow((n - 1) as u32); let mut acc_ = 0.; for k in 1..(e_ + 1) { acc_ = acc_ + (\1); } acc_ });',
                      c07.romberg.rewrites[0][2] + '; the inclusive range 1..=e is written 1..(e + 1) (e <= 2^30, no overflow); the summand is kept verbatim', 're')]
romberg2.hints = []
L = copy.deepcopy(c07.romberg.loops)
L[1]['invariant'] = L[1]['invariant'] + ['C07.romberg.col0:: ' + FC % 'n - 1']
L[1]['body_ghost'] = 'let ghost pre_c = r.data.v@;'
L[1]['body_start'] = L[1]['body_start'] + ' lemma_two_pow_pos(n as int);'
L[1]['body_end'] = ('assert forall|g: spec_fn(real) -> real| #[trigger] is_graph_r(f, g) implies first_col(r.data.v@, nmax as int, g, rv(a), rv(b), n as int) by { '
                    'assert forall|q: int| 0 <= q <= n && q < nmax implies rv(#[trigger] at2(r.data.v@, nmax as int, q, 0)) == col0(g, rv(a), rv(b), q) by { '
                    'lemma_idx(q, 0, nmax as int, nmax as int); lemma_idx(n as int, 0, nmax as int, nmax as int); '
                    'if q < n { if q * nmax + 0 == n * nmax + 0 { lemma_idx_inj(q, 0, n as int, 0, nmax as int); } assert(at2(r.data.v@, nmax as int, q, 0) == at2(pre_c, nmax as int, q, 0)); assert(first_col(pre_c, nmax as int, g, rv(a), rv(b), n - 1)); } '
                    'else { assert(first_col(pre_c, nmax as int, g, rv(a), rv(b), n - 1)); assert(rv(at2(pre_c, nmax as int, n - 1, 0)) == col0(g, rv(a), rv(b), n - 1)); '
                    'lemma_idx(n - 1, 0, nmax as int, nmax as int); assert((n - 1) * nmax + 0 == (n - 1) * nmax); '
                    'assert(rv(hn) == rom_h(rv(a), rv(b), n as int)); assert(rv(s) == odd_sum(g, rv(a), rv(hn), ipow2((n - 1) as nat))); '
                    'assert(rv(at2(r.data.v@, nmax as int, n as int, 0)) == (1real / 2real) * rv(at2(pre_c, nmax as int, n - 1, 0)) + rv(hn) * rv(s)); } } }')
L[2]['invariant'] = L[2]['invariant'] + ['C07.romberg.odd:: forall|g: spec_fn(real) -> real| #[trigger] is_graph_r(f, g) ==> rv(acc_) == odd_sum(g, rv(a), rv(hn), k - 1)']
L[2]['body_ghost'] = 'let ghost pre_acc = acc_;'
L[2]['invariant'] = L[2]['invariant'] + ['e_ == ipow2((n - 1) as nat)']
L[2]['body_end'] = ('assert forall|g: spec_fn(real) -> real| #[trigger] is_graph_r(f, g) implies rv(acc_) == odd_sum(g, rv(a), rv(hn), k as int) by { assert(rv(pre_acc) == odd_sum(g, rv(a), rv(hn), k - 1)); }')
L[3]['invariant'] = L[3]['invariant'] + ['C07.romberg.col0.kept:: ' + FC % 'nmax - 1']
L[4]['invariant'] = L[4]['invariant'] + ['C07.romberg.col0.kept.m:: ' + FC % 'nmax - 1', 'm >= 1']
L[4]['body_end'] = L[4]['body_end'] + (' assert forall|g: spec_fn(real) -> real| #[trigger] is_graph_r(f, g) implies first_col(r.data.v@, nmax as int, g, rv(a), rv(b), nmax - 1) by { '
                                       'assert(first_col(pre_t, nmax as int, g, rv(a), rv(b), nmax - 1)); assert forall|q: int| 0 <= q < nmax implies rv(#[trigger] at2(r.data.v@, nmax as int, q, 0)) == col0(g, rv(a), rv(b), q) by { assert(at2(r.data.v@, nmax as int, q, 0) == at2(pre_t, nmax as int, q, 0)); } }')
romberg2.loops = L
romberg2.hints = [('r[[0, 0]] = ', 'after', 'proof { lemma_idx(0, 0, nmax as int, nmax as int); assert(0 * nmax + 0 == 0); }')] + [(a_, w_, t_.replace('assert(romberg_result(nmax as int, out_));', 'assert(romberg_result2(f, a, b, nmax as int, out_));')) for (a_, w_, t_) in c07.romberg.hints[:-1]]
# the value after the last level is bound structurally (tail expression, whatever its text): it must be the full diagonal entry R[nmax-1][nmax-1]
romberg2.tail = ('out_', 'let t_ = r.data.v@; lemma_idx(nmax - 1, nmax - 1, nmax as int, nmax as int); assert(t_.len() == nmax * nmax); assert(richardson(t_, nmax as int, nmax - 1)); '
                         'assert(out_ == at2(t_, nmax as int, nmax - 1, nmax - 1)); assert(romberg_result2(f, a, b, nmax as int, out_));', '')
UNITS = [
    Unit('C07_romberg', 'C07', [romberg2], use=core.core_stubs(), spec=c07.SPEC + c07.ROM_SPEC + COL_SPEC, preludes=c07.PRE, broadcast=c07.BC + ('l1_fun',), level='L1', types=core.TYPES, type_spec=core.TYPE_SPEC, rlimit=200,
         notes='romberg returns a diagonal entry (last level, or a level >= 2) of one tableau whose entries (n,m), m >= 1, are the Richardson extrapolation of their left and upper-left neighbours with factor 4^m - 1 '
               'and whose first column is T_0 = (b-a)/2 (f(a)+f(b)), T_n = T_(n-1)/2 + h_n * (sum of f at the 2^(n-1) new odd abscissae), h_n = (b-a)/2^n'),
]
