"""C11 / C01 — the Matrix-level triangular solves and predicates (separate implementations of the slice-level routines):
the same equations over the matrix data (L1)."""
from vc.gen import Fn, Unit
from contracts import core
from contracts import C04 as c04
from contracts import C01 as c01
from contracts import C11tri as t
from contracts import C15b as c15b
from contracts.core import MAT, IM

PRE = ('fax_l0', 'fmeth', 'stdspec', 'l1')
BC = ('l0', 'l1_arith', 'l1_fun', 'ax_vec_from_refl', 'ax_f64_cloned')

MV = 'self.nrows == self.ncols && b@.len() == self.nrows'
mfwd = Fn(IM + 'forward_substitution', ret='x', level='L1', valid='lower_tri(*self) && b@.len() == self.nrows', panics={1: 'REJECT', 2: 'REJECT'},
          requires=['C11.mfwd.wf:: wf(*self) && self.nrows == self.ncols'],
          ensures=['C11.mfwd.valid:: lower_tri(*self) && b@.len() == self.nrows', 'C11.mfwd.len:: x.v@.len() == b@.len()',
                   'C11.mfwd.triangular:: forall|i: int| 0 <= i < b@.len() && rv(at2(self.data.v@, b@.len() as int, i, i)) != 0real ==> #[trigger] lower_row(self.data.v@, b@.len() as int, x.v@, b@, i)'],
          loops={1: {'invariant': ['wf(*self) && self.nrows == self.ncols', 'b@.len() == self.nrows', 'x.v@.len() == self.nrows',
                                   'C11.mfwd.rows_done:: forall|ii: int| 0 <= ii < i && rv(at2(self.data.v@, self.ncols as int, ii, ii)) != 0real ==> #[trigger] lower_row(self.data.v@, self.ncols as int, x.v@, b@, ii)'],
                     'body_ghost': 'let ghost pre_x = x.v@; let ghost n_ = self.ncols as int;',
                     'body_start': ('lemma_idx(i as int, i as int, n_, n_); lemma_row(i as int, n_, n_); lemma_dsum_tsum(self.data.v@, n_, x.v@, i as int, 0, i as int, i as int); '
                                    'assert(self.data.v@.subrange(i * n_, (i + 1) * n_).subrange(0, i as int) =~= self.data.v@.subrange(i * n_ + 0, i * n_ + i));'),
                     'body_end': ('assert forall|ii: int| 0 <= ii < i + 1 && rv(at2(self.data.v@, n_, ii, ii)) != 0real implies #[trigger] lower_row(self.data.v@, n_, x.v@, b@, ii) by { '
                                  'lemma_tsum_frame(self.data.v@, n_, x.v@, pre_x, ii, 0, ii); '
                                  'if ii < i { assert(lower_row(self.data.v@, n_, pre_x, b@, ii)); } else { '
                                  'nra_div_cancel(rv(b@[i as int]) - tsum(self.data.v@, n_, pre_x, i as int, 0, i as int), rv(at2(self.data.v@, n_, i as int, i as int)), rv(x.v@[i as int])); } }')}})
mbwd = Fn(IM + 'backward_substitution', ret='x', level='L1', valid='upper_tri(*self) && b@.len() == self.nrows', panics={1: 'REJECT', 2: 'REJECT'},
          requires=['C11.mbwd.wf:: wf(*self) && self.nrows == self.ncols'],
          ensures=['C11.mbwd.valid:: upper_tri(*self) && b@.len() == self.nrows', 'C11.mbwd.len:: x.v@.len() == b@.len()',
                   'C11.mbwd.triangular:: forall|i: int| 0 <= i < b@.len() && rv(at2(self.data.v@, b@.len() as int, i, i)) != 0real ==> #[trigger] upper_row(self.data.v@, b@.len() as int, x.v@, b@, i)'],
          loops={1: {'iter_name': 'it',
                     'invariant': ['wf(*self) && self.nrows == self.ncols', 'b@.len() == self.nrows', 'x.v@.len() == self.nrows',
                                   'C11.mbwd.rows_done:: forall|ii: int| self.ncols - it.index@ <= ii < self.ncols && rv(at2(self.data.v@, self.ncols as int, ii, ii)) != 0real ==> #[trigger] upper_row(self.data.v@, self.ncols as int, x.v@, b@, ii)'],
                     'body_ghost': 'let ghost pre_x = x.v@; let ghost n_ = self.ncols as int;',
                     'body_start': ('lemma_idx(i as int, i as int, n_, n_); lemma_row(i as int, n_, n_); lemma_dsum_tsum(self.data.v@, n_, x.v@, i as int, i as int + 1, n_, n_ - i as int - 1); '
                                    'assert(self.data.v@.subrange(i * n_, (i + 1) * n_).subrange(i as int + 1, n_) =~= self.data.v@.subrange(i * n_ + (i + 1), i * n_ + n_));'),
                     'body_end': ('assert forall|ii: int| i <= ii < n_ && rv(at2(self.data.v@, n_, ii, ii)) != 0real implies #[trigger] upper_row(self.data.v@, n_, x.v@, b@, ii) by { '
                                  'lemma_tsum_frame(self.data.v@, n_, x.v@, pre_x, ii, ii + 1, n_); '
                                  'if ii > i { assert(upper_row(self.data.v@, n_, pre_x, b@, ii)); } else { '
                                  'nra_div_cancel(rv(b@[i as int]) - tsum(self.data.v@, n_, pre_x, i as int, i as int + 1, n_), rv(at2(self.data.v@, n_, i as int, i as int)), rv(x.v@[i as int])); } }')}})
UNITS = [
    Unit('C11_matrix_tri', ('C11', 'C01'), [mfwd, mbwd], use=core.core_stubs() + [c04.dot, c15b.is_lt, c15b.is_ut], types=core.TYPES, type_spec=core.TYPE_SPEC,
         spec=t.SPEC + c15b.TRI_SPEC, nra=t.NRA, preludes=PRE, broadcast=BC, level='L1', rlimit=100,
         notes='Matrix-level forward / backward substitution: non-triangular input and size mismatch rejected, every row of L x = b resp. U x = b holds when its diagonal entry is non-zero'),
]

# ---------------------------------------------------------------- Matrix::is_symmetric / is_positive_definite
SYMV = 'self.nrows == self.ncols && sym_eps(self.data.v@, self.nrows as int)'
msym = Fn(IM + 'is_symmetric', ret='r', level='L1', requires=['C01.msym.wf:: wf(*self)'],
          ensures=['C01.msym.def:: r == (%s)' % SYMV],
          loops={1: {'invariant': ['wf(*self) && self.nrows == self.ncols',
                                   'C01.msym.rows:: forall|ii: int, jj: int| 0 <= ii < i && ii <= jj < self.ncols ==> r_abs(rv(#[trigger] at2(self.data.v@, self.ncols as int, ii, jj)) - rv(at2(self.data.v@, self.ncols as int, jj, ii))) <= r_eps()']},
                 2: {'iter_name': 'jt', 'invariant': ['jt.iter.end == self.ncols', 'wf(*self) && self.nrows == self.ncols', '0 <= i < self.nrows',
                                   'C01.msym.rows.j:: forall|ii: int, jj: int| 0 <= ii < i && ii <= jj < self.ncols ==> r_abs(rv(#[trigger] at2(self.data.v@, self.ncols as int, ii, jj)) - rv(at2(self.data.v@, self.ncols as int, jj, ii))) <= r_eps()',
                                   'C01.msym.row:: forall|jj: int| i <= jj < i + jt.index@ ==> r_abs(rv(#[trigger] at2(self.data.v@, self.ncols as int, i as int, jj)) - rv(at2(self.data.v@, self.ncols as int, jj, i as int))) <= r_eps()'],
                     'body_start': 'lemma_idx(i as int, j as int, self.nrows as int, self.ncols as int); lemma_idx(j as int, i as int, self.nrows as int, self.ncols as int);'}},
          hints=[('return false;', 'pre', 'proof { assert(!sym_eps(self.data.v@, self.nrows as int)) by { assert(r_abs(rv(at2(self.data.v@, self.ncols as int, i as int, j as int)) - rv(at2(self.data.v@, self.ncols as int, j as int, i as int))) > r_eps()); } } ')])
mpd = Fn(IM + 'is_positive_definite', ret='r', level='L1', requires=['C01.mpd.wf:: wf(*self)'],
         ensures=['C01.mpd.def:: r == (self.nrows == self.ncols && pd_test(self.data.v@, self.nrows as int))'],
         loops={1: {'invariant': ['wf(*self) && self.nrows == self.ncols', 'sym_eps(self.data.v@, self.nrows as int)',
                                  'C01.mpd.diag:: forall|q: int| 0 <= q < i ==> rv(#[trigger] at2(self.data.v@, self.ncols as int, q, q)) > 0real'],
                    'body_start': 'lemma_idx(i as int, i as int, self.nrows as int, self.ncols as int);'}},
         hints=[('return false;', 'pre', 'proof { assert(!diag_pos(self.data.v@, self.nrows as int)) by { assert(!(rv(at2(self.data.v@, self.ncols as int, i as int, i as int)) > 0real)); } } ')])
PD_SPEC = r'''
pub open spec fn pd_test(m: Seq<f64>, n: int) -> bool { sym_eps(m, n) && diag_pos(m, n) }
'''
UNITS.append(Unit('C01_matrix_predicates', ('C01', 'C11', 'C15'), [msym, mpd], use=core.core_stubs(), types=core.TYPES, type_spec=core.TYPE_SPEC,
                  spec=c01.SPEC + PD_SPEC, preludes=PRE, broadcast=BC, level='L1',
                  notes='Matrix::is_symmetric / is_positive_definite answer exactly "square, symmetric within epsilon (and positive diagonal)"'))

# ---------------------------------------------------------------- get_row_as_vector, Matrix::cholesky
from contracts import C05 as c05
get_row = Fn(IM + 'get_row_as_vector', ret='v', level='L0', valid='row < self.nrows', panics={1: 'REJECT'},
             requires=['C15.get_row.wf:: wf(*self)'],
             ensures=['C15.get_row.valid:: row < self.nrows', 'C15.get_row.view:: v.v@ == self.data.v@.subrange(row * self.ncols, (row + 1) * self.ncols)'])
MCH_SPEC = r'''
/// the dot product of two complete rows of l is the Cholesky partial sum when row i is still zero from column j on
pub proof fn lemma_rows_dot(l: Seq<f64>, n: int, i: int, j: int, k: int)
    requires 0 <= j <= i < n, l.len() == n * n, j <= k <= n, forall|t: int| j <= t < n ==> rv(#[trigger] at2(l, n, i, t)) == 0real
    ensures dsum(l.subrange(j * n, (j + 1) * n), l.subrange(i * n, (i + 1) * n), k) == csum(l, n, i, j, j)
    decreases k
{
    lemma_row(j, n, n); lemma_row(i, n, n);
    if k == j {
        assert forall|t: int| 0 <= t < j implies #[trigger] l.subrange(j * n, (j + 1) * n)[t] == l.subrange(j * n, j * n + j)[t] && l.subrange(i * n, (i + 1) * n)[t] == l.subrange(i * n, i * n + j)[t] by { }
        lemma_dsum_prefix(l.subrange(j * n, (j + 1) * n), l.subrange(i * n, (i + 1) * n), l.subrange(j * n, j * n + j), l.subrange(i * n, i * n + j), j);
        lemma_dsum_csum(l, n, i, j, j);
    } else {
        lemma_rows_dot(l, n, i, j, k - 1);
        assert(l.subrange(i * n, (i + 1) * n)[k - 1] == at2(l, n, i, k - 1));
        assert(rv(l.subrange(j * n, (j + 1) * n)[k - 1]) * rv(at2(l, n, i, k - 1)) == 0real) by(nonlinear_arith) requires rv(at2(l, n, i, k - 1)) == 0real;
    }
}
pub proof fn lemma_dsum_prefix(x: Seq<f64>, y: Seq<f64>, x2: Seq<f64>, y2: Seq<f64>, k: int)
    requires forall|t: int| 0 <= t < k ==> x[t] == x2[t] && y[t] == y2[t]
    ensures dsum(x, y, k) == dsum(x2, y2, k)
    decreases k
{ if k > 0 { lemma_dsum_prefix(x, y, x2, y2, k - 1); } }
'''
L_ = 'l.data.v@'
A_ = 'self.data.v@'
M_FRAME = ('assert forall|r: int, c: int| 0 <= r < n_ && 0 <= c < n_ && !(r == i && c == j) implies #[trigger] at2(l.data.v@, n_, r, c) == at2(pre_l, n_, r, c) by '
           '{ lemma_idx(r, c, n_, n_); if r * n_ + c == i * n_ + j { lemma_idx_inj(r, c, i as int, j as int, n_); } } ')
M_KEEP = ('assert forall|r: int, c: int| 0 <= c <= r < i implies #[trigger] chol_eq(self.data.v@, l.data.v@, n_, r, c) by { lemma_csum_frame(l.data.v@, pre_l, n_, r, c, c); assert(chol_eq(self.data.v@, pre_l, n_, r, c)); } '
          'assert forall|c: int| 0 <= c < j implies #[trigger] chol_eq(self.data.v@, l.data.v@, n_, i as int, c) by { lemma_csum_frame(l.data.v@, pre_l, n_, i as int, c, c); assert(chol_eq(self.data.v@, pre_l, n_, i as int, c)); } '
          'lemma_csum_frame(l.data.v@, pre_l, n_, i as int, j as int, j as int); ')
MCV = 'self.nrows == self.ncols && pd_test(self.data.v@, self.nrows as int) && no_bad_pivot(self.data.v@, self.nrows as int)'
mchol = Fn(IM + 'cholesky', ret='l', level='L1', valid=MCV,
           panics={1: 'REJECT: self.nrows == self.ncols && pd_test(self.data.v@, self.nrows as int)', 2: 'REJECT: no_bad_pivot(self.data.v@, self.nrows as int)'},
           requires=['C11.mchol.wf:: wf(*self)'],
           ensures=['C11.mchol.valid:: self.nrows == self.ncols && pd_test(self.data.v@, self.nrows as int)',
                    'C11.mchol.factor:: l.nrows == self.nrows && l.ncols == self.ncols && wf(l) && chol_rows(self.data.v@, l.data.v@, self.nrows as int, self.nrows as int) && chol_zero(l.data.v@, self.nrows as int, self.nrows as int, 0)'],
           loops={1: {'invariant': ['wf(*self) && self.nrows == self.ncols', 'l.nrows == self.nrows && l.ncols == self.ncols && wf(l)',
                                    'C11.mchol.rows:: chol_rows(self.data.v@, l.data.v@, self.ncols as int, i as int)', 'C11.mchol.zero:: chol_zero(l.data.v@, self.ncols as int, i as int, 0)']},
                  2: {'iter_name': 'jt', 'invariant': ['jt.iter.end == i + 1', 'wf(*self) && self.nrows == self.ncols', 'l.nrows == self.nrows && l.ncols == self.ncols && wf(l)', '0 <= i < self.ncols',
                                    'C11.mchol.rows.j:: chol_rows(self.data.v@, l.data.v@, self.ncols as int, i as int)', 'C11.mchol.zero.j:: chol_zero(l.data.v@, self.ncols as int, i as int, j as int)',
                                    'C11.mchol.row:: forall|c: int| 0 <= c < j ==> #[trigger] chol_eq(self.data.v@, l.data.v@, self.ncols as int, i as int, c)',
                                    'C11.mchol.diag:: j > i ==> rv(at2(l.data.v@, self.ncols as int, i as int, i as int)) > 0real'],
                      'body_ghost': 'let ghost pre_l = l.data.v@; let ghost n_ = self.ncols as int;',
                      'body_start': ('lemma_idx(i as int, j as int, n_, n_); lemma_idx(j as int, j as int, n_, n_); lemma_idx(i as int, i as int, n_, n_); lemma_row(i as int, n_, n_); lemma_row(j as int, n_, n_); '
                                     'lemma_rows_dot(l.data.v@, n_, i as int, j as int, n_);')}},
           hints=[('let mut l = Matrix::zeros(self.nrows, self.ncols);', 'after',
                   'proof { let n_ = self.ncols as int; assert forall|r: int, c: int| 0 <= r < n_ && 0 <= c < n_ implies rv(#[trigger] at2(l.data.v@, n_, r, c)) == 0real by { lemma_idx(r, c, n_, n_); } }'),
                  ('l[[i, j]] = d.sqrt();', 'after',
                   'proof { ' + M_FRAME + M_KEEP + 'assert(chol_eq(self.data.v@, l.data.v@, n_, i as int, j as int)); assert(rv(at2(l.data.v@, n_, i as int, i as int)) > 0real); }'),
                  ('l[[i, j]] = (self[[i, j]] - s) / l[[j, j]];', 'post',
                   'proof { ' + M_FRAME + M_KEEP +
                   'assert(j < i); assert(chol_rows(self.data.v@, pre_l, n_, i as int)); assert(rv(at2(pre_l, n_, j as int, j as int)) > 0real); assert(at2(l.data.v@, n_, j as int, j as int) == at2(pre_l, n_, j as int, j as int)); '
                   'nra_div_cancel(rv(at2(self.data.v@, n_, i as int, j as int)) - csum(pre_l, n_, i as int, j as int, j as int), rv(at2(pre_l, n_, j as int, j as int)), rv(at2(l.data.v@, n_, i as int, j as int))); '
                   'assert(chol_eq(self.data.v@, l.data.v@, n_, i as int, j as int)); }')])
_vv = [f for f in c05.DOT_VV if "{impl Dot<Vector, f64> for Vector}" in f.path]
UNITS.append(Unit('C11_matrix_chol', ('C11', 'C01', 'C15'), [get_row, mchol], use=core.core_stubs() + [mpd] + _vv, types=core.TYPES, type_spec=core.TYPE_SPEC,
                  spec=t.SPEC + c01.SQ_UNIQUE + t.CHOL_SPEC + t.CHOL2_SPEC + PD_SPEC + MCH_SPEC + c05.DOT_WFD, traits=[(c05.D + '{trait Dot}', c05.DOT_TRAIT_DECL)], nra=t.NRA,
                  preludes=PRE, broadcast=BC, level='L1', rlimit=200,
                  notes='Matrix::cholesky: the same Cholesky equations as the slice-level routine (full-row dot products reduce to the partial sums because the unwritten entries are zero); '
                        'a matrix failing the symmetry / positive-diagonal test or meeting a non-positive pivot is rejected; get_row_as_vector copies the row'))

# ---------------------------------------------------------------- Matrix-level cholesky_solve (Vector right-hand side), lu_det
from contracts import C15 as c15
from contracts import C11rec as rec
MSV = MAT + '{impl Solve<Vector> for Matrix}::'
mchs = Fn(MSV + 'cholesky_solve', ret='x', level='L1', inherent=True, valid='lower_tri(*self) && self.nrows == system.v@.len()', panics={1: 'REJECT', 2: 'REJECT'},
          requires=['C11.mchs.wf:: wf(*self) && self.nrows == self.ncols && self.nrows > 0'],
          ensures=['C11.mchs.valid:: lower_tri(*self) && self.nrows == system.v@.len()', 'C11.mchs.len:: x.v@.len() == system.v@.len()',
                   'C11.mchs.equations:: chol_solved(self.data.v@, self.nrows as int, x.v@, system.v@)'],
          rewrites=[('self.t().backward_substitution(&y)',
                     '({ let lt_ = self.t(); proof { let n_ = self.nrows as int; '
                     'assert(upper_tri(lt_)) by { assert forall|i: int, j: int| 0 <= j < i < n_ implies rv(#[trigger] at2(lt_.data.v@, n_, i, j)) == 0real by { assert(at2(lt_.data.v@, n_, i, j) == at2(self.data.v@, n_, j, i)); } } '
                     'assert forall|i: int| 0 <= i < n_ implies at2(lt_.data.v@, n_, i, i) == at2(self.data.v@, n_, i, i) by { } } '
                     'let x_ = lt_.backward_substitution(&y); proof { let n_ = self.nrows as int; '
                     'assert forall|i: int| 0 <= i < n_ && rv(at2(self.data.v@, n_, i, i)) != 0real implies rv(at2(self.data.v@, n_, i, i)) * rv(x_.v@[i]) + #[trigger] tsum_t(self.data.v@, n_, x_.v@, i, i + 1, n_) == rv(y.v@[i]) by '
                     '{ lemma_tsum_transpose(self.data.v@, lt_.data.v@, n_, x_.v@, i, i + 1, n_); assert(upper_row(lt_.data.v@, n_, x_.v@, y.v@, i)); } '
                     'assert(chol_solved(self.data.v@, n_, x_.v@, system.v@)); } x_ })', 'R31: temporary bound to a name')])
lu_det = Fn(IM + 'lu_det', ret='r', level='L1', valid='self.nrows == self.ncols', panics={1: 'REJECT'},
            requires=['C11.lu_det.wf:: wf(*self)', 'C11.lu_det.perm:: is_perm32(piv@, piv@.len() as int) && piv@.len() <= 0x7fff_ffff'],
            ensures=['C11.lu_det.valid:: self.nrows == self.ncols',
                     'C11.lu_det.signed_product:: exists|s: i32| #[trigger] is_sign(piv@, s) && rv(r) == diag_prod(self.data.v@, self.nrows as int, self.nrows as int) * (s as real)'],
            rewrites=[(r'self\.diag\(\)\.prod\(\) ([*/]) ipiv_parity\(piv\) as f64',
                       r'({ let d_ = self.diag(); let pr_ = d_.prod(); let s_ = ipiv_parity(piv); let out_ = pr_ \1 s_ as f64; '
                       r'proof { lemma_rprod_diag(d_.v@, self.data.v@, self.nrows as int, self.nrows as int); assert(is_sign(piv@, s_)); assert(s_ == 1 || s_ == -1); let sr_ = rv(f_of_int(s_ as int)); assert(sr_ == (s_ as real)); if s_ == 1 { assert(sr_ == 1real); assert(rv(pr_) / 1real == rv(pr_) * 1real); } else { assert(sr_ == -1real); assert(rv(pr_) / (-1real) == rv(pr_) * (-1real)); } assert(rv(out_) == rv(pr_) * (s_ as real)); } out_ })', 'R31 (operator kept verbatim)', 're')])
UNITS.append(Unit('C11_matrix_chol_solve', ('C11', 'C01'), [mchs, lu_det], use=core.core_stubs() + [mfwd, mbwd, c15b.is_lt, c15.mt, c15.mdiag, rec.vprod_m, rec.parity],
                  types=core.TYPES, type_spec=core.TYPE_SPEC,
                  spec=t.SPEC + c01.SQ_UNIQUE + t.CHOL_SPEC + t.CHOL2_SPEC + c15b.TRI_SPEC + rec.PAR_SPEC + rec.DET_SPEC + rec.REC_SPEC + c01.LU_SPEC, nra=t.NRA,
                  preludes=PRE, broadcast=BC, level='L1', rlimit=100,
                  notes='Matrix-level cholesky_solve (Vector right-hand side): L y = b, L^T x = y row by row, non-triangular or mismatched input rejected; lu_det: product of the diagonal times the sign of the given permutation'))
