"""C04 — the stable log-sum-exp / log-mean-exp reductions (L1: equal to their definitions with the maximum factored out)."""
from vc.gen import Fn, Unit
from contracts import C08 as c08
from contracts import C17 as c17

PRE = ('fax_l0', 'fmeth', 'stdspec', 'l1')
BC = ('l0', 'l1_arith', 'l1_fun', 'l1_minmax', 'ax_f64_cloned')
U = 'linalg::utils::'
LSE_SPEC = c17.SOFT_SPEC + r'''
/// ln(sum_j exp(x_j - m)) + m for an attained maximum m of x: the log-sum-exp with the maximum factored out (property C04)
pub open spec fn is_lse(x: Seq<f64>, r: real, div: real) -> bool {
    exists|m: f64| (exists|q: int| 0 <= q < x.len() && m == #[trigger] x[q]) && (forall|j: int| 0 <= j < x.len() ==> rv(#[trigger] x[j]) <= rv(m))
        && #[trigger] lse_value(x, rv(m), r, div)
}
pub open spec fn lse_value(x: Seq<f64>, m: real, r: real, div: real) -> bool { r == r_ln(esum(x, m, x.len() as int) / div) + m }
'''
RW = [('(v - xmax).exp()', '(*v - xmax).exp()', 'R17: `&f64 - f64` is `*v - rhs`'),
      ('x.iter().map(|v| (*v - xmax).exp()).sum::<f64>()', '({ let e_: Vec<f64> = x.iter().map(|v| (*v - xmax).exp()).collect::<Vec<f64>>(); let ghost ev_ = e_@; let t_ = vsum(e_); '
       'proof { lemma_exps_sum(ev_, x@, xmax, x@.len() as int); } t_ })', 'R6b: bind the collected terms of `.map(..).sum()`')]
CL = {1: {'params': 'v: &f64', 'ret': 'o: f64', 'ensures': ['o == f_exp(f_sub(*v, xmax))']}}
logsumexp = Fn(U + 'logsumexp', ret='r', level='L1', requires=['C04.lse.finite:: all_finite(x@) && x@.len() >= 1'],
               ensures=['C04.logsumexp.def:: is_lse(x@, rv(r), 1real)'], rewrites=RW, closures=CL,
               hints=[('let xmax = max(x);', 'after', 'proof { assert(lse_value(x@, rv(xmax), r_ln(esum(x@, rv(xmax), x@.len() as int) / 1real) + rv(xmax), 1real)); }')])
logmeanexp = Fn(U + 'logmeanexp', ret='r', level='L1', requires=['C04.lse.finite:: all_finite(x@) && x@.len() >= 1'],
                ensures=['C04.logmeanexp.def:: is_lse(x@, rv(r), x@.len() as real)'], rewrites=RW, closures=CL,
                hints=[('let xmax = max(x);', 'after', 'proof { assert(lse_value(x@, rv(xmax), r_ln(esum(x@, rv(xmax), x@.len() as int) / (x@.len() as real)) + rv(xmax), x@.len() as real)); }')])
UNITS = [
    Unit('C04_logsumexp', 'C04', [logsumexp, logmeanexp], use=[c08.omax], spec=LSE_SPEC, nra=c17.SOFT_NRA, preludes=PRE, broadcast=BC, level='L1',
         notes='logsumexp / logmeanexp equal ln(sum exp(x_j - m)) + m (resp. with the mean) for an attained maximum m: the shift that keeps exp in range is applied and undone exactly'),
]
