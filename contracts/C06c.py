"""C06 — GLM::fit: the Fisher-scoring loop as a composition of the proved pieces (L1).  What the contract carries: the inputs are
validated or rejected, every iteration is a Newton step through the routed linear solver on the family's (penalised) score and
information, the model state written at the end is consistent, and Ok is returned only if the convergence test passed."""
from vc.gen import Fn, Unit
from contracts import core
from contracts import C04 as c04
from contracts import C05 as c05
from contracts import C06 as c06
from contracts import C08 as c08
from contracts import C15 as c15
from contracts import C15b as c15b
from contracts import C01solve as s1
from contracts.C06 import IG, FAM, TYPES

PRE = ('fax_l0', 'fmeth', 'stdspec', 'l1')
BC = ('l0', 'l1_arith', 'l1_fun', 'ax_vec_from_refl', 'ax_f64_cloned')

pdev = Fn(FAM + '{impl ExponentialFamily}::penalized_deviance', ret='r', level='L1', valid='y@.len() == mu@.len()',
          requires=['C06.pdev.coef:: coef@.len() >= 1'],
          ensures=['C06.pdev.valid:: y@.len() == mu@.len()',
                   'C06.pdev.def:: exists|d: f64| #[trigger] is_family_deviance(*self, y@, mu@, d) && rv(r) == rv(d) + rv(alpha) * r_sqrt(dsum(coef@.subrange(1, coef@.len() as int), coef@.subrange(1, coef@.len() as int), coef@.len() - 1))'],
          rewrites=[(r'self\.deviance\(y, mu\) \+ alpha \* norm\(&coef\[(\w+)\.\.\]\)',
                     r'({ let d_ = self.deviance(y, mu); let s_ = &coef[\1..]; let nr_ = norm(s_); proof { assert(s_@ =~= coef@.subrange(\1, coef@.len() as int)); '
                     r'assert(is_family_deviance(*self, y@, mu@, d_)); } d_ + alpha * nr_ })', 'R31: A-normal form, evaluation order kept', 're')])

PDEV_SPEC = r'''
/// d is the family's deviance of (y, mu) (whenever the family's domain condition on mu holds)
pub open spec fn is_family_deviance(f: ExponentialFamily, y: Seq<f64>, mu: Seq<f64>, d: f64) -> bool {
    dev_domain(f, mu) ==> rv(d) == dev_factor(f) * dev_sum(f, y, mu, y.len() as int)
}
pub open spec fn dev_domain(f: ExponentialFamily, mu: Seq<f64>) -> bool {
    (f is Gamma || f is Exponential) ==> forall|i: int| 0 <= i < mu.len() ==> rv(#[trigger] mu[i]) != 0real
}
'''
FIT_SPEC = PDEV_SPEC + r'''
/// the weights used by fit: the stored ones, or all ones
pub open spec fn fit_weights(g: GLM, n: int, w: Seq<f64>) -> bool {
    w.len() == n && match g.weights { Some(v) => w =~= v@, None => forall|i: int| 0 <= i < n ==> rv(#[trigger] w[i]) == 1real }
}
pub open spec fn fit_valid(g: GLM, x: Seq<f64>, y: Seq<f64>) -> bool {
    let n = y.len() as int;
    (x.len() as int) % n == 0 && design_def(x, n, (x.len() as int) / n)
    && (g.weights is Some ==> g.weights->Some_0@.len() == n) && (g.offsets is Some ==> g.offsets->Some_0@.len() == n)
}
/// the convergence test passed on the pair (loss, previous loss)
pub open spec fn conv_passed(l: f64, lp: f64, tol: f64) -> bool {
    !f_is_infinite(lp) && (rv(lp) != 0real ==> r_abs(rv(l) - rv(lp)) / rv(lp) < rv(tol))
}
pub open spec fn fit_frame(g0: GLM, g1: GLM) -> bool {
    g1.family == g0.family && g1.alpha == g0.alpha && g1.tolerance == g0.tolerance && g1.weights == g0.weights && g1.offsets == g0.offsets
}
pub open spec fn fit_state(g1: GLM, p: int) -> bool {
    g1.coef is Some && g1.coef->Some_0@.len() == p && g1.p == Some(p as usize) && g1.information_matrix is Some && g1.information_matrix->Some_0@.len() == p * p
    && g1.deviance is Some && g1.n is Some
}

/// means, derivative of the inverse link and variance function at the coefficient vector c (one pass eta -> mu -> dmu, var)
pub open spec fn glm_at(g: GLM, x: Seq<f64>, n: int, p: int, c: Seq<f64>, mu: Seq<f64>, dmu: Seq<f64>, var: Seq<f64>) -> bool {
    mu.len() == n && dmu.len() == n && var.len() == n && forall|i: int| 0 <= i < n ==>
        rv(#[trigger] mu[i]) == fam_inv_link(g.family, psum(x, p, false, c, 1, false, i, 0, p) + off_at(g, i))
        && rv(dmu[i]) == fam_dmu(g.family, rv(mu[i])) && rv(var[i]) == fam_var(g.family, rv(mu[i]))
}
/// ridge penalty: + alpha c_i on the slopes of the (negative) score, + alpha on the slope diagonal of the information; nothing when alpha <= 0
pub open spec fn penalised(g: GLM, p: int, c0: Seq<f64>, db0: Seq<f64>, dd0: Seq<f64>, db: Seq<f64>, dd: Seq<f64>) -> bool {
    let pen = if rv(g.alpha) > 0real { rv(g.alpha) } else { 0real };
    db.len() == p && dd.len() == p * p && db0.len() == p && dd0.len() == p * p
    && (forall|i: int| 0 <= i < p ==> rv(#[trigger] db[i]) == rv(db0[i]) + (if i >= 1 { pen * rv(c0[i]) } else { 0real }))
    && (forall|r: int, c: int| 0 <= r < p && 0 <= c < p ==> rv(#[trigger] at2(dd, p, r, c)) == rv(at2(dd0, p, r, c)) + (if r == c && r >= 1 { pen } else { 0real }))
}
/// one Fisher-scoring step: c1 = c0 - H^-1 g with g the (penalised) negative score and H the (penalised) information at c0, through the routed solver of C01
pub open spec fn newton_step_w(g: GLM, x: Seq<f64>, y: Seq<f64>, w: Seq<f64>, n: int, p: int, c0: Seq<f64>, c1: Seq<f64>, mu: Seq<f64>, dmu: Seq<f64>, var: Seq<f64>,
                               db0: Seq<f64>, dd0: Seq<f64>, db: Seq<f64>, dd: Seq<f64>, step: Seq<f64>) -> bool {
    is_neg_score(db0, x, p, w, y, mu, dmu, var) && is_information(dd0, x, p, n, w, dmu, var) && penalised(g, p, c0, db0, dd0, db, dd)
    && solved_by_route(dd, p, db, step) && c1.len() == p && step.len() == p && forall|i: int| 0 <= i < p ==> rv(#[trigger] c1[i]) == rv(c0[i]) - rv(step[i])
}
pub open spec fn newton_step(g: GLM, x: Seq<f64>, y: Seq<f64>, w: Seq<f64>, n: int, p: int, c0: Seq<f64>, c1: Seq<f64>, mu: Seq<f64>, dmu: Seq<f64>, var: Seq<f64>) -> bool {
    exists|db0: Seq<f64>, dd0: Seq<f64>, db: Seq<f64>, dd: Seq<f64>, step: Seq<f64>| #[trigger] newton_step_w(g, x, y, w, n, p, c0, c1, mu, dmu, var, db0, dd0, db, dd, step)
}
/// what fit leaves behind: the stored coefficients are one Fisher-scoring step from a vector c0; the stored deviance and information matrix are the
/// family's deviance and information at the means of c0 (the quantities of the last pass of the loop)
pub open spec fn fit_result_w(g0: GLM, g1: GLM, x: Seq<f64>, y: Seq<f64>, n: int, p: int, w: Seq<f64>, c0: Seq<f64>, mu: Seq<f64>, dmu: Seq<f64>, var: Seq<f64>) -> bool {
    fit_weights(g0, n, w) && glm_at(g0, x, n, p, c0, mu, dmu, var) && newton_step(g0, x, y, w, n, p, c0, g1.coef->Some_0@, mu, dmu, var)
    && is_family_deviance(g0.family, y, mu, g1.deviance->Some_0) && is_information(g1.information_matrix->Some_0@, x, p, n, w, dmu, var)
}
pub open spec fn fit_result(g0: GLM, g1: GLM, x: Seq<f64>, y: Seq<f64>) -> bool {
    let n = y.len() as int; let p = (x.len() as int) / n;
    exists|w: Seq<f64>, c0: Seq<f64>, mu: Seq<f64>, dmu: Seq<f64>, var: Seq<f64>| #[trigger] fit_result_w(g0, g1, x, y, n, p, w, c0, mu, dmu, var)
}
'''
GAUSS_SPEC = r'''
// ---- new vocabulary
/// linear predictor of observation i over the first jj coefficients
pub open spec fn lin(x: Seq<f64>, p: int, c: Seq<f64>, i: int, jj: int) -> real { psum(x, p, false, c, 1, false, i, 0, jj) }
/// sum over the first k observations of x[i,r] * w_i * t_i   (row r of X^T W t)
pub open spec fn xwt(x: Seq<f64>, p: int, r: int, w: Seq<f64>, t: spec_fn(int) -> real, k: int) -> real decreases k
{ if k <= 0 { 0real } else { xwt(x, p, r, w, t, k - 1) + rv(at2(x, p, k - 1, r)) * rv(w[k - 1]) * t(k - 1) } }

pub proof fn lemma_asum_linear(a: Seq<f64>, n: int, r: int, c0: Seq<f64>, st: Seq<f64>, c1: Seq<f64>, cc: int)
    requires 0 <= cc, forall|j: int| 0 <= j < cc ==> rv(#[trigger] c1[j]) == rv(c0[j]) - rv(st[j])
    ensures asum(a, n, r, c1, cc) == asum(a, n, r, c0, cc) - asum(a, n, r, st, cc)
    decreases cc
{
    if cc > 0 {
        lemma_asum_linear(a, n, r, c0, st, c1, cc - 1);
        let h = rv(at2(a, n, r, cc - 1)); let u = rv(c0[cc - 1]); let v = rv(st[cc - 1]);
        assert(rv(c1[cc - 1]) == u - v);
        assert(h * (u - v) == h * u - h * v) by(nonlinear_arith);
    }
}
/// adding pen on the diagonal entry (r, r) (if r >= 1) adds pen * c_r to row r of the product
pub proof fn lemma_asum_penalty(dd0: Seq<f64>, dd: Seq<f64>, p: int, r: int, c: Seq<f64>, pen: real, cc: int)
    requires 0 <= r < p, 0 <= cc <= p,
             forall|j: int| 0 <= j < p ==> rv(#[trigger] at2(dd, p, r, j)) == rv(at2(dd0, p, r, j)) + (if r == j && r >= 1 { pen } else { 0real })
    ensures asum(dd, p, r, c, cc) == asum(dd0, p, r, c, cc) + (if r >= 1 && r < cc { pen * rv(c[r]) } else { 0real })
    decreases cc
{
    if cc > 0 {
        lemma_asum_penalty(dd0, dd, p, r, c, pen, cc - 1);
        let j = cc - 1;
        let h0 = rv(at2(dd0, p, r, j)); let cj = rv(c[j]);
        if r == j && r >= 1 { assert((h0 + pen) * cj == h0 * cj + pen * cj) by(nonlinear_arith); }
        else { assert(rv(at2(dd, p, r, j)) == h0 + 0real); }
    }
}
/// column step of the exchange: sum_i x[i,r] w_i (lin_i(jj) + x[i,jj] c_jj) = sum_i x[i,r] w_i lin_i(jj) + (sum_i x[i,r] wx[i,jj]) c_jj
pub proof fn lemma_xwt_col_step(x: Seq<f64>, wx: Seq<f64>, p: int, n: int, r: int, w: Seq<f64>, c: Seq<f64>, jj: int, k: int)
    requires 0 <= k <= n, 0 <= jj < p, 0 <= r < p,
             forall|i: int| 0 <= i < n ==> rv(#[trigger] at2(wx, p, i, jj)) == rv(at2(x, p, i, jj)) * rv(w[i])
    ensures xwt(x, p, r, w, |i: int| lin(x, p, c, i, jj + 1), k) == xwt(x, p, r, w, |i: int| lin(x, p, c, i, jj), k) + psum(x, p, true, wx, p, false, r, jj, k) * rv(c[jj])
    decreases k
{
    let t1 = |i: int| lin(x, p, c, i, jj + 1); let t0 = |i: int| lin(x, p, c, i, jj);
    if k > 0 {
        lemma_xwt_col_step(x, wx, p, n, r, w, c, jj, k - 1);
        let i = k - 1;
        let xr = rv(at2(x, p, i, r)); let wi = rv(w[i]); let xj = rv(at2(x, p, i, jj)); let cj = rv(c[jj]); let l0 = lin(x, p, c, i, jj);
        assert(t1(i) == l0 + xj * cj) by { assert(opa(x, p, false, i, jj) == xj); assert(opa(c, 1, false, jj, 0) == rv(c[jj * 1 + 0])); assert(jj * 1 + 0 == jj); }
        assert(t0(i) == l0);
        assert(opa(x, p, true, r, i) == xr);
        assert(opa(wx, p, false, i, jj) == xj * wi);
        let ps = psum(x, p, true, wx, p, false, r, jj, k - 1);
        let a = xr * wi; let q = xr * (xj * wi); let m = xj * cj;
        assert(a * (l0 + m) == a * l0 + a * m) by(nonlinear_arith);
        assert(a * m == q * cj) by(nonlinear_arith) requires a == xr * wi, q == xr * (xj * wi), m == xj * cj;
        assert((ps + q) * cj == ps * cj + q * cj) by(nonlinear_arith);
    } else {
        assert(0real * rv(c[jj]) == 0real) by(nonlinear_arith);
    }
}
pub proof fn lemma_xwt_zero(x: Seq<f64>, p: int, r: int, w: Seq<f64>, c: Seq<f64>, k: int)
    requires 0 <= k
    ensures xwt(x, p, r, w, |i: int| lin(x, p, c, i, 0), k) == 0real
    decreases k
{ if k > 0 { lemma_xwt_zero(x, p, r, w, c, k - 1); let a = rv(at2(x, p, k - 1, r)) * rv(w[k - 1]); assert(a * 0real == 0real) by(nonlinear_arith); } }
/// (X^T W X c)_r computed through the information matrix equals X^T W (X c) row r
pub proof fn lemma_exchange(dd0: Seq<f64>, x: Seq<f64>, wx: Seq<f64>, p: int, n: int, r: int, w: Seq<f64>, c: Seq<f64>, jj: int)
    requires 0 <= jj <= p, 0 <= r < p, 0 <= n,
             forall|i: int, j: int| 0 <= i < n && 0 <= j < p ==> rv(#[trigger] at2(wx, p, i, j)) == rv(at2(x, p, i, j)) * rv(w[i]),
             forall|j: int| 0 <= j < p ==> rv(#[trigger] at2(dd0, p, r, j)) == psum(x, p, true, wx, p, false, r, j, n)
    ensures asum(dd0, p, r, c, jj) == xwt(x, p, r, w, |i: int| lin(x, p, c, i, jj), n)
    decreases jj
{
    if jj > 0 {
        lemma_exchange(dd0, x, wx, p, n, r, w, c, jj - 1);
        lemma_xwt_col_step(x, wx, p, n, r, w, c, jj - 1, n);
        assert(rv(at2(dd0, p, r, jj - 1)) == psum(x, p, true, wx, p, false, r, jj - 1, n));
    } else { lemma_xwt_zero(x, p, r, w, c, n); }
}
/// -db0_r = sum_i x[i,r] res_i with res_i = w_i (y_i - mu_i)
pub proof fn lemma_score_as_xwt(x: Seq<f64>, p: int, r: int, w: Seq<f64>, res: Seq<f64>, t: spec_fn(int) -> real, k: int)
    requires 0 <= k <= res.len(), forall|i: int| 0 <= i < k ==> rv(#[trigger] res[i]) == rv(w[i]) * t(i)
    ensures xr_sum(x, p, r, res, k) == xwt(x, p, r, w, t, k)
    decreases k
{
    if k > 0 { lemma_score_as_xwt(x, p, r, w, res, t, k - 1); let a = rv(at2(x, p, k - 1, r)); let b = rv(w[k - 1]); let c = t(k - 1); assert(a * (b * c) == a * b * c) by(nonlinear_arith); }
}
pub proof fn lemma_xwt_add(x: Seq<f64>, p: int, r: int, w: Seq<f64>, t1: spec_fn(int) -> real, t2: spec_fn(int) -> real, t3: spec_fn(int) -> real, k: int)
    requires 0 <= k, forall|i: int| 0 <= i < k ==> #[trigger] t3(i) == t1(i) + t2(i)
    ensures xwt(x, p, r, w, t3, k) == xwt(x, p, r, w, t1, k) + xwt(x, p, r, w, t2, k)
    decreases k
{
    if k > 0 { lemma_xwt_add(x, p, r, w, t1, t2, t3, k - 1); let a = rv(at2(x, p, k - 1, r)) * rv(w[k - 1]); let u = t1(k - 1); let v = t2(k - 1); assert(t3(k - 1) == u + v); assert(a * (u + v) == a * u + a * v) by(nonlinear_arith); }
}
/// Gaussian family, one Fisher-scoring step from ANY c0: row r of the weighted ridge normal equations holds for c1 whenever the linear solve is exact at row r
pub proof fn theorem_gaussian_normal_equations(x: Seq<f64>, y: Seq<f64>, w: Seq<f64>, off: spec_fn(int) -> real, n: int, p: int, pen: real,
        c0: Seq<f64>, c1: Seq<f64>, step: Seq<f64>, mu: Seq<f64>, res: Seq<f64>, wx: Seq<f64>, db0: Seq<f64>, dd0: Seq<f64>, db: Seq<f64>, dd: Seq<f64>, r: int)
    requires 0 <= r < p, 0 <= n, res.len() == n,
        forall|i: int| 0 <= i < n ==> rv(#[trigger] mu[i]) == lin(x, p, c0, i, p) + off(i),                        // identity link
        forall|i: int| 0 <= i < n ==> rv(#[trigger] res[i]) == rv(w[i]) * (rv(y[i]) - rv(mu[i])),                 // working residuals (dmu = V = 1)
        forall|i: int, j: int| 0 <= i < n && 0 <= j < p ==> rv(#[trigger] at2(wx, p, i, j)) == rv(at2(x, p, i, j)) * rv(w[i]),   // working weights = w
        rv(db0[r]) == -xr_sum(x, p, r, res, n),                                                                      // negative score
        forall|j: int| 0 <= j < p ==> rv(#[trigger] at2(dd0, p, r, j)) == psum(x, p, true, wx, p, false, r, j, n),   // information X^T W X
        rv(db[r]) == rv(db0[r]) + (if r >= 1 { pen * rv(c0[r]) } else { 0real }),                                   // ridge penalty, intercept unpenalised
        forall|j: int| 0 <= j < p ==> rv(#[trigger] at2(dd, p, r, j)) == rv(at2(dd0, p, r, j)) + (if r == j && r >= 1 { pen } else { 0real }),
        forall|j: int| 0 <= j < p ==> rv(#[trigger] c1[j]) == rv(c0[j]) - rv(step[j]),                             // Newton update
        asum(dd, p, r, step, p) == rv(db[r]),                                                                       // the solve is exact at row r
    ensures asum(dd, p, r, c1, p) == xwt(x, p, r, w, |i: int| rv(y[i]) - off(i), n)                                 // [(X^T W X + pen I') c1]_r = [X^T W (y - off)]_r
{
    lemma_asum_linear(dd, p, r, c0, step, c1, p);
    lemma_asum_penalty(dd0, dd, p, r, c0, pen, p);
    lemma_exchange(dd0, x, wx, p, n, r, w, c0, p);
    let tl = |i: int| lin(x, p, c0, i, p);
    let tr = |i: int| rv(y[i]) - rv(mu[i]);
    let ty = |i: int| rv(y[i]) - off(i);
    lemma_score_as_xwt(x, p, r, w, res, tr, n);
    assert forall|i: int| 0 <= i < n implies #[trigger] ty(i) == tl(i) + tr(i) by { assert(rv(mu[i]) == lin(x, p, c0, i, p) + off(i)); }
    lemma_xwt_add(x, p, r, w, tl, tr, ty, n);
}

pub proof fn lemma_xwt_ext(x: Seq<f64>, p: int, r: int, w: Seq<f64>, t1: spec_fn(int) -> real, t2: spec_fn(int) -> real, k: int)
    requires 0 <= k, forall|i: int| 0 <= i < k ==> #[trigger] t1(i) == t2(i)
    ensures xwt(x, p, r, w, t1, k) == xwt(x, p, r, w, t2, k)
    decreases k
{ if k > 0 { lemma_xwt_ext(x, p, r, w, t1, t2, k - 1); assert(t1(k - 1) == t2(k - 1)); } }
/// Bridge to the contract of GLM::fit: for the Gaussian family, the coefficients stored by fit satisfy row r of the weighted ridge normal equations
/// (X^T W X + alpha I') c1 = X^T W (y - offset) whenever the linear solve of the last step is exact at row r (see lu_exact / chol_exact of C01)
pub proof fn lemma_fit_gaussian_least_squares(g: GLM, x: Seq<f64>, y: Seq<f64>, w: Seq<f64>, n: int, p: int, c0: Seq<f64>, c1: Seq<f64>, mu: Seq<f64>, dmu: Seq<f64>, var: Seq<f64>,
        db0: Seq<f64>, dd0: Seq<f64>, db: Seq<f64>, dd: Seq<f64>, step: Seq<f64>, r: int)
    requires g.family is Gaussian, 0 <= r < p, 0 <= n, y.len() == n,
             glm_at(g, x, n, p, c0, mu, dmu, var),
             newton_step_w(g, x, y, w, n, p, c0, c1, mu, dmu, var, db0, dd0, db, dd, step),
             asum(dd, p, r, step, p) == rv(db[r]),
    ensures asum(dd, p, r, c1, p) == xwt(x, p, r, w, |i: int| rv(y[i]) - off_at(g, i), n)
{
    let pen = if rv(g.alpha) > 0real { rv(g.alpha) } else { 0real };
    let res = choose|res: Seq<f64>| res.len() == y.len() && (forall|i: int| 0 <= i < y.len() && rv(var[i]) != 0real ==> rv(#[trigger] res[i]) == wres(w, y, mu, dmu, var, i))
        && db0.len() == p && #[trigger] score_of(db0, x, p, res);
    let wx = choose|wx: Seq<f64>| wx.len() == x.len() && (forall|i: int, j: int| 0 <= i < n && 0 <= j < p && rv(var[i]) != 0real ==> rv(#[trigger] at2(wx, p, i, j)) == rv(at2(x, p, i, j)) * wwt(w, dmu, var, i))
        && #[trigger] is_product(dd0, x, p, true, wx, p, false, p, n, p);
    assert forall|i: int| 0 <= i < n implies rv(#[trigger] mu[i]) == lin(x, p, c0, i, p) + off_at(g, i) by { assert(rv(mu[i]) == fam_inv_link(g.family, psum(x, p, false, c0, 1, false, i, 0, p) + off_at(g, i))); }
    assert forall|i: int| 0 <= i < n implies rv(#[trigger] res[i]) == rv(w[i]) * (rv(y[i]) - rv(mu[i])) by {
        assert(rv(dmu[i]) == fam_dmu(g.family, rv(mu[i])) && rv(var[i]) == fam_var(g.family, rv(mu[i])));
        assert(rv(res[i]) == wres(w, y, mu, dmu, var, i));
        let a = rv(w[i]) * (rv(y[i]) - rv(mu[i]));
        assert(a * (1real / 1real) == a) by(nonlinear_arith);
    }
    assert forall|i: int, j: int| 0 <= i < n && 0 <= j < p implies rv(#[trigger] at2(wx, p, i, j)) == rv(at2(x, p, i, j)) * rv(w[i]) by {
        assert(rv(dmu[i]) == fam_dmu(g.family, rv(mu[i])) && rv(var[i]) == fam_var(g.family, rv(mu[i])));
        assert(rv(at2(wx, p, i, j)) == rv(at2(x, p, i, j)) * wwt(w, dmu, var, i));
        let wi = rv(w[i]);
        assert(wi * (1real * 1real) / 1real == wi) by(nonlinear_arith);
    }
    assert(rv(db0[r]) == -xr_sum(x, p, r, res, res.len() as int));
    assert forall|j: int| 0 <= j < p implies rv(#[trigger] at2(dd0, p, r, j)) == psum(x, p, true, wx, p, false, r, j, n) by { }
    let off = |i: int| off_at(g, i);
    theorem_gaussian_normal_equations(x, y, w, off, n, p, pen, c0, c1, step, mu, res, wx, db0, dd0, db, dd, r);
    lemma_xwt_ext(x, p, r, w, |i: int| rv(y[i]) - off(i), |i: int| rv(y[i]) - off_at(g, i), n);
}
'''
XN = '(x@.len() as int) / (y@.len() as int)'
TYPED = [('let mut is_converged;', 'let mut is_converged: bool;'), ('let mut eta;', 'let mut eta: Vec<f64>;'), ('let mut mu;', 'let mut mu: Vector;'), ('let mut dmu;', 'let mut dmu: Vector;'),
         ('let mut var;', 'let mut var: Vector;'), ('let mut dbeta;', 'let mut dbeta: Vec<f64>;'), ('let mut ddbeta;', 'let mut ddbeta: Vec<f64>;'), ('let mut n_iter = 0;', 'let mut n_iter: usize = 0;')]
ARITH = 'lemma_div_facts(x@.len() as int, n as int); lemma_mul_div(n as int, p as int); lemma_mul_div(p as int, 1); lemma_mul_div(p as int, p as int); lemma_mul_div(n as int, 1); assert(n * 1 == n); assert(p * 1 == p);'
FIT_INV = ['n == y@.len() && n * p == x@.len() && p == ' + XN + ' && p >= 1', '0 < n < 0x7fff_ffff && 0 < x@.len() <= 0x7fff_ffff && p * p <= 0x7fff_ffff',
           'fit_valid(*old(self), x@, y@) || may_reject()', '*self == *old(self)', 'design_def(x@, n as int, p as int)',
           'self.weights is Some ==> self.weights->Some_0@.len() == n',
           'fit_weights(*self, n as int, weights@)', 'coef@.len() == p',
           'C06.fit.offsets_checked:: n_iter > 0 ==> (self.offsets is Some ==> self.offsets->Some_0@.len() == n)',
           'C06.fit.shapes:: n_iter > 0 ==> mu.v@.len() == n && dmu.v@.len() == n && var.v@.len() == n',
           'C06.fit.last_pass:: n_iter > 0 ==> glm_at(*self, x@, n as int, p as int, c0_, mu.v@, dmu.v@, var.v@) && newton_step(*self, x@, y@, weights@, n as int, p as int, c0_, coef@, mu.v@, dmu.v@, var.v@)',
           'C06.fit.converged_flag:: n_iter > 0 && is_converged ==> conv_passed(penalized_deviance, pd_prev_, self.tolerance)']
fit = Fn(IG + 'fit', ret='r', level='L1', valid='fit_valid(*old(self), x@, y@)',
         panics={1: 'REJECT: (x@.len() as int) % (y@.len() as int) == 0',
                 2: 'REJECT: (x@.len() as int) % (y@.len() as int) == 0 && design_def(x@, y@.len() as int, ' + XN + ')',
                 3: 'REJECT: (old(self).weights is Some ==> old(self).weights->Some_0@.len() == y@.len())',
                 4: 'REJECT: (old(self).offsets is Some ==> old(self).offsets->Some_0@.len() == y@.len())'},
         requires=['C06.fit.machine:: 0 < y@.len() < 0x7fff_ffff && 0 < x@.len() <= 0x7fff_ffff && (' + XN + ') * (' + XN + ') <= 0x7fff_ffff'],
         ensures=['C06.fit.valid:: fit_valid(*old(self), x@, y@)',
                  'C06.fit.frame:: fit_frame(*old(self), *final(self))',
                  'C06.fit.state:: fit_state(*final(self), ' + XN + ')',
                  'C06.fit.result:: fit_result(*old(self), *final(self), x@, y@)',
                  'C06.fit.ok_means_converged:: r is Ok ==> exists|l: f64, lp: f64| #[trigger] conv_passed(l, lp, old(self).tolerance)'],
         float_casts=(1,),
         rewrites=[(a, b, 'R4c: deferred initialisation given the type rustc infers') for a, b in TYPED] + [
             ('is_matrix(x, n).unwrap()', 'match is_matrix(x, n) { Ok(v_) => v_, Err(_) => ::core::panicking::panic("unwrap") }', 'R2b'),
             (r'\{\s*::std::io::_print\(format_args!\("\{0:\?\}\\n",\s*coef\)\);\s*\};', '', 'R39: a print statement has no effect on program values (dropped)', 're'),
             ('eta = matmul(x, &coef, n, p, false, false);', 'eta = matmul(x, &coef, n, p, false, false); let ghost eta0_ = eta@; proof { c0_ = coef@; }', 'ghost copies for the proof'),
             ('var = self.family.variance(&mu);', 'var = self.family.variance(&mu);\n proof { assert forall|i: int| 0 <= i < n implies rv(#[trigger] mu.v@[i]) == fam_inv_link(self.family, psum(x@, p as int, false, c0_, 1, false, i, 0, p as int) + off_at(*self, i)) by '
              '{ lemma_idx(i, 0, n as int, 1); assert(rv(at2(eta0_, 1, i, 0)) == psum(x@, p as int, false, c0_, 1, false, i, 0, p as int)); } assert(glm_at(*self, x@, n as int, p as int, c0_, mu.v@, dmu.v@, var.v@)); } //@[C06.fit.means]\n', 'proof hint'),
             ('ddbeta = self.compute_ddbeta(x, &dmu, &var, &weights);', 'ddbeta = self.compute_ddbeta(x, &dmu, &var, &weights); let ghost db0_ = dbeta@; let ghost dd0_ = ddbeta@;', 'ghost copies for the proof'),
             (r'coef = (\w+)\(&coef, &solve\(&ddbeta, &dbeta\)\);', r'let step_ = solve(&ddbeta, &dbeta); coef = \1(&coef, &step_);\n proof { assert(penalised(*self, p as int, c0_, db0_, dd0_, dbeta@, ddbeta@)); '
              'assert(newton_step_w(*self, x@, y@, weights@, n as int, p as int, c0_, coef@, mu.v@, dmu.v@, var.v@, db0_, dd0_, dbeta@, ddbeta@, step_@)); } //@[C06.fit.newton_step]\n', 'R31: the Newton step bound to a name', 're'),
             ('let penalized_deviance_previous = penalized_deviance;', 'let penalized_deviance_previous = penalized_deviance; proof { pd_prev_ = penalized_deviance_previous; }', 'ghost copy for the proof')],
         loops={1: {'invariant': FIT_INV, 'invariant_except_break': ['n_iter == 0 || n_iter < max_iter'], 'ensures': ['n_iter > 0 && (n_iter >= max_iter || is_converged)'],
                   'decreases': 'max_iter + 1 - n_iter', 'body_start': ARITH}},
         hints=[('let mut ddbeta: Vec<f64>;', 'after', 'let ghost mut pd_prev_: f64 = penalized_deviance; let ghost mut c0_: Seq<f64> = coef@; proof { ' + ARITH + ' assert(fit_weights(*self, n as int, weights@)); }'),
                ('if !is_design(x, n)', 'before', 'proof { lemma_div_facts(x@.len() as int, n as int); assert(p >= 1) by { if p == 0 { assert(0 * n == 0); } } }'),
                ('self.coef = Some(coef);', 'before', 'let ghost c1_ = coef@; proof { ' + ARITH + ' }'),
                ('self.p = Some(p);', 'after', 'proof { assert(fit_result_w(*old(self), *self, x@, y@, n as int, p as int, weights@, c0_, mu.v@, dmu.v@, var.v@)); } //@[C06.fit.stored]')])
UNITS = [
    Unit('C06_pdev', 'C06', [pdev], use=[c06.deviance, c04.norm], types=TYPES, type_spec=core.TYPE_SPEC, spec=c06.SPEC + c06.DEV_SPEC + PDEV_SPEC, preludes=PRE, broadcast=BC, level='L1',
         notes='penalized_deviance = family deviance + alpha * norm of the slope coefficients (intercept excluded)'),
    Unit('C06_fit', 'C06', [fit], use=[c15.is_matrix, c15b.is_design, c08.mean, c05.matmul, c04.KERNELS['vadd'], c04.KERNELS['vsub'], c06.inv_link, c06.d_inv_link, c06.variance, c06.dbeta, c06.ddbeta,
                                       c06.pen_d, c06.pen_dd, s1.solve, pdev, c06.has_converged, c06.deviance, c04.vsum_fn] + core.core_stubs(),
         types=TYPES, type_spec=core.TYPE_SPEC, spec=s1.SPEC + c06.SPEC + c06.FAM_SPEC + c06.SCORE_SPEC + c06.DEV_SPEC + c06.PRED_SPEC + c08.SPEC + FIT_SPEC + GAUSS_SPEC, preludes=PRE, broadcast=BC, level='L1', rlimit=200,
         notes='GLM::fit: inputs validated or rejected; the model state written at the end is consistent (coef of length p, p x p information matrix, deviance, n, p; family / penalty / tolerance / weights / offsets untouched); '
               'Ok is returned only if the convergence test passed on the last two penalised deviances; for the Gaussian family the stored coefficients satisfy the weighted ridge normal equations '
               '(X^T W X + alpha I\') c = X^T W (y - offset) row by row wherever the last linear solve is exact (theorem_gaussian_normal_equations + bridge lemma over the contract of fit)'),
]
