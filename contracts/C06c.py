"""C06 — GLM::fit: the Fisher-scoring loop as a composition of the proved pieces (L1).  What the contract carries: the inputs are
validated or rejected, every iteration is a Newton step through the routed linear solver on the family's (penalised) score and
information, the model state written at the end is consistent, and Ok is returned only if the convergence test passed."""
from vc.gen import Fn, Unit
from contracts import core
from contracts import C04 as c04
from contracts import C05 as c05
from contracts import C06 as c06
from contracts import C08 as c08
from contracts import C15 as c15
from contracts import C15b as c15b
from contracts import C01solve as s1
from contracts.C06 import IG, FAM, TYPES

PRE = ('fax_l0', 'fmeth', 'stdspec', 'l1')
BC = ('l0', 'l1_arith', 'l1_fun', 'ax_vec_from_refl', 'ax_f64_cloned')

pdev = Fn(FAM + '{impl ExponentialFamily}::penalized_deviance', ret='r', level='L1', valid='y@.len() == mu@.len()',
          requires=['C06.pdev.coef:: coef@.len() >= 1'],
          ensures=['C06.pdev.valid:: y@.len() == mu@.len()',
                   'C06.pdev.def:: exists|d: f64| #[trigger] is_family_deviance(*self, y@, mu@, d) && rv(r) == rv(d) + rv(alpha) * r_sqrt(dsum(coef@.subrange(1, coef@.len() as int), coef@.subrange(1, coef@.len() as int), coef@.len() - 1))'])

FIT_SPEC = r'''
/// d is the family's deviance of (y, mu) (whenever the family's domain condition on mu holds)
pub open spec fn is_family_deviance(f: ExponentialFamily, y: Seq<f64>, mu: Seq<f64>, d: f64) -> bool {
    dev_domain(f, mu) ==> rv(d) == dev_factor(f) * dev_sum(f, y, mu, y.len() as int)
}
pub open spec fn dev_domain(f: ExponentialFamily, mu: Seq<f64>) -> bool {
    (f is Gamma || f is Exponential) ==> forall|i: int| 0 <= i < mu.len() ==> rv(#[trigger] mu[i]) != 0real
}
'''
