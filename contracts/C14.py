"""C14 — polynomial regression returns the least-squares polynomial: the fit is the normal-equations composition
(V^T V)^{-1} (V^T y) of contracted pieces; Vandermonde entries are the powers of the abscissae (L0/L1)."""
from vc.gen import Fn, Unit
from contracts import core
from contracts import C05 as c05
from contracts import C01 as c01
from contracts import C01solve as s1

PRE = ('fax_l0', 'fmeth', 'stdspec', 'l1')
BC = ('l0', 'l1_arith', 'ax_vec_from_refl', 'ax_f64_cloned')
U = 'linalg::utils::'
P = 'predict::polynomial::'

SPEC = c05.SPEC + s1.SPEC + s1.SYS_SPEC + s1.INV_SPEC + r'''
/// V[r, i] = x_r ^ i  for i < n
pub open spec fn is_vandermonde(vm: Seq<f64>, x: Seq<f64>, n: int) -> bool {
    vm.len() == x.len() * n && forall|r: int, i: int| 0 <= r < x.len() && 0 <= i < n ==> #[trigger] at2(vm, n, r, i) == f_powi(x[r], i as i32)
}
/// coef solves the normal equations by the composition (V^T V)^{-1} (V^T y)
pub open spec fn normal_eq_witness(coef: Seq<f64>, x: Seq<f64>, y: Seq<f64>, p: int, v: Seq<f64>, g: Seq<f64>, ginv: Seq<f64>, xty: Seq<f64>) -> bool {
    is_vandermonde(v, x, p)
    && is_product(g, v, p, true, v, p, false, p, x.len() as int, p)
    && is_product(xty, v, p, true, y, 1, false, p, x.len() as int, 1)
    && inverse_of(g, p, ginv)
    && is_product(coef, ginv, p, false, xty, 1, false, p, p, 1)
}
/// coef = (V^T V)^{-1} (V^T y): the normal equations solved through the inverse computed by invert_matrix (column c of it solves (V^T V) z = e_c)
pub open spec fn normal_eq_composition(coef: Seq<f64>, x: Seq<f64>, y: Seq<f64>, p: int) -> bool {
    exists|v: Seq<f64>, g: Seq<f64>, ginv: Seq<f64>, xty: Seq<f64>| #[trigger] normal_eq_witness(coef, x, y, p, v, g, ginv, xty)
}
'''
vandermonde = Fn(U + 'vandermonde', ret='vm', level='L0', attrs=['#[verifier::loop_isolation(false)]'],
                 requires=['C14.vander.machine:: x@.len() * n <= 0x7fff_ffff && n <= 0x7fff_ffff'],
                 ensures=['C14.vander.entry:: is_vandermonde(vm@, x@, n as int)'],
                 loops={1: {'iter_name': 'it', 'invariant': ['vm@.len() == it.index@ * n', 'it.index@ <= x@.len()',
                                                               'C14.vander.rows:: forall|r: int, i: int| 0 <= r < it.index@ && 0 <= i < n ==> #[trigger] at2(vm@, n as int, r, i) == f_powi(x@[r], i as i32)'],
                            'body_start': 'assert(*v == x@[it.index@]); lemma_row(it.index@, x@.len() as int, n as int);'},
                        2: {'invariant': ['vm@.len() == it.index@ * n + i', 'it.index@ < x@.len()', '*v == x@[it.index@]',
                                          'C14.vander.rows.i:: forall|r: int, ii: int| 0 <= r < it.index@ && 0 <= ii < n ==> #[trigger] at2(vm@, n as int, r, ii) == f_powi(x@[r], ii as i32)',
                                          'C14.vander.row:: forall|ii: int| 0 <= ii < i ==> #[trigger] at2(vm@, n as int, it.index@, ii) == f_powi(x@[it.index@], ii as i32)'],
                            'body_ghost': 'let ghost pre_vm = vm@;',
                            'body_end': ('assert forall|r: int, ii: int| 0 <= r < it.index@ && 0 <= ii < n implies #[trigger] at2(vm@, n as int, r, ii) == f_powi(x@[r], ii as i32) by { lemma_idx(r, ii, it.index@, n as int); assert(at2(pre_vm, n as int, r, ii) == at2(vm@, n as int, r, ii)); } '
                                         'assert forall|ii: int| 0 <= ii < i + 1 implies #[trigger] at2(vm@, n as int, it.index@, ii) == f_powi(x@[it.index@], ii as i32) by { if ii < i { assert(at2(pre_vm, n as int, it.index@, ii) == at2(vm@, n as int, it.index@, ii)); } }')}},
                 hints=[('let mut vm = Vec::with_capacity(', 'after', 'proof { assert(0 * n == 0) by(nonlinear_arith); }')])
xtx = Fn(U + 'xtx', ret='r', level='L1', valid='(x@.len() as int) % (k as int) == 0',
         requires=['C14.xtx.machine:: k > 0 && x@.len() <= 0x7fff_ffff && ((x@.len() as int) / (k as int)) * ((x@.len() as int) / (k as int)) <= 0x7fff_ffff'],
         ensures=['C14.xtx.valid:: (x@.len() as int) % (k as int) == 0',
                  'C14.xtx.product:: is_product(r@, x@, (x@.len() as int) / (k as int), true, x@, (x@.len() as int) / (k as int), false, (x@.len() as int) / (k as int), k as int, (x@.len() as int) / (k as int))'])
poly_struct = P + '{struct PolynomialRegressor}'
update = Fn(P + '{impl PolynomialRegressor}::update', ret='r', level='L0',
            ensures=['C14.update:: r.coef@ == params@', 'C14.update.ret:: *final(r) == *final(self)'])
fit = Fn(P + '{impl PolynomialRegressor}::fit', ret='r', level='L1', valid='x@.len() == y@.len()', panics={1: 'REJECT'},
         requires=['C14.fit.machine:: 0 < x@.len() && 0 < old(self).coef@.len() && x@.len() * old(self).coef@.len() <= 0x7fff_ffff && old(self).coef@.len() * old(self).coef@.len() <= 0x7fff_ffff && x@.len() <= 0x7fff_ffff && old(self).coef@.len() <= 0x7fff_ffff'],
         ensures=['C14.fit.valid:: x@.len() == y@.len()',
                  'C14.fit.composition:: normal_eq_composition(r.coef@, x@, y@, old(self).coef@.len() as int)',
                  'C14.fit.ret:: *final(r) == *final(self)'],
         pre_body='let ghost p_ = self.coef@.len() as int; proof { lemma_mul_div(x@.len() as int, p_); lemma_mul_div(p_, p_); }',
         hints=[('let xty = matmul(', 'before', 'proof { lemma_mul_div(x@.len() as int, p_); assert(xv@.len() == x@.len() * p_); assert((xv@.len() as int) / (x@.len() as int) == p_); assert(xtx@.len() == p_ * p_); assert(xtxinv@.len() == p_ * p_); }'),
                ('let coeffs =', 'before', 'proof { assert(xty@.len() == p_ * 1); lemma_mul_div(p_, p_); assert((xtxinv@.len() as int) / p_ == p_); assert((xty@.len() as int) / p_ == 1); }'),
                ('self.update(&coeffs)', 'before',
                 'proof { assert(is_vandermonde(xv@, x@, p_)); assert(is_product(xtx@, xv@, p_, true, xv@, p_, false, p_, x@.len() as int, p_)); '
                 'assert(is_product(xty@, xv@, p_, true, y@, 1, false, p_, x@.len() as int, 1)); assert(inverse_of(xtx@, p_, xtxinv@)); assert(is_product(coeffs@, xtxinv@, p_, false, xty@, 1, false, p_, p_, 1)); '
                 'assert(normal_eq_witness(coeffs@, x@, y@, p_, xv@, xtx@, xtxinv@, xty@)); }')])

UNITS = [
    Unit('C14_poly', 'C14', [vandermonde, xtx, update, fit], use=[c05.matmul, s1.invert, c01.is_square], types=core.TYPES + [poly_struct], type_spec=core.TYPE_SPEC,
         spec=SPEC, preludes=PRE, broadcast=BC, level='L1', rlimit=100, 
         notes='Vandermonde entries x_r^i; fit = (V^T V)^{-1}(V^T y) as a composition of the matmul contract with invert_matrix abstract; '
               'the units behind invert_matrix (dot, LU, symmetry routing) are run as part of this check'),
]

# ---------------------------------------------------------------- predict: Horner evaluation of the fitted polynomial
HORNER_SPEC = r'''
/// c_k + v (c_{k+1} + v (c_{k+2} + ...)): the value of c_k + c_{k+1} v + c_{k+2} v^2 + ... (Horner form)
pub open spec fn hval(c: Seq<f64>, v: real, k: int) -> real decreases c.len() - k
{ if k >= c.len() || k < 0 { 0real } else { hval(c, v, k + 1) * v + rv(c[k]) } }
/// sum over k <= j < n of c_j v^(j-k)
pub open spec fn pw_sum(c: Seq<f64>, v: real, k: int, n: int) -> real decreases n - k
{ if n <= k { 0real } else { pw_sum(c, v, k, n - 1) + rv(c[n - 1]) * r_powi(v, n - 1 - k) } }
/// shifting the base index multiplies every term by v
pub proof fn lemma_pw_shift(c: Seq<f64>, v: real, k: int, n: int) requires 0 <= k, k + 1 <= n
    ensures pw_sum(c, v, k, n) == pw_sum(c, v, k + 1, n) * v + rv(c[k])
    decreases n - k
{
    if n == k + 1 {
        assert(pw_sum(c, v, k, k) == 0real); assert(pw_sum(c, v, k + 1, k + 1) == 0real); reveal_with_fuel(r_powi, 2);
        assert(pw_sum(c, v, k, k + 1) == rv(c[k]) * 1real); assert(0real * v == 0real) by(nonlinear_arith);
    } else {
        lemma_pw_shift(c, v, k, n - 1);
        reveal_with_fuel(r_powi, 2);
        assert(r_powi(v, n - 1 - k) == v * r_powi(v, n - 2 - k));
        let a = pw_sum(c, v, k + 1, n - 1); let t = rv(c[n - 1]); let q = r_powi(v, n - 2 - k);
        assert((a + t * q) * v + rv(c[k]) == (a * v + rv(c[k])) + t * (v * q)) by(nonlinear_arith);
    }
}
/// the Horner value is the polynomial c_0 + c_1 v + ... + c_d v^d  (property C14)
pub proof fn lemma_horner(c: Seq<f64>, v: real, k: int) requires 0 <= k <= c.len()
    ensures hval(c, v, k) == pw_sum(c, v, k, c.len() as int)
    decreases c.len() - k
{ if k < c.len() { lemma_horner(c, v, k + 1); lemma_pw_shift(c, v, k, c.len() as int); } }
'''
ppredict = Fn(P + '{impl PolynomialRegressor}::predict', ret='r', level='L1',
              ensures=['C14.predict.len:: r@.len() == x@.len()',
                       'C14.predict.polynomial:: forall|t: int| 0 <= t < x@.len() ==> rv(#[trigger] r@[t]) == pw_sum(self.coef@, rv(x@[t]), 0, self.coef@.len() as int)'],
              rewrites=[('x.iter().map(|val| { self.coef.iter().rev().fold(0., |acc, coeff| acc * val + coeff) }).collect::<Vec<_>>()',
                         '({ let mut out_: Vec<f64> = Vec::new(); for t_ in 0..x.len() { let val = &x[t_]; let h_ = ({ let mut acc = 0.; for k_ in (0..self.coef.len()).rev() { let coeff = &self.coef[k_]; acc = acc * *val + *coeff; } acc }); '
                         'proof { lemma_horner(self.coef@, rv(x@[t_ as int]), 0); } out_.push(h_); } out_ })',
                         'R37 + R32b + R17: `S.iter().map(|v| E).collect::<Vec<_>>()` is pushing E for each element in order; `C.iter().rev().fold(i, |acc, c| B)` is the loop over decreasing indices; `&f64` operands dereferenced')],
              loops={1: {'invariant': ['out_@.len() == t_',
                                       'C14.predict.prefix:: forall|q: int| 0 <= q < t_ ==> rv(#[trigger] out_@[q]) == pw_sum(self.coef@, rv(x@[q]), 0, self.coef@.len() as int)']},
                     2: {'iter_name': 'kt', 'invariant': ['*val == x@[t_ as int]', '0 <= t_ < x@.len()',
                                                          'C14.predict.horner:: rv(acc) == hval(self.coef@, rv(*val), self.coef@.len() - kt.index@)']}})
UNITS.append(Unit('C14_predict', 'C14', [ppredict], types=core.TYPES + [poly_struct], type_spec=core.TYPE_SPEC, spec=SPEC + HORNER_SPEC, preludes=PRE, broadcast=BC + ('l1_fun',), level='L1',
                  notes='PolynomialRegressor::predict evaluates c_0 + c_1 x + ... + c_d x^d at every point (Horner loop proved equal to the power sum)'))
