"""C14 — polynomial regression returns the least-squares polynomial: the fit is the normal-equations composition
(V^T V)^{-1} (V^T y) of contracted pieces; Vandermonde entries are the powers of the abscissae (L0/L1)."""
from vc.gen import Fn, Unit
from contracts import core
from contracts import C05 as c05
from contracts import C01 as c01

PRE = ('fax_l0', 'fmeth', 'stdspec', 'l1')
BC = ('l0', 'l1_arith', 'ax_vec_from_refl', 'ax_f64_cloned')
U = 'linalg::utils::'
P = 'predict::polynomial::'

SPEC = c05.SPEC + r'''
/// V[r, i] = x_r ^ i  for i < n
pub open spec fn is_vandermonde(vm: Seq<f64>, x: Seq<f64>, n: int) -> bool {
    vm.len() == x.len() * n && forall|r: int, i: int| 0 <= r < x.len() && 0 <= i < n ==> #[trigger] at2(vm, n, r, i) == f_powi(x[r], i as i32)
}
/// result of invert_matrix, abstract here (its accuracy is property C01)
pub uninterp spec fn inv_fn(m: Seq<f64>) -> Seq<f64>;
/// coef solves the normal equations by the composition (V^T V)^{-1} (V^T y)
pub open spec fn normal_eq_composition(coef: Seq<f64>, x: Seq<f64>, y: Seq<f64>, p: int) -> bool {
    exists|v: Seq<f64>, g: Seq<f64>, xty: Seq<f64>| #![trigger is_vandermonde(v, x, p), is_product(g, v, p, true, v, p, false, p, x.len() as int, p), is_product(xty, v, p, true, y, 1, false, p, x.len() as int, 1)]
        is_vandermonde(v, x, p)
        && is_product(g, v, p, true, v, p, false, p, x.len() as int, p)
        && is_product(xty, v, p, true, y, 1, false, p, x.len() as int, 1)
        && is_product(coef, inv_fn(g), p, false, xty, 1, false, p, p, 1)
}
'''
vandermonde = Fn(U + 'vandermonde', ret='vm', level='L0', attrs=['#[verifier::loop_isolation(false)]'],
                 requires=['C14.vander.machine:: x@.len() * n <= 0x7fff_ffff && n <= 0x7fff_ffff'],
                 ensures=['C14.vander.entry:: is_vandermonde(vm@, x@, n as int)'],
                 loops={1: {'iter_name': 'it', 'invariant': ['vm@.len() == it.index@ * n', 'it.index@ <= x@.len()',
                                                               'C14.vander.rows:: forall|r: int, i: int| 0 <= r < it.index@ && 0 <= i < n ==> #[trigger] at2(vm@, n as int, r, i) == f_powi(x@[r], i as i32)'],
                            'body_start': 'assert(*v == x@[it.index@]); lemma_row(it.index@, x@.len() as int, n as int);'},
                        2: {'invariant': ['vm@.len() == it.index@ * n + i', 'it.index@ < x@.len()', '*v == x@[it.index@]',
                                          'C14.vander.rows.i:: forall|r: int, ii: int| 0 <= r < it.index@ && 0 <= ii < n ==> #[trigger] at2(vm@, n as int, r, ii) == f_powi(x@[r], ii as i32)',
                                          'C14.vander.row:: forall|ii: int| 0 <= ii < i ==> #[trigger] at2(vm@, n as int, it.index@, ii) == f_powi(x@[it.index@], ii as i32)'],
                            'body_ghost': 'let ghost pre_vm = vm@;',
                            'body_end': ('assert forall|r: int, ii: int| 0 <= r < it.index@ && 0 <= ii < n implies #[trigger] at2(vm@, n as int, r, ii) == f_powi(x@[r], ii as i32) by { lemma_idx(r, ii, it.index@, n as int); assert(at2(pre_vm, n as int, r, ii) == at2(vm@, n as int, r, ii)); } '
                                         'assert forall|ii: int| 0 <= ii < i + 1 implies #[trigger] at2(vm@, n as int, it.index@, ii) == f_powi(x@[it.index@], ii as i32) by { if ii < i { assert(at2(pre_vm, n as int, it.index@, ii) == at2(vm@, n as int, it.index@, ii)); } }')}},
                 hints=[('let mut vm = Vec::with_capacity(x.len() * n);', 'after', 'proof { assert(0 * n == 0) by(nonlinear_arith); }')])
xtx = Fn(U + 'xtx', ret='r', level='L1', valid='(x@.len() as int) % (k as int) == 0',
         requires=['C14.xtx.machine:: k > 0 && x@.len() <= 0x7fff_ffff && ((x@.len() as int) / (k as int)) * ((x@.len() as int) / (k as int)) <= 0x7fff_ffff'],
         ensures=['C14.xtx.valid:: (x@.len() as int) % (k as int) == 0',
                  'C14.xtx.product:: is_product(r@, x@, (x@.len() as int) / (k as int), true, x@, (x@.len() as int) / (k as int), false, (x@.len() as int) / (k as int), k as int, (x@.len() as int) / (k as int))'])
invert_matrix = Fn(U + 'invert_matrix', ret='r', level='A', valid='exists|k: int| 0 <= k && #[trigger] (k * k) == matrix@.len()',
                   ensures=['A.invert_matrix:: r@ == inv_fn(matrix@) && r@.len() == matrix@.len()'])

poly_struct = P + '{struct PolynomialRegressor}'
update = Fn(P + '{impl PolynomialRegressor}::update', ret='r', level='L0',
            ensures=['C14.update:: r.coef@ == params@', 'C14.update.ret:: *final(r) == *final(self)'])
fit = Fn(P + '{impl PolynomialRegressor}::fit', ret='r', level='L1', valid='x@.len() == y@.len()', panics={1: 'REJECT'},
         requires=['C14.fit.machine:: 0 < x@.len() && 0 < old(self).coef@.len() && x@.len() * old(self).coef@.len() <= 0x7fff_ffff && old(self).coef@.len() * old(self).coef@.len() <= 0x7fff_ffff && x@.len() <= 0x7fff_ffff && old(self).coef@.len() <= 0x7fff_ffff'],
         ensures=['C14.fit.valid:: x@.len() == y@.len()',
                  'C14.fit.composition:: normal_eq_composition(r.coef@, x@, y@, old(self).coef@.len() as int)',
                  'C14.fit.ret:: *final(r) == *final(self)'],
         pre_body='let ghost p_ = self.coef@.len() as int; proof { lemma_mul_div(x@.len() as int, p_); lemma_mul_div(p_, p_); }',
         hints=[('let xty = matmul(', 'before', 'proof { lemma_mul_div(x@.len() as int, p_); assert(xv@.len() == x@.len() * p_); assert((xv@.len() as int) / (x@.len() as int) == p_); assert(xtx@.len() == p_ * p_); assert(xtxinv@.len() == p_ * p_); }'),
                ('let coeffs =', 'before', 'proof { assert(xty@.len() == p_ * 1); lemma_mul_div(p_, p_); assert((xtxinv@.len() as int) / p_ == p_); assert((xty@.len() as int) / p_ == 1); }'),
                ('self.update(&coeffs)', 'before',
                 'proof { assert(is_vandermonde(xv@, x@, p_)); assert(is_product(xtx@, xv@, p_, true, xv@, p_, false, p_, x@.len() as int, p_)); '
                 'assert(is_product(xty@, xv@, p_, true, y@, 1, false, p_, x@.len() as int, 1)); assert(is_product(coeffs@, inv_fn(xtx@), p_, false, xty@, 1, false, p_, p_, 1)); '
                 'assert(normal_eq_composition(coeffs@, x@, y@, p_)); }')])

UNITS = [
    Unit('C14_poly', 'C14', [vandermonde, xtx, update, fit], use=[c05.matmul, invert_matrix, c01.is_square], types=core.TYPES + [poly_struct], type_spec=core.TYPE_SPEC,
         spec=SPEC, preludes=PRE, broadcast=BC, level='L1', rlimit=100, also=['C04_reductions', 'C11_lu', 'C01_predicates'],
         notes='Vandermonde entries x_r^i; fit = (V^T V)^{-1}(V^T y) as a composition of the matmul contract with invert_matrix abstract; '
               'the units behind invert_matrix (dot, LU, symmetry routing) are run as part of this check'),
]
