"""C05 — matrix products follow the definition for every shape and transpose flag (L1: the definition is over the reals)."""
from vc.gen import Fn, Unit
from contracts import core
from contracts.core import VEC, MAT, IM, IV
from contracts import C15 as c15

PRE = ('fax_l0', 'fmeth', 'stdspec', 'l1')
BC = ('l0', 'l1_arith', 'ax_vec_from_refl', 'ax_f64_cloned')
U = 'linalg::utils::'

SPEC = c15.SPEC + r'''
/// entry (i,k) of op(A) as a real number
pub open spec fn opa(a: Seq<f64>, cols: int, t: bool, i: int, k: int) -> real { if t { rv(at2(a, cols, k, i)) } else { rv(at2(a, cols, i, k)) } }
/// sum over k < kk of op(A)[i,k] * op(B)[k,j]   (the definition in property C05)
pub open spec fn psum(a: Seq<f64>, ca: int, ta: bool, b: Seq<f64>, cb: int, tb: bool, i: int, j: int, kk: int) -> real
    decreases kk
{
    if kk <= 0 { 0real } else { psum(a, ca, ta, b, cb, tb, i, j, kk - 1) + opa(a, ca, ta, i, kk - 1) * opa(b, cb, tb, kk - 1, j) }
}
pub open spec fn is_product(c: Seq<f64>, a: Seq<f64>, ca: int, ta: bool, b: Seq<f64>, cb: int, tb: bool, m: int, l: int, n: int) -> bool {
    c.len() == m * n && forall|i: int, j: int| 0 <= i < m && 0 <= j < n ==> rv(#[trigger] at2(c, n, i, j)) == psum(a, ca, ta, b, cb, tb, i, j, l)
}
/// ae (l columns) holds op(A) row-major
pub open spec fn is_eff(ae: Seq<f64>, l: int, a: Seq<f64>, ca: int, ta: bool, m: int) -> bool {
    ae.len() == m * l && forall|i: int, k: int| 0 <= i < m && 0 <= k < l ==> rv(#[trigger] at2(ae, l, i, k)) == opa(a, ca, ta, i, k)
}
pub proof fn lemma_psum_eff(ae: Seq<f64>, be: Seq<f64>, l: int, n: int, a: Seq<f64>, ca: int, ta: bool, b: Seq<f64>, cb: int, tb: bool, m: int, i: int, j: int, kk: int)
    requires is_eff(ae, l, a, ca, ta, m), is_eff(be, n, b, cb, tb, l), 0 <= i < m, 0 <= j < n, 0 <= kk <= l
    ensures psum(ae, l, false, be, n, false, i, j, kk) == psum(a, ca, ta, b, cb, tb, i, j, kk)
    decreases kk
{
    if kk > 0 {
        lemma_psum_eff(ae, be, l, n, a, ca, ta, b, cb, tb, m, i, j, kk - 1);
        assert(rv(at2(ae, l, i, kk - 1)) == opa(a, ca, ta, i, kk - 1));
        assert(rv(at2(be, n, kk - 1, j)) == opa(b, cb, tb, kk - 1, j));
    }
}
/// A^T B^T = (B A)^T entry-wise over the reals
pub proof fn lemma_psum_swap(a: Seq<f64>, ca: int, b: Seq<f64>, cb: int, i: int, j: int, kk: int)
    ensures psum(a, ca, true, b, cb, true, i, j, kk) == psum(b, cb, false, a, ca, false, j, i, kk)
    decreases kk
{
    if kk > 0 {
        lemma_psum_swap(a, ca, b, cb, i, j, kk - 1);
        let x = opa(a, ca, true, i, kk - 1); let y = opa(b, cb, true, kk - 1, j);
        assert(x * y == y * x) by(nonlinear_arith);
    }
}

pub open spec fn imin(a: int, b: int) -> int { if a <= b { a } else { b } }
/// entries of rows [r0,r1) x columns [c0,c1) of c hold the first kc terms of the product sum
pub open spec fn done(c: Seq<f64>, a: Seq<f64>, b: Seq<f64>, l: int, n: int, r0: int, r1: int, c0: int, c1: int, kc: int) -> bool {
    forall|ii: int, jj: int| r0 <= ii < r1 && c0 <= jj < c1 && 0 <= jj < n ==> rv(#[trigger] at2(c, n, ii, jj)) == psum(a, l, false, b, n, false, ii, jj, kc)
}
pub proof fn lemma_blk(n: int, bs: int, q: int)
    requires bs > 0, n >= 0, 0 <= q <= n / bs
    ensures q * bs <= n, (n / bs + 1) * bs > n, (q + 1) * bs == q * bs + bs, q * bs >= 0
{
    vstd::arithmetic::div_mod::lemma_fundamental_div_mod(n, bs);
    vstd::arithmetic::div_mod::lemma_mod_bound(n, bs);
    assert(q * bs <= (n / bs) * bs) by(nonlinear_arith) requires 0 <= q <= n / bs, bs > 0;
    assert((n / bs) * bs == bs * (n / bs)) by(nonlinear_arith);
    assert((n / bs + 1) * bs == (n / bs) * bs + bs) by(nonlinear_arith);
    assert((q + 1) * bs == q * bs + bs) by(nonlinear_arith);
    assert(q * bs >= 0) by(nonlinear_arith) requires q >= 0, bs > 0;
}
'''

UNWRAP_A = ('is_matrix(a, rows_a).unwrap()', 'match is_matrix(a, rows_a) { Ok(v_) => v_, Err(_) => ::core::panicking::panic("unwrap") }',
            'R2b: Result::unwrap is this match by definition; its panic is a REJECT site')
UNWRAP_B = ('is_matrix(b, rows_b).unwrap()', 'match is_matrix(b, rows_b) { Ok(v_) => v_, Err(_) => ::core::panicking::panic("unwrap") }',
            'R2b: Result::unwrap is this match by definition; its panic is a REJECT site')
CA = '((a@.len() as int) / (rows_a as int))'
CB = '((b@.len() as int) / (rows_b as int))'
MM = '(if transpose_a { %s } else { rows_a as int })' % CA
LL = '(if transpose_a { rows_a as int } else { %s })' % CA
NN = '(if transpose_b { rows_b as int } else { %s })' % CB
LB = '(if transpose_b { %s } else { rows_b as int })' % CB
MMV = '(a@.len() as int) % (rows_a as int) == 0 && (b@.len() as int) % (rows_b as int) == 0 && ' + LL + ' == ' + LB
ROWDONE = 'forall|ii: int, jj: int| 0 <= ii < i && 0 <= jj < n ==> rv(#[trigger] at2(c@, n as int, ii, jj)) == psum(a@, l as int, false, b@, n as int, false, ii, jj, l as int)'
ROWZERO = 'forall|ii: int, jj: int| i < ii < m && 0 <= jj < n ==> rv(#[trigger] at2(c@, n as int, ii, jj)) == 0real'
matmul = Fn(U + 'matmul', ret='c', level='L1', valid=MMV, panics={1: 'REJECT', 2: 'REJECT', 3: 'REJECT'},
            rewrites=[UNWRAP_A, UNWRAP_B], attrs=['#[verifier::loop_isolation(false)]'],
            decreases='(if transpose_a && transpose_b { 1int } else { 0int })',
            requires=['C05.matmul.rows:: rows_a > 0 && rows_b > 0', 'C05.matmul.range:: ' + MM + ' * ' + NN + ' <= 0x7fff_ffff && a@.len() <= 0x7fff_ffff && b@.len() <= 0x7fff_ffff'],
            ensures=['C05.matmul.valid:: ' + MMV,
                     'C05.matmul.entry:: is_product(c@, a@, %s, transpose_a, b@, %s, transpose_b, %s, %s, %s)' % (CA, CB, MM, LL, NN)],
            pre_body='let ghost a0 = a@; let ghost b0 = b@; proof { lemma_div_facts(a@.len() as int, rows_a as int); lemma_div_facts(b@.len() as int, rows_b as int); }',
            loops={
                1: {'invariant': ['c@.len() == m * n', 'a@.len() == m * l', 'b@.len() == l * n',
                                  'C05.matmul.rows_done:: ' + ROWDONE,
                                  'C05.matmul.rows_zero:: forall|ii: int, jj: int| i <= ii < m && 0 <= jj < n ==> rv(#[trigger] at2(c@, n as int, ii, jj)) == 0real']},
                2: {'invariant': ['c@.len() == m * n', 'a@.len() == m * l', 'b@.len() == l * n', '0 <= i < m', 'C05.matmul.rows_done.k:: ' + ROWDONE, 'C05.matmul.rows_zero.k:: ' + ROWZERO,
                                  'C05.matmul.row_partial:: forall|jj: int| 0 <= jj < n ==> rv(#[trigger] at2(c@, n as int, i as int, jj)) == psum(a@, l as int, false, b@, n as int, false, i as int, jj, k as int)'],
                    'body_start': 'lemma_idx(i as int, k as int, m as int, l as int);'},
                3: {'invariant': ['c@.len() == m * n', 'a@.len() == m * l', 'b@.len() == l * n', '0 <= i < m', '0 <= k < l', 'temp == at2(a@, l as int, i as int, k as int)',
                                  'C05.matmul.rows_done.j:: ' + ROWDONE, 'C05.matmul.rows_zero.j:: ' + ROWZERO,
                                  'C05.matmul.row_upd:: forall|jj: int| 0 <= jj < j ==> rv(#[trigger] at2(c@, n as int, i as int, jj)) == psum(a@, l as int, false, b@, n as int, false, i as int, jj, k as int + 1)',
                                  'C05.matmul.row_old:: forall|jj: int| j <= jj < n ==> rv(#[trigger] at2(c@, n as int, i as int, jj)) == psum(a@, l as int, false, b@, n as int, false, i as int, jj, k as int)'],
                    'body_ghost': 'let ghost pre_c = c@;',
                    'body_start': 'lemma_idx(i as int, j as int, m as int, n as int); lemma_idx(k as int, j as int, l as int, n as int);',
                    'body_end': ('assert forall|ii: int, jj: int| 0 <= ii < m && 0 <= jj < n && !(ii == i && jj == j) implies #[trigger] at2(c@, n as int, ii, jj) == at2(pre_c, n as int, ii, jj) by { lemma_idx(ii, jj, m as int, n as int); if ii * n + jj == i * n + j { lemma_idx_inj(ii, jj, i as int, j as int, n as int); } } '
                                 'assert(at2(c@, n as int, i as int, j as int) == f_add(at2(pre_c, n as int, i as int, j as int), f_mul(temp, at2(b@, n as int, k as int, j as int)))); '
                                 'assert(rv(at2(pre_c, n as int, i as int, j as int)) == psum(a@, l as int, false, b@, n as int, false, i as int, j as int, k as int)); '
                                 'assert(psum(a@, l as int, false, b@, n as int, false, i as int, j as int, k as int + 1) == psum(a@, l as int, false, b@, n as int, false, i as int, j as int, k as int) + opa(a@, l as int, false, i as int, k as int) * opa(b@, n as int, false, k as int, j as int)); '
                                 'assert(rv(at2(c@, n as int, i as int, j as int)) == psum(a@, l as int, false, b@, n as int, false, i as int, j as int, k as int + 1));')},
            },
            hints=[('return transpose(&matmul(b, a, rows_b, rows_a, false,\n                                    false), rows_b);', 'replace',
                    'proof { assert(rows_b * cols_a == cols_a * rows_b) by(nonlinear_arith); assert(cols_a == (a@.len() as int) / (rows_a as int)); assert(cols_b == (b@.len() as int) / (rows_b as int)); '
                    'assert(((b@.len() as int) / (rows_b as int)) == cols_b); assert((rows_b as int) * ((a@.len() as int) / (rows_a as int)) <= 0x7fff_ffff); } '
                    'let d_ = matmul(b, a, rows_b, rows_a, false, false); '
                    'proof { lemma_mul_div(rows_b as int, cols_a as int); lemma_mul_div(rows_a as int, cols_a as int); lemma_mul_div(rows_b as int, cols_b as int); } '
                    'let r_ = transpose(&d_, rows_b); '
                    'proof { assert forall|ii: int, jj: int| 0 <= ii < cols_a && 0 <= jj < rows_b implies rv(#[trigger] at2(r_@, rows_b as int, ii, jj)) == psum(a0, cols_a as int, true, b0, cols_b as int, true, ii, jj, rows_a as int) by '
                    '{ lemma_psum_swap(a0, cols_a as int, b0, cols_b as int, ii, jj, rows_a as int); assert(at2(r_@, rows_b as int, ii, jj) == at2(d_@, cols_a as int, jj, ii)); } '
                    'assert(cols_a * rows_b == rows_b * cols_a) by(nonlinear_arith); } return r_;'),
                   ('let mut c = vec![0.; m * n];', 'before',
                    'proof { lemma_mul_div(rows_a as int, cols_a as int); lemma_mul_div(rows_b as int, cols_b as int); assert(m * l == a0.len()); assert(l * n == b0.len()); }'),
                   ('for i in 0..m', 'before',
                    'proof { assert(a@.len() == m * l); assert(b@.len() == l * n); '
                    'assert forall|ii: int, kk: int| 0 <= ii < m && 0 <= kk < l implies rv(#[trigger] at2(a@, l as int, ii, kk)) == opa(a0, cols_a as int, transpose_a, ii, kk) by { lemma_idx(ii, kk, m as int, l as int); if transpose_a { assert(at2(a@, rows_a as int, ii, kk) == at2(a0, cols_a as int, kk, ii)); } else { assert(a@[ii * l + kk] == a0[ii * l + kk]); } } '
                    'assert forall|kk: int, jj: int| 0 <= kk < l && 0 <= jj < n implies rv(#[trigger] at2(b@, n as int, kk, jj)) == opa(b0, cols_b as int, transpose_b, kk, jj) by { lemma_idx(kk, jj, l as int, n as int); if transpose_b { assert(at2(b@, rows_b as int, kk, jj) == at2(b0, cols_b as int, jj, kk)); } else { assert(b@[kk * n + jj] == b0[kk * n + jj]); } } '
                    'assert(is_eff(a@, l as int, a0, cols_a as int, transpose_a, m as int)); assert(is_eff(b@, n as int, b0, cols_b as int, transpose_b, l as int)); '
                    'assert forall|ii: int, jj: int| 0 <= ii < m && 0 <= jj < n implies rv(#[trigger] at2(c@, n as int, ii, jj)) == 0real by { lemma_idx(ii, jj, m as int, n as int); } }'),
                   ('\n                c\n', 'replace',
                    '\n proof { assert forall|ii: int, jj: int| 0 <= ii < m && 0 <= jj < n implies rv(#[trigger] at2(c@, n as int, ii, jj)) == psum(a0, cols_a as int, transpose_a, b0, cols_b as int, transpose_b, ii, jj, l as int) by { lemma_psum_eff(a@, b@, l as int, n as int, a0, cols_a as int, transpose_a, b0, cols_b as int, transpose_b, m as int, ii, jj, l as int); } }\n c\n')])

_core_all = core.core_stubs()
UNITS = [
    Unit('C05_matmul', 'C05', [matmul], use=[c15.is_matrix, c15.transpose], types=core.TYPES, type_spec=core.TYPE_SPEC, spec=SPEC, preludes=PRE, broadcast=BC, level='L1', rlimit=120,
         notes='slice-level matmul, all four flag combinations: length m*n and every entry equals the sum over k of op(A)[i,k]*op(B)[k,j]'),
]

# ---------------------------------------------------------------- cache-blocked product: same contract as matmul
_D = lambda r0, r1, c0, c1, kc: 'done(c@, a@, b@, l as int, n as int, %s, %s, %s, %s, %s)' % (r0, r1, c0, c1, kc)
_LO = '(jj * bsize) as int'
_HI = 'imin(jj * bsize + bsize, n as int)'
_K0 = '(kk * bsize) as int'
_K1 = 'imin(kk * bsize + bsize, l as int)'
_CTX = ['c@.len() == m * n', 'a@.len() == m * l', 'b@.len() == l * n', '0 < bsize <= 0x7fff_ffff', 'm * n <= 0x7fff_ffff', 'm <= 0x7fff_ffff && n <= 0x7fff_ffff && l <= 0x7fff_ffff', 'a@.len() <= 0x7fff_ffff && b@.len() <= 0x7fff_ffff']
_OUT = _CTX + ['jj * bsize <= n', 'C05.blocked.left_done:: ' + _D('0', 'm as int', '0', _LO, 'l as int'), 'C05.blocked.right_zero:: ' + _D('0', 'm as int', _HI, 'n as int', '0')]
_ROWS = ['kk * bsize <= l', 'C05.blocked.rows_above:: ' + _D('0', 'i as int', _LO, _HI, _K1), 'C05.blocked.rows_below:: ' + _D('i as int + 1', 'm as int', _LO, _HI, _K0)]
matmul_blocked = Fn(U + 'matmul_blocked', ret='c', level='L1', valid=MMV, panics={1: 'REJECT', 2: 'REJECT', 3: 'REJECT'},
                    rewrites=[UNWRAP_A, UNWRAP_B],
                    requires=['C05.blocked.rows:: 0 < rows_a <= 0x7fff_ffff && 0 < rows_b <= 0x7fff_ffff && 0 < bsize <= 0x7fff_ffff',
                              'C05.blocked.range:: ' + MM + ' * ' + NN + ' <= 0x7fff_ffff && a@.len() <= 0x7fff_ffff && b@.len() <= 0x7fff_ffff'],
                    ensures=['C05.blocked.valid:: ' + MMV,
                             'C05.blocked.entry:: is_product(c@, a@, %s, transpose_a, b@, %s, transpose_b, %s, %s, %s)' % (CA, CB, MM, LL, NN)],
                    pre_body='let ghost a0 = a@; let ghost b0 = b@; proof { lemma_div_facts(a@.len() as int, rows_a as int); lemma_div_facts(b@.len() as int, rows_b as int); }',
                    loops={
                        1: {'invariant': _CTX + ['C05.blocked.cols_done:: ' + _D('0', 'm as int', '0', '(jj * bsize) as int', 'l as int'),
                                          'C05.blocked.cols_zero:: ' + _D('0', 'm as int', '(jj * bsize) as int', 'n as int', '0')],
                            'body_start': 'lemma_blk(n as int, bsize as int, jj as int);',
                            'body_end': 'lemma_blk(l as int, bsize as int, (l / bsize) as int); assert(imin(((l / bsize + 1) * bsize) as int, l as int) == l); assert(imin(jj * bsize + bsize, n as int) <= (jj + 1) * bsize);'},
                        2: {'invariant': _OUT + ['C05.blocked.block:: ' + _D('0', 'm as int', _LO, _HI, 'imin((kk * bsize) as int, l as int)')],
                            'body_start': 'lemma_blk(l as int, bsize as int, kk as int);',
                            'body_end': 'assert(imin(((kk + 1) * bsize) as int, l as int) == imin(kk * bsize + bsize, l as int));'},
                        3: {'invariant': _OUT + ['kk * bsize <= l', 'C05.blocked.rows_done:: ' + _D('0', 'i as int', _LO, _HI, _K1), 'C05.blocked.rows_todo:: ' + _D('i as int', 'm as int', _LO, _HI, _K0)]},
                        4: {'invariant': _OUT + _ROWS + ['0 <= i < m', 'C05.blocked.row:: ' + _D('i as int', 'i as int + 1', _LO, _HI, 'k as int')],
                            'body_start': 'lemma_idx(i as int, k as int, m as int, l as int);'},
                        5: {'invariant': _OUT + _ROWS + ['0 <= i < m', '0 <= k < l', 'temp == at2(a@, l as int, i as int, k as int)',
                                                         'C05.blocked.row_upd:: ' + _D('i as int', 'i as int + 1', _LO, 'j as int', 'k as int + 1'),
                                                         'C05.blocked.row_old:: ' + _D('i as int', 'i as int + 1', 'j as int', _HI, 'k as int')],
                            'body_ghost': 'let ghost pre_c = c@;',
                            'body_start': 'lemma_idx(i as int, j as int, m as int, n as int); lemma_idx(k as int, j as int, l as int, n as int);',
                            'body_end': ('assert forall|ii: int, jj2: int| 0 <= ii < m && 0 <= jj2 < n && !(ii == i && jj2 == j) implies #[trigger] at2(c@, n as int, ii, jj2) == at2(pre_c, n as int, ii, jj2) by { lemma_idx(ii, jj2, m as int, n as int); if ii * n + jj2 == i * n + j { lemma_idx_inj(ii, jj2, i as int, j as int, n as int); } } '
                                         'assert(at2(c@, n as int, i as int, j as int) == f_add(at2(pre_c, n as int, i as int, j as int), f_mul(temp, at2(b@, n as int, k as int, j as int)))); '
                                         'assert(rv(at2(pre_c, n as int, i as int, j as int)) == psum(a@, l as int, false, b@, n as int, false, i as int, j as int, k as int)); '
                                         'assert(psum(a@, l as int, false, b@, n as int, false, i as int, j as int, k as int + 1) == psum(a@, l as int, false, b@, n as int, false, i as int, j as int, k as int) + opa(a@, l as int, false, i as int, k as int) * opa(b@, n as int, false, k as int, j as int)); '
                                         'assert(rv(at2(c@, n as int, i as int, j as int)) == psum(a@, l as int, false, b@, n as int, false, i as int, j as int, k as int + 1));')},
                    },
                    hints=[('let mut c = vec![0.; m * n];', 'before',
                            'proof { lemma_mul_div(rows_a as int, cols_a as int); lemma_mul_div(rows_b as int, cols_b as int); assert(m * l == a0.len()); assert(l * n == b0.len()); }'),
                           ('for jj in 0..(n / bsize + 1)', 'before',
                            'proof { assert(a@.len() == m * l); assert(b@.len() == l * n); '
                            'assert forall|ii: int, kk: int| 0 <= ii < m && 0 <= kk < l implies rv(#[trigger] at2(a@, l as int, ii, kk)) == opa(a0, cols_a as int, transpose_a, ii, kk) by { lemma_idx(ii, kk, m as int, l as int); if transpose_a { assert(at2(a@, rows_a as int, ii, kk) == at2(a0, cols_a as int, kk, ii)); } else { assert(a@[ii * l + kk] == a0[ii * l + kk]); } } '
                            'assert forall|kk: int, jj: int| 0 <= kk < l && 0 <= jj < n implies rv(#[trigger] at2(b@, n as int, kk, jj)) == opa(b0, cols_b as int, transpose_b, kk, jj) by { lemma_idx(kk, jj, l as int, n as int); if transpose_b { assert(at2(b@, rows_b as int, kk, jj) == at2(b0, cols_b as int, jj, kk)); } else { assert(b@[kk * n + jj] == b0[kk * n + jj]); } } '
                            'assert(is_eff(a@, l as int, a0, cols_a as int, transpose_a, m as int)); assert(is_eff(b@, n as int, b0, cols_b as int, transpose_b, l as int)); '
                            'assert forall|ii: int, jj: int| 0 <= ii < m && 0 <= jj < n implies rv(#[trigger] at2(c@, n as int, ii, jj)) == 0real by { lemma_idx(ii, jj, m as int, n as int); } '
                            'assert(0 * bsize == 0); }'),
                           ('\n            c\n', 'replace',
                            '\n proof { lemma_blk(n as int, bsize as int, (n / bsize) as int); assert forall|ii: int, jj: int| 0 <= ii < m && 0 <= jj < n implies rv(#[trigger] at2(c@, n as int, ii, jj)) == psum(a0, cols_a as int, transpose_a, b0, cols_b as int, transpose_b, ii, jj, l as int) by { lemma_psum_eff(a@, b@, l as int, n as int, a0, cols_a as int, transpose_a, b0, cols_b as int, transpose_b, m as int, ii, jj, l as int); } }\n c\n')])
UNITS.append(Unit('C05_blocked', 'C05', [matmul_blocked], use=[c15.is_matrix, c15.transpose], types=core.TYPES, type_spec=core.TYPE_SPEC, spec=SPEC, preludes=PRE, broadcast=BC, level='L1', rlimit=300,
                  notes='cache-blocked matmul (five nested loops, any block size > 0): same contract as matmul - length m*n and every entry equals the sum over k of op(A)[i,k]*op(B)[k,j]'))

# ---------------------------------------------------------------- Dot trait: Matrix . Matrix (16 methods)
DOT_TRAIT = r'''
pub trait Dot<T, S> {
    /// type invariants of the operands for method k (0 dot, 1 dot_t, 2 t_dot, 3 t_dot_t)
    spec fn dot_pre(&self, other: T, k: int) -> bool;
    /// conformability of the operand shapes for method k (property C05: otherwise the call is rejected)
    spec fn dot_valid(&self, other: T, k: int) -> bool;
    fn dot(&self, other: T) -> (r: S) requires self.dot_pre(other, 0), self.dot_valid(other, 0) || may_reject();
    fn dot_t(&self, other: T) -> (r: S) requires self.dot_pre(other, 1), self.dot_valid(other, 1) || may_reject();
    fn t_dot(&self, other: T) -> (r: S) requires self.dot_pre(other, 2), self.dot_valid(other, 2) || may_reject();
    fn t_dot_t(&self, other: T) -> (r: S) requires self.dot_pre(other, 3), self.dot_valid(other, 3) || may_reject();
}
'''
DOT_WFD = r'''
pub open spec fn wfd(nrows: usize, ncols: usize, len: nat) -> bool {
    nrows * ncols == len && len <= i32max() && nrows <= i32max() && ncols <= i32max()
}
'''
DOT_TRAIT_DECL = DOT_TRAIT
DOTK = {'dot': (0, False, False), 'dot_t': (1, False, True), 't_dot': (2, True, False), 't_dot_t': (3, True, True)}
D = 'linalg::array::dot::'


def _mm_items(other_ty):
    def dims(ta, tb):
        m = 'self.ncols' if ta else 'self.nrows'
        l = 'self.nrows' if ta else 'self.ncols'
        n = 'other.nrows' if tb else 'other.ncols'
        lb = 'other.ncols' if tb else 'other.nrows'
        return m, l, n, lb
    pre = []
    val = []
    for name, (k, ta, tb) in DOTK.items():
        m, l, n, lb = dims(ta, tb)
        pre.append('(k == %d ==> %s * %s <= i32max())' % (k, m, n))
        val.append('(k == %d ==> %s == %s)' % (k, l, lb))
    return ('    open spec fn dot_pre(&self, other: %s, k: int) -> bool { wfd(self.nrows, self.ncols, self.data.v@.len()) && wfd(other.nrows, other.ncols, other.data.v@.len()) '
            '&& self.nrows > 0 && other.nrows > 0 && %s }\n'
            '    open spec fn dot_valid(&self, other: %s, k: int) -> bool { %s }' % (other_ty, ' && '.join(pre), other_ty, ' && '.join(val)))


DOT_MM = []
for self_ty in ['Matrix', '&Matrix']:
    for other_ty in ['Matrix', '&Matrix']:
        hdr = 'impl Dot<%s, Matrix> for %s' % (other_ty, self_ty)
        items_ = _mm_items(other_ty)
        for name, (k, ta, tb) in DOTK.items():
            m = 'self.ncols' if ta else 'self.nrows'
            l = 'self.nrows' if ta else 'self.ncols'
            n = 'other.nrows' if tb else 'other.ncols'
            lb = 'other.ncols' if tb else 'other.nrows'
            tag = 'C05.dot.%s<%s>for%s' % (name, other_ty, self_ty)
            DOT_MM.append(Fn(D + '{%s}::%s' % (hdr, name), ret='r', level='L1', valid='%s == %s' % (l, lb), panics={1: 'REJECT'},
                             impl_items=items_, rej_clause=False,
                             ensures=[tag + '.valid:: %s == %s' % (l, lb),
                                      tag + '.shape:: r.nrows == %s && r.ncols == %s && wf(r)' % (m, n),
                                      tag + '.entry:: is_product(r.data.v@, self.data.v@, self.ncols as int, %s, other.data.v@, other.ncols as int, %s, %s as int, %s as int, %s as int)'
                                      % (str(ta).lower(), str(tb).lower(), m, l, n)],
                             pre_body='proof { lemma_mul_div(self.nrows as int, self.ncols as int); lemma_mul_div(other.nrows as int, other.ncols as int); }'))

UNITS.append(Unit('C05_dot_mm', 'C05', DOT_MM, use=_core_all + [matmul], types=core.TYPES, type_spec=core.TYPE_SPEC, spec=SPEC + DOT_WFD,
                  traits=[(D + '{trait Dot}', DOT_TRAIT_DECL)], preludes=PRE, broadcast=BC, level='L1',
                  notes='16 Matrix.Matrix product methods (plain / transpose-left / transpose-right / both, owned and borrowed operands) '
                        'against the matmul contract: conformability rejected, output shape, every entry'))

# ---------------------------------------------------------------- Dot trait: Matrix . Vector, Vector . Matrix (32 methods), Vector . Vector (16)
TO_OWNED = ('.to_owned()', '.clone()',
            'R28: `to_owned()` on a `Vector` / `&Vector` receiver is the blanket `impl<T: Clone> ToOwned for T`, i.e. `clone()` (std; Verus has no spec for ToOwned)')
DOT_MV = []
for self_ty in ['Matrix', '&Matrix']:
    for other_ty in ['Vector', '&Vector']:
        hdr = 'impl Dot<%s, Vector> for %s' % (other_ty, self_ty)
        pre = ('wfd(self.nrows, self.ncols, self.data.v@.len()) && self.nrows > 0 && self.ncols > 0 && 0 < other.v@.len() <= i32max()')
        val = '((k == 0 || k == 1) ==> self.ncols == other.v@.len()) && ((k == 2 || k == 3) ==> self.nrows == other.v@.len())'
        items_ = ('    open spec fn dot_pre(&self, other: %s, k: int) -> bool { %s }\n'
                  '    open spec fn dot_valid(&self, other: %s, k: int) -> bool { %s }' % (other_ty, pre, other_ty, val))
        for name, (k, ta, tb) in DOTK.items():
            m = 'self.ncols' if ta else 'self.nrows'
            l = 'self.nrows' if ta else 'self.ncols'
            tag = 'C05.dot.%s<%s>for%s' % (name, other_ty, self_ty)
            DOT_MV.append(Fn(D + '{%s}::%s' % (hdr, name), ret='r', level='L1', valid='%s == other.v@.len()' % l, impl_items=items_, rej_clause=False,
                             rewrites=[TO_OWNED],
                             ensures=[tag + '.valid:: %s == other.v@.len()' % l,
                                      tag + '.entry:: is_product(r.v@, self.data.v@, self.ncols as int, %s, other.v@, 1, false, %s as int, %s as int, 1)' % (str(ta).lower(), m, l)],
                             hints=[('o.t_mut();', 'before', 'let ghost o0 = o; proof { assert(o0.data.v@ == other.v@); }'),
                                    ('o.t_mut();', 'after',
                                     'proof { assert(o.nrows == other.v@.len() && o.ncols == 1); '
                                     'assert forall|j: int| 0 <= j < other.v@.len() implies o.data.v@[j] == other.v@[j] by { assert(at2(o.data.v@, 1, j, 0) == at2(o0.data.v@, o0.ncols as int, 0, j)); } '
                                     'assert(o.data.v@ =~= other.v@); }')]))
DOT_VM = []
for self_ty in ['Vector', '&Vector']:
    for other_ty in ['Matrix', '&Matrix']:
        hdr = 'impl Dot<%s, Vector> for %s' % (other_ty, self_ty)
        pre = ('wfd(other.nrows, other.ncols, other.data.v@.len()) && other.nrows > 0 && other.ncols > 0 && 0 < self.v@.len() <= i32max()')
        val = '((k == 0 || k == 2) ==> self.v@.len() == other.nrows) && ((k == 1 || k == 3) ==> self.v@.len() == other.ncols)'
        items_ = ('    open spec fn dot_pre(&self, other: %s, k: int) -> bool { %s }\n'
                  '    open spec fn dot_valid(&self, other: %s, k: int) -> bool { %s }' % (other_ty, pre, other_ty, val))
        for name, (k, ta, tb) in DOTK.items():
            n = 'other.nrows' if tb else 'other.ncols'
            lb = 'other.ncols' if tb else 'other.nrows'
            tag = 'C05.dot.%s<%s>for%s' % (name, other_ty, self_ty)
            DOT_VM.append(Fn(D + '{%s}::%s' % (hdr, name), ret='r', level='L1', valid='self.v@.len() == %s' % lb, impl_items=items_, rej_clause=False,
                             rewrites=[TO_OWNED],
                             ensures=[tag + '.valid:: self.v@.len() == %s' % lb,
                                      tag + '.entry:: is_product(r.v@, self.v@, self.v@.len() as int, false, other.data.v@, other.ncols as int, %s, 1, self.v@.len() as int, %s as int)' % (str(tb).lower(), n)]))
DOT_VV = []
for self_ty in ['Vector', '&Vector']:
    for other_ty in ['Vector', '&Vector']:
        hdr = 'impl Dot<%s, f64> for %s' % (other_ty, self_ty)
        items_ = ('    open spec fn dot_pre(&self, other: %s, k: int) -> bool { true }\n'
                  '    open spec fn dot_valid(&self, other: %s, k: int) -> bool { self.v@.len() == other.v@.len() }' % (other_ty, other_ty))
        for name, (k, ta, tb) in DOTK.items():
            tag = 'C05.dot.%s<%s>for%s' % (name, other_ty, self_ty)
            DOT_VV.append(Fn(D + '{%s}::%s' % (hdr, name), ret='r', level='L1', valid='self.v@.len() == other.v@.len()', impl_items=items_, rej_clause=False,
                             ensures=[tag + '.valid:: self.v@.len() == other.v@.len()',
                                      tag + '.def:: rv(r) == dsum(self.v@, other.v@, self.v@.len() as int)']))

from contracts import C04 as c04
UNITS.append(Unit('C05_dot_vec', 'C05', DOT_MV + DOT_VM + DOT_VV, use=_core_all + [c15.mt_mut, c04.dot] + DOT_MM, types=core.TYPES, type_spec=core.TYPE_SPEC,
                  spec=SPEC + DOT_WFD + c04.RED_SPEC, traits=[(D + '{trait Dot}', DOT_TRAIT_DECL)], preludes=PRE, broadcast=BC, level='L1',
                  notes='32 Matrix.Vector / Vector.Matrix product methods (the vector enters as a column / as a row, transposing it is a no-op) against the '
                        'Matrix.Matrix contracts, and the 16 Vector.Vector methods against the dot contract: conformability rejected, length, every entry'))
