"""C08 / C04 — the Vector and Matrix methods that forward to the slice-level reductions and statistics: each method satisfies the
contract of the function it forwards to, stated over the object's data (so the method API is tied to the proved definitions)."""
import re
from vc.gen import Fn, Unit
from contracts import core
from contracts import C04 as c04
from contracts import C04b as c04b
from contracts import C08 as c08
from contracts import C11rec as rec
from contracts import C15 as c15
from contracts import C17 as c17
from contracts.core import IV, IM

PRE = ('fax_l0', 'fmeth', 'stdspec', 'l1')
BC = ('l0', 'l1_arith', 'l1_fun', 'l1_minmax', 'ax_vec_from_refl', 'ax_f64_cloned')


def _map_clause(c, pn, target, tag):
    cid, _, body = c.partition('::')
    body = re.sub(r'(?<![A-Za-z0-9_.])%s@' % pn, target, body)
    return '%s.%s::%s' % (cid.strip(), tag, body)


def forward(base, name, callee, pn, target, tag, ret='r'):
    """the method `name` forwards to `callee` (whose slice parameter is called pn): same requires / ensures over `target`"""
    ens = [_map_clause(c, pn, target, tag) for c in callee.ensures]
    if callee.ret and callee.ret != ret:
        ens = [re.sub(r'\b%s\b' % callee.ret, ret, e) for e in ens]
    return Fn(base + name, ret=ret, level='L1', requires=[_map_clause(c, pn, target, tag) for c in callee.requires], ensures=ens)


VEC_FWD = [('sum', c04.vsum_fn, 'x'), ('norm', c04.norm, 'x'), ('mean', c08.mean, 'data'), ('var', c08.var, 'data'), ('std', c08.std, 'data'),
           ('sample_var', c08.sample_var, 'data'), ('sample_std', c08.sample_std, 'data'), ('max', c08.omax, 'data'), ('min', c08.omin, 'data'),
           ('argmax', c08.oargmax, 'data'), ('argmin', c08.oargmin, 'data'), ('logsumexp', c04b.logsumexp, 'x'), ('logmeanexp', c04b.logmeanexp, 'x')]
vec_methods = {n: forward(IV, n, f, pn, 'self.v@', 'vec') for n, f, pn in VEC_FWD}
vec_methods['prod'] = rec.vprod_m

MAT_FWD = ['sum', 'norm', 'mean', 'var', 'std', 'sample_var', 'sample_std', 'max', 'min', 'prod']
mat_methods = {}
for n in MAT_FWD:
    v = vec_methods[n]
    mat_methods[n] = Fn(IM + n, ret='r', level='L1', requires=[_map_clause(c, 'self.v', 'self.data.v@', 'mat') for c in v.requires],
                        ensures=[_map_clause(c, 'self.v', 'self.data.v@', 'mat') for c in v.ensures])

# Matrix::argmin / argmax: the flat position of the first extremum split into (row, column)
ARG_REQ = ['C08.mat_arg.pre:: wf(*self) && self.ncols > 0 && self.nrows > 0 && all_finite(self.data.v@)']


def mat_arg(name, cmp_all, cmp_first):
    return Fn(IM + name, ret='r', level='L1', requires=ARG_REQ,
              ensures=['C08.mat_%s.position:: r.0 < self.nrows && r.1 < self.ncols' % name,
                       'C08.mat_%s.extremum:: forall|k: int| 0 <= k < self.data.v@.len() ==> rv(#[trigger] self.data.v@[k]) %s rv(at2(self.data.v@, self.ncols as int, r.0 as int, r.1 as int))' % (name, cmp_all),
                       'C08.mat_%s.first:: forall|k: int| 0 <= k < r.0 * self.ncols + r.1 ==> rv(#[trigger] self.data.v@[k]) %s rv(at2(self.data.v@, self.ncols as int, r.0 as int, r.1 as int))' % (name, cmp_first)],
              tail=('r_', 'let q_ = (am / self.ncols) as int; let c_ = self.ncols as int; let n_ = self.nrows as int; '
                          'assert(n_ * c_ > 0) by(nonlinear_arith) requires n_ > 0, c_ > 0; assert(am < n_ * c_); '
                          'vstd::arithmetic::div_mod::lemma_fundamental_div_mod(am as int, c_); assert(c_ * q_ == q_ * c_) by(nonlinear_arith); '
                          'assert(am == q_ * c_ + am % self.ncols); '
                          'assert(q_ < n_) by { if q_ >= n_ { assert(q_ * c_ >= n_ * c_) by(nonlinear_arith) requires q_ >= n_, c_ > 0; } } '
                          'assert(r_.0 == q_ && r_.1 == am % self.ncols); assert(r_.0 * self.ncols + r_.1 == am);'))


margmin = mat_arg('argmin', '>=', '>')
margmax = mat_arg('argmax', '<=', '<')

SPEC = c15.SPEC + c08.SPEC + c08.ORDER_SPEC + c04.RED_SPEC + c04b.LSE_SPEC
UNITS = [
    Unit('C08_vector_methods', ('C08', 'C04'), [vec_methods[n] for n, _, _ in VEC_FWD], use=[f for _, f, _ in VEC_FWD] + core.core_stubs(), types=core.TYPES, type_spec=core.TYPE_SPEC,
         spec=SPEC, nra=c17.SOFT_NRA, preludes=PRE, broadcast=BC, level='L1',
         notes='Vector::{sum, norm, mean, var, std, sample_var, sample_std, max, min, argmax, argmin, logsumexp, logmeanexp} forward to the slice-level functions: '
               'each satisfies that function\'s contract over the vector\'s data'),
    Unit('C08_matrix_methods', ('C08', 'C04'), [mat_methods[n] for n in MAT_FWD] + [margmin, margmax], use=[vec_methods[n] for n in MAT_FWD] + [vec_methods['argmin'], vec_methods['argmax']] + core.core_stubs(),
         types=core.TYPES, type_spec=core.TYPE_SPEC, spec=SPEC, nra=c17.SOFT_NRA, preludes=PRE, broadcast=BC, level='L1',
         notes='Matrix::{sum, norm, mean, var, std, sample_var, sample_std, max, min, prod} forward to the Vector methods over the matrix data; '
               'Matrix::argmin / argmax return (row, column) of the first flat position attaining the extremum'),
]
