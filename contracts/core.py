"""Core data types: Vector and Matrix, their constructors, Deref/Index plumbing and the
representation invariant wf (DESIGN §5.2).  Home unit: C15_core.  Other units import these
contracts as external_body stubs (a caller is checked against the contract, not the body)."""
from vc.gen import Fn, Unit

VEC = 'linalg::array::vec::'
MAT = 'linalg::array::matrix::'
IM = MAT + '{impl Matrix}::'
IV = VEC + '{impl Vector}::'

TYPES = [VEC + '{struct Vector}', MAT + '{struct Matrix}']

TYPE_SPEC = r'''
// std's reflexive `impl<T> From<T> for T` for Vector (TRUSTED)
#[verifier::external_body]
pub broadcast proof fn ax_vector_into_refl(v: Vector)
    ensures #[trigger] <Vector as vstd::std_specs::convert::IntoSpec<Vector>>::into_spec(v) == v {}
#[verifier::external_body]
pub broadcast proof fn ax_vector_into_obeys()
    ensures #[trigger] <Vector as vstd::std_specs::convert::IntoSpec<Vector>>::obeys_into_spec() {}
pub broadcast group ax_vector_refl { ax_vector_into_refl, ax_vector_into_obeys }
'''

# specification vocabulary shared by every unit that talks about matrices
CORE_SPEC = r'''
pub open spec fn i32max() -> int { 0x7fff_ffff }
/// representation invariant of Matrix (property C15: "its element count equals rows × columns");
/// the i32 bound is derived from the code: every shape funnels through i32 arithmetic in reshape_mut.
pub open spec fn wf(m: Matrix) -> bool {
    m.nrows * m.ncols == m.data.v@.len() && m.data.v@.len() <= i32max() && m.nrows <= i32max() && m.ncols <= i32max()
}
/// "an impossible shape is rejected": exactly these (len, rows, cols) requests are possible
pub open spec fn shape_ok(len: int, r: int, c: int) -> bool {
    (r >= 0 && c >= 0 && r * c == len)
    || (r == -1 && c > 0 && len % c == 0)
    || (c == -1 && r > 0 && len % r == 0)
}
pub open spec fn rows_of(len: int, r: int, c: int) -> int { if r == -1 { len / c } else { r } }
pub open spec fn cols_of(len: int, r: int, c: int) -> int { if r != -1 && c == -1 { len / r } else { c } }
/// row-major reference model: entry (i,j) of a matrix with `ncols` columns
pub open spec fn at2(s: Seq<f64>, ncols: int, i: int, j: int) -> f64 { s[i * ncols + j] }

pub proof fn lemma_idx(i: int, j: int, nrows: int, ncols: int)
    requires 0 <= i < nrows, 0 <= j < ncols
    ensures 0 <= i * ncols + j < nrows * ncols, i * ncols + j < (i + 1) * ncols, (i + 1) * ncols <= nrows * ncols, 0 <= i * ncols <= i * ncols + j
{
    assert(i * ncols + j < (i + 1) * ncols) by(nonlinear_arith) requires 0 <= j < ncols;
    assert((i + 1) * ncols <= nrows * ncols) by(nonlinear_arith) requires 0 <= i < nrows, 0 <= ncols;
    assert(0 <= i * ncols) by(nonlinear_arith) requires 0 <= i, 0 <= ncols;
}
pub proof fn lemma_row(i: int, nrows: int, ncols: int)
    requires 0 <= i < nrows, 0 <= ncols
    ensures 0 <= i * ncols <= (i + 1) * ncols <= nrows * ncols, (i + 1) * ncols == i * ncols + ncols
{
    assert((i + 1) * ncols <= nrows * ncols) by(nonlinear_arith) requires 0 <= i < nrows, 0 <= ncols;
    assert(0 <= i * ncols <= (i + 1) * ncols) by(nonlinear_arith) requires 0 <= i, 0 <= ncols;
    assert((i + 1) * ncols == i * ncols + ncols) by(nonlinear_arith);
}
pub proof fn lemma_idx_inj(i: int, j: int, i2: int, j2: int, ncols: int)
    requires 0 <= j < ncols, 0 <= j2 < ncols, i * ncols + j == i2 * ncols + j2
    ensures i == i2, j == j2
{
    if i < i2 { assert(i * ncols + ncols <= i2 * ncols) by(nonlinear_arith) requires i + 1 <= i2, 0 <= ncols; }
    if i2 < i { assert(i2 * ncols + ncols <= i * ncols) by(nonlinear_arith) requires i2 + 1 <= i, 0 <= ncols; }
}
pub proof fn lemma_divmod(k: int, ncols: int)
    requires 0 <= k, 0 < ncols
    ensures k == (k / ncols) * ncols + (k % ncols), 0 <= k % ncols < ncols, 0 <= k / ncols
{
    assert(k == (k / ncols) * ncols + (k % ncols) && 0 <= k % ncols < ncols && 0 <= k / ncols) by(nonlinear_arith)
        requires 0 <= k, 0 < ncols;
}
pub proof fn lemma_div_facts(len: int, c: int)
    requires 0 <= len, 0 < c
    ensures 0 <= (len / c) * c <= len, ((len / c) * c == len) == (len % c == 0), 0 <= len / c <= len,
            c * (len / c) == (len / c) * c
{
    vstd::arithmetic::div_mod::lemma_fundamental_div_mod(len, c);
    vstd::arithmetic::div_mod::lemma_mod_bound(len, c);
    vstd::arithmetic::mul::lemma_mul_is_commutative(c, len / c);
    vstd::arithmetic::div_mod::lemma_div_pos_is_pos(len, c);
    vstd::arithmetic::div_mod::lemma_div_is_ordered_by_denominator(len, 1, c);
    vstd::arithmetic::div_mod::lemma_div_basics(len);
}
pub proof fn lemma_mul_div(a: int, b: int)
    requires a > 0, b >= 0
    ensures (a * b) % a == 0, (a * b) / a == b, (b * a) % a == 0, (b * a) / a == b, a * b == b * a
{
    vstd::arithmetic::mul::lemma_mul_is_commutative(a, b);
    vstd::arithmetic::div_mod::lemma_div_multiples_vanish(b, a);
    vstd::arithmetic::div_mod::lemma_mod_multiples_basic(b, a);
}
pub proof fn lemma_div_exact(len: int, c: int)
    requires 0 <= len, 0 < c, len % c == 0
    ensures (len / c) * c == len
{
    assert((len / c) * c == len) by(nonlinear_arith) requires 0 <= len, 0 < c, len % c == 0;
}

'''

INTO_VEC = '<T as vstd::std_specs::convert::IntoSpec<Vec<f64>>>'
INTO_VECTOR = '<T as vstd::std_specs::convert::IntoSpec<Vector>>'
TRY = lambda G, x: '<%s as vstd::std_specs::convert::TryIntoSpec<i32>>::try_into_spec(%s)' % (G, x)
TRYOB = lambda G: '<%s as vstd::std_specs::convert::TryIntoSpec<i32>>::obeys_try_into_spec()' % G

F = {}


def reg(f):
    F[f.path] = f
    return f


# ---------------------------------------------------------------- Vector plumbing
reg(Fn(VEC + '{impl Deref for Vector}::deref', ret='r', ensures=['core.deref:: *r == self.v']))
reg(Fn(VEC + '{impl DerefMut for Vector}::deref_mut', ret='r',
       ensures=['core.deref_mut.cur:: *r == old(self).v', 'core.deref_mut.fin:: *final(r) == final(self).v']))
FROM_COMP = r'''// vstd companions (rule R13) for the conversion impls
impl<T> vstd::std_specs::convert::FromSpecImpl<T> for Vector where T: Into<Vec<f64>> {
    open spec fn obeys_from_spec() -> bool { <T as vstd::std_specs::convert::IntoSpec<Vec<f64>>>::obeys_into_spec() }
    open spec fn from_spec(v: T) -> Self { Vector { v: <T as vstd::std_specs::convert::IntoSpec<Vec<f64>>>::into_spec(v) } }
}
'''
reg(Fn(VEC + '{impl<T> From<T> for Vector where T: Into<Vec<f64>>}::from', ret='r', companion=FROM_COMP))
reg(Fn(IV + 'empty', ret='r', ensures=['core.empty:: r.v@.len() == 0']))
reg(Fn(IV + 'new', ret='r',
       ensures=['core.vnew:: %s::obeys_into_spec() ==> r.v == %s::into_spec(v)' % (INTO_VEC, INTO_VEC)]))
reg(Fn(IV + 'zeros', ret='r', ensures=['core.zeros.len:: r.v@.len() == n',
                                       'core.zeros.elem:: forall|k:int| 0 <= k < n ==> r.v@[k] == 0.0f64']))
reg(Fn(IV + 'ones', ret='r', ensures=['core.ones.len:: r.v@.len() == n',
                                      'core.ones.elem:: forall|k:int| 0 <= k < n ==> r.v@[k] == 1.0f64']))
reg(Fn(IV + 'empty_n', ret='r', ensures=['core.empty_n.len:: r.v@.len() == n']))
reg(Fn(IV + 'with_capacity', ret='r', ensures=['core.with_capacity.len:: r.v@.len() == 0']))
reg(Fn(IV + 'data', ret='r', ensures=['core.vdata:: r@ == self.v@']))

# ---------------------------------------------------------------- Matrix::new / reshape_mut
NEW_SIG = [(r'new<T>\(data: T, nrows: impl TryInto<i32>,\s*ncols: impl TryInto<i32>\)',
            'new<T, NR: TryInto<i32>, NC: TryInto<i32>>(data: T, nrows: NR, ncols: NC)')]
_nr = TRY('NR', 'nrows')
_nc = TRY('NC', 'ncols')
_len = '%s::into_spec(data).v@.len() as int' % INTO_VECTOR
NEW_VALID = ('({nr} is Ok) && ({nc} is Ok) && shape_ok({len}, {nr}->Ok_0 as int, {nc}->Ok_0 as int)'
             .format(nr=_nr, nc=_nc, len=_len))
NEW_VALID0 = NEW_VALID.replace('(nrows)', '(nrows0)').replace('(ncols)', '(ncols0)').replace('(data)', '(data0)')
reg(Fn(IM + 'new', ret='m', sig_sub=NEW_SIG, valid=NEW_VALID,
       requires=['core.new.obeys:: %s::obeys_into_spec() && %s && %s' % (INTO_VECTOR, TRYOB('NR'), TRYOB('NC')),
                 'core.new.range:: %s <= i32max()' % _len,
                 'core.new.i32range:: ({nr} is Ok) && ({nc} is Ok) ==> -i32max() <= ({nr}->Ok_0 as int) * ({nc}->Ok_0 as int) <= i32max()'.format(nr=_nr, nc=_nc)],
       ensures=['C15.new.valid:: ' + NEW_VALID,
                'C15.new.data:: m.data == %s::into_spec(data)' % INTO_VECTOR,
                'C15.new.nrows:: m.nrows == rows_of({len}, {nr}->Ok_0 as int, {nc}->Ok_0 as int)'.format(nr=_nr, nc=_nc, len=_len),
                'C15.new.ncols:: m.ncols == cols_of({len}, {nr}->Ok_0 as int, {nc}->Ok_0 as int)'.format(nr=_nr, nc=_nc, len=_len),
                'C15.new.wf:: wf(m)'],
       pre_body='let ghost nrows0 = nrows; let ghost ncols0 = ncols; let ghost data0 = data;',
       panics={1: 'REJECT: ' + NEW_VALID0, 2: 'REJECT: ' + NEW_VALID0}))
reg(Fn(IM + 'shape', ret='r', ensures=['core.shape:: r@ == seq![self.nrows, self.ncols]']))
reg(Fn(IM + 'size', ret='r', requires=['core.size.wf:: self.nrows * self.ncols <= usize::MAX'],
       ensures=['core.size:: r == self.nrows * self.ncols']))

RM_VALID = 'shape_ok(old(self).data.v@.len() as int, nrows as int, ncols as int)'
reg(Fn(IM + 'reshape_mut', ret='r', valid=RM_VALID,
       requires=['core.reshape_mut.wf:: wf(*old(self))',
                 'core.reshape_mut.i32range:: -i32max() <= (nrows as int) * (ncols as int) <= i32max()'],
       ensures=['C15.reshape_mut.valid:: ' + RM_VALID,
                'C15.reshape_mut.data:: r.data == old(self).data',
                'C15.reshape_mut.nrows:: r.nrows == rows_of(old(self).data.v@.len() as int, nrows as int, ncols as int)',
                'C15.reshape_mut.ncols:: r.ncols == cols_of(old(self).data.v@.len() as int, nrows as int, ncols as int)',
                'C15.reshape_mut.wf:: wf(*r)',
                'C15.reshape_mut.ret:: *final(r) == *final(self)'],
       panics={k: 'REJECT' for k in range(1, 7)},
       hints=[('self.nrows = size / ncols as usize;', 'after', 'proof { lemma_div_exact(size as int, ncols as int); lemma_div_facts(size as int, ncols as int); '
               'assert(self.nrows * self.ncols == size); assert(self.nrows <= size && self.ncols <= i32max()); assert(wf(*self)); }'),
              ('self.ncols = size / nrows as usize;', 'after', 'proof { lemma_div_exact(size as int, nrows as int); lemma_div_facts(size as int, nrows as int); '
               'assert(self.nrows * self.ncols == size); assert(self.ncols <= size && self.nrows <= i32max()); assert(wf(*self)); }'),
              ('self.ncols = ncols as usize;\n                    } else if nrows < 0', 'replace',
               'self.ncols = ncols as usize; proof { assert(self.nrows * self.ncols == size); assert(wf(*self)); }\n                    } else if nrows < 0')]))


# ---------------------------------------------------------------- derived constructors
def _fill(name, val):
    return Fn(IM + name, ret='m',
              requires=['core.%s.range:: nrows <= i32max() && ncols <= i32max() && nrows * ncols <= i32max()' % name],
              ensures=['C15.%s.shape:: m.nrows == nrows && m.ncols == ncols && wf(m)' % name] +
                      (['C15.%s.elem:: forall|k:int| 0 <= k < nrows * ncols ==> m.data.v@[k] == %s' % (name, val)] if val else []))
reg(_fill('zeros', '0.0f64'))
reg(_fill('ones', '1.0f64'))
reg(_fill('with_shape', None))
reg(Fn(IM + 'empty', ret='m', ensures=['C15.empty:: m.nrows == 0 && m.ncols == 0 && m.data.v@.len() == 0 && wf(m)']))
reg(Fn(IM + 'is_square', ret='r', ensures=['C15.is_square:: r == (self.nrows == self.ncols)']))
reg(Fn(IM + 'data', ret='r', ensures=['core.mdata:: *r == self.data']))
reg(Fn(IM + 'to_vec', ret='r', ensures=['C15.to_vec:: r == self.data']))
reg(Fn(IV + 'to_matrix', ret='m', requires=['core.to_matrix.range:: self.v@.len() <= i32max()'],
       ensures=['C15.to_matrix.shape:: m.nrows == 1 && m.ncols == self.v@.len() && wf(m)',
                'C15.to_matrix.data:: m.data == self']))
reg(Fn(VEC + '{impl ::core::clone::Clone for Vector}::clone', ret='r', ensures=['core.vclone:: r.v@ == self.v@']))
reg(Fn(MAT + '{impl ::core::clone::Clone for Matrix}::clone', ret='r',
       ensures=['core.mclone:: r.data.v@ == self.data.v@ && r.nrows == self.nrows && r.ncols == self.ncols']))
RS_VALID = 'shape_ok(self.data.v@.len() as int, nrows as int, ncols as int)'
reg(Fn(IM + 'reshape', ret='m', valid=RS_VALID,
       requires=['core.reshape.wf:: wf(*self)', 'core.reshape.i32range:: -i32max() <= (nrows as int) * (ncols as int) <= i32max()'],
       ensures=['C15.reshape.valid:: ' + RS_VALID,
                'C15.reshape.data:: m.data.v@ == self.data.v@',
                'C15.reshape.nrows:: m.nrows == rows_of(self.data.v@.len() as int, nrows as int, ncols as int)',
                'C15.reshape.ncols:: m.ncols == cols_of(self.data.v@.len() as int, nrows as int, ncols as int)',
                'C15.reshape.wf:: wf(m)'],
       panics={k: 'REJECT' for k in range(1, 5)},
       hints=[('Matrix::new(self.data.clone(), newrows, newcols)', 'before',
               'proof { if ncols > 0 { lemma_div_facts(size as int, ncols as int); } if nrows > 0 { lemma_div_facts(size as int, nrows as int); } }')]))
reg(Fn(IV + 'reshape', ret='m', valid='shape_ok(self.v@.len() as int, nrows as int, ncols as int)',
       requires=['core.vreshape.range:: self.v@.len() <= i32max()', 'core.vreshape.i32range:: -i32max() <= (nrows as int) * (ncols as int) <= i32max()'],
       ensures=['C15.vreshape.valid:: shape_ok(self.v@.len() as int, nrows as int, ncols as int)',
                'C15.vreshape.data:: m.data.v@ == self.v@',
                'C15.vreshape.nrows:: m.nrows == rows_of(self.v@.len() as int, nrows as int, ncols as int)',
                'C15.vreshape.ncols:: m.ncols == cols_of(self.v@.len() as int, nrows as int, ncols as int)',
                'C15.vreshape.wf:: wf(m)']))

# ---------------------------------------------------------------- Index / IndexMut (2-D and row indexing)
IDX_ROW_COMP = '''impl vstd::std_specs::core::IndexSpecImpl<usize> for Matrix {
    open spec fn index_req(&self, i: &usize) -> bool { wf(*self) && *i < self.nrows }
}'''
IDX_2D_COMP = '''impl vstd::std_specs::core::IndexSpecImpl<[usize; 2]> for Matrix {
    open spec fn index_req(&self, ij: &[usize; 2]) -> bool { wf(*self) && ij[0] < self.nrows && ij[1] < self.ncols }
}'''
LEM_ROW = 'proof { lemma_idx(i as int, 0, self.nrows as int, self.ncols as int + 1); lemma_row(i as int, self.nrows as int, self.ncols as int); }'
reg(Fn(MAT + '{impl Index<usize> for Matrix}::index', ret='r', valid='i < self.nrows', panics={1: 'REJECT'},
       ensures=['C15.index.row:: r@ == self.data.v@.subrange(i * self.ncols, (i + 1) * self.ncols)'],
       pre_body='proof { lemma_row(i as int, self.nrows as int, self.ncols as int); }', companion=IDX_ROW_COMP))
reg(Fn(MAT + '{impl Index<[usize; 2]> for Matrix}::index', ret='r', valid='ij_[0] < self.nrows && ij_[1] < self.ncols',
       panics={1: 'REJECT'}, ensures=['C15.index.2d:: *r == at2(self.data.v@, self.ncols as int, ij_[0] as int, ij_[1] as int)'],
       hints=[('&self.data[', 'before', 'proof { lemma_idx(i as int, j as int, self.nrows as int, self.ncols as int); }')],
       companion=IDX_2D_COMP))
reg(Fn(MAT + '{impl IndexMut<usize> for Matrix}::index_mut', ret='r', valid='i < old(self).nrows', panics={1: 'REJECT'},
       rewrites=[('&mut self.data[', '&mut self.data.as_mut_slice()[',
                  "R18: Vec<T>'s IndexMut<Range> is defined by std as slice indexing of as_mut_slice(); vstd specifies only the slice form")],
       ensures=['C15.index_mut.row:: r@ == old(self).data.v@.subrange(i * old(self).ncols, (i + 1) * old(self).ncols)',
                'C15.index_mut.shape:: final(self).nrows == old(self).nrows && final(self).ncols == old(self).ncols',
                'C15.index_mut.len:: final(r)@.len() == r@.len()',
                'C15.index_mut.frame:: final(self).data.v@ == old(self).data.v@.subrange(0, i * old(self).ncols) + final(r)@ + old(self).data.v@.subrange((i + 1) * old(self).ncols, old(self).data.v@.len() as int)'],
       pre_body='proof { lemma_row(i as int, self.nrows as int, self.ncols as int); }', companion='// IndexMut<usize>: precondition inherited from IndexSpecImpl<usize>'))
reg(Fn(MAT + '{impl IndexMut<[usize; 2]> for Matrix}::index_mut', ret='r',
       valid='ij_[0] < old(self).nrows && ij_[1] < old(self).ncols', panics={1: 'REJECT'},
       ensures=['C15.index_mut.2d:: *r == at2(old(self).data.v@, old(self).ncols as int, ij_[0] as int, ij_[1] as int)',
                'C15.index_mut.2d.shape:: final(self).nrows == old(self).nrows && final(self).ncols == old(self).ncols',
                'C15.index_mut.2d.frame:: final(self).data.v@ == old(self).data.v@.update(ij_[0] * old(self).ncols + ij_[1], *final(r))'],
       hints=[('&mut self.data[', 'before', 'proof { lemma_idx(i as int, j as int, self.nrows as int, self.ncols as int); }')],
       companion='// IndexMut<[usize; 2]>: precondition inherited from IndexSpecImpl<[usize; 2]>'))

CORE_PROVE = [F[k] for k in F]

PRE = ('fax_l0', 'fmeth', 'stdspec')
UNITS = [
    Unit('C15_core', 'C15', CORE_PROVE, types=TYPES, spec=CORE_SPEC, type_spec=TYPE_SPEC, preludes=PRE,
         broadcast=('l0', 'ax_vec_from_refl'),
         notes='Vector/Matrix plumbing, Matrix::new and reshape_mut with the wf invariant'),
]


def core_stubs(exclude=()):
    """the core contracts, to be imported (as external_body stubs) by other units"""
    return [f for f in CORE_PROVE if f.path not in exclude]
