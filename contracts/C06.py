"""C06 — GLM fitting: the formula core that contracts can reach (L1): family table, convergence test, ridge penalty with the
intercept unpenalised, score vector and information matrix.  Optimality of the fixed point is not applicable (DESIGN §7 C06)."""
from vc.gen import Fn, Unit
from vc.nra import Lemma
from contracts import core
from contracts import C05 as c05
from contracts import C04 as c04
from contracts import C15 as c15

PRE = ('fax_l0', 'fmeth', 'stdspec', 'l1')
BC = ('l0', 'l1_arith', 'l1_fun', 'ax_vec_from_refl', 'ax_f64_cloned')
G = 'predict::glms::glm::'
FAM = 'predict::glms::families::'
IG = G + '{impl GLM}::'

SPEC = c05.SPEC + r'''
'''
STD = r'''
'''
has_dispersion = Fn(FAM + '{impl ExponentialFamily}::has_dispersion', ret='r', level='L0',
                    ensures=['C06.family.dispersion:: r == (*self is Gaussian || *self is QuasiPoisson || *self is Gamma)'])
has_converged = Fn(IG + 'has_converged', ret='r', level='L1',
                   ensures=['C06.converged.first:: f_is_infinite(loss_previous) ==> !r',
                            'C06.converged.def:: !f_is_infinite(loss_previous) && rv(loss_previous) != 0real ==> r == (r_abs(rv(loss) - rv(loss_previous)) / rv(loss_previous) < rv(tolerance))'])
pen_d = Fn(IG + 'apply_dbeta_penalty', level='L1',
           requires=['C06.penalty.len:: old(dbeta)@.len() == coef@.len()'],
           ensures=['C06.penalty.dbeta.len:: final(dbeta)@.len() == old(dbeta)@.len()',
                    'C06.penalty.dbeta.intercept:: coef@.len() > 0 ==> final(dbeta)@[0] == old(dbeta)@[0]',
                    'C06.penalty.dbeta.slopes:: forall|i: int| 1 <= i < coef@.len() ==> rv(#[trigger] final(dbeta)@[i]) == rv(old(dbeta)@[i]) + rv(self.alpha) * rv(coef@[i])'],
           loops={1: {'invariant': ['dbeta@.len() == coef@.len()', 'dbeta@.len() == old(dbeta)@.len()', 'coef@.len() > 0 ==> dbeta@[0] == old(dbeta)@[0]',
                                    'C06.penalty.dbeta.done:: forall|k: int| 1 <= k < i && k < coef@.len() ==> rv(#[trigger] dbeta@[k]) == rv(old(dbeta)@[k]) + rv(self.alpha) * rv(coef@[k])',
                                    'C06.penalty.dbeta.todo:: forall|k: int| i <= k < coef@.len() ==> #[trigger] dbeta@[k] == old(dbeta)@[k]']}})
pen_dd = Fn(IG + 'apply_ddbeta_penalty', level='L1', attrs=['#[verifier::loop_isolation(false)]'],
            requires=['C06.penalty.shape:: old(ddbeta)@.len() == n_predictors * n_predictors && n_predictors * n_predictors <= 0x7fff_ffff'],
            ensures=['C06.penalty.ddbeta.len:: final(ddbeta)@.len() == old(ddbeta)@.len()',
                     'C06.penalty.ddbeta.entries:: forall|r: int, c: int| 0 <= r < n_predictors && 0 <= c < n_predictors ==> rv(#[trigger] at2(final(ddbeta)@, n_predictors as int, r, c)) == '
                     'rv(at2(old(ddbeta)@, n_predictors as int, r, c)) + (if r == c && r >= 1 { rv(self.alpha) } else { 0real })'],
            loops={1: {'invariant': ['ddbeta@.len() == n_predictors * n_predictors',
                                     'C06.penalty.ddbeta.inv:: forall|r: int, c: int| 0 <= r < n_predictors && 0 <= c < n_predictors ==> rv(#[trigger] at2(ddbeta@, n_predictors as int, r, c)) == '
                                     'rv(at2(old(ddbeta)@, n_predictors as int, r, c)) + (if r == c && 1 <= r < i { rv(self.alpha) } else { 0real })'],
                       'body_ghost': 'let ghost pre_d = ddbeta@;',
                       'body_start': 'lemma_idx(i as int, i as int, n_predictors as int, n_predictors as int);',
                       'body_end': ('assert forall|r: int, c: int| 0 <= r < n_predictors && 0 <= c < n_predictors && !(r == i && c == i) implies #[trigger] at2(ddbeta@, n_predictors as int, r, c) == at2(pre_d, n_predictors as int, r, c) by '
                                    '{ lemma_idx(r, c, n_predictors as int, n_predictors as int); if r * n_predictors + c == i * n_predictors + i { lemma_idx_inj(r, c, i as int, i as int, n_predictors as int); } } '
                                    'assert forall|r: int, c: int| 0 <= r < n_predictors && 0 <= c < n_predictors implies rv(#[trigger] at2(ddbeta@, n_predictors as int, r, c)) == rv(at2(old(ddbeta)@, n_predictors as int, r, c)) + (if r == c && 1 <= r < i + 1 { rv(self.alpha) } else { 0real }) by '
                                    '{ assert(rv(at2(pre_d, n_predictors as int, r, c)) == rv(at2(old(ddbeta)@, n_predictors as int, r, c)) + (if r == c && 1 <= r < i { rv(self.alpha) } else { 0real })); }')}})

TYPES = core.TYPES + [FAM + '{enum ExponentialFamily}', G + '{struct GLM}']
UNITS = [
    Unit('C06_glm', 'C06', [has_dispersion, has_converged, pen_d, pen_dd], types=TYPES, type_spec=core.TYPE_SPEC, spec=SPEC, preludes=PRE, broadcast=BC, level='L1',
         also=['C05_matmul', 'C04_vops_binary', 'C04_reductions', 'C11_lu', 'C01_predicates'],
         notes='family dispersion table, relative-change convergence test, ridge penalty: +alpha*beta_i on the score and +alpha on the information '
               'diagonal for i >= 1 only; the kernels the scoring iteration is built from (matmul, vops, dot, LU) are run as part of this check'),
]

# ---------------------------------------------------------------- score vector and Fisher information of the scoring step
SCORE_SPEC = r'''
/// working residual of observation i: w_i (y_i - mu_i) (dmu_i / V_i)
pub open spec fn wres(w: Seq<f64>, y: Seq<f64>, mu: Seq<f64>, dmu: Seq<f64>, var: Seq<f64>, i: int) -> real {
    rv(w[i]) * (rv(y[i]) - rv(mu[i])) * (rv(dmu[i]) / rv(var[i]))
}
/// sum over the first k observations of x[i,j] * r_i
pub open spec fn xr_sum(x: Seq<f64>, p: int, j: int, r: Seq<f64>, k: int) -> real decreases k
{ if k <= 0 { 0real } else { xr_sum(x, p, j, r, k - 1) + rv(at2(x, p, k - 1, j)) * rv(r[k - 1]) } }
/// dbeta = - X^T r with r the working residuals: the negative score of the family (property C06)
pub open spec fn is_neg_score(d: Seq<f64>, x: Seq<f64>, p: int, w: Seq<f64>, y: Seq<f64>, mu: Seq<f64>, dmu: Seq<f64>, var: Seq<f64>) -> bool {
    exists|r: Seq<f64>| r.len() == y.len() && (forall|i: int| 0 <= i < y.len() && rv(var[i]) != 0real ==> rv(#[trigger] r[i]) == wres(w, y, mu, dmu, var, i))
        && d.len() == p && #[trigger] score_of(d, x, p, r)
}
pub open spec fn score_of(d: Seq<f64>, x: Seq<f64>, p: int, r: Seq<f64>) -> bool { forall|j: int| 0 <= j < p ==> rv(#[trigger] d[j]) == -xr_sum(x, p, j, r, r.len() as int) }
/// working weight of observation i: w_i dmu_i^2 / V_i
pub open spec fn wwt(w: Seq<f64>, dmu: Seq<f64>, var: Seq<f64>, i: int) -> real { rv(w[i]) * (rv(dmu[i]) * rv(dmu[i])) / rv(var[i]) }
/// ddbeta = X^T (W X): the Fisher information of the family
pub open spec fn is_information(h: Seq<f64>, x: Seq<f64>, p: int, n: int, w: Seq<f64>, dmu: Seq<f64>, var: Seq<f64>) -> bool {
    exists|wx: Seq<f64>| wx.len() == x.len() && (forall|i: int, j: int| 0 <= i < n && 0 <= j < p && rv(var[i]) != 0real ==> rv(#[trigger] at2(wx, p, i, j)) == rv(at2(x, p, i, j)) * wwt(w, dmu, var, i))
        && #[trigger] is_product(h, x, p, true, wx, p, false, p, n, p)
}
'''
UNWRAP_XN = ('is_matrix(x, n).unwrap()', 'match is_matrix(x, n) { Ok(v_) => v_, Err(_) => ::core::panicking::panic("unwrap") }', 'R2b')
LENS = 'y@.len() == mu@.len() && y@.len() == dmu@.len() && y@.len() == var@.len() && y@.len() == weights@.len()'
DB_VALID = '(x@.len() as int) % (y@.len() as int) == 0 && ' + LENS
dbeta = Fn(IG + 'compute_dbeta', ret='r', level='L1', valid=DB_VALID, panics={1: 'REJECT', 2: 'DEAD'}, rewrites=[UNWRAP_XN],
           requires=['C06.dbeta.machine:: 0 < y@.len() && x@.len() <= 0x7fff_ffff'],
           ensures=['C06.dbeta.valid:: ' + DB_VALID,
                    'C06.dbeta.score:: is_neg_score(r@, x@, (x@.len() as int) / (y@.len() as int), weights@, y@, mu@, dmu@, var@)'],
           loops={1: {'invariant': ['n == y@.len()', 'n * p == x@.len()', 'x@.len() <= 0x7fff_ffff', 'working_residuals@.len() == n', 'dbeta@.len() == p',
                                    'C06.dbeta.rows:: forall|j: int| 0 <= j < p ==> rv(#[trigger] dbeta@[j]) == -xr_sum(x@, p as int, j, working_residuals@, i_n as int)']},
                  2: {'invariant': ['n == y@.len()', 'n * p == x@.len()', 'x@.len() <= 0x7fff_ffff', 'working_residuals@.len() == n', 'dbeta@.len() == p', '0 <= i_n < n',
                                    'C06.dbeta.done:: forall|j: int| 0 <= j < i_p ==> rv(#[trigger] dbeta@[j]) == -xr_sum(x@, p as int, j, working_residuals@, i_n as int + 1)',
                                    'C06.dbeta.todo:: forall|j: int| i_p <= j < p ==> rv(#[trigger] dbeta@[j]) == -xr_sum(x@, p as int, j, working_residuals@, i_n as int)'],
                      'body_start': 'lemma_idx(i_n as int, i_p as int, n as int, p as int);'}},
           hints=[('let mut dbeta = vec![0.; p];', 'before', 'proof { lemma_mul_div(n as int, p as int); }'),
                  ('\n                    dbeta\n', 'replace', '\n proof { assert(score_of(dbeta@, x@, p as int, working_residuals@)); '
                   'assert forall|i: int| 0 <= i < n && rv(var@[i]) != 0real implies rv(#[trigger] working_residuals@[i]) == wres(weights@, y@, mu@, dmu@, var@, i) by { } '
                   'assert(is_neg_score(dbeta@, x@, p as int, weights@, y@, mu@, dmu@, var@)); }\n dbeta\n')])
DD_LENS = 'dmu@.len() == var@.len() && dmu@.len() == weights@.len()'
DD_VALID = '(x@.len() as int) % (dmu@.len() as int) == 0 && ' + DD_LENS
ddbeta = Fn(IG + 'compute_ddbeta', ret='r', level='L1', valid=DD_VALID, panics={1: 'REJECT'},
            rewrites=[UNWRAP_XN],
            requires=['C06.ddbeta.machine:: 0 < dmu@.len() && 0 < x@.len() <= 0x7fff_ffff && ((x@.len() as int) / (dmu@.len() as int)) * ((x@.len() as int) / (dmu@.len() as int)) <= 0x7fff_ffff'],
            ensures=['C06.ddbeta.valid:: ' + DD_VALID,
                     'C06.ddbeta.information:: is_information(r@, x@, (x@.len() as int) / (dmu@.len() as int), dmu@.len() as int, weights@, dmu@, var@)'],
            loops={1: {'invariant': ['n == dmu@.len()', 'n * p == x@.len()', 'x@.len() <= 0x7fff_ffff', 'working_weights@.len() == n', 'weighted_x@.len() == x@.len()',
                                     'C06.ddbeta.rows:: forall|i: int, j: int| 0 <= i < n && 0 <= j < p ==> rv(#[trigger] at2(weighted_x@, p as int, i, j)) == (if i < i_n { rv(at2(x@, p as int, i, j)) * rv(working_weights@[i]) } else { rv(at2(x@, p as int, i, j)) })']},
                   2: {'invariant': ['n == dmu@.len()', 'n * p == x@.len()', 'x@.len() <= 0x7fff_ffff', 'working_weights@.len() == n', 'weighted_x@.len() == x@.len()', '0 <= i_n < n',
                                     'C06.ddbeta.row:: forall|i: int, j: int| 0 <= i < n && 0 <= j < p ==> rv(#[trigger] at2(weighted_x@, p as int, i, j)) == (if i < i_n || (i == i_n && j < i_p) { rv(at2(x@, p as int, i, j)) * rv(working_weights@[i]) } else { rv(at2(x@, p as int, i, j)) })'],
                       'body_ghost': 'let ghost pre_w = weighted_x@;',
                       'body_start': 'lemma_idx(i_n as int, i_p as int, n as int, p as int);',
                       'body_end': ('assert forall|i: int, j: int| 0 <= i < n && 0 <= j < p && !(i == i_n && j == i_p) implies #[trigger] at2(weighted_x@, p as int, i, j) == at2(pre_w, p as int, i, j) by '
                                    '{ lemma_idx(i, j, n as int, p as int); if i * p + j == i_n * p + i_p { lemma_idx_inj(i, j, i_n as int, i_p as int, p as int); } } '
                                    'assert(rv(at2(pre_w, p as int, i_n as int, i_p as int)) == rv(at2(x@, p as int, i_n as int, i_p as int))); '
                                    'assert(at2(weighted_x@, p as int, i_n as int, i_p as int) == f_mul(at2(pre_w, p as int, i_n as int, i_p as int), working_weights@[i_n as int]));')}},
            hints=[('let mut weighted_x = x.to_vec();', 'before', 'proof { lemma_mul_div(n as int, p as int); }'),
                   ('for i_n in 0..n', 'before', 'proof { assert(weighted_x@ =~= x@); }'),
                   ('matmul(x, &weighted_x, n, n, true, false)', 'replace',
                    '({ let h_ = matmul(x, &weighted_x, n, n, true, false); proof { '
                    'assert forall|i: int, j: int| 0 <= i < n && 0 <= j < p && rv(var@[i]) != 0real implies rv(#[trigger] at2(weighted_x@, p as int, i, j)) == rv(at2(x@, p as int, i, j)) * wwt(weights@, dmu@, var@, i) by { } '
                    'assert(is_product(h_@, x@, p as int, true, weighted_x@, p as int, false, p as int, n as int, p as int)); '
                    'assert(is_information(h_@, x@, p as int, n as int, weights@, dmu@, var@)); } h_ })')])
from contracts import C15 as c15
UNITS.append(Unit('C06_score', 'C06', [dbeta, ddbeta], use=[c15.is_matrix, c05.matmul, c04.KERNELS['vmul'], c04.KERNELS['vsub'], c04.KERNELS['vdiv']], types=TYPES, type_spec=core.TYPE_SPEC,
                  spec=SPEC + SCORE_SPEC, preludes=PRE, broadcast=BC, level='L1', rlimit=100,
                  notes='compute_dbeta is the negative score -X^T [w (y - mu) dmu / V], compute_ddbeta the Fisher information X^T diag(w dmu^2 / V) X of the scoring step, for every shape; size mismatches rejected'))

# ---------------------------------------------------------------- family tables: variance function, inverse link and its derivative
FAM_SPEC = r'''
/// variance function V(mu) of each family (textbook table, property C06)
pub open spec fn fam_var(f: ExponentialFamily, mu: real) -> real {
    match f { ExponentialFamily::Gaussian => 1real, ExponentialFamily::Bernoulli => mu * (1real - mu),
              ExponentialFamily::QuasiPoisson => mu, ExponentialFamily::Poisson => mu, ExponentialFamily::Gamma => mu * mu, ExponentialFamily::Exponential => mu * mu }
}
/// inverse of the canonical / log link
pub open spec fn fam_inv_link(f: ExponentialFamily, eta: real) -> real {
    match f { ExponentialFamily::Gaussian => eta, ExponentialFamily::Bernoulli => 1real / (1real + r_exp(-eta)), _ => r_exp(eta) }
}
/// d mu / d eta expressed through mu
pub open spec fn fam_dmu(f: ExponentialFamily, mu: real) -> real {
    match f { ExponentialFamily::Gaussian => 1real, ExponentialFamily::Bernoulli => mu * (1real - mu), _ => mu }
}
'''
RW_BERN = ('&m * (1. - &m)', 'Mul::mul(&m, Sub::sub(1., &m))', 'R17: operators on reference operands written as the trait calls they desugar to')
variance = Fn(FAM + '{impl ExponentialFamily}::variance', ret='r', level='L1', rewrites=[RW_BERN, ('vmul(&mu, &mu)', 'vmul(mu, mu)', 'R17b: `&mu` with mu: &[f64] auto-derefs to mu')],
              ensures=['C06.family.variance.len:: r.v@.len() == mu@.len()',
                       'C06.family.variance:: forall|i: int| 0 <= i < mu@.len() ==> rv(#[trigger] r.v@[i]) == fam_var(*self, rv(mu@[i]))'])
inv_link = Fn(FAM + '{impl ExponentialFamily}::inv_link', ret='r', level='L1', rewrites=[('(-e).exp()', 'Neg::neg(e).exp()', 'R17: unary minus on a Vector operand written as the trait call')],
              ensures=['C06.family.inv_link.len:: r.v@.len() == eta@.len()',
                       'C06.family.inv_link:: forall|i: int| 0 <= i < eta@.len() ==> rv(#[trigger] r.v@[i]) == fam_inv_link(*self, rv(eta@[i]))'],
              hints=[('1. / (1. + Neg::neg(e).exp())', 'replace',
                      '({ let o_ = 1. / (1. + Neg::neg(e).exp()); proof { assert forall|i: int| 0 <= i < eta@.len() implies rv(#[trigger] o_.v@[i]) == 1real / (1real + r_exp(-rv(eta@[i]))) by '
                      '{ ax_exp_pos(-rv(eta@[i])); } } o_ })')])
d_inv_link = Fn(FAM + '{impl ExponentialFamily}::d_inv_link', ret='r', level='L1', rewrites=[RW_BERN],
                requires=['C06.family.dmu.lens:: eta@.len() == mu@.len()'],
                ensures=['C06.family.dmu.len:: r.v@.len() == mu@.len()',
                         'C06.family.dmu:: forall|i: int| 0 <= i < mu@.len() ==> rv(#[trigger] r.v@[i]) == fam_dmu(*self, rv(mu@[i]))'])
_vstubs = [f for f in c04.VECTOR_IMPLS if any(h in f.path for h in ('{impl ops::Mul<Vector> for &Vector}', '{impl ops::Sub<&Vector> for f64}', '{impl ops::Add<Vector> for f64}', '{impl ops::Div<Vector> for f64}'))]
UNITS.append(Unit('C06_families', 'C06', [variance, inv_link, d_inv_link],
                  use=core.core_stubs() + _vstubs + [c04.vec_neg, c04.KERNELS['vmul']] + [f for f in c04.VECTOR_UNARY if f.path.endswith('::exp')],
                  types=TYPES, type_spec=core.TYPE_SPEC, spec=SPEC + FAM_SPEC, preludes=PRE, broadcast=BC, level='L1', rlimit=100,
                  notes='variance function, inverse link and its derivative of the six families equal the textbook table element by element'))

# ---------------------------------------------------------------- predictions = inverse link of X beta + offset
from contracts import C15b as c15b
PRED_SPEC = c15b.DESIGN_SPEC + r'''
pub open spec fn glm_fitted_inv(g: GLM) -> bool {
    match (g.coef, g.p) { (Some(c), Some(p)) => c@.len() == p && p > 0, (None, _) => true, _ => false }
}
pub open spec fn off_at(g: GLM, i: int) -> real { match g.offsets { Some(o) => rv(o@[i]), None => 0real } }
pub open spec fn glm_pred_valid(g: GLM, x: Seq<f64>) -> bool {
    g.coef is Some ==> {
        let p = g.p->Some_0 as int; let n = (x.len() as int) / p;
        (x.len() as int) % p == 0 && design_def(x, n, p) && (g.offsets is Some ==> g.offsets->Some_0@.len() == n)
    }
}
pub open spec fn glm_pred_values(g: GLM, x: Seq<f64>, v: Seq<f64>) -> bool {
    let p = g.p->Some_0 as int; let n = (x.len() as int) / p;
    v.len() == n && forall|i: int| 0 <= i < n ==> rv(#[trigger] v[i]) == fam_inv_link(g.family, psum(x, p, false, g.coef->Some_0@, 1, false, i, 0, p) + off_at(g, i))
}
'''
gcoef = Fn(IG + 'coef', ret='r', level='L0', ensures=['C06.coef:: match r { Ok(c) => self.coef is Some && c@ == self.coef->Some_0@, Err(_) => self.coef is None }'])
predict = Fn(IG + 'predict', ret='r', level='L1', valid='glm_pred_valid(*self, x@)', panics={1: 'REJECT', 2: 'REJECT'},
             rewrites=[('is_matrix(x, self.p.unwrap()).unwrap()', 'match is_matrix(x, self.p.unwrap()) { Ok(v_) => v_, Err(_) => ::core::panicking::panic("unwrap") }', 'R2b')],
             requires=['C06.predict.inv:: glm_fitted_inv(*self)', 'C06.predict.machine:: 0 < x@.len() <= 0x7fff_ffff'],
             ensures=['C06.predict.valid:: glm_pred_valid(*self, x@)',
                      'C06.predict.values:: match r { Ok(v) => self.coef is Some && glm_pred_values(*self, x@, v.v@), Err(_) => self.coef is None }'],
             hints=[('if !is_design(x, n)', 'before', 'let ghost p_ = self.p->Some_0 as int; proof { lemma_div_facts(x@.len() as int, p_); lemma_mul_div(p_, n as int); assert(n * p_ == p_ * n) by(nonlinear_arith); '
                     'if (x@.len() as int) % p_ == 0 { lemma_mul_div(n as int, p_); assert((x@.len() as int) / (n as int) == p_); } }'),
                    ('let result =', 'before', 'proof { assert(n > 0) by { if n == 0 { assert(p_ * 0 == 0); } } lemma_mul_div(n as int, p_); lemma_mul_div(p_, 1); assert(coef@.len() == p_ * 1); '
                     'assert(n * 1 <= 0x7fff_ffff); }'),
                    ('Ok(self.family.inv_link(&vadd(&result, offset)))', 'replace',
                     '({ let e_ = vadd(&result, offset); let m_ = self.family.inv_link(&e_); proof { assert forall|i: int| 0 <= i < n implies rv(#[trigger] m_.v@[i]) == fam_inv_link(self.family, psum(x@, p_, false, coef@, 1, false, i, 0, p_) + off_at(*self, i)) by '
                     '{ lemma_idx(i, 0, n as int, 1); assert(rv(at2(result@, 1, i, 0)) == psum(x@, p_, false, coef@, 1, false, i, 0, p_)); } assert(glm_pred_values(*self, x@, m_.v@)); } Ok(m_) })'),
                    ('Ok(self.family.inv_link(&result))', 'replace',
                     '({ let m_ = self.family.inv_link(&result); proof { assert forall|i: int| 0 <= i < n implies rv(#[trigger] m_.v@[i]) == fam_inv_link(self.family, psum(x@, p_, false, coef@, 1, false, i, 0, p_) + off_at(*self, i)) by '
                     '{ lemma_idx(i, 0, n as int, 1); assert(rv(at2(result@, 1, i, 0)) == psum(x@, p_, false, coef@, 1, false, i, 0, p_)); } assert(glm_pred_values(*self, x@, m_.v@)); } Ok(m_) })')])
UNITS.append(Unit('C06_predict', 'C06', [gcoef, predict], use=[c15.is_matrix, c15b.is_design, c05.matmul, c04.KERNELS['vadd'], inv_link], types=TYPES, type_spec=core.TYPE_SPEC,
                  spec=SPEC + FAM_SPEC + PRED_SPEC, preludes=PRE, broadcast=BC, level='L1', rlimit=100,
                  notes='GLM::predict returns the inverse link of X beta plus the offset element by element for a fitted model (Err when not fitted); a shape mismatch or a non-design matrix is rejected'))

# ---------------------------------------------------------------- deviance of each family
DEV_SPEC = c04.RED_SPEC + r'''
pub open spec fn r_ylogy(y: real) -> real { if y == 0real { 0real } else { y * r_ln(y) } }
/// the summand the family's deviance accumulates for one observation (textbook unit deviance divided by the leading factor)
pub open spec fn dev_term(f: ExponentialFamily, y: real, mu: real) -> real {
    match f {
        ExponentialFamily::Gaussian => (y - mu) * (y - mu),
        ExponentialFamily::Bernoulli => y * r_ln(mu) + (1real - y) * r_ln(1real - mu),
        ExponentialFamily::QuasiPoisson => mu - y - y * r_ln(mu) + r_ylogy(y),
        ExponentialFamily::Poisson => mu - y - y * r_ln(mu) + r_ylogy(y),
        ExponentialFamily::Gamma => (y - mu) / mu - r_ln(y / mu),
        ExponentialFamily::Exponential => (y - mu) / mu - r_ln(y / mu),
    }
}
pub open spec fn dev_factor(f: ExponentialFamily) -> real { match f { ExponentialFamily::Gaussian => 1real, ExponentialFamily::Bernoulli => -2real, _ => 2real } }
pub open spec fn dev_sum(f: ExponentialFamily, y: Seq<f64>, mu: Seq<f64>, k: int) -> real decreases k
{ if k <= 0 { 0real } else { dev_sum(f, y, mu, k - 1) + dev_term(f, rv(y[k - 1]), rv(mu[k - 1])) } }
/// the squared norm of the residual is the Gaussian sum
pub proof fn lemma_gauss_dev(d: Seq<f64>, y: Seq<f64>, mu: Seq<f64>, k: int)
    requires 0 <= k <= d.len(), d.len() == y.len(), d.len() == mu.len(), forall|i: int| 0 <= i < d.len() ==> #[trigger] d[i] == f_sub(y[i], mu[i])
    ensures dsum(d, d, k) == dev_sum(ExponentialFamily::Gaussian, y, mu, k), dsum(d, d, k) >= 0real
    decreases k
{ if k > 0 { lemma_gauss_dev(d, y, mu, k - 1); lemma_sq_nonneg(rv(d[k - 1])); } }
'''
DEV_DOM = '((*self is Gamma || *self is Exponential) ==> forall|i: int| 0 <= i < mu@.len() ==> rv(#[trigger] mu@[i]) != 0real)'
DEV_LOOP = lambda fam: {'invariant': ['n == y@.len() && n == mu@.len()', '*self is %s' % fam, 'C06.deviance.partial:: ' + DEV_DOM + ' ==> rv(acc_) == dev_sum(*self, y@, mu@, t_ as int)']}
POIS_LOOP = lambda fam: {'invariant': ['n == y@.len() && n == mu@.len()', '*self is %s' % fam, 'ylogy@.len() == n', 'forall|q: int| 0 <= q < n ==> rv(#[trigger] ylogy@[q]) == r_ylogy(rv(y@[q]))',
                                       'C06.deviance.partial:: rv(acc_) == dev_sum(*self, y@, mu@, t_ as int)']}
YL = {'params': 'x: &f64', 'ret': 'o: f64', 'ensures': ['rv(o) == r_ylogy(rv(*x))']}
deviance = Fn(FAM + '{impl ExponentialFamily}::deviance', ret='r', level='L1', valid='y@.len() == mu@.len()', panics={1: 'REJECT'},
              ensures=['C06.deviance.valid:: y@.len() == mu@.len()', 'C06.deviance.family:: ' + DEV_DOM + ' ==> rv(r) == dev_factor(*self) * dev_sum(*self, y@, mu@, y@.len() as int)'],
              rewrites=[('norm(&vsub(y, mu)).powi(2)', '({ let d_ = vsub(y, mu); let nr_ = norm(&d_); proof { lemma_gauss_dev(d_@, y@, mu@, n as int); ax_sqrt(dsum(d_@, d_@, n as int)); } nr_.powi(2) })', 'R31'),
                        (r'(?s)\(0\.\.n\)\.map\(\|i\|\s*(.*?)\)\s*\.sum::<f64>\(\)', r'({ let mut acc_ = 0.; for t_ in 0..n { let i = t_; acc_ = acc_ + (\1); } acc_ })',
                         'R37: `(0..n).map(|i| E).sum::<f64>()` as its defining loop (E kept verbatim)', 're'),
                        ('if *x == 0. { 0. } else { x * x.ln() }).collect::<Vec<_>>()', 'if *x == 0. { 0. } else { *x * x.ln() }).collect::<Vec<f64>>()', 'R17 + R26b'),
                        (r'(?s)\(0\.\.y\.len\(\)\)\.map\(\|i\|\s*(.*?)\)\s*\.sum::<f64>\(\)', r'({ let mut acc_ = 0.; for t_ in 0..y.len() { let i = t_; acc_ = acc_ + (\1); } acc_ })',
                         'R37 (E kept verbatim)', 're'),
                        (r'(?s)\(y\.iter\(\)\.zip\(mu\)\.map\(\|\(yv, muv\)\|\s*(.*?)\)\s*\.sum::<f64>\(\)\)',
                         r'({ let mut acc_ = 0.; for t_ in 0..y.len() { let yv = y[t_]; let muv = mu[t_]; acc_ = acc_ + (\1); } acc_ })',
                         'R37 (zip of two slices of equal length: the pairs (y[t], mu[t]) in order; the closure parameters are references to these elements, bound here by value - f64 is Copy) (E kept verbatim)', 're')],
              closures={1: YL, 2: YL},
              loops={1: DEV_LOOP('Bernoulli'), 2: POIS_LOOP('QuasiPoisson'), 3: POIS_LOOP('Poisson'), 4: DEV_LOOP('Gamma'), 5: DEV_LOOP('Exponential')})
UNITS.append(Unit('C06_deviance', 'C06', [deviance], use=[c04.KERNELS['vsub'], c04.norm], types=TYPES, type_spec=core.TYPE_SPEC, spec=SPEC + DEV_SPEC, preludes=PRE, broadcast=BC, level='L1',
                  notes='the deviance of each of the six families is its leading factor times the sum of its textbook unit terms (residual sum of squares for the Gaussian family; zero counts contribute 2 mu for Poisson); length mismatch rejected'))
