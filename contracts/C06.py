"""C06 — GLM fitting: the formula core that contracts can reach (L1): family table, convergence test, ridge penalty with the
intercept unpenalised, score vector and information matrix.  Optimality of the fixed point is not applicable (DESIGN §7 C06)."""
from vc.gen import Fn, Unit
from vc.nra import Lemma
from contracts import core
from contracts import C05 as c05
from contracts import C04 as c04
from contracts import C15 as c15

PRE = ('fax_l0', 'fmeth', 'stdspec', 'l1')
BC = ('l0', 'l1_arith', 'l1_fun', 'ax_vec_from_refl', 'ax_f64_cloned')
G = 'predict::glms::glm::'
FAM = 'predict::glms::families::'
IG = G + '{impl GLM}::'

SPEC = c05.SPEC + r'''
'''
STD = r'''
'''
has_dispersion = Fn(FAM + '{impl ExponentialFamily}::has_dispersion', ret='r', level='L0',
                    ensures=['C06.family.dispersion:: r == (*self is Gaussian || *self is QuasiPoisson || *self is Gamma)'])
has_converged = Fn(IG + 'has_converged', ret='r', level='L1',
                   ensures=['C06.converged.first:: f_is_infinite(loss_previous) ==> !r',
                            'C06.converged.def:: !f_is_infinite(loss_previous) && rv(loss_previous) != 0real ==> r == (r_abs(rv(loss) - rv(loss_previous)) / rv(loss_previous) < rv(tolerance))'])
pen_d = Fn(IG + 'apply_dbeta_penalty', level='L1',
           requires=['C06.penalty.len:: old(dbeta)@.len() == coef@.len()'],
           ensures=['C06.penalty.dbeta.len:: final(dbeta)@.len() == old(dbeta)@.len()',
                    'C06.penalty.dbeta.intercept:: coef@.len() > 0 ==> final(dbeta)@[0] == old(dbeta)@[0]',
                    'C06.penalty.dbeta.slopes:: forall|i: int| 1 <= i < coef@.len() ==> rv(#[trigger] final(dbeta)@[i]) == rv(old(dbeta)@[i]) + rv(self.alpha) * rv(coef@[i])'],
           loops={1: {'invariant': ['dbeta@.len() == coef@.len()', 'dbeta@.len() == old(dbeta)@.len()', 'coef@.len() > 0 ==> dbeta@[0] == old(dbeta)@[0]',
                                    'C06.penalty.dbeta.done:: forall|k: int| 1 <= k < i && k < coef@.len() ==> rv(#[trigger] dbeta@[k]) == rv(old(dbeta)@[k]) + rv(self.alpha) * rv(coef@[k])',
                                    'C06.penalty.dbeta.todo:: forall|k: int| i <= k < coef@.len() ==> #[trigger] dbeta@[k] == old(dbeta)@[k]']}})
pen_dd = Fn(IG + 'apply_ddbeta_penalty', level='L1', attrs=['#[verifier::loop_isolation(false)]'],
            requires=['C06.penalty.shape:: old(ddbeta)@.len() == n_predictors * n_predictors && n_predictors * n_predictors <= 0x7fff_ffff'],
            ensures=['C06.penalty.ddbeta.len:: final(ddbeta)@.len() == old(ddbeta)@.len()',
                     'C06.penalty.ddbeta.entries:: forall|r: int, c: int| 0 <= r < n_predictors && 0 <= c < n_predictors ==> rv(#[trigger] at2(final(ddbeta)@, n_predictors as int, r, c)) == '
                     'rv(at2(old(ddbeta)@, n_predictors as int, r, c)) + (if r == c && r >= 1 { rv(self.alpha) } else { 0real })'],
            loops={1: {'invariant': ['ddbeta@.len() == n_predictors * n_predictors',
                                     'C06.penalty.ddbeta.inv:: forall|r: int, c: int| 0 <= r < n_predictors && 0 <= c < n_predictors ==> rv(#[trigger] at2(ddbeta@, n_predictors as int, r, c)) == '
                                     'rv(at2(old(ddbeta)@, n_predictors as int, r, c)) + (if r == c && 1 <= r < i { rv(self.alpha) } else { 0real })'],
                       'body_ghost': 'let ghost pre_d = ddbeta@;',
                       'body_start': 'lemma_idx(i as int, i as int, n_predictors as int, n_predictors as int);',
                       'body_end': ('assert forall|r: int, c: int| 0 <= r < n_predictors && 0 <= c < n_predictors && !(r == i && c == i) implies #[trigger] at2(ddbeta@, n_predictors as int, r, c) == at2(pre_d, n_predictors as int, r, c) by '
                                    '{ lemma_idx(r, c, n_predictors as int, n_predictors as int); if r * n_predictors + c == i * n_predictors + i { lemma_idx_inj(r, c, i as int, i as int, n_predictors as int); } } '
                                    'assert forall|r: int, c: int| 0 <= r < n_predictors && 0 <= c < n_predictors implies rv(#[trigger] at2(ddbeta@, n_predictors as int, r, c)) == rv(at2(old(ddbeta)@, n_predictors as int, r, c)) + (if r == c && 1 <= r < i + 1 { rv(self.alpha) } else { 0real }) by '
                                    '{ assert(rv(at2(pre_d, n_predictors as int, r, c)) == rv(at2(old(ddbeta)@, n_predictors as int, r, c)) + (if r == c && 1 <= r < i { rv(self.alpha) } else { 0real })); }')}})

TYPES = core.TYPES + [FAM + '{enum ExponentialFamily}', G + '{struct GLM}']
UNITS = [
    Unit('C06_glm', 'C06', [has_dispersion, has_converged, pen_d, pen_dd], types=TYPES, type_spec=core.TYPE_SPEC, spec=SPEC, preludes=PRE, broadcast=BC, level='L1',
         also=['C05_matmul', 'C04_vops_binary', 'C04_reductions', 'C11_lu', 'C01_predicates'],
         notes='family dispersion table, relative-change convergence test, ridge penalty: +alpha*beta_i on the score and +alpha on the information '
               'diagonal for i >= 1 only; the kernels the scoring iteration is built from (matmul, vops, dot, LU) are run as part of this check'),
]
