"""C15 — approximate equality, differencing, rotations (further structural predicates and constructors)."""
from vc.gen import Fn, Unit
from contracts import core
from contracts import C15 as c15
from contracts.core import VEC, MAT, IM, IV

PRE = ('fax_l0', 'fmeth', 'stdspec', 'l1')
BC = ('l0', 'l1_arith', 'l1_fun', 'ax_vec_from_refl', 'ax_f64_cloned')

CLOSE_SPEC = r'''
/// `approx_eq::rel_diff(a, b)` = |a - b| / max(|a|, |b|) (0 when both are 0) - assumed contract of the dependency, abstract here
pub uninterp spec fn rel_diff_fn(a: f64, b: f64) -> f64;
#[verifier::external_body]
pub fn rel_diff(a: f64, b: f64) -> (r: f64) ensures r == rel_diff_fn(a, b) { unimplemented!() }
/// element-wise closeness: never of opposite sign, relative difference within the tolerance (property C15)
pub open spec fn close_def(x: Seq<f64>, y: Seq<f64>, tol: f64) -> bool {
    x.len() == y.len() && forall|i: int| 0 <= i < x.len() ==> !(rv(#[trigger] x[i]) * rv(y[i]) < 0real) && !(rv(rel_diff_fn(x[i], y[i])) > rv(tol))
}
'''
vclose = Fn(IV + 'close_to', ret='r', level='L1', ensures=['C15.close_to.def:: r == close_def(self.v@, other.v@, tol)'],
            loops={1: {'iter_name': 'it', 'invariant': ['it.iter.end == self.v@.len()', 'self.v@.len() == other.v@.len()',
                                                        'C15.close_to.prefix:: forall|q: int| 0 <= q < i ==> !(rv(#[trigger] self.v@[q]) * rv(other.v@[q]) < 0real) && !(rv(rel_diff_fn(self.v@[q], other.v@[q])) > rv(tol))']}},
            hints=[('return false;\n                        }', 'replace', 'proof { assert(!close_def(self.v@, other.v@, tol)) by { assert(rv(self.v@[i as int]) * rv(other.v@[i as int]) < 0real || rv(rel_diff_fn(self.v@[i as int], other.v@[i as int])) > rv(tol)); } } return false;\n                        }')])
vdiff = Fn(IV + 'diff', ret='r', level='L0', requires=['C15.diff.nonempty:: self.v@.len() >= 1'],
           ensures=['C15.diff.len:: r.v@.len() == self.v@.len() - 1', 'C15.diff.elem:: forall|i: int| 0 <= i < r.v@.len() ==> #[trigger] r.v@[i] == f_sub(self.v@[i + 1], self.v@[i])'],
           rewrites=[(r'\((\w+)\.\.self\.len\(\)\)\s*\.map\(', r'Vector { v: (\1..self.len()).map(', 'R26 (range start kept verbatim)', 're'), ('.collect::<Vector>()', '.collect::<Vec<f64>>() }', 'R26 (second half)')],
           closures={1: {'params': 'i: usize', 'ret': 'o: f64', 'requires': ['1 <= i < self.v@.len()'], 'ensures': ['o == f_sub(self.v@[i as int], self.v@[i - 1])']}})
UNITS = [
    Unit('C15_close', 'C15', [vclose, vdiff], use=core.core_stubs(), types=core.TYPES, type_spec=core.TYPE_SPEC, spec=c15.SPEC + CLOSE_SPEC, preludes=PRE, broadcast=BC, level='L1',
         fingerprints=[(VEC + '{impl FromIterator<f64> for Vector}::from_iter', '{ Self { v: Vec::from_iter(iter) } }')],
         notes='Vector::close_to answers exactly "same length, no pair of opposite sign, every relative difference within the tolerance" (rel_diff of the approx_eq crate abstract); diff is the first difference'),
]

# ---------------------------------------------------------------- 3-D rotation matrices
ROT = 'linalg::rotations::'
ROT_SPEC = r'''
/// the nine entries (row-major) of a rotation by `a` about `axis`; sgn = +1 clockwise, -1 counter-clockwise (textbook pattern)
pub open spec fn rot_entries(m: Seq<f64>, a: f64, axis: Axis, sgn: real) -> bool {
    let c = r_cos(rv(a)); let s = sgn * r_sin(rv(a));
    m.len() == 9 && match axis {
        Axis::X => rv(m[0]) == 1real && rv(m[1]) == 0real && rv(m[2]) == 0real && rv(m[3]) == 0real && rv(m[4]) == c && rv(m[5]) == s && rv(m[6]) == 0real && rv(m[7]) == -s && rv(m[8]) == c,
        Axis::Y => rv(m[0]) == c && rv(m[1]) == 0real && rv(m[2]) == -s && rv(m[3]) == 0real && rv(m[4]) == 1real && rv(m[5]) == 0real && rv(m[6]) == s && rv(m[7]) == 0real && rv(m[8]) == c,
        Axis::Z => rv(m[0]) == c && rv(m[1]) == s && rv(m[2]) == 0real && rv(m[3]) == -s && rv(m[4]) == c && rv(m[5]) == 0real && rv(m[6]) == 0real && rv(m[7]) == 0real && rv(m[8]) == 1real,
    }
}
/// clockwise = counter-clockwise transposed, and the rows are orthonormal (property C15), as consequences of the entry pattern
pub proof fn lemma_rotation_props(cw: Seq<f64>, ccw: Seq<f64>, a: f64, axis: Axis)
    requires rot_entries(cw, a, axis, 1real), rot_entries(ccw, a, axis, -1real)
    ensures forall|i: int, j: int| 0 <= i < 3 && 0 <= j < 3 ==> rv(#[trigger] at2(cw, 3, i, j)) == rv(at2(ccw, 3, j, i)),
            forall|i: int, j: int| 0 <= i < 3 && 0 <= j < 3 ==> rv(at2(cw, 3, i, 0)) * rv(at2(cw, 3, j, 0)) + rv(at2(cw, 3, i, 1)) * rv(at2(cw, 3, j, 1)) + rv(at2(cw, 3, i, 2)) * rv(at2(cw, 3, j, 2)) == (if i == j { 1real } else { 0real })
{
    let c = r_cos(rv(a)); let s = r_sin(rv(a));
    ax_sincos(rv(a));
    assert((-1real) * s == -s) by(nonlinear_arith); assert(1real * s == s) by(nonlinear_arith);
    assert forall|i: int, j: int| 0 <= i < 3 && 0 <= j < 3 implies rv(at2(cw, 3, i, 0)) * rv(at2(cw, 3, j, 0)) + rv(at2(cw, 3, i, 1)) * rv(at2(cw, 3, j, 1)) + rv(at2(cw, 3, i, 2)) * rv(at2(cw, 3, j, 2)) == (if i == j { 1real } else { 0real }) by {
        assert(s * s + c * c == 1real);
        assert(0real * 0real == 0real && 1real * 1real == 1real && 0real * c == 0real && c * 0real == 0real && 0real * s == 0real && s * 0real == 0real && 1real * 0real == 0real && 0real * 1real == 0real
               && 0real * (-s) == 0real && (-s) * 0real == 0real && c * s + (-s) * c == 0real && s * c + c * (-s) == 0real && (-s) * (-s) == s * s && c * c + s * s == 1real && c * (-s) + s * c == 0real && (-s) * c + c * s == 0real) by(nonlinear_arith) requires s * s + c * c == 1real;
    }
}
'''
rot_cw = Fn(ROT + 'rotation_matrix_cw', ret='r', level='L1', hints=[('Matrix::new(data, 3, 3)', 'before', 'proof { let a_ = <i32 as vstd::std_specs::convert::TryIntoSpec<i32>>::try_into_spec(3i32); assert(a_ == Ok::<i32, core::convert::Infallible>(3i32)); assert((a_->Ok_0 as int) * (a_->Ok_0 as int) == 9) by(nonlinear_arith) requires a_->Ok_0 == 3; }')],
            ensures=['C15.rot.cw.shape:: r.nrows == 3 && r.ncols == 3 && wf(r)', 'C15.rot.cw.entries:: rot_entries(r.data.v@, angle, axis, 1real)'])
rot_ccw = Fn(ROT + 'rotation_matrix_ccw', ret='r', level='L1', hints=[('Matrix::new(data, 3, 3)', 'before', 'proof { let a_ = <i32 as vstd::std_specs::convert::TryIntoSpec<i32>>::try_into_spec(3i32); assert(a_ == Ok::<i32, core::convert::Infallible>(3i32)); assert((a_->Ok_0 as int) * (a_->Ok_0 as int) == 9) by(nonlinear_arith) requires a_->Ok_0 == 3; }')],
             ensures=['C15.rot.ccw.shape:: r.nrows == 3 && r.ncols == 3 && wf(r)', 'C15.rot.ccw.entries:: rot_entries(r.data.v@, angle, axis, -1real)'])
UNITS.append(Unit('C15_rotations', 'C15', [rot_cw, rot_ccw], use=core.core_stubs(), types=core.TYPES + [ROT + '{enum Axis}'], type_spec=core.TYPE_SPEC,
                  spec=c15.SPEC + ROT_SPEC, preludes=PRE, broadcast=BC, level='L1',
                  notes='rotation_matrix_cw / ccw deliver the textbook entry pattern; clockwise = counter-clockwise transposed and orthonormal rows follow as a lemma (sin^2 + cos^2 = 1)'))

# ---------------------------------------------------------------- horizontal repetition
HR_ENTRY = lambda src, rows, reps: ('forall|ii: int, cc: int, j: int| 0 <= ii < %s && 0 <= cc < %s && 0 <= j < self.ncols ==> #[trigger] %s[ii * (self.ncols * n) + cc * self.ncols + j] == at2(self.data.v@, self.ncols as int, ii, j)' % (rows, reps, src))
hrepeat = Fn(IM + 'hrepeat', ret='r', level='L0',
             requires=['C15.hrepeat.wf:: wf(*self) && self.nrows > 0 && self.ncols > 0 && n > 0', 'C15.hrepeat.range:: self.nrows * (self.ncols * n) <= i32max() && self.ncols * n <= i32max()'],
             ensures=['C15.hrepeat.shape:: r.nrows == self.nrows && r.ncols == self.ncols * n && wf(r)',
                      'C15.hrepeat.copies:: forall|ii: int, cc: int, j: int| 0 <= ii < self.nrows && 0 <= cc < n && 0 <= j < self.ncols ==> #[trigger] at2(r.data.v@, (self.ncols * n) as int, ii, cc * self.ncols + j) == at2(self.data.v@, self.ncols as int, ii, j)'],
             rewrites=[('new_vec.extend(&self[i]);', 'new_vec.extend_from_slice(&self[i]);', 'R36: `Vec::extend(&[f64])` appends copies of the elements in order, i.e. `extend_from_slice`'),
                       ('for _ in 0..n', 'for c_ in 0..n', 'R14: wildcard loop pattern given a name')],
             loops={1: {'invariant': ['wf(*self) && self.ncols > 0 && n > 0', 'total_cols == self.ncols * n', 'self.nrows * total_cols <= i32max()', 'new_vec@.len() == i * total_cols',
                                      'C15.hrepeat.rows:: ' + HR_ENTRY('new_vec@', 'i', 'n')],
                        'body_end': 'assert((i + 1) * total_cols == i * total_cols + n * self.ncols) by(nonlinear_arith) requires total_cols == self.ncols * n;'},
                    2: {'invariant': ['wf(*self) && self.ncols > 0 && n > 0', 'total_cols == self.ncols * n', 'self.nrows * total_cols <= i32max()', '0 <= i < self.nrows', 'new_vec@.len() == i * total_cols + c_ * self.ncols',
                                      'C15.hrepeat.rows.c:: ' + HR_ENTRY('new_vec@', 'i', 'n'),
                                      'C15.hrepeat.row:: forall|cc: int, j: int| 0 <= cc < c_ && 0 <= j < self.ncols ==> #[trigger] new_vec@[i * (self.ncols * n) + cc * self.ncols + j] == at2(self.data.v@, self.ncols as int, i as int, j)'],
                        'body_ghost': 'let ghost pre_v = new_vec@;',
                        'body_start': 'lemma_row(i as int, self.nrows as int, self.ncols as int);',
                        'body_end': ('assert((c_ + 1) * self.ncols == c_ * self.ncols + self.ncols) by(nonlinear_arith); assert(self.ncols * n == n * self.ncols) by(nonlinear_arith); '
                                     'assert forall|k: int| 0 <= k < pre_v.len() implies new_vec@[k] == pre_v[k] by { } '
                                     'assert forall|j: int| 0 <= j < self.ncols implies new_vec@[i * (self.ncols * n) + c_ * self.ncols + j] == at2(self.data.v@, self.ncols as int, i as int, j) by '
                                     '{ assert(new_vec@[pre_v.len() + j] == self.data.v@.subrange(i * self.ncols, (i + 1) * self.ncols)[j]); } '
                                     'assert forall|cc: int, j: int| 0 <= cc < c_ + 1 && 0 <= j < self.ncols implies #[trigger] new_vec@[i * (self.ncols * n) + cc * self.ncols + j] == at2(self.data.v@, self.ncols as int, i as int, j) by '
                                     '{ if cc < c_ { assert(cc * self.ncols + j < c_ * self.ncols) by(nonlinear_arith) requires 0 <= cc < c_, 0 <= j < self.ncols; assert(pre_v[i * (self.ncols * n) + cc * self.ncols + j] == at2(self.data.v@, self.ncols as int, i as int, j)); } } '
                                     'assert forall|ii: int, cc: int, j: int| 0 <= ii < i && 0 <= cc < n && 0 <= j < self.ncols implies #[trigger] new_vec@[ii * (self.ncols * n) + cc * self.ncols + j] == at2(self.data.v@, self.ncols as int, ii, j) by '
                                     '{ assert(cc * self.ncols + j < n * self.ncols) by(nonlinear_arith) requires 0 <= cc < n, 0 <= j < self.ncols; assert(ii * (self.ncols * n) + (self.ncols * n) <= i * (self.ncols * n)) by(nonlinear_arith) requires 0 <= ii < i, self.ncols * n >= 0; '
                                     'assert(pre_v[ii * (self.ncols * n) + cc * self.ncols + j] == at2(self.data.v@, self.ncols as int, ii, j)); }')}},
             hints=[('let mut new_vec =', 'before', 'proof { assert(self.ncols * n > 0) by(nonlinear_arith) requires self.ncols > 0, n > 0; }'),
                    ('for i in 0..self.nrows', 'before', 'proof { assert(0 * total_cols == 0); }'),
                    ('Matrix::new(new_vec,', 'before', 'proof { assert forall|ii: int, cc: int, j: int| 0 <= ii < self.nrows && 0 <= cc < n && 0 <= j < self.ncols implies #[trigger] at2(new_vec@, (self.ncols * n) as int, ii, cc * self.ncols + j) == at2(self.data.v@, self.ncols as int, ii, j) by { assert(new_vec@[ii * (self.ncols * n) + cc * self.ncols + j] == at2(self.data.v@, self.ncols as int, ii, j)); } }')])
UNITS.append(Unit('C15_hrepeat', 'C15', [hrepeat], use=core.core_stubs(), types=core.TYPES, type_spec=core.TYPE_SPEC, spec=c15.SPEC, preludes=PRE, broadcast=BC, level='L0', rlimit=100,
                  notes='hrepeat: n copies of every row side by side (entry (i, c*ncols + j) of the result is entry (i, j) of self)'))

# ---------------------------------------------------------------- in-place row / column maps with a caller-supplied closure
APPLY_REQ = ['C15.apply_along_row.pre:: wf(*old(self)) && row < old(self).nrows && forall|x: f64| f.requires((x,))']
APPLY_ENS = ['C15.apply_along_row.shape:: final(self).nrows == old(self).nrows && final(self).ncols == old(self).ncols && wf(*final(self))',
             'C15.apply_along_row.row:: forall|j: int| 0 <= j < old(self).ncols ==> f.ensures((at2(old(self).data.v@, old(self).ncols as int, row as int, j),), #[trigger] at2(final(self).data.v@, old(self).ncols as int, row as int, j))',
             'C15.apply_along_row.frame:: forall|r: int, c: int| 0 <= r < old(self).nrows && r != row && 0 <= c < old(self).ncols ==> #[trigger] at2(final(self).data.v@, old(self).ncols as int, r, c) == at2(old(self).data.v@, old(self).ncols as int, r, c)']
apply_row = Fn(IM + 'apply_along_row', level='L0', requires=APPLY_REQ, ensures=APPLY_ENS,
               rewrites=[('self[row].iter_mut().for_each(|x| *x = f(*x));', 'for t_ in 0..self.ncols { let v_ = self[[row, t_]]; self[[row, t_]] = f(v_); }',
                          'R37b: `ROW.iter_mut().for_each(|x| *x = g(*x))` assigns g(element) to every element of the row slice in order; element t of `self[row]` is `self[[row, t]]` (both index contracts denote data[row*ncols + t])')],
               pre_body='let ghost s0 = *self;',
               loops={1: {'iter_name': 'tt', 'invariant': ['tt.iter.end == s0.ncols', 'self.nrows == s0.nrows && self.ncols == s0.ncols && wf(*self) && wf(s0)', 'row < s0.nrows', 'forall|x: f64| f.requires((x,))',
                                        'C15.apply_along_row.done:: forall|j: int| 0 <= j < t_ ==> f.ensures((at2(s0.data.v@, s0.ncols as int, row as int, j),), #[trigger] at2(self.data.v@, s0.ncols as int, row as int, j))',
                                        'C15.apply_along_row.todo:: forall|r: int, c: int| 0 <= r < s0.nrows && 0 <= c < s0.ncols && (r != row || c >= t_) ==> #[trigger] at2(self.data.v@, s0.ncols as int, r, c) == at2(s0.data.v@, s0.ncols as int, r, c)'],
                          'body_ghost': 'let ghost pre_d = self.data.v@;',
                          'body_start': 'lemma_idx(row as int, t_ as int, s0.nrows as int, s0.ncols as int);',
                          'body_end': ('assert forall|r: int, c: int| 0 <= r < s0.nrows && 0 <= c < s0.ncols && !(r == row && c == t_) implies #[trigger] at2(self.data.v@, s0.ncols as int, r, c) == at2(pre_d, s0.ncols as int, r, c) by '
                                       '{ lemma_idx(r, c, s0.nrows as int, s0.ncols as int); if r * s0.ncols + c == row * s0.ncols + t_ { lemma_idx_inj(r, c, row as int, t_ as int, s0.ncols as int); } } '
                                       'assert forall|j: int| 0 <= j < t_ + 1 implies f.ensures((at2(s0.data.v@, s0.ncols as int, row as int, j),), #[trigger] at2(self.data.v@, s0.ncols as int, row as int, j)) by '
                                       '{ if j < t_ { assert(at2(self.data.v@, s0.ncols as int, row as int, j) == at2(pre_d, s0.ncols as int, row as int, j)); } else { assert(at2(pre_d, s0.ncols as int, row as int, j) == at2(s0.data.v@, s0.ncols as int, row as int, j)); } }')}})
UNITS.append(Unit('C15_apply_row', ('C15', 'C12'), [apply_row], use=core.core_stubs(), types=core.TYPES, type_spec=core.TYPE_SPEC, spec=c15.SPEC, preludes=PRE, broadcast=BC, level='L0', rlimit=100,
                  notes='apply_along_row: every element of the chosen row is replaced by the closure applied to it, every other element and the shape are unchanged'))

# ---------------------------------------------------------------- exact-within-epsilon equality (PartialEq) and the Matrix-level comparisons
EQ_SPEC = r'''
/// element-wise equality within machine epsilon (the PartialEq impls of Vector and Matrix)
pub open spec fn eq_eps(x: Seq<f64>, y: Seq<f64>) -> bool {
    x.len() == y.len() && forall|i: int| 0 <= i < x.len() ==> r_abs(rv(#[trigger] x[i]) - rv(y[i])) <= r_eps()
}
'''
VEQ = VEC + '{impl PartialEq<Vector> for Vector}::'
MEQ = MAT + '{impl PartialEq<Matrix> for Matrix}::'
veq = Fn(VEQ + 'eq', ret='r', level='L1', inherent=True, ensures=['C15.vec_eq.def:: r == eq_eps(self.v@, other.v@)'],
         loops={1: {'iter_name': 'it', 'invariant': ['it.iter.end == self.v@.len()', 'self.v@.len() == other.v@.len()',
                                                     'C15.vec_eq.prefix:: forall|q: int| 0 <= q < i ==> r_abs(rv(#[trigger] self.v@[q]) - rv(other.v@[q])) <= r_eps()']}},
         hints=[('c_epsilon() {', 'post',
                 'proof { assert(!eq_eps(self.v@, other.v@)) by { assert(r_abs(rv(self.v@[i as int]) - rv(other.v@[i as int])) > r_eps()); } }')])
SAME_SHAPE = 'self.nrows == other.nrows && self.ncols == other.ncols'
SHAPE_HINT = ('if self.shape() != other.shape()', 'replace',
              'if ({ let a_ = self.shape(); let b_ = other.shape(); let t_ = a_ != b_; proof { if a_[0] == b_[0] && a_[1] == b_[1] { assert(a_ =~= b_); } '
              'assert(a_@[0] == self.nrows && a_@[1] == self.ncols && b_@[0] == other.nrows && b_@[1] == other.ncols); } t_ })')
mclose = Fn(IM + 'close_to', ret='r', level='L1',
            ensures=['C15.mat_close_to.def:: r == (%s && close_def(self.data.v@, other.data.v@, tol))' % SAME_SHAPE],
            hints=[SHAPE_HINT])
meq = Fn(MEQ + 'eq', ret='r', level='L1', inherent=True,
         ensures=['C15.mat_eq.def:: r == (%s && eq_eps(self.data.v@, other.data.v@))' % SAME_SHAPE],
         hints=[SHAPE_HINT])
UNITS.append(Unit('C15_equality', 'C15', [veq, mclose, meq], use=core.core_stubs() + [vclose], types=core.TYPES, type_spec=core.TYPE_SPEC,
                  spec=c15.SPEC + CLOSE_SPEC + EQ_SPEC, preludes=PRE, broadcast=BC, level='L1',
                  notes='Vector == Vector: same length and every pair within machine epsilon; Matrix::close_to and Matrix == Matrix: same shape (both dimensions) and the Vector-level comparison of the data'))

# ---------------------------------------------------------------- apply_along_col
APPLYC_REQ = ['C15.apply_along_col.pre:: wf(*old(self)) && col < old(self).ncols && forall|x: f64| f.requires((x,))']
APPLYC_ENS = ['C15.apply_along_col.shape:: final(self).nrows == old(self).nrows && final(self).ncols == old(self).ncols && wf(*final(self))',
              'C15.apply_along_col.col:: forall|i: int| 0 <= i < old(self).nrows ==> f.ensures((at2(old(self).data.v@, old(self).ncols as int, i, col as int),), #[trigger] at2(final(self).data.v@, old(self).ncols as int, i, col as int))',
              'C15.apply_along_col.frame:: forall|r: int, c: int| 0 <= r < old(self).nrows && 0 <= c < old(self).ncols && c != col ==> #[trigger] at2(final(self).data.v@, old(self).ncols as int, r, c) == at2(old(self).data.v@, old(self).ncols as int, r, c)']
apply_col = Fn(IM + 'apply_along_col', level='L0', requires=APPLYC_REQ, ensures=APPLYC_ENS,
               rewrites=[('for row in self { row[col] = f(row[col]); }', 'for i_ in 0..self.nrows { let v_ = self[[i_, col]]; self[[i_, col]] = f(v_); }',
                          'R38: `for row in <&mut Matrix>` visits the rows in order - the crate\'s IntoIterator for &mut Matrix is `self.data.chunks_mut(self.ncols)` (fingerprint-checked), whose i-th chunk of a '
                          'well-formed matrix is `self[i]`; element `col` of that row is `self[[i, col]]` (both denote data[i*ncols + col])')],
               pre_body='let ghost s0 = *self;',
               loops={1: {'iter_name': 'tt', 'invariant': ['tt.iter.end == s0.nrows', 'self.nrows == s0.nrows && self.ncols == s0.ncols && wf(*self) && wf(s0)', 'col < s0.ncols', 'forall|x: f64| f.requires((x,))',
                                        'C15.apply_along_col.done:: forall|i: int| 0 <= i < i_ ==> f.ensures((at2(s0.data.v@, s0.ncols as int, i, col as int),), #[trigger] at2(self.data.v@, s0.ncols as int, i, col as int))',
                                        'C15.apply_along_col.todo:: forall|r: int, c: int| 0 <= r < s0.nrows && 0 <= c < s0.ncols && (c != col || r >= i_) ==> #[trigger] at2(self.data.v@, s0.ncols as int, r, c) == at2(s0.data.v@, s0.ncols as int, r, c)'],
                          'body_ghost': 'let ghost pre_d = self.data.v@;',
                          'body_start': 'lemma_idx(i_ as int, col as int, s0.nrows as int, s0.ncols as int);',
                          'body_end': ('assert forall|r: int, c: int| 0 <= r < s0.nrows && 0 <= c < s0.ncols && !(r == i_ && c == col) implies #[trigger] at2(self.data.v@, s0.ncols as int, r, c) == at2(pre_d, s0.ncols as int, r, c) by '
                                       '{ lemma_idx(r, c, s0.nrows as int, s0.ncols as int); if r * s0.ncols + c == i_ * s0.ncols + col { lemma_idx_inj(r, c, i_ as int, col as int, s0.ncols as int); } } '
                                       'assert forall|i: int| 0 <= i < i_ + 1 implies f.ensures((at2(s0.data.v@, s0.ncols as int, i, col as int),), #[trigger] at2(self.data.v@, s0.ncols as int, i, col as int)) by '
                                       '{ if i < i_ { assert(at2(self.data.v@, s0.ncols as int, i, col as int) == at2(pre_d, s0.ncols as int, i, col as int)); } else { assert(at2(pre_d, s0.ncols as int, i, col as int) == at2(s0.data.v@, s0.ncols as int, i, col as int)); } }')}})
UNITS.append(Unit('C15_apply_col', 'C15', [apply_col], use=core.core_stubs(), types=core.TYPES, type_spec=core.TYPE_SPEC, spec=c15.SPEC, preludes=PRE, broadcast=BC, level='L0', rlimit=100,
                  fingerprints=[(MAT + "{impl<'a> IntoIterator for &'a mut Matrix}::into_iter", '{ self.data.chunks_mut(self.ncols) }')],
                  notes='apply_along_col: every element of the chosen column is replaced by the closure applied to it, every other element and the shape are unchanged (row iteration read as in-order rows, rule R38)'))
