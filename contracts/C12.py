"""C12 — broadcast arithmetic follows NumPy semantics (integer shape logic + L0 data-flow)."""
from vc.gen import Fn, Unit
from contracts import core
from contracts import C04 as c04
from contracts.core import VEC, MAT, IM, IV

PRE = ('fax_l0', 'fmeth', 'stdspec')
BC = ('l0', 'ax_vec_from_refl', 'ax_f64_cloned')
B = 'linalg::array::broadcast::'

SPEC = core.CORE_SPEC + r'''
/// NumPy compatibility of two shapes (property C12): every dimension equal, or one of them 1
pub open spec fn compat(m1: Matrix, m2: Matrix) -> bool {
    (m1.nrows == m2.nrows || m1.nrows == 1 || m2.nrows == 1) && (m1.ncols == m2.ncols || m1.ncols == 1 || m2.ncols == 1)
}
pub open spec fn is_invalid(b: Broadcast) -> bool { b is Invalid }
/// what a returned classification tells the leaves about the shapes (derived from the call site in broadcast_*)
pub open spec fn class_ok(m1: Matrix, m2: Matrix, b0: Broadcast, b1: Broadcast) -> bool {
    match (b0, b1) {
        (Broadcast::None, Broadcast::None) => m1.nrows == m2.nrows && m1.ncols == m2.ncols,
        (Broadcast::Hstack(h), Broadcast::None) => h == m2.ncols && m1.ncols == 1 && m1.nrows == m2.nrows,
        (Broadcast::Vstack(v), Broadcast::None) => v == m2.nrows && m1.nrows == 1 && m1.ncols == m2.ncols,
        (Broadcast::None, Broadcast::Hstack(h)) => h == m1.ncols && m2.ncols == 1 && m1.nrows == m2.nrows,
        (Broadcast::None, Broadcast::Vstack(v)) => v == m1.nrows && m2.nrows == 1 && m1.ncols == m2.ncols,
        (Broadcast::Hstack(h), Broadcast::Vstack(v)) => h == m2.ncols && v == m1.nrows && m2.nrows == 1 && m1.ncols == 1,
        (Broadcast::Vstack(v), Broadcast::Hstack(h)) => h == m1.ncols && v == m2.nrows && m1.nrows == 1 && m2.ncols == 1,
        (Broadcast::IsScalar, Broadcast::None) => m1.nrows == 1 && m1.ncols == 1,
        (Broadcast::None, Broadcast::IsScalar) => m2.nrows == 1 && m2.ncols == 1,
        _ => false,
    }
}
'''
TYPES = core.TYPES + [B + '{enum Broadcast}']
classify = Fn(B + 'calc_broadcast_shape', ret='r', valid='compat(*m1, *m2)', rej_clause=False, panics={1: 'REJECT', 2: 'REJECT'},
              decreases='(if m1.nrows == 1 || m1.ncols == 1 { 0int } else { 1int })',
              ensures=['C12.classify.compat:: compat(*m1, *m2) ==> class_ok(*m1, *m2, r[0], r[1])',
                       'C12.classify.incompat:: !compat(*m1, *m2) ==> (r[0] is Invalid && r[1] is Invalid)'])

_core_all = core.core_stubs()
UNITS = [
    Unit('C12_classify', 'C12', [classify], use=_core_all, types=TYPES, type_spec=core.TYPE_SPEC, spec=SPEC, preludes=PRE, broadcast=BC,
         notes='shape classifier: compatible shapes are classified into the leaf that matches their shape case (also through the operand swap); '
               'incompatible shapes panic or yield Invalid'),
]
