"""C12 — broadcast arithmetic follows NumPy semantics (integer shape logic + L0 data-flow)."""
import re
from vc.gen import Fn, Unit
from contracts import core
from contracts import C04 as c04
from contracts import C15c as c15c
from contracts.core import VEC, MAT, IM, IV

PRE = ('fax_l0', 'fmeth', 'stdspec')
BC = ('l0', 'ax_vec_from_refl', 'ax_f64_cloned')
B = 'linalg::array::broadcast::'

SPEC_ONLY = r'''
/// NumPy compatibility of two shapes (property C12): every dimension equal, or one of them 1
pub open spec fn compat(m1: Matrix, m2: Matrix) -> bool {
    (m1.nrows == m2.nrows || m1.nrows == 1 || m2.nrows == 1) && (m1.ncols == m2.ncols || m1.ncols == 1 || m2.ncols == 1)
}
pub open spec fn is_invalid(b: Broadcast) -> bool { b is Invalid }
/// what a returned classification tells the leaves about the shapes (derived from the call site in broadcast_*)
pub open spec fn class_ok(m1: Matrix, m2: Matrix, b0: Broadcast, b1: Broadcast) -> bool {
    match (b0, b1) {
        (Broadcast::None, Broadcast::None) => m1.nrows == m2.nrows && m1.ncols == m2.ncols,
        (Broadcast::Hstack(h), Broadcast::None) => h == m2.ncols && m1.ncols == 1 && m1.nrows == m2.nrows,
        (Broadcast::Vstack(v), Broadcast::None) => v == m2.nrows && m1.nrows == 1 && m1.ncols == m2.ncols,
        (Broadcast::None, Broadcast::Hstack(h)) => h == m1.ncols && m2.ncols == 1 && m1.nrows == m2.nrows,
        (Broadcast::None, Broadcast::Vstack(v)) => v == m1.nrows && m2.nrows == 1 && m1.ncols == m2.ncols,
        (Broadcast::Hstack(h), Broadcast::Vstack(v)) => h == m2.ncols && v == m1.nrows && m2.nrows == 1 && m1.ncols == 1,
        (Broadcast::Vstack(v), Broadcast::Hstack(h)) => h == m1.ncols && v == m2.nrows && m1.nrows == 1 && m2.ncols == 1,
        (Broadcast::IsScalar, Broadcast::None) => m1.nrows == 1 && m1.ncols == 1,
        (Broadcast::None, Broadcast::IsScalar) => m2.nrows == 1 && m2.ncols == 1,
        _ => false,
    }
}
'''
SPEC = core.CORE_SPEC + SPEC_ONLY
TYPES = core.TYPES + [B + '{enum Broadcast}']
classify = Fn(B + 'calc_broadcast_shape', ret='r', valid='compat(*m1, *m2)', rej_clause=False, panics={1: 'REJECT', 2: 'REJECT'},
              decreases='(if m1.nrows == 1 || m1.ncols == 1 { 0int } else { 1int })',
              ensures=['C12.classify.compat:: compat(*m1, *m2) ==> class_ok(*m1, *m2, r[0], r[1])',
                       'C12.classify.incompat:: !compat(*m1, *m2) ==> (r[0] is Invalid && r[1] is Invalid)'])

_core_all = core.core_stubs()
UNITS = [
    Unit('C12_classify', 'C12', [classify], use=_core_all, types=TYPES, type_spec=core.TYPE_SPEC, spec=SPEC, preludes=PRE, broadcast=BC,
         notes='shape classifier: compatible shapes are classified into the leaf that matches their shape case (also through the operand swap); '
               'incompatible shapes panic or yield Invalid'),
]

# ---------------------------------------------------------------- the broadcast leaves
OPS = [('add', '+', 'f_add', 'Add'), ('sub', '-', 'f_sub', 'Sub'), ('mul', '*', 'f_mul', 'Mul'), ('div', '/', 'f_div', 'Div')]

LEAF_SPEC = r'''
pub open spec fn umax(a: usize, b: usize) -> usize { if a >= b { a } else { b } }
/// operand entry used at result position (i,j): index 0 along a broadcast dimension (property C12)
pub open spec fn bc(m: Matrix, i: int, j: int) -> f64 {
    at2(m.data.v@, m.ncols as int, if m.nrows == 1 { 0 } else { i }, if m.ncols == 1 { 0 } else { j })
}
pub open spec fn row_same(a: Matrix, b: Matrix, lo: int, hi: int) -> bool {
    forall|r: int, c: int| lo <= r < hi && 0 <= c < a.ncols ==> #[trigger] at2(a.data.v@, a.ncols as int, r, c) == at2(b.data.v@, b.ncols as int, r, c)
}
'''


def helper(name, stmt_doc, entry):
    return ('// statement outlined by rule R27 (its iterator adapters are outside Verus): `%s`  -- ASSUMED contract\n'
            '#[verifier::external_body]\n'
            'pub fn %s(new: &mut Matrix, i: usize, src: &Matrix)\n'
            '    requires wf(*old(new)), wf(*src), i < old(new).nrows, src.nrows >= 1, src.ncols == old(new).ncols\n'
            '    ensures final(new).nrows == old(new).nrows, final(new).ncols == old(new).ncols, wf(*final(new)),\n'
            '        forall|j: int| 0 <= j < old(new).ncols ==> #[trigger] at2(final(new).data.v@, old(new).ncols as int, i as int, j) == %s,\n'
            '        forall|r: int, c: int| 0 <= r < old(new).nrows && r != i && 0 <= c < old(new).ncols ==> #[trigger] at2(final(new).data.v@, old(new).ncols as int, r, c) == at2(old(new).data.v@, old(new).ncols as int, r, c)\n'
            '{ unimplemented!() }\n' % (stmt_doc, name, entry))


def bfn(name, sym, f, tr):
    E = lambda a, b: '%s(%s, %s)' % (f, a, b)
    spec = ''
    NEWSHAPE = lambda m: 'new.nrows == %s.nrows && new.ncols == %s.ncols && wf(new)' % (m, m)
    ENTRY = 'at2(new.data.v@, new.ncols as int, r, c) == ' + E('bc(*m1, r, c)', 'bc(*m2, r, c)')
    DONE = lambda hi: 'forall|r: int, c: int| 0 <= r < %s && 0 <= c < new.ncols ==> #[trigger] %s' % (hi, ENTRY)
    ROWDONE = lambda hi: 'forall|c: int| 0 <= c < %s ==> #[trigger] at2(new.data.v@, new.ncols as int, i as int, c) == %s' % (hi, E('bc(*m1, i as int, c)', 'bc(*m2, i as int, c)'))

    def hloop(ctx, base, idxm):
        return {'invariant': [ctx, NEWSHAPE(base), 'C12.leaf.h.done:: ' + DONE('i'), 'C12.leaf.h.todo:: row_same(new, *%s, i as int, new.nrows as int)' % base],
                'body_ghost': 'let ghost pre_new = new;',
                'body_start': 'lemma_idx(i as int, 0, %s.nrows as int, %s.ncols as int);' % (idxm, idxm),
                'body_end': ('assert forall|r: int, c: int| 0 <= r < i + 1 && 0 <= c < new.ncols implies #[trigger] %s by { if r == i { assert(at2(pre_new.data.v@, pre_new.ncols as int, r, c) == at2(%s.data.v@, %s.ncols as int, r, c)); } else { assert(at2(pre_new.data.v@, pre_new.ncols as int, r, c) == at2(new.data.v@, new.ncols as int, r, c)); } } '
                             'assert forall|r: int, c: int| i + 1 <= r < new.nrows && 0 <= c < new.ncols implies #[trigger] at2(new.data.v@, new.ncols as int, r, c) == at2(%s.data.v@, %s.ncols as int, r, c) by { assert(at2(pre_new.data.v@, pre_new.ncols as int, r, c) == at2(%s.data.v@, %s.ncols as int, r, c)); }')
                            % (ENTRY, base, base, base, base, base, base)}

    def vloops(ctx, base, other):
        outer = {'iter_name': 'it', 'invariant': ['it.iter.end == %s.nrows' % base, ctx, NEWSHAPE(base), 'C12.leaf.v.done:: ' + DONE('i'), 'C12.leaf.v.todo:: row_same(new, *%s, i as int, new.nrows as int)' % base]}
        inner = {'iter_name': 'tt', 'invariant': ['tt.iter.end == new.ncols', ctx, NEWSHAPE(base), '0 <= i < new.nrows', 'C12.leaf.v.done.t:: ' + DONE('i'),
                                                   'C12.leaf.v.todo.t:: row_same(new, *%s, i as int + 1, new.nrows as int)' % base,
                                                   'C12.leaf.v.row:: ' + ROWDONE('t_'),
                                                   'C12.leaf.v.row_rest:: forall|c: int| t_ <= c < new.ncols ==> #[trigger] at2(new.data.v@, new.ncols as int, i as int, c) == at2(%s.data.v@, %s.ncols as int, i as int, c)' % (base, base)],
                 'body_ghost': 'let ghost pre_new = new;',
                 'body_start': 'lemma_idx(i as int, t_ as int, new.nrows as int, new.ncols as int); lemma_idx(0, t_ as int, %s.nrows as int, %s.ncols as int);' % (other, other),
                 'body_end': ('assert forall|r: int, c: int| 0 <= r < new.nrows && 0 <= c < new.ncols && !(r == i && c == t_) implies #[trigger] at2(new.data.v@, new.ncols as int, r, c) == at2(pre_new.data.v@, new.ncols as int, r, c) by '
                              '{ lemma_idx(r, c, new.nrows as int, new.ncols as int); if r * new.ncols + c == i * new.ncols + t_ { lemma_idx_inj(r, c, i as int, t_ as int, new.ncols as int); } } '
                              'assert forall|r: int, c: int| 0 <= r < i && 0 <= c < new.ncols implies #[trigger] %s by { assert(at2(pre_new.data.v@, new.ncols as int, r, c) == at2(new.data.v@, new.ncols as int, r, c)); } '
                              'assert forall|c: int| 0 <= c < t_ + 1 implies #[trigger] at2(new.data.v@, new.ncols as int, i as int, c) == %s by { if c < t_ { assert(at2(pre_new.data.v@, new.ncols as int, i as int, c) == at2(new.data.v@, new.ncols as int, i as int, c)); } '
                              'else { assert(at2(pre_new.data.v@, new.ncols as int, i as int, c) == at2(%s.data.v@, %s.ncols as int, i as int, c)); } } '
                              'assert forall|c: int| t_ + 1 <= c < new.ncols implies #[trigger] at2(new.data.v@, new.ncols as int, i as int, c) == at2(%s.data.v@, %s.ncols as int, i as int, c) by { assert(at2(pre_new.data.v@, new.ncols as int, i as int, c) == at2(%s.data.v@, %s.ncols as int, i as int, c)); } '
                              'assert forall|r: int, c: int| i + 1 <= r < new.nrows && 0 <= c < new.ncols implies #[trigger] at2(new.data.v@, new.ncols as int, r, c) == at2(%s.data.v@, %s.ncols as int, r, c) by { assert(at2(pre_new.data.v@, new.ncols as int, r, c) == at2(%s.data.v@, %s.ncols as int, r, c)); }')
                             % (ENTRY, E('bc(*m1, i as int, c)', 'bc(*m2, i as int, c)'), base, base, base, base, base, base, base, base, base, base)}
        return outer, inner

    vlo, vli = vloops('wf(*m1) && wf(*m2) && m1.nrows == 1 && m1.ncols == m2.ncols', 'm2', 'm1')
    vro, vri = vloops('wf(*m1) && wf(*m2) && m2.nrows == 1 && m1.ncols == m2.ncols', 'm1', 'm2')
    loops = {
        1: hloop('wf(*m1) && wf(*m2) && m1.ncols == 1 && m1.nrows == m2.nrows', 'm2', 'm1'),
        2: vlo, 3: vli,
        4: hloop('wf(*m1) && wf(*m2) && m2.ncols == 1 && m1.nrows == m2.nrows', 'm1', 'm2'),
        5: vro, 6: vri,
    }
    for base, (a, b_) in ((7, ('m1', 'm2')), (9, ('m2', 'm1'))):
        shp = 'wf(*m1) && wf(*m2) && %s.ncols == 1 && %s.nrows == 1 && new.nrows == %s.nrows && new.ncols == %s.ncols && wf(new)' % (a, b_, a, b_)
        lem = 'lemma_idx(i as int, 0, %s.nrows as int, %s.ncols as int); lemma_idx(0, j as int, %s.nrows as int, %s.ncols as int);' % (a, a, b_, b_)
        loops[base] = {'iter_name': 'it', 'invariant': ['it.iter.end == new.nrows', shp, 'C12.leaf.hv.rows:: ' + DONE('i')]}
        loops[base + 1] = {'iter_name': 'jt', 'invariant': ['jt.iter.end == new.ncols', shp, '0 <= i < new.nrows', 'C12.leaf.hv.rows.j:: ' + DONE('i'),
                                         'C12.leaf.hv.row:: forall|c: int| 0 <= c < j ==> #[trigger] at2(new.data.v@, new.ncols as int, i as int, c) == ' + E('bc(*m1, i as int, c)', 'bc(*m2, i as int, c)')],
                           'body_ghost': 'let ghost pre_new = new;',
                           'body_start': 'lemma_idx(i as int, j as int, new.nrows as int, new.ncols as int); lemma_row(i as int, new.nrows as int, new.ncols as int); ' + lem,
                           'body_end': ('assert forall|r: int, c: int| 0 <= r < new.nrows && 0 <= c < new.ncols && !(r == i && c == j) implies #[trigger] at2(new.data.v@, new.ncols as int, r, c) == at2(pre_new.data.v@, new.ncols as int, r, c) by '
                                        '{ lemma_idx(r, c, new.nrows as int, new.ncols as int); lemma_row(i as int, new.nrows as int, new.ncols as int); if r * new.ncols + c == i * new.ncols + j { lemma_idx_inj(r, c, i as int, j as int, new.ncols as int); } } '
                                        'assert forall|r: int, c: int| 0 <= r < i && 0 <= c < new.ncols implies #[trigger] %s by { assert(at2(pre_new.data.v@, new.ncols as int, r, c) == at2(new.data.v@, new.ncols as int, r, c)); } '
                                        'assert forall|c: int| 0 <= c < j + 1 implies #[trigger] at2(new.data.v@, new.ncols as int, i as int, c) == %s by { if c < j { assert(at2(pre_new.data.v@, new.ncols as int, i as int, c) == at2(new.data.v@, new.ncols as int, i as int, c)); } }') % (ENTRY, E('bc(*m1, i as int, c)', 'bc(*m2, i as int, c)'))}
    panics = {k: 'DEAD' for k in range(1, 16)}
    panics[16] = 'REJECT'
    VALID = 'compat(*m1, *m2)'
    fn = Fn(B + 'broadcast_' + name, ret='res', valid=VALID, panics=panics, requires=['C12.wf:: wf(*m1) && wf(*m2) && m1.nrows >= 1 && m1.ncols >= 1 && m2.nrows >= 1 && m2.ncols >= 1',
                      'C12.machine:: umax(m1.nrows, m2.nrows) * umax(m1.ncols, m2.ncols) <= i32max()'],
            ensures=['C12.valid:: ' + VALID,
                     'C12.shape:: res.nrows == umax(m1.nrows, m2.nrows) && res.ncols == umax(m1.ncols, m2.ncols) && wf(res)',
                     'C12.entry:: forall|r: int, c: int| 0 <= r < res.nrows && 0 <= c < res.ncols ==> #[trigger] at2(res.data.v@, res.ncols as int, r, c) == ' + E('bc(*m1, r, c)', 'bc(*m2, r, c)')],
            rewrites=[('new[i].iter_mut().zip(&m1[0]).for_each(|(x, y)| *x = y %s *x);' % sym,
                       'for t_ in 0..new.ncols { let y_ = m1[[0, t_]]; let x_ = new[[i, t_]]; new[[i, t_]] = y_ %s x_; }' % sym,
                       'R37b: `A.iter_mut().zip(B).for_each(|(x, y)| *x = E)` assigns E to every element of the row slice A in order, y running over B; the two rows have equal length here '
                       '(asserted from the classifier), element t of `new[i]` / `m1[0]` is `new[[i, t]]` / `m1[[0, t]]`'),
                      ('new[i].iter_mut().zip(&m2[0]).for_each(|(x, y)| *x = *x %s y);' % sym,
                       'for t_ in 0..new.ncols { let y_ = m2[[0, t_]]; let x_ = new[[i, t_]]; new[[i, t_]] = x_ %s y_; }' % sym, 'R37b'),
                      (r'\b(m[12])\[0\]\[0\]\s*%s\s*(m[12])\b(?!\s*\[)' % re.escape(sym),
                       (r'({ proof { lemma_row(0, \1.nrows as int, \1.ncols as int); assert(\1.data.v@.subrange(0 * \1.ncols, (0 + 1) * \1.ncols).len() == \1.ncols); } let sm_ = %s::%s(\1[0][0], \2); proof { assert forall|r: int, c: int| 0 <= r < sm_.nrows && 0 <= c < sm_.ncols implies #[trigger] at2(sm_.data.v@, sm_.ncols as int, r, c) == ' % (tr, name))
                       + E('bc(*m1, r, c)', 'bc(*m2, r, c)') + ' by { lemma_idx(r, c, sm_.nrows as int, sm_.ncols as int); } } sm_ })',
                       'R17: `scalar-entry op &Matrix` written as the trait call it desugars to (Verus ICE on the operator form), result bound for the entry-wise proof hint', 're?'),
                      (r'\b(m[12])\s*%s\s*(m[12])\[0\]\[0\]' % re.escape(sym),
                       (r'({ proof { lemma_row(0, \2.nrows as int, \2.ncols as int); assert(\2.data.v@.subrange(0 * \2.ncols, (0 + 1) * \2.ncols).len() == \2.ncols); } let ms_ = %s::%s(\1, \2[0][0]); proof { assert forall|r: int, c: int| 0 <= r < ms_.nrows && 0 <= c < ms_.ncols implies #[trigger] at2(ms_.data.v@, ms_.ncols as int, r, c) == ' % (tr, name))
                       + E('bc(*m1, r, c)', 'bc(*m2, r, c)') + ' by { lemma_idx(r, c, ms_.nrows as int, ms_.ncols as int); } } ms_ })',
                       'R17 (matrix op scalar-entry)', 're?')],
            closures={1: {'params': 'x: f64', 'ret': 'o: f64', 'ensures': ['o == ' + E('at2(m1.data.v@, m1.ncols as int, i as int, 0)', 'x')]},
                      2: {'params': 'x: f64', 'ret': 'o: f64', 'ensures': ['o == ' + E('x', 'at2(m2.data.v@, m2.ncols as int, i as int, 0)')]}},
            loops=loops,
            hints=[('matmat%s(m1, m2)' % name, 'replace',
                    '({ let mm_ = matmat%s(m1, m2); proof { assert forall|r: int, c: int| 0 <= r < mm_.nrows && 0 <= c < mm_.ncols implies #[trigger] at2(mm_.data.v@, mm_.ncols as int, r, c) == %s by { lemma_idx(r, c, mm_.nrows as int, mm_.ncols as int); } } mm_ })'
                    % (name, E('bc(*m1, r, c)', 'bc(*m2, r, c)')))])
    return fn, spec


BFNS = {}
HELPERS = ''
for name, sym, f, tr in OPS:
    fn, sp = bfn(name, sym, f, tr)
    BFNS[name] = fn
    HELPERS += sp

_mat_scalar = [x for x in c04.MATRIX_IMPLS if ('<&Matrix> for f64}' in x.path or '<f64> for &Matrix}' in x.path)]
for name, sym, f, tr in OPS:
    UNITS.append(Unit('C12_leaves_' + name, 'C12', [BFNS[name]], use=_core_all + [classify, c15c.apply_row, c04.MATMAT['matmat' + name]] + _mat_scalar,
                      types=TYPES, type_spec=core.TYPE_SPEC, spec=SPEC + LEAF_SPEC + HELPERS, preludes=PRE, broadcast=BC, rlimit=200,
                      notes='broadcast_%s: result shape = element-wise maximum, entry (i,j) = left[i|0][j|0] %s right[i|0][j|0] with operand order kept, incompatible shapes rejected; '
                            'the V-stack row statements (zip / for_each) are verified as their defining loops (rule R37b), the H-stack leaves use the proved contract of apply_along_row' % (name, sym)))

# ---------------------------------------------------------------- the 48 broadcasting operator impls (Matrix∘Matrix, Matrix∘Vector, Vector∘Matrix)
IMPL_SPEC = r'''
/// the 1 x n Matrix a Vector operand becomes (`Vector::to_matrix`, contract in C15_core)
pub open spec fn as_row(v: Vector) -> Matrix { Matrix { data: v, nrows: 1, ncols: v.v@.len() as usize } }
pub open spec fn bc_pre(a: Matrix, b: Matrix) -> bool {
    wf(a) && wf(b) && a.nrows >= 1 && a.ncols >= 1 && b.nrows >= 1 && b.ncols >= 1 && umax(a.nrows, b.nrows) * umax(a.ncols, b.ncols) <= i32max()
}
'''
OP_IMPLS = {name: [] for name, _, _, _ in OPS}
TOOWNED = ('.to_owned().to_matrix()', '.clone().to_matrix()',
           'R28: `to_owned()` on `&Vector` is the blanket `impl<T: Clone> ToOwned for T`, i.e. `clone()` (std; Verus has no spec for ToOwned)')
for name, sym, f, tr in OPS:
    for kind, pairs in (('mm', [('Matrix', 'Matrix'), ('Matrix', '&Matrix'), ('&Matrix', 'Matrix'), ('&Matrix', '&Matrix')]),
                        ('mv', [('Matrix', 'Vector'), ('Matrix', '&Vector'), ('&Matrix', 'Vector'), ('&Matrix', '&Vector')]),
                        ('vm', [('Vector', 'Matrix'), ('Vector', '&Matrix'), ('&Vector', 'Matrix'), ('&Vector', '&Matrix')])):
        for self_ty, rhs_ty in pairs:
            hdr = 'impl %s<%s> for %s' % (tr, rhs_ty, self_ty)
            tag = 'C12.impl.%s<%s>for%s' % (tr, rhs_ty, self_ty)
            s_ = '(*self)' if self_ty.startswith('&') else 'self'
            o_ = '(*other)' if rhs_ty.startswith('&') else 'other'
            a = 'as_row(%s)' % s_ if 'Vector' in self_ty else s_
            b = 'as_row(%s)' % o_ if 'Vector' in rhs_ty else o_
            rw = [TOOWNED] if (kind == 'mv' and rhs_ty == '&Vector') or (kind == 'vm' and self_ty == '&Vector') else []
            OP_IMPLS[name].append(Fn(MAT + '{%s}::%s' % (hdr, name), ret='r', valid='compat(%s, %s)' % (a, b), rewrites=rw,
                                     requires=[tag + '.pre:: bc_pre(%s, %s)' % (a, b)],
                                     ensures=[tag + '.valid:: compat(%s, %s)' % (a, b),
                                              tag + '.shape:: r.nrows == umax(%s.nrows, %s.nrows) && r.ncols == umax(%s.ncols, %s.ncols) && wf(r)' % (a, b, a, b),
                                              tag + '.entry:: forall|i: int, j: int| 0 <= i < r.nrows && 0 <= j < r.ncols ==> #[trigger] at2(r.data.v@, r.ncols as int, i, j) == %s(bc(%s, i, j), bc(%s, i, j))' % (f, a, b)]))
    UNITS.append(Unit('C12_ops_' + name, 'C12', OP_IMPLS[name], use=_core_all + [BFNS[name]], types=TYPES, type_spec=core.TYPE_SPEC,
                      spec=SPEC + LEAF_SPEC + IMPL_SPEC, preludes=PRE, broadcast=BC,
                      notes='the 12 `%s` operator impls that broadcast (Matrix%sMatrix, Matrix%sVector, Vector%sMatrix; owned and borrowed): each is its '
                            'broadcast_%s leaf on the operands in the written order, a Vector operand entering as a 1 x n row' % (sym, sym, sym, sym, name)))
