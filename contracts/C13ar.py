"""C13 — autoregressive model: Yule-Walker fit as a composition (mean, centring, autocorrelations, Toeplitz system solved through
invert_matrix and a matrix-vector product, reversed storage) and the forecasting recursion on the centred history (L1)."""
from vc.gen import Fn, Unit
from contracts import core
from contracts import C04 as c04
from contracts import C05 as c05
from contracts import C08 as c08
from contracts import C13 as c13
from contracts import C01solve as s1

PRE = ('fax_l0', 'fmeth', 'stdspec', 'l1')
BC = ('l0', 'l1_arith', 'l1_fun', 'ax_vec_from_refl', 'ax_f64_cloned')
A = 'timeseries::autoregressive::'
U = 'linalg::utils::'

SPEC = c13.SPEC + c13.SPEC2 + c05.SPEC + c04.RED_SPEC + s1.SPEC + s1.SYS_SPEC + s1.INV_SPEC + r'''
pub open spec fn is_toeplitz(m: Seq<f64>, x: Seq<f64>, n: int) -> bool {
    m.len() == n * n && forall|i: int, j: int| 0 <= i < n && 0 <= j < n ==> #[trigger] at2(m, n, i, j) == x[iabs(i - j)]
}
/// the value acf returns for series s at lag t (its contract, as a relation)
pub open spec fn acf_rel(s: Seq<f64>, t: int, v: f64) -> bool { acov_def(s, 0) != 0real ==> rv(v) == acov_def(s, t) / acov_def(s, 0) }
/// Yule-Walker fit: intercept = mean; with the autocorrelations rho_0..rho_p of the centred data, phi = R^-1 (rho_1..rho_p) for the
/// Toeplitz matrix R of rho_0..rho_{p-1}; stored oldest lag first (property C13)
pub open spec fn ar_witness(data: Seq<f64>, p: int, coeffs: Seq<f64>, intercept: f64, adj: Seq<f64>, ac: Seq<f64>, tm: Seq<f64>, rinv: Seq<f64>, phi: Seq<f64>) -> bool {
    adj.len() == data.len() && (forall|i: int| 0 <= i < data.len() ==> #[trigger] adj[i] == f_sub(data[i], intercept))
    && ac.len() == p + 1 && (forall|t: int| 0 <= t <= p ==> acf_rel(adj, t, #[trigger] ac[t]))
    && is_toeplitz(tm, ac.subrange(0, p), p) && inverse_of(tm, p, rinv)
    && is_product(phi, rinv, p, false, ac.subrange(1, p + 1), 1, false, p, p, 1)
    && coeffs == phi.reverse()
}
pub open spec fn ar_fitted(data: Seq<f64>, p: int, coeffs: Seq<f64>, intercept: f64) -> bool {
    (data.len() as real) * rv(intercept) == rsum(data, data.len() as int)
    && exists|adj: Seq<f64>, ac: Seq<f64>, tm: Seq<f64>, rinv: Seq<f64>, phi: Seq<f64>| #[trigger] ar_witness(data, p, coeffs, intercept, adj, ac, tm, rinv, phi)
}
'''
toeplitz = Fn(U + 'toeplitz', ret='v', level='L0',
              requires=['C15.toeplitz.machine:: x@.len() * x@.len() <= 0x7fff_ffff'],
              ensures=['C15.toeplitz.entries:: is_toeplitz(v@, x@, x@.len() as int)'],
              loops={1: {'invariant': ['n == x@.len()', 'n * n <= 0x7fff_ffff', 'n <= 0x7fff_ffff', 'v@.len() == n * n',
                                       'C15.toeplitz.rows:: forall|r: int, c: int| 0 <= r < i && 0 <= c < n ==> #[trigger] at2(v@, n as int, r, c) == x@[iabs(r - c)]']},
                     2: {'iter_name': 'jt', 'invariant': ['jt.iter.end == n', 'n == x@.len()', 'n * n <= 0x7fff_ffff', 'n <= 0x7fff_ffff', 'v@.len() == n * n', '0 <= i < n',
                                       'C15.toeplitz.rows.j:: forall|r: int, c: int| 0 <= r < i && 0 <= c < n ==> #[trigger] at2(v@, n as int, r, c) == x@[iabs(r - c)]',
                                       'C15.toeplitz.row:: forall|c: int| 0 <= c < j ==> #[trigger] at2(v@, n as int, i as int, c) == x@[iabs(i - c)]'],
                         'body_ghost': 'let ghost pre_v = v@;',
                         'body_start': 'lemma_idx(i as int, j as int, n as int, n as int); assert(n <= 0x7fff_ffff) by(nonlinear_arith) requires n * n <= 0x7fff_ffff, n >= 0;',
                         'body_end': ('assert forall|r: int, c: int| 0 <= r < n && 0 <= c < n && !(r == i && c == j) implies #[trigger] at2(v@, n as int, r, c) == at2(pre_v, n as int, r, c) by '
                                      '{ lemma_idx(r, c, n as int, n as int); if r * n + c == i * n + j { lemma_idx_inj(r, c, i as int, j as int, n as int); } }')}},
              hints=[('let mut v = vec![0.; n * n];', 'after', 'proof { assert(n <= 0x7fff_ffff) by(nonlinear_arith) requires n * n <= 0x7fff_ffff, n >= 0; }')])
UNITS = [
    Unit('C15_toeplitz', ('C15', 'C13'), [toeplitz], types=core.TYPES, type_spec=core.TYPE_SPEC, spec=SPEC, preludes=PRE, broadcast=BC, level='L0',
         notes='toeplitz: entry (i,j) of the n x n result is x[|i-j|] (i32 index arithmetic within range)'),
]

# ---------------------------------------------------------------- AR: fit / predict_one / predict
AR_STRUCT = A + '{struct AR}'
IA = A + '{impl AR}::'
DEREF = ('R17: `&f64 op f64` is std\'s forwarding impl `*x op rhs` (Verus ICE on a reference operand)')
fit = Fn(IA + 'fit', ret='r', level='L1',
         requires=['C13.fit.machine:: 0 < old(self).p && old(self).p < data@.len() <= 0x3fff_ffff && (old(self).p + 1) * (old(self).p + 1) <= 0x7fff_ffff'],
         ensures=['C13.fit.yule_walker:: ar_fitted(data@, old(self).p as int, r.coeffs@, r.intercept)',
                  'C13.fit.order:: r.p == old(self).p', 'C13.fit.ret:: *final(r) == *final(self)'],
         rewrites=[('x - self.intercept', '*x - self.intercept', DEREF)],
         closures={1: {'params': 'x: &f64', 'ret': 'o: f64', 'ensures': ['o == f_sub(*x, self.intercept)']},
                   2: {'params': 't: usize', 'ret': 'o: f64', 'requires': ['t <= self.p', 'self.p < adjusted@.len()', 'adjusted@.len() <= 0x3fff_ffff'], 'ensures': ['acf_rel(adjusted@, t as int, o)']}},
         hints=[('let r = &autocorrelations[1..];', 'before',
                 'let ghost p_ = self.p as int; proof { assert(adjusted@.len() == data@.len()); assert(autocorrelations@.len() == p_ + 1); '
                 'assert forall|t: int| 0 <= t <= p_ implies acf_rel(adjusted@, t, #[trigger] autocorrelations@[t]) by { } }'),
                ('let r_matrix =', 'before', 'proof { assert(n == p_); assert(n * n <= 0x7fff_ffff) by(nonlinear_arith) requires (n + 1) * (n + 1) <= 0x7fff_ffff, n >= 0; assert(n * n > 0) by(nonlinear_arith) requires n > 0; }'),
                ('let coeffs = matmul(', 'before', 'proof { lemma_mul_div(n as int, n as int); lemma_mul_div(n as int, 1); assert(r@.len() == n * 1); }'),
                ('self.coeffs = coeffs;', 'before', 'let ghost phi_ = coeffs@; let ghost tm_ = toep_;'),
                ('\n                self\n', 'replace',
                 '\n proof { assert(ar_witness(data@, p_, self.coeffs@, self.intercept, adjusted@, autocorrelations@, tm_, r_matrix@, phi_)); }\n self\n')],
         )
# the Toeplitz matrix is a temporary: bind it so the proof can name it
fit.rewrites.append(('invert_matrix(&toeplitz(&autocorrelations[..n]))', '({ let toep = toeplitz(&autocorrelations[..n]); proof { toep_ = toep@; } invert_matrix(&toep) })',
                     'R31: temporary bound to a name'))
fit.hints.insert(0, ('let adjusted =', 'before', 'let ghost mut toep_: Seq<f64> = Seq::empty();'))

P1V = 'true'
predict_one = Fn(IA + 'predict_one', ret='r', level='L1',
                 ensures=['C13.predict_one.window:: data@.len() >= self.coeffs@.len() ==> rv(r) == dsum(data@.subrange(data@.len() - self.coeffs@.len(), data@.len() as int), self.coeffs@, self.coeffs@.len() as int)',
                          'C13.predict_one.short:: data@.len() < self.coeffs@.len() ==> rv(r) == dsum(data@, self.coeffs@.subrange(0, data@.len() as int), data@.len() as int)'])
UNITS.append(Unit('C13_ar', 'C13', [fit, predict_one],
                  use=[c08.mean, c13.acf, toeplitz, s1.invert, c05.matmul, c04.dot], types=core.TYPES + [AR_STRUCT], type_spec=core.TYPE_SPEC,
                  spec=SPEC, preludes=PRE, broadcast=BC, level='L1', rlimit=100,
                  notes='AR::fit is the Yule-Walker composition (mean, centring, autocorrelations 0..p, Toeplitz system through invert_matrix and a matrix-vector product, reversed storage) '
                        'and depends on the data only; predict_one is the dot product of the last p values with the stored coefficients'))

AR_PRED_SPEC = r'''
/// the forecasting recursion on the centred history (property C13): d starts with the last p centred observations,
/// every further entry is the dot product of the p entries before it with the stored coefficients
pub open spec fn ar_path(data: Seq<f64>, coeffs: Seq<f64>, intercept: f64, n: int, d: Seq<f64>) -> bool {
    let cl = coeffs.len() as int;
    d.len() == cl + n
    && (forall|i: int| 0 <= i < cl ==> #[trigger] d[i] == f_sub(data[data.len() - cl + i], intercept))
    && (forall|i: int| cl <= i < cl + n ==> rv(#[trigger] d[i]) == dsum(d.subrange(i - cl, i), coeffs, cl))
}
pub open spec fn ar_forecast(data: Seq<f64>, coeffs: Seq<f64>, intercept: f64, n: int, r: Seq<f64>) -> bool {
    exists|d: Seq<f64>| #[trigger] ar_path(data, coeffs, intercept, n, d) && r.len() == n
        && (forall|j: int| 0 <= j < n ==> #[trigger] r[j] == f_add(d[coeffs.len() + j], intercept))
}
'''
predict = Fn(IA + 'predict', ret='r', level='L1',
             requires=['C13.predict.history:: self.coeffs@.len() <= data@.len()', 'C13.predict.machine:: self.coeffs@.len() + n <= 0x7fff_ffff'],
             ensures=['C13.predict.recursion:: ar_forecast(data@, self.coeffs@, self.intercept, n as int, r@)'],
             rewrites=[('x - self.intercept', '*x - self.intercept', DEREF),
                       ('d.extend(forecasts);', 'd.extend_from_slice(&forecasts);', 'R36: `Vec::extend` with a `Vec<f64>` argument appends its elements in order, i.e. `extend_from_slice(&v)` (std; no vstd spec for `extend`)'),
                       ('.collect();\n', '.collect::<Vec<f64>>();\n', 'R26b: collect target named (the annotated type of the binding)'),
                       ('d[d.len() - n..].to_vec().iter().map(|x| x + self.intercept).collect()',
                        '({ let ghost dfin_ = d@; let tv_ = d[d.len() - n..].to_vec(); '
                        'proof { assert(tv_@.len() == n); assert forall|j: int| 0 <= j < n implies #[trigger] tv_@[j] == dfin_[self.coeffs@.len() + j] by { assert(cloned::<f64>(d@.subrange(d@.len() - n, d@.len() as int)[j], tv_@[j])); } } '
                        'let out_: Vec<f64> = tv_.iter().map(|x| *x + self.intercept).collect::<Vec<f64>>(); '
                        'proof { assert(ar_path(data@, self.coeffs@, self.intercept, n as int, dfin_)); assert(out_@.len() == n); '
                        'assert forall|j: int| 0 <= j < n implies #[trigger] out_@[j] == f_add(dfin_[self.coeffs@.len() + j], self.intercept) by { } '
                        'assert(ar_forecast(data@, self.coeffs@, self.intercept, n as int, out_@)); } out_ })',
                        'R31 + R17 + R26b: result bound to a name (collect target = the return type, `&f64 + f64` as `*x + rhs`)')],
             closures={1: {'params': 'x: &f64', 'ret': 'o: f64', 'ensures': ['o == f_sub(*x, self.intercept)']},
                       2: {'params': 'x: &f64', 'ret': 'o: f64', 'ensures': ['o == f_add(*x, self.intercept)']}},
             loops={1: {'iter_name': 'it',
                        'invariant': ['it.iter.end == self.coeffs@.len() + n', 'd@.len() == self.coeffs@.len() + n', 'self.coeffs@.len() <= data@.len()',
                                      'C13.predict.history.inv:: forall|k: int| 0 <= k < self.coeffs@.len() ==> #[trigger] d@[k] == f_sub(data@[data@.len() - self.coeffs@.len() + k], self.intercept)',
                                      'C13.predict.recursion.inv:: forall|k: int| self.coeffs@.len() <= k < i ==> rv(#[trigger] d@[k]) == dsum(d@.subrange(k - self.coeffs@.len(), k), self.coeffs@, self.coeffs@.len() as int)'],
                        'body_ghost': 'let ghost pre_d = d@;',
                        'body_end': ('assert(pre_d.subrange(0, i as int).subrange(i - self.coeffs@.len(), i as int) =~= pre_d.subrange(i - self.coeffs@.len(), i as int)); '
                                     'assert forall|k: int| self.coeffs@.len() <= k < i + 1 implies rv(#[trigger] d@[k]) == dsum(d@.subrange(k - self.coeffs@.len(), k), self.coeffs@, self.coeffs@.len() as int) by '
                                     '{ assert(d@.subrange(k - self.coeffs@.len(), k) =~= pre_d.subrange(k - self.coeffs@.len(), k)); }')}},
             hints=[('d.extend_from_slice(&forecasts);', 'after', 'let ghost d0_ = d@;'),
                    ])
UNITS.append(Unit('C13_ar_predict', 'C13', [predict], use=[predict_one], types=core.TYPES + [AR_STRUCT], type_spec=core.TYPE_SPEC,
                  spec=SPEC + AR_PRED_SPEC, preludes=PRE, broadcast=BC, level='L1', rlimit=100,
                  notes='AR::predict runs the forecasting recursion on the centred history (each forecast is the dot product of the p values before it with the coefficients) and adds the intercept back'))
