"""C04 — element-wise arithmetic and maps are exact at every length and operand form.
Level L0: position k of the result is exactly the scalar operation (an uninterpreted but
deterministic function f_op) on the operands at position k, in the operator's operand order.
Post-conditions are written from the property statement / the impl header, never from bodies."""
from vc.gen import Fn, Unit

V = 'linalg::array::vops::'
OPF = {'add': 'f_add', 'sub': 'f_sub', 'mul': 'f_mul', 'div': 'f_div'}

COMMON_INV = ['n == v1@.len()', 'v@.len() == n', 'chunks == (n - n % 8) / 8']


def _loops(elem, extra=(), nbranches=1, vec='v'):
    """invariants for `nbranches` unrolled loops followed by one remainder loop"""
    loops = {}
    base = [c.replace('v@', vec + '@') for c in COMMON_INV] + list(extra)
    for b in range(1, nbranches + 1):
        loops[b] = {'invariant': base + ['C04.elem.unrolled:: forall|k:int| 0 <= k < i*8 ==> %s@[k] == %s' % (vec, elem('k'))]}
    pre = 'C04.elem.handoff:: forall|k:int| 0 <= k < chunks*8 ==> %s@[k] == %s' % (vec, elem('k'))
    loops[nbranches + 1] = {'invariant': base + ['C04.elem.rem:: forall|k:int| 0 <= k < j ==> %s@[k] == %s' % (vec, elem('k'))]}
    return loops


def vv(name, f):
    e = lambda k: '%s(v1@[%s], v2@[%s])' % (f, k, k)
    return Fn(V + name, ret='v', valid='v1@.len() == v2@.len()',
              ensures=['C04.valid:: v1@.len() == v2@.len()', 'C04.len:: v@.len() == v1@.len()',
                       'C04.elem:: forall|k:int| 0 <= k < v@.len() ==> v@[k] == ' + e('k')],
              panics={1: 'REJECT', 2: 'DEAD'}, loops=_loops(e, ['n == v2@.len()']))


def vv_mut(name, f):
    e = lambda k: '%s(old(v1)@[%s], v2@[%s])' % (f, k, k)
    inv = ['n == old(v1)@.len()', 'v1@.len() == n', 'n == v2@.len()', 'chunks == (n - n % 8) / 8']
    return Fn(V + name, valid='old(v1)@.len() == v2@.len()',
              ensures=['C04.valid:: old(v1)@.len() == v2@.len()', 'C04.len:: final(v1)@.len() == old(v1)@.len()',
                       'C04.elem:: forall|k:int| 0 <= k < old(v1)@.len() ==> final(v1)@[k] == ' + e('k')],
              panics={1: 'REJECT', 2: 'DEAD'},
              loops={1: {'invariant': inv + [
                  'C04.elem.unrolled:: forall|k:int| 0 <= k < i*8 ==> v1@[k] == ' + e('k'),
                  'C04.frame.unrolled:: forall|k:int| i*8 <= k < n ==> v1@[k] == old(v1)@[k]']},
                  2: {'invariant': inv + [
                      'C04.elem.rem:: forall|k:int| 0 <= k < j ==> v1@[k] == ' + e('k'),
                      'C04.frame.rem:: forall|k:int| j <= k < n ==> v1@[k] == old(v1)@[k]']}})


def vs(name, f):
    e = lambda k: '%s(v1@[%s], scalar)' % (f, k)
    return Fn(V + name, ret='v',
              ensures=['C04.len:: v@.len() == v1@.len()',
                       'C04.elem:: forall|k:int| 0 <= k < v@.len() ==> v@[k] == ' + e('k')],
              panics={1: 'DEAD'}, loops=_loops(e))


def sv(name, f):
    e = lambda k: '%s(scalar, v1@[%s])' % (f, k)
    return Fn(V + name, ret='v',
              ensures=['C04.len:: v@.len() == v1@.len()',
                       'C04.elem:: forall|k:int| 0 <= k < v@.len() ==> v@[k] == ' + e('k')],
              panics={1: 'DEAD'}, loops=_loops(e))


def vs_mut(name, f):
    e = lambda k: '%s(old(v1)@[%s], scalar)' % (f, k)
    inv = ['n == old(v1)@.len()', 'v1@.len() == n', 'chunks == (n - n % 8) / 8']
    return Fn(V + name,
              ensures=['C04.len:: final(v1)@.len() == old(v1)@.len()',
                       'C04.elem:: forall|k:int| 0 <= k < old(v1)@.len() ==> final(v1)@[k] == ' + e('k')],
              panics={1: 'DEAD'},
              loops={1: {'invariant': inv + [
                  'C04.elem.unrolled:: forall|k:int| 0 <= k < i*8 ==> v1@[k] == ' + e('k'),
                  'C04.frame.unrolled:: forall|k:int| i*8 <= k < n ==> v1@[k] == old(v1)@[k]']},
                  2: {'invariant': inv + [
                      'C04.elem.rem:: forall|k:int| 0 <= k < j ==> v1@[k] == ' + e('k'),
                      'C04.frame.rem:: forall|k:int| j <= k < n ==> v1@[k] == old(v1)@[k]']}})


UNARY = [('vln', 'ln'), ('vln1p', 'ln_1p'), ('vlog10', 'log10'), ('vlog2', 'log2'), ('vexp', 'exp'), ('vexp2', 'exp2'),
         ('vexpm1', 'exp_m1'), ('vsin', 'sin'), ('vcos', 'cos'), ('vtan', 'tan'), ('vsinh', 'sinh'), ('vcosh', 'cosh'),
         ('vtanh', 'tanh'), ('vasin', 'asin'), ('vacos', 'acos'), ('vatan', 'atan'), ('vasinh', 'asinh'),
         ('vacosh', 'acosh'), ('vatanh', 'atanh'), ('vsqrt', 'sqrt'), ('vcbrt', 'cbrt'), ('vabs', 'abs'),
         ('vfloor', 'floor'), ('vceil', 'ceil'), ('vtoradians', 'to_radians'), ('vtodegrees', 'to_degrees'),
         ('vrecip', 'recip'), ('vround', 'round'), ('vsignum', 'signum')]


def unary(name, meth):
    e = lambda k: 'f_%s(v1@[%s])' % (meth, k)
    return Fn(V + name, ret='v',
              ensures=['C04.len:: v@.len() == v1@.len()',
                       'C04.elem:: forall|k:int| 0 <= k < v@.len() ==> v@[k] == ' + e('k')],
              panics={1: 'DEAD'}, loops=_loops(e))


def vpowi():
    e = lambda k: 'f_powi(v1@[%s], arg)' % k
    return Fn(V + 'vpowi', ret='v',
              ensures=['C04.len:: v@.len() == v1@.len()',
                       'C04.elem:: forall|k:int| 0 <= k < v@.len() ==> v@[k] == ' + e('k')],
              panics={1: 'DEAD', 2: 'DEAD', 3: 'DEAD'},
              loops={1: _loops(e, ['arg == 2'])[1], 2: _loops(e, ['arg == 3'])[1], 3: _loops(e)[1],
                     4: _loops(e, ['arg == 2 || arg == 3 || true'])[2]},
              hints=[('for j in (chunks * 8)..n', 'before',
                      'assert(forall|k:int| 0 <= k < chunks*8 ==> v@[k] == f_powi(v1@[k], arg));')])


def vpowf():
    e = lambda k: 'f_powf(v1@[%s], arg)' % k
    return Fn(V + 'vpowf', ret='v',
              ensures=['C04.len:: v@.len() == v1@.len()',
                       'C04.elem:: forall|k:int| 0 <= k < v@.len() ==> v@[k] == ' + e('k')],
              panics={1: 'DEAD'}, loops=_loops(e))


KERNELS = {}
for op, f in OPF.items():
    KERNELS['v' + op] = vv('v' + op, f)
    KERNELS['v' + op + '_mut'] = vv_mut('v' + op + '_mut', f)
    KERNELS['vs' + op] = vs('vs' + op, f)
    KERNELS['sv' + op] = sv('sv' + op, f)
    KERNELS['vs' + op + '_mut'] = vs_mut('vs' + op + '_mut', f)
for name, meth in UNARY:
    KERNELS[name] = unary(name, meth)
KERNELS['vpowi'] = vpowi()
KERNELS['vpowf'] = vpowf()

PRE = ('fax_l0', 'fmeth', 'stdspec')
UNITS = [
    Unit('C04_vops_binary', 'C04', [KERNELS['v' + op] for op in OPF] + [KERNELS['vs' + op] for op in OPF]
         + [KERNELS['sv' + op] for op in OPF], preludes=PRE,
         notes='16 loop-unrolled binary / scalar kernels: length, every element, all lengths and residues mod 8'),
    Unit('C04_vops_mut', 'C04', [KERNELS['v' + op + '_mut'] for op in OPF] + [KERNELS['vs' + op + '_mut'] for op in OPF],
         preludes=PRE, notes='8 in-place kernels: every element and the frame'),
    Unit('C04_vops_unary', 'C04', [KERNELS[n] for n, _ in UNARY] + [KERNELS['vpowi'], KERNELS['vpowf']], preludes=PRE,
         broadcast=('l0', 'l0_powi'),
         notes='29 unary maps + powi (3 branches, exponent 2 and 3 via products) + powf'),
]
