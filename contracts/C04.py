"""C04 — element-wise arithmetic and maps are exact at every length and operand form.
Level L0: position k of the result is exactly the scalar operation (an uninterpreted but
deterministic function f_op) on the operands at position k, in the operator's operand order.
Post-conditions are written from the property statement / the impl header, never from bodies."""
from vc.gen import Fn, Unit

V = 'linalg::array::vops::'
OPF = {'add': 'f_add', 'sub': 'f_sub', 'mul': 'f_mul', 'div': 'f_div'}

COMMON_INV = ['n == v1@.len()', 'v@.len() == n', 'chunks == (n - n % 8) / 8']


def _loops(elem, extra=(), nbranches=1, vec='v'):
    """invariants for `nbranches` unrolled loops followed by one remainder loop"""
    loops = {}
    base = [c.replace('v@', vec + '@') for c in COMMON_INV] + list(extra)
    for b in range(1, nbranches + 1):
        loops[b] = {'invariant': base + ['C04.elem.unrolled:: forall|k:int| 0 <= k < i*8 ==> %s@[k] == %s' % (vec, elem('k'))]}
    pre = 'C04.elem.handoff:: forall|k:int| 0 <= k < chunks*8 ==> %s@[k] == %s' % (vec, elem('k'))
    loops[nbranches + 1] = {'invariant': base + ['C04.elem.rem:: forall|k:int| 0 <= k < j ==> %s@[k] == %s' % (vec, elem('k'))]}
    return loops


def vv(name, f):
    e = lambda k: '%s(v1@[%s], v2@[%s])' % (f, k, k)
    return Fn(V + name, ret='v', valid='v1@.len() == v2@.len()',
              ensures=['C04.valid:: v1@.len() == v2@.len()', 'C04.len:: v@.len() == v1@.len()',
                       'C04.elem:: forall|k:int| 0 <= k < v@.len() ==> v@[k] == ' + e('k')],
              panics={1: 'REJECT', 2: 'DEAD'}, loops=_loops(e, ['n == v2@.len()']))


def vv_mut(name, f):
    e = lambda k: '%s(old(v1)@[%s], v2@[%s])' % (f, k, k)
    inv = ['n == old(v1)@.len()', 'v1@.len() == n', 'n == v2@.len()', 'chunks == (n - n % 8) / 8']
    return Fn(V + name, valid='old(v1)@.len() == v2@.len()',
              ensures=['C04.valid:: old(v1)@.len() == v2@.len()', 'C04.len:: final(v1)@.len() == old(v1)@.len()',
                       'C04.elem:: forall|k:int| 0 <= k < old(v1)@.len() ==> final(v1)@[k] == ' + e('k')],
              panics={1: 'REJECT', 2: 'DEAD'},
              loops={1: {'invariant': inv + [
                  'C04.elem.unrolled:: forall|k:int| 0 <= k < i*8 ==> v1@[k] == ' + e('k'),
                  'C04.frame.unrolled:: forall|k:int| i*8 <= k < n ==> v1@[k] == old(v1)@[k]']},
                  2: {'invariant': inv + [
                      'C04.elem.rem:: forall|k:int| 0 <= k < j ==> v1@[k] == ' + e('k'),
                      'C04.frame.rem:: forall|k:int| j <= k < n ==> v1@[k] == old(v1)@[k]']}})


def vs(name, f):
    e = lambda k: '%s(v1@[%s], scalar)' % (f, k)
    return Fn(V + name, ret='v',
              ensures=['C04.len:: v@.len() == v1@.len()',
                       'C04.elem:: forall|k:int| 0 <= k < v@.len() ==> v@[k] == ' + e('k')],
              panics={1: 'DEAD'}, loops=_loops(e))


def sv(name, f):
    e = lambda k: '%s(scalar, v1@[%s])' % (f, k)
    return Fn(V + name, ret='v',
              ensures=['C04.len:: v@.len() == v1@.len()',
                       'C04.elem:: forall|k:int| 0 <= k < v@.len() ==> v@[k] == ' + e('k')],
              panics={1: 'DEAD'}, loops=_loops(e))


def vs_mut(name, f):
    e = lambda k: '%s(old(v1)@[%s], scalar)' % (f, k)
    inv = ['n == old(v1)@.len()', 'v1@.len() == n', 'chunks == (n - n % 8) / 8']
    return Fn(V + name,
              ensures=['C04.len:: final(v1)@.len() == old(v1)@.len()',
                       'C04.elem:: forall|k:int| 0 <= k < old(v1)@.len() ==> final(v1)@[k] == ' + e('k')],
              panics={1: 'DEAD'},
              loops={1: {'invariant': inv + [
                  'C04.elem.unrolled:: forall|k:int| 0 <= k < i*8 ==> v1@[k] == ' + e('k'),
                  'C04.frame.unrolled:: forall|k:int| i*8 <= k < n ==> v1@[k] == old(v1)@[k]']},
                  2: {'invariant': inv + [
                      'C04.elem.rem:: forall|k:int| 0 <= k < j ==> v1@[k] == ' + e('k'),
                      'C04.frame.rem:: forall|k:int| j <= k < n ==> v1@[k] == old(v1)@[k]']}})


UNARY = [('vln', 'ln'), ('vln1p', 'ln_1p'), ('vlog10', 'log10'), ('vlog2', 'log2'), ('vexp', 'exp'), ('vexp2', 'exp2'),
         ('vexpm1', 'exp_m1'), ('vsin', 'sin'), ('vcos', 'cos'), ('vtan', 'tan'), ('vsinh', 'sinh'), ('vcosh', 'cosh'),
         ('vtanh', 'tanh'), ('vasin', 'asin'), ('vacos', 'acos'), ('vatan', 'atan'), ('vasinh', 'asinh'),
         ('vacosh', 'acosh'), ('vatanh', 'atanh'), ('vsqrt', 'sqrt'), ('vcbrt', 'cbrt'), ('vabs', 'abs'),
         ('vfloor', 'floor'), ('vceil', 'ceil'), ('vtoradians', 'to_radians'), ('vtodegrees', 'to_degrees'),
         ('vrecip', 'recip'), ('vround', 'round'), ('vsignum', 'signum')]


def unary(name, meth):
    e = lambda k: 'f_%s(v1@[%s])' % (meth, k)
    return Fn(V + name, ret='v',
              ensures=['C04.len:: v@.len() == v1@.len()',
                       'C04.elem:: forall|k:int| 0 <= k < v@.len() ==> v@[k] == ' + e('k')],
              panics={1: 'DEAD'}, loops=_loops(e))


def vpowi():
    e = lambda k: 'f_powi(v1@[%s], arg)' % k
    return Fn(V + 'vpowi', ret='v',
              ensures=['C04.len:: v@.len() == v1@.len()',
                       'C04.elem:: forall|k:int| 0 <= k < v@.len() ==> v@[k] == ' + e('k')],
              panics={1: 'DEAD', 2: 'DEAD', 3: 'DEAD'},
              loops={1: _loops(e, ['arg == 2'])[1], 2: _loops(e, ['arg == 3'])[1], 3: _loops(e)[1],
                     4: _loops(e, ['arg == 2 || arg == 3 || true'])[2]},
              hints=[('for j in (chunks * 8)..n', 'before',
                      'assert(forall|k:int| 0 <= k < chunks*8 ==> v@[k] == f_powi(v1@[k], arg));')])


def vpowf():
    e = lambda k: 'f_powf(v1@[%s], arg)' % k
    return Fn(V + 'vpowf', ret='v',
              ensures=['C04.len:: v@.len() == v1@.len()',
                       'C04.elem:: forall|k:int| 0 <= k < v@.len() ==> v@[k] == ' + e('k')],
              panics={1: 'DEAD'}, loops=_loops(e))


KERNELS = {}
for op, f in OPF.items():
    KERNELS['v' + op] = vv('v' + op, f)
    KERNELS['v' + op + '_mut'] = vv_mut('v' + op + '_mut', f)
    KERNELS['vs' + op] = vs('vs' + op, f)
    KERNELS['sv' + op] = sv('sv' + op, f)
    KERNELS['vs' + op + '_mut'] = vs_mut('vs' + op + '_mut', f)
for name, meth in UNARY:
    KERNELS[name] = unary(name, meth)
KERNELS['vpowi'] = vpowi()
KERNELS['vpowf'] = vpowf()

PRE = ('fax_l0', 'fmeth', 'stdspec')
UNITS = [
    Unit('C04_vops_binary', 'C04', [KERNELS['v' + op] for op in OPF] + [KERNELS['vs' + op] for op in OPF]
         + [KERNELS['sv' + op] for op in OPF], preludes=PRE,
         notes='16 loop-unrolled binary / scalar kernels: length, every element, all lengths and residues mod 8'),
    Unit('C04_vops_mut', 'C04', [KERNELS['v' + op + '_mut'] for op in OPF] + [KERNELS['vs' + op + '_mut'] for op in OPF],
         preludes=PRE, notes='8 in-place kernels: every element and the frame'),
    Unit('C04_vops_unary', 'C04', [KERNELS[n] for n, _ in UNARY] + [KERNELS['vpowi'], KERNELS['vpowf']], preludes=PRE,
         broadcast=('l0', 'l0_powi'),
         notes='29 unary maps + powi (3 branches, exponent 2 and 3 via products) + powf'),
]

# ---------------------------------------------------------------- operator impls on Vector
from contracts import core
from contracts.core import VEC, MAT, IV, IM

OPS = [('Add', 'add', 'f_add'), ('Sub', 'sub', 'f_sub'), ('Mul', 'mul', 'f_mul'), ('Div', 'div', 'f_div')]
VECTOR_IMPLS = []


def _vec_impl(tr, meth, f, self_ty, rhs_ty):
    hdr = 'impl ops::%s<%s> for %s' % (tr, rhs_ty, self_ty)
    path = VEC + '{%s}::%s' % (hdr, meth)
    tag = 'C04.impl.%s<%s>for%s' % (tr, rhs_ty.replace(' ', ''), self_ty.replace(' ', ''))
    if self_ty == 'f64':
        ens = [tag + '.len:: r.v@.len() == other.v@.len()',
               tag + '.elem:: forall|k:int| 0 <= k < r.v@.len() ==> r.v@[k] == %s(self, other.v@[k])' % f]
        return Fn(path, ret='r', ensures=ens)
    if rhs_ty == 'f64':
        ens = [tag + '.len:: r.v@.len() == self.v@.len()',
               tag + '.elem:: forall|k:int| 0 <= k < r.v@.len() ==> r.v@[k] == %s(self.v@[k], other)' % f]
        return Fn(path, ret='r', ensures=ens)
    ens = [tag + '.valid:: self.v@.len() == other.v@.len()', tag + '.len:: r.v@.len() == self.v@.len()',
           tag + '.elem:: forall|k:int| 0 <= k < r.v@.len() ==> r.v@[k] == %s(self.v@[k], other.v@[k])' % f]
    return Fn(path, ret='r', ensures=ens, valid='self.v@.len() == other.v@.len()')


def _vec_assign(tr, meth, f, rhs_ty):
    hdr = 'impl ops::%sAssign<%s> for Vector' % (tr, rhs_ty)
    path = VEC + '{%s}::%s_assign' % (hdr, meth)
    tag = 'C04.impl.%sAssign<%s>forVector' % (tr, rhs_ty)
    rhs = 'other' if rhs_ty == 'f64' else 'other.v@[k]'
    ens = ([] if rhs_ty == 'f64' else [tag + '.valid:: old(self).v@.len() == other.v@.len()']) + [
        tag + '.len:: final(self).v@.len() == old(self).v@.len()',
        tag + '.elem:: forall|k:int| 0 <= k < old(self).v@.len() ==> final(self).v@[k] == %s(old(self).v@[k], %s)' % (f, rhs)]
    return Fn(path, ensures=ens, valid='true' if rhs_ty == 'f64' else 'old(self).v@.len() == other.v@.len()')


for tr, meth, f in OPS:
    for s, r in [('Vector', 'Vector'), ('&Vector', '&Vector'), ('Vector', '&Vector'), ('&Vector', 'Vector'),
                 ('Vector', 'f64'), ('&Vector', 'f64'), ('f64', 'Vector'), ('f64', '&Vector')]:
        VECTOR_IMPLS.append(_vec_impl(tr, meth, f, s, r))
    for r in ['Vector', '&Vector', 'f64']:
        VECTOR_IMPLS.append(_vec_assign(tr, meth, f, r))

VECTOR_UNARY = []
for kname, meth in UNARY:
    VECTOR_UNARY.append(Fn(IV + meth, ret='r', ensures=[
        'C04.vec.%s.len:: r.v@.len() == self.v@.len()' % meth,
        'C04.vec.%s.elem:: forall|k:int| 0 <= k < r.v@.len() ==> r.v@[k] == f_%s(self.v@[k])' % (meth, meth)]))
VECTOR_UNARY.append(Fn(IV + 'powi', ret='r', ensures=[
    'C04.vec.powi.len:: r.v@.len() == self.v@.len()',
    'C04.vec.powi.elem:: forall|k:int| 0 <= k < r.v@.len() ==> r.v@[k] == f_powi(self.v@[k], arg)']))
VECTOR_UNARY.append(Fn(IV + 'powf', ret='r', ensures=[
    'C04.vec.powf.len:: r.v@.len() == self.v@.len()',
    'C04.vec.powf.elem:: forall|k:int| 0 <= k < r.v@.len() ==> r.v@[k] == f_powf(self.v@[k], arg)']))

_core_small = [core.F[VEC + '{impl Deref for Vector}::deref'], core.F[VEC + '{impl DerefMut for Vector}::deref_mut'],
               core.F[VEC + '{impl<T> From<T> for Vector where T: Into<Vec<f64>>}::from']]
UNITS.append(Unit('C04_vector_ops', 'C04', VECTOR_IMPLS + VECTOR_UNARY, use=_core_small + list(KERNELS.values()),
                  types=core.TYPES, spec=core.CORE_SPEC, type_spec=core.TYPE_SPEC, preludes=PRE,
                  broadcast=('l0', 'ax_vec_from_refl'),
                  notes='44 std::ops impls for Vector (owned/borrowed/scalar-left/scalar-right/assign) and 31 element-wise map methods, '
                        'each against the kernel contract; post-conditions generated from the impl header'))

# ---------------------------------------------------------------- Matrix: same-shape kernels, scalar forms, assign forms, maps
WF2 = ['C04.mat.wf:: wf(*m1) && wf(*m2)']
MATMAT = {}
for tr, meth, f in OPS:
    name = 'matmat' + meth
    MATMAT[name] = Fn(MAT + name, ret='r', requires=WF2,
                      valid='m1.nrows == m2.nrows && m1.ncols == m2.ncols',
                      ensures=['C04.%s.valid:: m1.nrows == m2.nrows && m1.ncols == m2.ncols' % name,
                               'C04.%s.shape:: r.nrows == m1.nrows && r.ncols == m1.ncols && wf(r)' % name,
                               'C04.%s.elem:: forall|k:int| 0 <= k < r.data.v@.len() ==> r.data.v@[k] == %s(m1.data.v@[k], m2.data.v@[k])' % (name, f)],
                      panics={1: 'REJECT'})

MATRIX_IMPLS = []


def _mat_scalar(tr, meth, f, self_ty, rhs_ty):
    hdr = 'impl %s<%s> for %s' % (tr, rhs_ty, self_ty)
    path = MAT + '{%s}::%s' % (hdr, meth)
    tag = 'C04.impl.%s<%s>for%s' % (tr, rhs_ty, self_ty)
    if self_ty == 'f64':
        m, e = 'other', '%s(self, other.data.v@[k])' % f
    else:
        m, e = 'self', '%s(self.data.v@[k], other)' % f
    return Fn(path, ret='r', requires=[tag + '.wf:: wf(%s)' % _deref(m, self_ty, rhs_ty)],
              ensures=[tag + '.shape:: r.nrows == %s.nrows && r.ncols == %s.ncols && wf(r)' % (m, m),
                       tag + '.elem:: forall|k:int| 0 <= k < r.data.v@.len() ==> r.data.v@[k] == %s' % e])


def _deref(m, self_ty, rhs_ty):
    ty = self_ty if m == 'self' else rhs_ty
    return '*' + m if ty.startswith('&') else m


for tr, meth, f in OPS:
    for s, r in [('Matrix', 'f64'), ('f64', 'Matrix'), ('&Matrix', 'f64'), ('f64', '&Matrix')]:
        MATRIX_IMPLS.append(_mat_scalar(tr, meth, f, s, r))
    # assign forms
    for rhs in ['Matrix', '&Matrix']:
        hdr = 'impl %sAssign<%s> for Matrix' % (tr, rhs)
        tag = 'C04.impl.%sAssign<%s>forMatrix' % (tr, rhs)
        o = '*other' if rhs.startswith('&') else 'other'
        MATRIX_IMPLS.append(Fn(MAT + '{%s}::%s_assign' % (hdr, meth),
                               valid='old(self).nrows == other.nrows && old(self).ncols == other.ncols',
                               requires=[tag + '.wf:: wf(*old(self)) && wf(%s)' % o],
                               ensures=[tag + '.valid:: old(self).nrows == other.nrows && old(self).ncols == other.ncols',
                                        tag + '.shape:: final(self).nrows == old(self).nrows && final(self).ncols == old(self).ncols',
                                        tag + '.len:: final(self).data.v@.len() == old(self).data.v@.len()',
                                        tag + '.elem:: forall|k:int| 0 <= k < old(self).data.v@.len() ==> final(self).data.v@[k] == %s(old(self).data.v@[k], other.data.v@[k])' % f],
                               panics={1: 'REJECT'}))
    hdr = 'impl %sAssign<f64> for Matrix' % tr
    tag = 'C04.impl.%sAssign<f64>forMatrix' % tr
    MATRIX_IMPLS.append(Fn(MAT + '{%s}::%s_assign' % (hdr, meth),
                           ensures=[tag + '.shape:: final(self).nrows == old(self).nrows && final(self).ncols == old(self).ncols',
                                    tag + '.len:: final(self).data.v@.len() == old(self).data.v@.len()',
                                    tag + '.elem:: forall|k:int| 0 <= k < old(self).data.v@.len() ==> final(self).data.v@[k] == %s(old(self).data.v@[k], other)' % f]))

MATRIX_UNARY = []
for kname, meth in UNARY + [('vpowi', 'powi'), ('vpowf', 'powf')]:
    arg = ', arg' if meth in ('powi', 'powf') else ''
    MATRIX_UNARY.append(Fn(IM + meth, ret='r', requires=['C04.mat.%s.wf:: wf(*self)' % meth], ensures=[
        'C04.mat.%s.shape:: r.nrows == self.nrows && r.ncols == self.ncols && wf(r)' % meth,
        'C04.mat.%s.elem:: forall|k:int| 0 <= k < r.data.v@.len() ==> r.data.v@[k] == f_%s(self.data.v@[k]%s)' % (meth, meth, arg)]))

_core_all = core.core_stubs()
UNITS.append(Unit('C04_matrix_ops', 'C04', list(MATMAT.values()) + MATRIX_IMPLS + MATRIX_UNARY,
                  use=_core_all + list(KERNELS.values()) + VECTOR_UNARY,
                  types=core.TYPES, spec=core.CORE_SPEC, type_spec=core.TYPE_SPEC, preludes=PRE,
                  broadcast=('l0', 'ax_vec_from_refl'),
                  notes='same-shape Matrix kernels, 16 scalar impls, 12 assign impls, 31 element-wise maps on Matrix; shape preserved, '
                        'every element, mismatch rejected'))


# ---------------------------------------------------------------- negation (Vector: into_iter().map().collect(); Matrix: -self.data re-wrapped)
vec_neg = Fn(VEC + '{impl Neg for Vector}::neg', ret='r', outline=True,
             ensures=['C04.impl.NegforVector.len:: r.v@.len() == self.v@.len()',
                      'C04.impl.NegforVector.elem:: forall|k:int| 0 <= k < r.v@.len() ==> r.v@[k] == f_neg(self.v@[k])'],
             rewrites=[('self.v.into_iter().map(', 'Vector { v: self.v.into_iter().map(',
                        'R26: `ITER.collect()` into a Vector is `Vector { v: ITER.collect::<Vec<f64>>() }` by the one-line FromIterator impl (fingerprint-checked)'),
                       ('.collect()', '.collect::<Vec<f64>>() }', 'R26 (second half)')],
             closures={1: {'params': 'x: f64', 'ret': 'o: f64', 'ensures': ['o == f_neg(x)']}})
mat_neg = Fn(MAT + '{impl Neg for Matrix}::neg', ret='r',
             rewrites=[('-self.data', 'Neg::neg(self.data)', 'R17: unary minus on a Vector operand written as the trait call it desugars to (rule R15 targets f64 operands)')],
             requires=['C04.impl.NegforMatrix.wf:: wf(self)'],
             ensures=['C04.impl.NegforMatrix.shape:: r.nrows == self.nrows && r.ncols == self.ncols && wf(r)',
                      'C04.impl.NegforMatrix.elem:: forall|k:int| 0 <= k < r.data.v@.len() ==> r.data.v@[k] == f_neg(self.data.v@[k])'])
UNITS.append(Unit('C04_neg', 'C04', [vec_neg, mat_neg], use=_core_all, types=core.TYPES, spec=core.CORE_SPEC, type_spec=core.TYPE_SPEC, preludes=PRE,
                  broadcast=('l0', 'ax_vec_from_refl'),
                  fingerprints=[(VEC + '{impl FromIterator<f64> for Vector}::from_iter', '{ Self { v: Vec::from_iter(iter) } }')],
                  notes='-Vector and -Matrix negate every element (IEEE sign flip, not 0 - x) and keep the shape'))

# ---------------------------------------------------------------- reductions (L1: equal to their mathematical definition over the reals)
UT = 'linalg::utils::'
RED_SPEC = r'''
/// sum over i < k of x[i]*y[i] over the reals (definition of the dot product, property C04)
pub open spec fn dsum(x: Seq<f64>, y: Seq<f64>, k: int) -> real decreases k {
    if k <= 0 { 0real } else { dsum(x, y, k - 1) + rv(x[k - 1]) * rv(y[k - 1]) }
}
pub proof fn lemma_dsum8(x: Seq<f64>, y: Seq<f64>, k: int) requires k >= 0
    ensures dsum(x, y, k + 8) == dsum(x, y, k) + (rv(x[k]) * rv(y[k]) + rv(x[k + 1]) * rv(y[k + 1]) + rv(x[k + 2]) * rv(y[k + 2]) + rv(x[k + 3]) * rv(y[k + 3])
        + rv(x[k + 4]) * rv(y[k + 4]) + rv(x[k + 5]) * rv(y[k + 5]) + rv(x[k + 6]) * rv(y[k + 6]) + rv(x[k + 7]) * rv(y[k + 7]))
{
    reveal_with_fuel(dsum, 10);
}
'''
dot = Fn(UT + 'dot', ret='s', level='L1', valid='x@.len() == y@.len()', panics={1: 'REJECT', 2: 'DEAD'},
         ensures=['C04.dot.valid:: x@.len() == y@.len()', 'C04.dot.def:: rv(s) == dsum(x@, y@, x@.len() as int)'],
         loops={1: {'invariant': ['n == x@.len()', 'n == y@.len()', 'chunks == (n - n % 8) / 8', 'C04.dot.unrolled:: rv(s) == dsum(x@, y@, i * 8)'],
                    'body_start': 'lemma_dsum8(x@, y@, i * 8);'},
                2: {'invariant': ['n == x@.len()', 'n == y@.len()', 'chunks == (n - n % 8) / 8', 'C04.dot.rem:: rv(s) == dsum(x@, y@, j as int)']}})
norm = Fn(UT + 'norm', ret='r', level='L1', ensures=['C04.norm.def:: rv(r) == r_sqrt(dsum(x@, x@, x@.len() as int))'])

UNITS.append(Unit('C04_reductions', 'C04', [dot, norm], spec=RED_SPEC, preludes=('fax_l0', 'fmeth', 'stdspec', 'l1'),
                  broadcast=('l0', 'l1_arith', 'l1_fun'), level='L1',
                  notes='dot (8-way unrolled) and norm equal their definitions over the reals for every length'))

# sum: 8-way unrolled prefix + iterator tail
RSUM_SPEC = r'''
pub proof fn lemma_rsum8(x: Seq<f64>, k: int) requires k >= 0
    ensures rsum(x, k + 8) == rsum(x, k) + (rv(x[k]) + rv(x[k + 1]) + rv(x[k + 2]) + rv(x[k + 3]) + rv(x[k + 4]) + rv(x[k + 5]) + rv(x[k + 6]) + rv(x[k + 7]))
{ reveal_with_fuel(rsum, 10); }
'''
vsum_fn = Fn(UT + 'sum', ret='s', level='L1', panics={1: 'DEAD'},
             ensures=['C04.sum.def:: rv(s) == rsum(x@, x@.len() as int)'],
             loops={1: {'invariant': ['n == x@.len()', 'chunks == (n - n % 8) / 8', 'C04.sum.unrolled:: rv(s) == rsum(x@, i * 8)'],
                        'body_start': 'lemma_rsum8(x@, i * 8);'},
                    2: {'iter_name': 'it', 'invariant': ['n == x@.len()', 'chunks == (n - n % 8) / 8', 'C04.sum.rem:: rv(s) == rsum(x@, chunks * 8 + it.index@)'],
                        'body_start': 'assert(*j == x@[chunks * 8 + it.index@]);'}},
             hints=[('\n                s\n', 'replace', '\n proof { assert(rv(s) == rsum(x@, n as int)); }\n s\n')])
UNITS.append(Unit('C04_sum', 'C04', [vsum_fn], spec=RSUM_SPEC, preludes=('fax_l0', 'fmeth', 'stdspec', 'l1'),
                  broadcast=('l0', 'l1_arith'), level='L1', notes='sum equals its definition over the reals'))
