"""C01 — the slice-level solvers: layout conversions, the positive-definiteness test, and solve / solve_sys / invert_matrix as
compositions of the factorisation contracts with the routing made explicit (L1)."""
from vc.gen import Fn, Unit
from contracts import core
from contracts import C15 as c15
from contracts import C04 as c04
from contracts import C01 as c01
from contracts import C11tri as t
from contracts import C11rec as rec
from contracts.core import VEC, MAT, IM, IV

PRE = ('fax_l0', 'fmeth', 'stdspec', 'l1')
BC = ('l0', 'l1_arith', 'l1_fun', 'ax_vec_from_refl', 'ax_f64_cloned')
U = 'linalg::utils::'

EXACT_SPEC = r'''
/// (A x)[row] restricted to the first C columns
pub open spec fn asum(a: Seq<f64>, n: int, row: int, x: Seq<f64>, cc: int) -> real decreases cc
{ if cc <= 0 { 0real } else { asum(a, n, row, x, cc - 1) + rv(at2(a, n, row, cc - 1)) * rv(x[cc - 1]) } }
pub open spec fn gsum(f: Seq<f64>, n: int, i: int, x: Seq<f64>, cc: int) -> real decreases cc
{ if cc <= 0 { 0real } else { gsum(f, n, i, x, cc - 1) + lu_entry(f, n, i, cc - 1) * rv(x[cc - 1]) } }
pub open spec fn osum(f: Seq<f64>, n: int, i: int, x: Seq<f64>, cc: int, kk: int) -> real decreases kk
{ if kk <= 0 { 0real } else { osum(f, n, i, x, cc, kk - 1) + rv(at2(f, n, i, kk - 1)) * xsum(f, n, x, kk - 1, kk - 1, cc) } }

pub proof fn lemma_a_g(a: Seq<f64>, f: Seq<f64>, piv: Seq<i32>, n: int, i: int, x: Seq<f64>, cc: int)
    requires factored(a, f, piv, n, n), 0 <= i < n, 0 <= cc <= n
    ensures asum(a, n, piv[i] as int, x, cc) == gsum(f, n, i, x, cc)
    decreases cc
{ if cc > 0 { lemma_a_g(a, f, piv, n, i, x, cc - 1); assert(lu_entry(f, n, i, cc - 1) == rv(at2(a, n, piv[i] as int, cc - 1))); } }

pub proof fn lemma_osum_step(f: Seq<f64>, n: int, i: int, x: Seq<f64>, cc: int, kk: int)
    requires 0 <= kk, 0 <= cc
    ensures osum(f, n, i, x, cc + 1, kk) == osum(f, n, i, x, cc, kk) + lusum(f, n, i, cc, imin(kk, cc + 1)) * rv(x[cc])
    decreases kk
{
    if kk > 0 {
        lemma_osum_step(f, n, i, x, cc, kk - 1);
        let k = kk - 1;
        let fik = rv(at2(f, n, i, k)); let inner = xsum(f, n, x, k, k, cc); let xc = rv(x[cc]); let fkc = rv(at2(f, n, k, cc));
        if cc >= k {
            assert(xsum(f, n, x, k, k, cc + 1) == inner + xc * fkc);
            assert(imin(kk, cc + 1) == kk && imin(kk - 1, cc + 1) == kk - 1);
            let l0 = lusum(f, n, i, cc, kk - 1);
            assert(lusum(f, n, i, cc, kk) == l0 + fik * fkc);
            assert(fik * (inner + xc * fkc) + l0 * xc == fik * inner + (l0 + fik * fkc) * xc) by(nonlinear_arith);
        } else {
            assert(xsum(f, n, x, k, k, cc + 1) == 0real);
            assert(inner == 0real);
            assert(imin(kk, cc + 1) == cc + 1 && imin(kk - 1, cc + 1) == cc + 1);
        }
    } else {
        assert(imin(0, cc + 1) == 0); assert(lusum(f, n, i, cc, 0) == 0real); assert(0real * rv(x[cc]) == 0real) by(nonlinear_arith);
    }
}

pub proof fn lemma_g_split(f: Seq<f64>, n: int, i: int, x: Seq<f64>, cc: int)
    requires 0 <= i, 0 <= cc
    ensures gsum(f, n, i, x, cc) == xsum(f, n, x, i, i, cc) + osum(f, n, i, x, cc, i)
    decreases cc
{
    if cc > 0 {
        let c = cc - 1;
        lemma_g_split(f, n, i, x, c);
        lemma_osum_step(f, n, i, x, c, i);
        let xc = rv(x[c]); let fic = rv(at2(f, n, i, c)); let fcc = rv(at2(f, n, c, c));
        if c >= i {
            assert(imin(i, c + 1) == i && imin(i, c) == i);
            assert(xsum(f, n, x, i, i, c + 1) == xsum(f, n, x, i, i, c) + xc * fic);
            let l = lusum(f, n, i, c, i);
            assert((l + fic) * xc == xc * fic + l * xc) by(nonlinear_arith);
        } else {
            assert(imin(i, c + 1) == c + 1 && imin(i, c) == c);
            assert(xsum(f, n, x, i, i, c + 1) == 0real); assert(xsum(f, n, x, i, i, c) == 0real);
            let l = lusum(f, n, i, c, c);
            assert(lusum(f, n, i, c, c + 1) == l + fic * fcc);
            assert((l + fcc * fic) * xc == (l + fic * fcc) * xc) by(nonlinear_arith);
        }
    } else {
        lemma_osum_zero(f, n, i, x, i);
    }
}
pub proof fn lemma_osum_zero(f: Seq<f64>, n: int, i: int, x: Seq<f64>, kk: int) requires 0 <= kk
    ensures osum(f, n, i, x, 0, kk) == 0real decreases kk
{ if kk > 0 { lemma_osum_zero(f, n, i, x, kk - 1); assert(xsum(f, n, x, kk - 1, kk - 1, 0) == 0real); assert(rv(at2(f, n, i, kk - 1)) * 0real == 0real) by(nonlinear_arith); } }

pub proof fn lemma_osum_y(f: Seq<f64>, n: int, i: int, x: Seq<f64>, y: Seq<f64>, kk: int)
    requires 0 <= kk <= n, forall|k: int| 0 <= k < kk ==> xsum(f, n, x, k, k, n) == rv(#[trigger] y[k])
    ensures osum(f, n, i, x, n, kk) == xsum(f, n, y, i, 0, kk)
    decreases kk
{ if kk > 0 { lemma_osum_y(f, n, i, x, y, kk - 1); assert(xsum(f, n, x, kk - 1, kk - 1, n) == rv(y[kk - 1]));
    let a = rv(at2(f, n, i, kk - 1)); let b = rv(y[kk - 1]); assert(a * b == b * a) by(nonlinear_arith); } }

/// P A = L U,  (unit lower) y = P b,  U x = y  with non-zero pivots  ==>  (A x)[p_i] = b[p_i] for every row
pub proof fn theorem_lu_solves(a: Seq<f64>, f: Seq<f64>, piv: Seq<i32>, n: int, b: Seq<f64>, y: Seq<f64>, x: Seq<f64>, i: int)
    requires factored(a, f, piv, n, n), lu_fwd(f, n, piv, b, y, n), lu_bwd(f, n, y, x, 0), 0 <= i < n,
             forall|k: int| 0 <= k < n ==> rv(#[trigger] at2(f, n, k, k)) != 0real
    ensures asum(a, n, piv[i] as int, x, n) == rv(b[piv[i] as int])
{
    lemma_a_g(a, f, piv, n, i, x, n);
    lemma_g_split(f, n, i, x, n);
    assert forall|k: int| 0 <= k < n implies xsum(f, n, x, k, k, n) == rv(#[trigger] y[k]) by {
        lemma_xsum_low(f, n, x, k, k, n);
        assert(rv(at2(f, n, k, k)) != 0real);
        assert(rv(at2(f, n, k, k)) * rv(x[k]) + xsum(f, n, x, k, k + 1, n) == rv(y[k]));
        let p = rv(at2(f, n, k, k)); let q = rv(x[k]); assert(p * q == q * p) by(nonlinear_arith);
    }
    lemma_osum_y(f, n, i, x, y, i);
    assert(imin(i, n) == i);
    assert(rv(y[i]) == rv(b[piv[i] as int]) - xsum(f, n, y, i, 0, i));
}

/// the LU route is exact over the reals: with non-zero pivots every (permuted) row of A x = b holds
pub open spec fn lu_exact(a: Seq<f64>, n: int, b: Seq<f64>, x: Seq<f64>, f: Seq<f64>, piv: Seq<i32>) -> bool {
    (forall|k: int| 0 <= k < n ==> rv(#[trigger] at2(f, n, k, k)) != 0real) ==> (forall|i: int| 0 <= i < n ==> asum(a, n, #[trigger] piv[i] as int, x, n) == rv(b[piv[i] as int]))
}
pub proof fn lemma_lu_route_exact(a: Seq<f64>, f: Seq<f64>, piv: Seq<i32>, n: int, b: Seq<f64>, x: Seq<f64>)
    requires factored(a, f, piv, n, n), lu_solved(f, n, piv, b, x)
    ensures lu_exact(a, n, b, x, f, piv)
{
    if forall|k: int| 0 <= k < n ==> rv(#[trigger] at2(f, n, k, k)) != 0real {
        let y = choose|y: Seq<f64>| y.len() == n && #[trigger] lu_fwd(f, n, piv, b, y, n) && lu_bwd(f, n, y, x, 0);
        assert forall|i: int| 0 <= i < n implies asum(a, n, #[trigger] piv[i] as int, x, n) == rv(b[piv[i] as int]) by { theorem_lu_solves(a, f, piv, n, b, y, x, i); }
    }
}

'''
CHOL_EXACT_SPEC = r'''
// ---- the Cholesky route is exact over the reals (for the symmetric matrix given by A's lower triangle)
pub open spec fn imax(a: int, b: int) -> int { if a >= b { a } else { b } }
pub proof fn lemma_csum_comm(l: Seq<f64>, n: int, i: int, j: int, kk: int)
    ensures csum(l, n, i, j, kk) == csum(l, n, j, i, kk) decreases kk
{ if kk > 0 { lemma_csum_comm(l, n, i, j, kk - 1); let p = rv(at2(l, n, j, kk - 1)); let q = rv(at2(l, n, i, kk - 1)); assert(p * q == q * p) by(nonlinear_arith); } }
/// entry (i,c) of L L^T: sum over t <= min(i,c) of l[i,t] * l[c,t]
pub open spec fn llt(l: Seq<f64>, n: int, i: int, c: int) -> real { csum(l, n, c, i, imin(i, c) + 1) }
/// entry (i,c) of the symmetric matrix defined by the lower triangle of a
pub open spec fn sym_low(a: Seq<f64>, n: int, i: int, c: int) -> real { rv(at2(a, n, imax(i, c), imin(i, c))) }
pub proof fn lemma_llt_is_a(a: Seq<f64>, l: Seq<f64>, n: int, i: int, c: int)
    requires chol_rows(a, l, n, n), 0 <= i < n, 0 <= c < n
    ensures llt(l, n, i, c) == sym_low(a, n, i, c)
{
    if c <= i {
        assert(chol_eq(a, l, n, i, c));
        lemma_csum_comm(l, n, c, i, c);
        let p = rv(at2(l, n, i, c)); let q = rv(at2(l, n, c, c)); assert(p * q == q * p) by(nonlinear_arith);
    } else {
        assert(chol_eq(a, l, n, c, i));
    }
}
/// row i of (symmetric completion of a) times x, first cc columns
pub open spec fn ssum(a: Seq<f64>, n: int, i: int, x: Seq<f64>, cc: int) -> real decreases cc
{ if cc <= 0 { 0real } else { ssum(a, n, i, x, cc - 1) + sym_low(a, n, i, cc - 1) * rv(x[cc - 1]) } }
pub open spec fn gsum2(l: Seq<f64>, n: int, i: int, x: Seq<f64>, cc: int) -> real decreases cc
{ if cc <= 0 { 0real } else { gsum2(l, n, i, x, cc - 1) + llt(l, n, i, cc - 1) * rv(x[cc - 1]) } }
pub proof fn lemma_s_g(a: Seq<f64>, l: Seq<f64>, n: int, i: int, x: Seq<f64>, cc: int)
    requires chol_rows(a, l, n, n), 0 <= i < n, 0 <= cc <= n
    ensures ssum(a, n, i, x, cc) == gsum2(l, n, i, x, cc) decreases cc
{ if cc > 0 { lemma_s_g(a, l, n, i, x, cc - 1); lemma_llt_is_a(a, l, n, i, cc - 1); } }
/// sum over t < kk of l[i,t] * (sum over t <= c < cc of l[c,t] x_c)
pub open spec fn osum2(l: Seq<f64>, n: int, i: int, x: Seq<f64>, cc: int, kk: int) -> real decreases kk
{ if kk <= 0 { 0real } else { osum2(l, n, i, x, cc, kk - 1) + rv(at2(l, n, i, kk - 1)) * tsum_t(l, n, x, kk - 1, kk - 1, cc) } }
pub proof fn lemma_osum2_step(l: Seq<f64>, n: int, i: int, x: Seq<f64>, cc: int, kk: int)
    requires 0 <= kk, 0 <= cc
    ensures osum2(l, n, i, x, cc + 1, kk) == osum2(l, n, i, x, cc, kk) + csum(l, n, cc, i, imin(kk, cc + 1)) * rv(x[cc])
    decreases kk
{
    if kk > 0 {
        lemma_osum2_step(l, n, i, x, cc, kk - 1);
        let k = kk - 1;
        let lik = rv(at2(l, n, i, k)); let inner = tsum_t(l, n, x, k, k, cc); let xc = rv(x[cc]); let lck = rv(at2(l, n, cc, k));
        if cc >= k {
            assert(tsum_t(l, n, x, k, k, cc + 1) == inner + lck * xc);
            assert(imin(kk, cc + 1) == kk && imin(kk - 1, cc + 1) == kk - 1);
            let c0 = csum(l, n, cc, i, kk - 1);
            assert(csum(l, n, cc, i, kk) == c0 + lik * lck);
            assert(lik * (inner + lck * xc) + c0 * xc == lik * inner + (c0 + lik * lck) * xc) by(nonlinear_arith);
        } else {
            assert(tsum_t(l, n, x, k, k, cc + 1) == 0real); assert(inner == 0real);
            assert(imin(kk, cc + 1) == cc + 1 && imin(kk - 1, cc + 1) == cc + 1);
            assert(lik * 0real == 0real) by(nonlinear_arith);
        }
    } else { assert(csum(l, n, cc, i, 0) == 0real); assert(0real * rv(x[cc]) == 0real) by(nonlinear_arith); }
}
pub proof fn lemma_osum2_zero(l: Seq<f64>, n: int, i: int, x: Seq<f64>, kk: int) requires 0 <= kk
    ensures osum2(l, n, i, x, 0, kk) == 0real decreases kk
{ if kk > 0 { lemma_osum2_zero(l, n, i, x, kk - 1); assert(tsum_t(l, n, x, kk - 1, kk - 1, 0) == 0real); assert(rv(at2(l, n, i, kk - 1)) * 0real == 0real) by(nonlinear_arith); } }
pub proof fn lemma_g2_split(l: Seq<f64>, n: int, i: int, x: Seq<f64>, cc: int)
    requires 0 <= i, 0 <= cc
    ensures gsum2(l, n, i, x, cc) == osum2(l, n, i, x, cc, i + 1) decreases cc
{
    if cc > 0 {
        let c = cc - 1;
        lemma_g2_split(l, n, i, x, c);
        lemma_osum2_step(l, n, i, x, c, i + 1);
        assert(imin(i + 1, c + 1) == imin(i, c) + 1);
    } else { lemma_osum2_zero(l, n, i, x, i + 1); }
}
pub proof fn lemma_osum2_y(l: Seq<f64>, n: int, i: int, x: Seq<f64>, y: Seq<f64>, kk: int)
    requires 0 <= kk <= n, forall|k: int| 0 <= k < kk ==> tsum_t(l, n, x, k, k, n) == rv(#[trigger] y[k])
    ensures osum2(l, n, i, x, n, kk) == tsum(l, n, y, i, 0, kk) decreases kk
{ if kk > 0 { lemma_osum2_y(l, n, i, x, y, kk - 1); assert(tsum_t(l, n, x, kk - 1, kk - 1, n) == rv(y[kk - 1])); } }
pub proof fn lemma_tsum_t_low(m: Seq<f64>, n: int, x: Seq<f64>, i: int, lo: int, hi: int) requires lo < hi
    ensures tsum_t(m, n, x, i, lo, hi) == rv(at2(m, n, lo, i)) * rv(x[lo]) + tsum_t(m, n, x, i, lo + 1, hi) decreases hi - lo
{ if hi > lo + 1 { lemma_tsum_t_low(m, n, x, i, lo, hi - 1); } else { assert(tsum_t(m, n, x, i, lo, lo) == 0real); assert(tsum_t(m, n, x, i, lo + 1, lo + 1) == 0real); } }
/// L L^T = A on the lower triangle, L y = b, L^T x = y  ==>  row i of  S x = b  where S is the symmetric matrix given by A's lower triangle
pub proof fn theorem_chol_solves(a: Seq<f64>, l: Seq<f64>, n: int, b: Seq<f64>, y: Seq<f64>, x: Seq<f64>, i: int)
    requires chol_rows(a, l, n, n), 0 <= i < n, y.len() == n,
             forall|k: int| 0 <= k < n ==> #[trigger] lower_row(l, n, y, b, k),
             forall|k: int| 0 <= k < n ==> rv(at2(l, n, k, k)) * rv(x[k]) + #[trigger] tsum_t(l, n, x, k, k + 1, n) == rv(y[k]),
    ensures ssum(a, n, i, x, n) == rv(b[i])
{
    lemma_s_g(a, l, n, i, x, n);
    lemma_g2_split(l, n, i, x, n);
    assert forall|k: int| 0 <= k < n implies tsum_t(l, n, x, k, k, n) == rv(#[trigger] y[k]) by {
        lemma_tsum_t_low(l, n, x, k, k, n);
        assert(rv(at2(l, n, k, k)) * rv(x[k]) + tsum_t(l, n, x, k, k + 1, n) == rv(y[k]));
    }
    lemma_osum2_y(l, n, i, x, y, i + 1);
    assert(lower_row(l, n, y, b, i));
    assert(tsum(l, n, y, i, 0, i + 1) == tsum(l, n, y, i, 0, i) + rv(at2(l, n, i, i)) * rv(y[i]));
}
/// the Cholesky route is exact over the reals: every row of S x = b holds
pub open spec fn chol_exact(a: Seq<f64>, n: int, b: Seq<f64>, x: Seq<f64>) -> bool {
    forall|i: int| 0 <= i < n ==> #[trigger] ssum(a, n, i, x, n) == rv(b[i])
}
pub proof fn lemma_chol_route_exact(a: Seq<f64>, l: Seq<f64>, n: int, b: Seq<f64>, x: Seq<f64>)
    requires chol_rows(a, l, n, n), chol_solved(l, n, x, b)
    ensures chol_exact(a, n, b, x)
{
    let y = choose|y: Seq<f64>| y.len() == n
        && (forall|i: int| 0 <= i < n && rv(at2(l, n, i, i)) != 0real ==> #[trigger] lower_row(l, n, y, b, i))
        && (forall|i: int| 0 <= i < n && rv(at2(l, n, i, i)) != 0real ==> rv(at2(l, n, i, i)) * rv(x[i]) + #[trigger] tsum_t(l, n, x, i, i + 1, n) == rv(y[i]));
    assert forall|k: int| 0 <= k < n implies rv(at2(l, n, k, k)) != 0real by { assert(rv(at2(l, n, k, k)) > 0real); }
    assert forall|i: int| 0 <= i < n implies #[trigger] ssum(a, n, i, x, n) == rv(b[i]) by { theorem_chol_solves(a, l, n, b, y, x, i); }
}
'''
SPEC = t.SPEC + c01.SQ_UNIQUE + t.CHOL_SPEC + t.CHOL2_SPEC + t.LUS_SPEC + c01.LU_ONLY_SPEC + rec.REC_SPEC + EXACT_SPEC + CHOL_EXACT_SPEC + r'''

/// the test that routes a system to the Cholesky solver
pub open spec fn pd_test(m: Seq<f64>, n: int) -> bool { sym_eps(m, n) && diag_pos(m, n) }
/// x solves the system with matrix a and right-hand side b by one of the two routes (property C01: the route is
/// Cholesky exactly when the test passes and the factorisation meets no non-positive pivot)
pub open spec fn solved_by_route(a: Seq<f64>, n: int, b: Seq<f64>, x: Seq<f64>) -> bool {
    (pd_test(a, n) && (exists|l: Seq<f64>| l.len() == n * n && #[trigger] chol_rows(a, l, n, n) && chol_zero(l, n, n, 0) && chol_solved(l, n, x, b)) && chol_exact(a, n, b, x))
    || ((!pd_test(a, n) || !no_bad_pivot(a, n)) && (exists|f: Seq<f64>, piv: Seq<i32>| f.len() == n * n && is_perm32(piv, n) && bounded(f, n, n) && factored(a, f, piv, n, n) && #[trigger] lu_solved(f, n, piv, b, x) && lu_exact(a, n, b, x, f, piv)))
}
'''
UNWRAP_M = ('is_square(m).unwrap()', 'match is_square(m) { Ok(v_) => v_, Err(_) => ::core::panicking::panic("unwrap") }', 'R2b')
SQM = '(exists|k: int| 0 <= k && #[trigger] (k * k) == m@.len())'
is_pd = Fn(U + 'is_positive_definite', ret='r', level='L1', valid=SQM, panics={1: 'REJECT'},
           rewrites=[UNWRAP_M, (r'if m\[i \* n \+ i\] (<=|<|>=|>|==|!=) 0\. \{ return false; \}',
                                r'if m[i * n + i] \1 0. { proof { lemma_sq_unique(n as int, m@.len() as int); assert(!diag_pos(m@, n as int)) by { assert(!(rv(at2(m@, n as int, i as int, i as int)) > 0real)); } } return false; }',
                                'proof hint inside the early exit (comparison kept verbatim)', 're')],
           requires=['C01.machine:: m@.len() <= 0x7fff_ffff'],
           ensures=['C01.is_pd.valid:: ' + SQM, 'C01.is_pd.def:: forall|n: int| 0 <= n && n * n == m@.len() ==> (r == #[trigger] pd_test(m@, n))'],
           loops={1: {'invariant': ['n * n == m@.len()', 'm@.len() <= 0x7fff_ffff', 'sym_eps(m@, n as int)', 'C01.is_pd.diag:: forall|q: int| 0 <= q < i ==> rv(#[trigger] at2(m@, n as int, q, q)) > 0real'],
                      'body_start': 'lemma_idx(i as int, i as int, n as int, n as int);'}},
           hints=[('if !is_symmetric(m)', 'before', 'proof { if exists|k: int| 0 <= k && #[trigger] (k * k) == m@.len() { let k0 = choose|k: int| 0 <= k && #[trigger] (k * k) == m@.len(); lemma_sq_unique(k0, m@.len() as int); } }'),
                  ('let n = ', 'after', 'proof { lemma_sq_unique(n as int, m@.len() as int); }'),

                  ('\n            true\n', 'replace', '\n proof { lemma_sq_unique(n as int, m@.len() as int); }\n true\n')])

UNITS = [
    Unit('C01_pd', ('C01', 'C11'), [is_pd], use=[c01.is_square, c01.is_symmetric], types=core.TYPES, type_spec=core.TYPE_SPEC, spec=SPEC, preludes=PRE, broadcast=BC, level='L1',
         notes='is_positive_definite answers exactly "symmetric within epsilon and positive diagonal" (the routing test of the solvers)'),
]

# ---------------------------------------------------------------- solve: routing + composition
SOLVE_HINT_CHOL = ('({ proof { assert(chol_post(a@, chol, n as int)); } let x_ = cholesky_solve(&l, b); proof { assert(chol_rows(a@, l@, n as int, n as int)); lemma_chol_route_exact(a@, l@, n as int, b@, x_@); assert(solved_by_route(a@, n as int, b@, x_@)); } x_ })')
SOLVE_HINT_LU = ('({ let x_ = lu_solve(&lu, &piv, b); proof { '
                 'if pd_ { assert(chol_post(a@, chol, n as int)); } '
                 'assert(is_perm32(piv@, n as int)); assert(bounded(lu@, n as int, n as int)); assert(factored(a@, lu@, piv@, n as int, n as int)); assert(lu_solved(lu@, n as int, piv@, b@, x_@)); lemma_lu_route_exact(a@, lu@, piv@, n as int, b@, x_@); assert(solved_by_route(a@, n as int, b@, x_@)); } x_ })')
solve = Fn(U + 'solve', ret='x', level='L1', valid='a@.len() == b@.len() * b@.len()', panics={1: 'REJECT'},
           requires=['C01.solve.machine:: 0 < b@.len() <= 0x7fff_ffff && a@.len() <= 0x7fff_ffff && b@.len() * b@.len() <= usize::MAX'],
           ensures=['C01.solve.valid:: a@.len() == b@.len() * b@.len()', 'C01.solve.len:: x@.len() == b@.len()',
                    'C01.solve.route:: solved_by_route(a@, b@.len() as int, b@, x@)'],
           rewrites=[('if is_positive_definite(a) {', 'if ({ let t_ = is_positive_definite(a); proof { pd_ = t_; } t_ }) {', 'R31: the routing test bound to a ghost name'),
                     ('cholesky_solve(&l, b)', SOLVE_HINT_CHOL, 'R31: result bound to a name for the proof hint'),
                     ('lu_solve(&lu, &piv, b)', SOLVE_HINT_LU, 'R31')],
           hints=[('let chol =', 'before', 'let ghost mut pd_ = false; proof { lemma_sq_unique(n as int, a@.len() as int); }')])
UNITS.append(Unit('C01_solve', ('C01', 'C11'), [solve], use=[c01.is_square, is_pd, t.try_chol, t.chol_solve, rec.lu_full, t.lu_solve], types=core.TYPES, type_spec=core.TYPE_SPEC,
                  spec=SPEC, preludes=PRE, broadcast=BC, level='L1', rlimit=100,
                  notes='solve: size mismatch rejected; the Cholesky route is taken exactly when the symmetry / positive-diagonal test passes and no pivot is non-positive, and then the '
                        'result satisfies L L^T = A, L y = b, L^T x = y and therefore (theorem_chol_solves, over the reals) every row of S x = b for the symmetric matrix S given by the lower triangle of A; '
                        'otherwise the result satisfies the pivoted-LU solve equations and (theorem_lu_solves) every row of A x = b when no pivot is zero'))

# ---------------------------------------------------------------- layout conversions and the identity
UNWRAP_IM = c15.UNWRAP_IS_MATRIX
TV = c15.TV
r2c = Fn(U + 'row_to_col_major', ret='x', level='L0', valid=TV, panics={1: 'REJECT'}, rewrites=[UNWRAP_IM],
         requires=['C01.layout.nrows:: nrows > 0', 'C01.layout.machine:: a@.len() <= 0x7fff_ffff'],
         ensures=['C01.r2c.valid:: ' + TV, 'C01.r2c.view:: is_transpose(a@, x.v@, nrows as int, (a@.len() as int) / (nrows as int))'],
         loops={1: {'invariant': ['x.v@.len() == a@.len()', 'nrows * ncols == a@.len()', 'ncols * nrows == a@.len()', 'a@.len() <= 0x7fff_ffff', 'ncols == (a@.len() as int) / (nrows as int)',
                                  'C01.r2c.rows_done:: forall|ii: int, jj: int| 0 <= ii < i && 0 <= jj < ncols ==> #[trigger] at2(x.v@, nrows as int, jj, ii) == at2(a@, ncols as int, ii, jj)']},
                2: {'invariant': ['x.v@.len() == a@.len()', 'nrows * ncols == a@.len()', 'ncols * nrows == a@.len()', 'a@.len() <= 0x7fff_ffff', '0 <= i < nrows', 'ncols == (a@.len() as int) / (nrows as int)',
                                  'C01.r2c.rows_done.j:: forall|ii: int, jj: int| 0 <= ii < i && 0 <= jj < ncols ==> #[trigger] at2(x.v@, nrows as int, jj, ii) == at2(a@, ncols as int, ii, jj)',
                                  'C01.r2c.row:: forall|jj: int| 0 <= jj < j ==> #[trigger] at2(x.v@, nrows as int, jj, i as int) == at2(a@, ncols as int, i as int, jj)'],
                    'body_ghost': 'let ghost pre_x = x.v@;',
                    'body_start': 'lemma_idx(i as int, j as int, nrows as int, ncols as int); lemma_idx(j as int, i as int, ncols as int, nrows as int);',
                    'body_end': ('assert forall|jj: int, ii: int| 0 <= jj < ncols && 0 <= ii < nrows && !(jj == j && ii == i) implies #[trigger] at2(x.v@, nrows as int, jj, ii) == at2(pre_x, nrows as int, jj, ii) by '
                                 '{ lemma_idx(jj, ii, ncols as int, nrows as int); if jj * nrows + ii == j * nrows + i { lemma_idx_inj(jj, ii, j as int, i as int, nrows as int); } }')}},
         hints=[('let mut x = Vector::new(a.to_vec());', 'before', 'proof { lemma_mul_div(nrows as int, ncols as int); assert(ncols * nrows == nrows * ncols) by(nonlinear_arith); }')])
c2r = Fn(U + 'col_to_row_major', ret='x', level='L0', valid=TV, panics={1: 'REJECT'}, rewrites=[UNWRAP_IM],
         requires=['C01.layout.nrows:: nrows > 0', 'C01.layout.machine:: a@.len() <= 0x7fff_ffff'],
         ensures=['C01.c2r.valid:: ' + TV, 'C01.c2r.view:: is_transpose(x@, a@, nrows as int, (a@.len() as int) / (nrows as int))'],
         loops={1: {'invariant': ['x@.len() == a@.len()', 'nrows * ncols == a@.len()', 'ncols * nrows == a@.len()', 'a@.len() <= 0x7fff_ffff', 'ncols == (a@.len() as int) / (nrows as int)',
                                  'C01.c2r.rows_done:: forall|ii: int, jj: int| 0 <= ii < i && 0 <= jj < ncols ==> #[trigger] at2(x@, ncols as int, ii, jj) == at2(a@, nrows as int, jj, ii)']},
                2: {'invariant': ['x@.len() == a@.len()', 'nrows * ncols == a@.len()', 'ncols * nrows == a@.len()', 'a@.len() <= 0x7fff_ffff', '0 <= i < nrows', 'ncols == (a@.len() as int) / (nrows as int)',
                                  'C01.c2r.rows_done.j:: forall|ii: int, jj: int| 0 <= ii < i && 0 <= jj < ncols ==> #[trigger] at2(x@, ncols as int, ii, jj) == at2(a@, nrows as int, jj, ii)',
                                  'C01.c2r.row:: forall|jj: int| 0 <= jj < j ==> #[trigger] at2(x@, ncols as int, i as int, jj) == at2(a@, nrows as int, jj, i as int)'],
                    'body_ghost': 'let ghost pre_x = x@;',
                    'body_start': 'lemma_idx(i as int, j as int, nrows as int, ncols as int); lemma_idx(j as int, i as int, ncols as int, nrows as int);',
                    'body_end': ('assert forall|ii: int, jj: int| 0 <= ii < nrows && 0 <= jj < ncols && !(ii == i && jj == j) implies #[trigger] at2(x@, ncols as int, ii, jj) == at2(pre_x, ncols as int, ii, jj) by '
                                 '{ lemma_idx(ii, jj, nrows as int, ncols as int); if ii * ncols + jj == i * ncols + j { lemma_idx_inj(ii, jj, i as int, j as int, ncols as int); } }')}},
         hints=[('let mut x = a.to_vec();', 'before', 'proof { lemma_mul_div(nrows as int, ncols as int); assert(ncols * nrows == nrows * ncols) by(nonlinear_arith); }')])
diag_m = Fn(U + 'diag_matrix', ret='r', level='L1',
            requires=['C01.diag_matrix.machine:: a@.len() * a@.len() <= 0x7fff_ffff'],
            ensures=['C01.diag_matrix.len:: r.v@.len() == a@.len() * a@.len()',
                     'C01.diag_matrix.entries:: forall|i: int, j: int| 0 <= i < a@.len() && 0 <= j < a@.len() ==> '
                     '(if i == j { #[trigger] at2(r.v@, a@.len() as int, i, j) == a@[i] } else { rv(at2(r.v@, a@.len() as int, i, j)) == 0real })'],
            loops={1: {'invariant': ['n == a@.len()', 'new.v@.len() == n * n', 'n * n <= 0x7fff_ffff',
                                     'C01.diag_matrix.inv:: forall|r: int, c: int| 0 <= r < n && 0 <= c < n ==> '
                                     '(if r == c && r < i { #[trigger] at2(new.v@, n as int, r, c) == a@[r] } else { rv(at2(new.v@, n as int, r, c)) == 0real })'],
                       'body_ghost': 'let ghost pre_n = new.v@;',
                       'body_start': 'lemma_idx(i as int, i as int, n as int, n as int);',
                       'body_end': ('assert forall|r: int, c: int| 0 <= r < n && 0 <= c < n && !(r == i && c == i) implies #[trigger] at2(new.v@, n as int, r, c) == at2(pre_n, n as int, r, c) by '
                                    '{ lemma_idx(r, c, n as int, n as int); if r * n + c == i * n + i { lemma_idx_inj(r, c, i as int, i as int, n as int); } }')}},
            hints=[('for i in 0..n', 'before', 'proof { assert forall|r: int, c: int| 0 <= r < n && 0 <= c < n implies rv(#[trigger] at2(new.v@, n as int, r, c)) == 0real by { lemma_idx(r, c, n as int, n as int); } }')])
UNITS.append(Unit('C01_layout', ('C01', 'C15'), [r2c, c2r, diag_m], use=core.core_stubs() + [c15.is_matrix], types=core.TYPES, type_spec=core.TYPE_SPEC, spec=c15.SPEC, preludes=PRE, broadcast=BC, level='L1',
                  notes='row-major <-> column-major conversions move entry (i,j) to its transposed flat position and back for every shape; diag_matrix puts the given values on the diagonal of a zero matrix'))

# ---------------------------------------------------------------- solve_sys (several right-hand sides) and invert_matrix
SYS_SPEC = r'''
/// column s of a row-major matrix with `w` columns and n rows
pub open spec fn colv(m: Seq<f64>, n: int, w: int, s: int) -> Seq<f64> { Seq::new(n as nat, |i: int| m[i * w + s]) }
/// every column of x solves the system with the matching column of b (by the route of property C01)
pub open spec fn sys_solved(a: Seq<f64>, n: int, b: Seq<f64>, x: Seq<f64>, w: int, upto: int) -> bool {
    forall|s: int| 0 <= s < upto ==> #[trigger] solved_by_route(a, n, colv(b, n, w, s), colv(x, n, w, s))
}
'''
SQA = '(exists|k: int| 0 <= k && #[trigger] (k * k) == a@.len())'
SYSV = '(exists|k: int| 0 < k && #[trigger] (k * k) == a@.len() && (b@.len() as int) % k == 0)'
UNWRAP_SA = ('is_square(a).unwrap()', 'match is_square(a) { Ok(v_) => v_, Err(_) => ::core::panicking::panic("unwrap") }', 'R2b')
UNWRAP_MB = ('is_matrix(b, n).unwrap()', 'match is_matrix(b, n) { Ok(v_) => v_, Err(_) => ::core::panicking::panic("unwrap") }', 'R2b')
SEG = 'solutions@.subrange(s * n, (s + 1) * n)'
SYS_INV = ['n * n == a@.len()', 'n > 0', 'nsys * n == b0.len()', 'b0.len() <= 0x7fff_ffff', 'a@.len() <= 0x7fff_ffff', 'b.v@.len() == b0.len()',
           'is_transpose(b0, b.v@, n as int, nsys as int)', 'solutions@.len() == i * n',
           'C01.solve_sys.cols_done:: forall|s: int| 0 <= s < i ==> #[trigger] solved_by_route(a@, n as int, colv(b0, n as int, nsys as int, s), ' + SEG + ')']
SYS_BODY_START = ('lemma_row(i as int, nsys as int, n as int); assert((i + 1) * n <= nsys * n); '
                  'assert forall|q: int| 0 <= q < n implies #[trigger] b.v@.subrange(i * n, (i + 1) * n)[q] == colv(b0, n as int, nsys as int, i as int)[q] by '
                  '{ lemma_idx(q, i as int, n as int, nsys as int); lemma_idx(i as int, q, nsys as int, n as int); assert(at2(b.v@, n as int, i as int, q) == at2(b0, nsys as int, q, i as int)); } '
                  'assert(b.v@.subrange(i * n, (i + 1) * n) =~= colv(b0, n as int, nsys as int, i as int));')
SYS_BODY_END = ('assert forall|s: int| 0 <= s < i + 1 implies #[trigger] solved_by_route(a@, n as int, colv(b0, n as int, nsys as int, s), ' + SEG + ') by { '
                'lemma_row(s, i as int + 1, n as int); lemma_row(i as int, i as int + 1, n as int); if s < i { lemma_row(s, i as int, n as int); assert(' + SEG + ' =~= pre_s.subrange(s * n, (s + 1) * n)); } else { assert(' + SEG + ' =~= sol@); } }')
solve_sys = Fn(U + 'solve_sys', ret='x', level='L1', valid=SYSV, panics={1: 'REJECT', 2: 'REJECT', 3: 'DEAD', 4: 'DEAD'}, rewrites=[UNWRAP_SA, UNWRAP_MB,
               ('if is_positive_definite(a) {', 'if ({ let t_ = is_positive_definite(a); proof { pd_ = t_; } t_ }) {', 'R31: the routing test bound to a ghost name'),
               ('cholesky_solve(&l, &b[(i * n)..((i + 1) * n)])', '({ proof { assert(chol_post(a@, chol, n as int)); } let x_ = cholesky_solve(&l, &b[(i * n)..((i + 1) * n)]); '
                'proof { assert(chol_rows(a@, l@, n as int, n as int)); lemma_chol_route_exact(a@, l@, n as int, colv(b0, n as int, nsys as int, i as int), x_@); assert(solved_by_route(a@, n as int, colv(b0, n as int, nsys as int, i as int), x_@)); } x_ })', 'R31'),
               ('lu_solve(&lu, &piv, &b[(i * n)..((i + 1) * n)])', '({ let x_ = lu_solve(&lu, &piv, &b[(i * n)..((i + 1) * n)]); '
                'proof { assert(lu_solved(lu@, n as int, piv@, colv(b0, n as int, nsys as int, i as int), x_@)); lemma_lu_route_exact(a@, lu@, piv@, n as int, colv(b0, n as int, nsys as int, i as int), x_@); assert(solved_by_route(a@, n as int, colv(b0, n as int, nsys as int, i as int), x_@)); } x_ })', 'R31')],
               requires=['C01.solve_sys.machine:: 0 < a@.len() <= 0x7fff_ffff && b@.len() <= 0x7fff_ffff'],
               ensures=['C01.solve_sys.valid:: ' + SYSV, 'C01.solve_sys.len:: x@.len() == b@.len()',
                        'C01.solve_sys.columns:: forall|n: int| 0 < n && n * n == a@.len() ==> #[trigger] sys_solved(a@, n, b@, x@, (b@.len() as int) / n, (b@.len() as int) / n)'],
               pre_body='let ghost b0 = b@;',
               loops={1: {'invariant': SYS_INV + ['chol_post(a@, chol, n as int)', 'chol == Some(l)', 'pd_test(a@, n as int)'], 'body_ghost': 'let ghost pre_s = solutions@;', 'body_start': SYS_BODY_START, 'body_end': SYS_BODY_END},
                      2: {'invariant': SYS_INV + ['is_perm32(piv@, n as int)', 'bounded(lu@, n as int, n as int)', 'factored(a@, lu@, piv@, n as int, n as int)', 'lu@.len() == n * n', '!pd_test(a@, n as int) || !no_bad_pivot(a@, n as int)'],
                          'body_ghost': 'let ghost pre_s = solutions@;', 'body_start': SYS_BODY_START, 'body_end': SYS_BODY_END}},
               hints=[('let nsys =', 'before', 'proof { lemma_sq_unique(n as int, a@.len() as int); assert(n > 0) by { if n == 0 { assert(0 * 0 == 0); } } }'),
                      ('let mut solutions =', 'before', 'let ghost mut pd_ = false; proof { lemma_mul_div(n as int, nsys as int); assert(nsys * n == n * nsys) by(nonlinear_arith); }'),
                      ('if let Some(l) = chol', 'before', 'proof { if pd_ { assert(chol_post(a@, chol, n as int)); } assert(0 * n == 0); }'),
                      ('col_to_row_major(&solutions, n)', 'replace',
                       '({ proof { lemma_mul_div(n as int, nsys as int); } let r_ = col_to_row_major(&solutions, n); proof { '
                       'assert forall|s: int| 0 <= s < nsys implies #[trigger] solved_by_route(a@, n as int, colv(b0, n as int, nsys as int, s), colv(r_@, n as int, nsys as int, s)) by { '
                       'lemma_row(s, nsys as int, n as int); '
                       'assert forall|q: int| 0 <= q < n implies #[trigger] colv(r_@, n as int, nsys as int, s)[q] == solutions@.subrange(s * n, (s + 1) * n)[q] by '
                       '{ lemma_idx(q, s, n as int, nsys as int); lemma_idx(s, q, nsys as int, n as int); assert(at2(solutions@, n as int, s, q) == at2(r_@, nsys as int, q, s)); } '
                       'assert(colv(r_@, n as int, nsys as int, s) =~= solutions@.subrange(s * n, (s + 1) * n)); } '
                       'assert(sys_solved(a@, n as int, b0, r_@, nsys as int, nsys as int)); } r_ })')])
UNITS.append(Unit('C01_solve_sys', ('C01', 'C11'), [solve_sys], use=[c01.is_square, c15.is_matrix, is_pd, t.try_chol, t.chol_solve, rec.lu_full, t.lu_solve, r2c, c2r] + core.core_stubs(),
                  types=core.TYPES, type_spec=core.TYPE_SPEC, spec=SPEC + SYS_SPEC, preludes=PRE, broadcast=BC, level='L1', rlimit=200,
                  notes='solve_sys: column c of the result solves the system with column c of the right-hand side (row-major <-> column-major round trip), by the same route as solve; '
                        'shape mismatches rejected'))

INV_SPEC = r'''
pub open spec fn is_identity(m: Seq<f64>, n: int) -> bool {
    m.len() == n * n && forall|i: int, j: int| 0 <= i < n && 0 <= j < n ==> rv(#[trigger] at2(m, n, i, j)) == (if i == j { 1real } else { 0real })
}
/// every column of r solves  A r_c = e_c  (by the route of property C01): r is the inverse computed column by column
pub open spec fn inverse_of(a: Seq<f64>, n: int, r: Seq<f64>) -> bool {
    exists|id: Seq<f64>| #[trigger] is_identity(id, n) && sys_solved(a, n, id, r, n, n)
}
'''
UNWRAP_SM = ('is_square(matrix).unwrap()', 'match is_square(matrix) { Ok(v_) => v_, Err(_) => ::core::panicking::panic("unwrap") }', 'R2b')
SQMX = '(exists|k: int| 0 <= k && #[trigger] (k * k) == matrix@.len())'
invert = Fn(U + 'invert_matrix', ret='r', level='L1', valid=SQMX, panics={1: 'REJECT'}, rewrites=[UNWRAP_SM],
            requires=['C01.invert.machine:: 0 < matrix@.len() <= 0x7fff_ffff'],
            ensures=['C01.invert.valid:: ' + SQMX, 'C01.invert.len:: r@.len() == matrix@.len()',
                     'C01.invert.columns:: forall|n: int| 0 < n && n * n == matrix@.len() ==> #[trigger] inverse_of(matrix@, n, r@)'],
            hints=[('let ones =', 'before', 'proof { lemma_sq_unique(n as int, matrix@.len() as int); assert(n > 0) by { if n == 0 { assert(0 * 0 == 0); } } }'),
                   ('solve_sys(matrix, &ones)', 'replace',
                    '({ proof { lemma_mul_div(n as int, n as int); } let r_ = solve_sys(matrix, &ones); proof { assert(is_identity(ones.v@, n as int)); assert(sys_solved(matrix@, n as int, ones.v@, r_@, n as int, n as int)); '
                    'assert(inverse_of(matrix@, n as int, r_@)); } r_ })')])
UNITS.append(Unit('C01_invert', ('C01', 'C11'), [invert], use=[c01.is_square, solve_sys, diag_m] + core.core_stubs(), types=core.TYPES, type_spec=core.TYPE_SPEC,
                  spec=SPEC + SYS_SPEC + INV_SPEC, preludes=PRE, broadcast=BC, level='L1', rlimit=100,
                  notes='invert_matrix: column c of the result solves A x = e_c (solve_sys applied to the identity built by diag_matrix); non-square input rejected'))

# ---------------------------------------------------------------- Matrix::solve(&Vector): the LU route at Matrix level
UNITS.append(Unit('C01_matrix_solve', ('C01', 'C11'), [t.mlu_solve, t.msolve], use=core.core_stubs() + [rec.mlu_full()], types=core.TYPES, type_spec=core.TYPE_SPEC,
                  spec=t.SPEC + t.LUS_SPEC + c01.LU_ONLY_SPEC + rec.REC_SPEC + EXACT_SPEC, nra=t.NRA, preludes=PRE, broadcast=BC, level='L1', rlimit=100,
                  notes='Matrix-level lu_solve (Vector right-hand side) satisfies the same equations as the slice-level routine; Matrix::solve(&Vector) is lu + lu_solve: '
                        'P A = L U, (unit lower) y = P b, U x = y; non-square / mismatched systems rejected'))
