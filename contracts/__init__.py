"""Side-car contracts, one module per property.  registry() -> {unit name: Unit}."""
import importlib

MODULES = ['core', 'C04', 'dist', 'C17', 'C16', 'C19', 'C15', 'C05', 'C08', 'C13', 'C01', 'C14', 'C06', 'C07', 'C12', 'C20', 'C02mvn', 'C11tri', 'C01solve', 'C13ar', 'C15b', 'C11rec', 'C11m', 'C15c', 'C04b', 'C01m', 'C08w', 'C06b', 'C06c', 'misc2', 'C07b']
_reg = None


def registry():
    global _reg
    if _reg is None:
        _reg = {}
        import os
        extra = [x for x in os.environ.get('VERIF_EXTRA_MODULES', '').split(',') if x]      # dev only: modules under construction
        for m in MODULES + extra:
            mod = importlib.import_module('contracts.' + m)
            for u in mod.UNITS:
                assert u.name not in _reg, u.name
                _reg[u.name] = u
    return _reg


def extras(prop, tier, crate, seed):
    """engines other than Verus: NRA side lemmas of the property's units (z3 + cvc5), bounded Kani harnesses"""
    from vc import nra
    out = []
    reg = registry()
    seen = set()
    for u in reg.values():
        if prop in u.props:
            for lem in u.nra:
                if lem.name not in seen:
                    seen.add(lem.name)
                    out.append(nra.discharge(lem))
    try:
        mod = importlib.import_module('contracts.' + prop)
        if hasattr(mod, 'extras'):
            out += mod.extras(tier, crate, seed)
    except ImportError:
        pass
    return out
