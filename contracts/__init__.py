"""Side-car contracts, one module per property.  registry() -> {unit name: Unit}."""
import importlib

MODULES = ['core', 'C04', 'dist', 'C17', 'C16', 'C19', 'C15', 'C05']
_reg = None


def registry():
    global _reg
    if _reg is None:
        _reg = {}
        for m in MODULES:
            mod = importlib.import_module('contracts.' + m)
            for u in mod.UNITS:
                assert u.name not in _reg, u.name
                _reg[u.name] = u
    return _reg


def extras(prop, tier, crate, seed):
    try:
        mod = importlib.import_module('contracts.' + prop)
    except ImportError:
        return []
    if hasattr(mod, 'extras'):
        return mod.extras(tier, crate, seed)
    return []
