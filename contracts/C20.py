"""C20 — covariance kernels, matrix (Gram) forms: one row per first-argument point, one column per second-argument point,
every entry equal to the scalar form (L1).  The scalar forms live in contracts/C17.py (unit C20_scalar)."""
import re
from vc.gen import Fn, Unit
from contracts import core
from contracts import C04 as c04
from contracts import C05 as c05
from contracts import C12 as c12
from contracts import C17 as c17
from contracts.core import VEC, MAT, IM, IV

PRE = ('fax_l0', 'fmeth', 'stdspec', 'l1')
BC = ('l0', 'l1_arith', 'l1_fun', 'ax_vec_from_refl', 'ax_f64_cloned')
K = c17.K

SPEC = c05.SPEC + c05.DOT_WFD + c12.SPEC_ONLY + c12.LEAF_SPEC + c12.IMPL_SPEC + c17.SPEC20 + r'''
pub proof fn lemma_sq_expand(x: real, y: real) ensures x * x + y * y - 2real * (x * y) == sq(x - y)
{ assert(x * x + y * y - 2real * (x * y) == (x - y) * (x - y)) by(nonlinear_arith); }
/// the only term of a product with inner dimension 1
pub proof fn lemma_psum1(a: Seq<f64>, b: Seq<f64>, i: int, j: int)
    ensures psum(a, 1, false, b, 1, true, i, j, 1) == rv(at2(a, 1, i, 0)) * rv(at2(b, 1, j, 0))
{ reveal_with_fuel(psum, 3); }
'''


def _pts(ty):
    """(points sequence, length precondition) of an argument of type ty"""
    if 'Vector' in ty:
        return '%s.v@'
    return '%s.data.v@'


def anf(kind):
    ws = lambda t: r'\s*'.join(re.escape(tok) for tok in t.split())
    core_ = (r'\((\w+)\.powi\(2\)\.reshape\(-1,\s*1\)\s*\+\s*(\w+)\.powi\(2\)\.reshape\(1,\s*-1\)\s*-\s*2\.\s*\*\s*(\w+)\.dot_t\((\w+)\)\)')
    steps = (r'let a_ = \1.powi(2).reshape(-1, 1); let b_ = \2.powi(2).reshape(1, -1); let s_ = a_ + b_; '
             r'let d_ = \3.dot_t(\4); let t_ = 2. * d_; let u_ = s_ - t_; ')
    if kind == 'rbf':
        pat = r'\(-' + core_ + r'\s*/\s*\(2\.\s*\*\s*self\.length_scale\.powi\(2\)\)\)\s*\.exp\(\)\s*\*\s*self\.var'
        new = steps + ('let n_ = Neg::neg(u_); let c_ = 2. * self.length_scale.powi(2); let q_ = n_ / c_; let e_ = q_.exp(); let out_ = e_ * self.var; '
                       'PROOF_HINT out_')
    else:
        pat = r'\(1\.\s*\+\s*' + core_ + r'\s*/\s*\(2\.\s*\*\s*self\.alpha\s*\*\s*self\.length_scale\.powi\(2\)\)\)\s*\.powf\(-self\.alpha\)\s*\*\s*self\.var'
        new = steps + ('let c_ = 2. * self.alpha * self.length_scale.powi(2); let q_ = u_ / c_; let w_ = 1. + q_; let e_ = w_.powf(-self.alpha); let out_ = e_ * self.var; '
                       'PROOF_HINT out_')
    return pat, new


def kfn(kind, ty):
    struct = 'RBFKernel' if kind == 'rbf' else 'RationalQuadraticKernel'
    hdr = 'impl Kernel<%s, Matrix> for %s' % (ty, struct)
    tag = 'C20.%s.matrix<%s>' % (kind, ty)
    px, py = _pts(ty) % 'x', _pts(ty) % 'y'
    wfx = '' if 'Vector' in ty else 'wf(%sx) && wf(%sy) && ' % (('*' if ty.startswith('&') else ''), ('*' if ty.startswith('&') else ''))
    if kind == 'rbf':
        params_pos = 'rv(self.length_scale) > 0real'
        entry = 'k_rbf(rv(self.var), rv(self.length_scale), rv(%s[i]), rv(%s[j]))' % (px, py)
    else:
        params_pos = 'rv(self.length_scale) > 0real && rv(self.alpha) > 0real'
        entry = 'k_rq(rv(self.var), rv(self.alpha), rv(self.length_scale), rv(%s[i]), rv(%s[j]))' % (px, py)
    pat, new = anf(kind)
    n, m = '%s.len()' % px, '%s.len()' % py
    pos_hint = ('lemma_mul_pos(rv(self.length_scale), rv(self.length_scale)); ' if kind == 'rbf' else
                'lemma_mul_pos(rv(self.length_scale), rv(self.length_scale)); lemma_mul_pos(2real * rv(self.alpha), rv(self.length_scale) * rv(self.length_scale)); ')
    hint = ('proof { ' + pos_hint +
            'assert forall|i: int, j: int| 0 <= i < out_.nrows && 0 <= j < out_.ncols implies rv(#[trigger] at2(out_.data.v@, out_.ncols as int, i, j)) == %s by { '
            'lemma_idx(i, j, out_.nrows as int, out_.ncols as int); lemma_idx(i, 0, a_.nrows as int, 1); lemma_idx(0, j, 1, b_.ncols as int); '
            'lemma_psum1(x.data.v@, y.data.v@, i, j); lemma_sq_expand(rv(%s[i]), rv(%s[j])); '
            'assert(at2(s_.data.v@, s_.ncols as int, i, j) == f_add(bc(a_, i, j), bc(b_, i, j))); '
            'assert(rv(at2(d_.data.v@, d_.ncols as int, i, j)) == rv(%s[i]) * rv(%s[j])); '
            'assert(at2(u_.data.v@, u_.ncols as int, i, j) == f_sub(bc(s_, i, j), bc(t_, i, j))); '
            '} }') % (entry.replace(px, 'px_').replace(py, 'py_'), 'px_', 'py_', 'px_', 'py_')
    new = new.replace('PROOF_HINT', hint)
    return Fn(K + '{%s}::forward' % hdr, ret='r', level='L1', inherent=True, name_as='forward_' + re.sub(r'\W', '', ty.replace('&', 'ref')),
              requires=[tag + '.machine:: %s0 < %s <= i32max() && 0 < %s <= i32max() && %s * %s <= i32max()' % (wfx, n, m, n, m), tag + '.params:: ' + params_pos],
              ensures=[tag + '.shape:: r.nrows == %s && r.ncols == %s && wf(r)' % (n, m),
                       tag + '.entry:: forall|i: int, j: int| 0 <= i < %s && 0 <= j < %s ==> rv(#[trigger] at2(r.data.v@, %s as int, i, j)) == %s' % (n, m, m, entry)],
              pre_body='let ghost px_ = %s; let ghost py_ = %s;' % (px, py),
              rewrites=[(pat, new, 'R31: the result expression in A-normal form (one `let` per operation, evaluation order kept; operand names captured from the source)', 're')])


KFNS = [kfn(kind, ty) for kind in ('rbf', 'rq') for ty in ('Matrix', 'Vector', '&Matrix', '&Vector')]

_core_all = core.core_stubs()
_mm = [f for f in c05.DOT_MM if '{impl Dot<Matrix, Matrix> for Matrix}' in f.path]
_ops = [f for f in c12.OP_IMPLS['add'] + c12.OP_IMPLS['sub'] if '<Matrix> for Matrix}' in f.path]
_ms = [f for f in c04.MATRIX_IMPLS if any(h in f.path for h in ('{impl Mul<Matrix> for f64}', '{impl Div<f64> for Matrix}', '{impl Mul<f64> for Matrix}', '{impl Add<Matrix> for f64}'))]
_un = [f for f in c04.MATRIX_UNARY if f.path.endswith('::powi') or f.path.endswith('::exp') or f.path.endswith('::powf')]
UNITS = [
    Unit('C20_matrix', 'C20', KFNS, use=_core_all + _mm + _ops + _ms + _un + [c04.mat_neg], types=c12.TYPES + c17.TYPES20, type_spec=core.TYPE_SPEC,
         spec=SPEC, traits=[(c05.D + '{trait Dot}', c05.DOT_TRAIT_DECL)], preludes=PRE, broadcast=BC, level='L1', rlimit=100,
         notes='matrix forms of the RBF and rational-quadratic kernels (Matrix / Vector / borrowed arguments): n x m result, entry (i,j) equals the scalar kernel '
               'of the i-th first-argument point and the j-th second-argument point; composed from the reshape, element-wise, broadcast and product contracts'),
]
