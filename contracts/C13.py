"""C13 — autocorrelation, AR fitting and forecasting are consistent (L1)."""
from vc.gen import Fn, Unit
from vc.nra import Lemma
from contracts import C08 as c08

PRE = ('fax_l0', 'fmeth', 'stdspec', 'l1')
BC = ('l0', 'l1_arith', 'l1_fun')
T = 'timeseries::functions::'

SPEC = c08.SPEC + r'''
/// sum over j < k of (ts[lag + j] - m)(ts[j] - m): the lag-`lag` co-moment of the series about m
pub open spec fn rlag(ts: Seq<f64>, m: real, lag: int, k: int) -> real decreases k {
    if k <= 0 { 0real } else { rlag(ts, m, lag, k - 1) + (rv(ts[lag + k - 1]) - m) * (rv(ts[k - 1]) - m) }
}
pub open spec fn iabs(k: int) -> int { if k < 0 { -k } else { k } }
/// biased autocovariance estimator at lag k (property C13): (1/n) sum_{i >= |k|} (ts_i - m)(ts_{i-|k|} - m)
pub open spec fn acov_def(ts: Seq<f64>, k: int) -> real {
    let n = ts.len() as int; let m = rsum(ts, n) / (n as real);
    (1real / (n as real)) * rlag(ts, m, iabs(k), n - iabs(k))
}
pub proof fn lemma_lag_sum(v: Seq<f64>, ts: Seq<f64>, m: f64, lag: int, k: int)
    requires 0 <= k <= v.len(), 0 <= lag, v.len() > 0 ==> lag + v.len() <= ts.len(),
             forall|j: int| 0 <= j < v.len() ==> #[trigger] v[j] == f_mul(f_sub(ts[lag + j], m), f_sub(ts[j], m))
    ensures rsum(v, k) == rlag(ts, rv(m), lag, k)
    decreases k
{
    if k > 0 { lemma_lag_sum(v, ts, m, lag, k - 1); assert(v[k - 1] == f_mul(f_sub(ts[lag + (k - 1)], m), f_sub(ts[k - 1], m))); }
}
'''
NRA = [Lemma('nra_mean_value', 'n s m', ['(> n 0)', '(= (* n m) s)'], ['(= m (/ s n))'])]

MACH = 'C13.machine:: 0 < ts@.len() < 0x7fff_ffff && -0x7fff_ffff < k < 0x7fff_ffff'
acovf = Fn(T + 'acovf', ret='r', level='L1', requires=[MACH],
           ensures=['C13.acovf.def:: rv(r) == acov_def(ts@, k as int)'],
           rewrites=[('(k.abs() as usize..n).into_iter().map(|i|', '({ let prods_: Vec<f64> = (k.abs() as usize..n).into_iter().map(|i|', 'R6b: bind the collected products of `.map(..).sum()`'),
                     ('.sum::<f64>()', '.collect::<Vec<f64>>(); let ghost pv_ = prods_@; let tot_ = vsum(prods_); '
                      'proof { assert forall|j: int| 0 <= j < pv_.len() implies #[trigger] pv_[j] == f_mul(f_sub(ts@[iabs(k as int) + j], ts_mean), f_sub(ts@[j], ts_mean)) by { } '
                      'lemma_lag_sum(pv_, ts@, ts_mean, iabs(k as int), pv_.len() as int); nra_mean_value(n as real, rsum(ts@, n as int), rv(ts_mean)); } tot_ })',
                      'R6b: `.sum::<f64>()` == vsum(collected)'),
                     ('1. / n as f64\n                *', 'let lead_ = 1. / n as f64; lead_ *', 'RX: name the leading factor (evaluation order of `a * b` is left to right)')],
           closures={1: {'params': 'i: usize', 'ret': 'o: f64', 'requires': ['iabs(k as int) <= i < n'],
                         'ensures': ['o == f_mul(f_sub(ts@[i as int], ts_mean), f_sub(ts@[i - iabs(k as int)], ts_mean))']}})

UNITS = [
    Unit('C13_acf', 'C13', [acovf], use=[c08.mean], spec=SPEC, nra=c08.NRA + NRA, preludes=PRE, broadcast=BC, level='L1',
         notes='autocovariance equals its biased-estimator definition for every series and lag'),
]

# ---------------------------------------------------------------- acf = acovf(k) / acovf(0); difference
SPEC2 = r'''
pub open spec fn rcsq(ts: Seq<f64>, m: real, k: int) -> real decreases k {
    if k <= 0 { 0real } else { rcsq(ts, m, k - 1) + (rv(ts[k - 1]) - m) * (rv(ts[k - 1]) - m) }
}
pub proof fn lemma_sq_sum(v: Seq<f64>, ts: Seq<f64>, m: f64, k: int)
    requires 0 <= k <= v.len(), v.len() <= ts.len(), forall|j: int| 0 <= j < v.len() ==> #[trigger] v[j] == f_powi(f_sub(ts[j], m), 2)
    ensures rsum(v, k) == rcsq(ts, rv(m), k)
    decreases k
{
    if k > 0 { lemma_sq_sum(v, ts, m, k - 1); assert(v[k - 1] == f_powi(f_sub(ts[k - 1], m), 2)); }
}
pub proof fn lemma_lag0(ts: Seq<f64>, m: real, k: int) requires 0 <= k ensures rlag(ts, m, 0, k) == rcsq(ts, m, k) decreases k {
    if k > 0 { lemma_lag0(ts, m, k - 1); }
}
'''
NRA2 = [Lemma('nra_div_nonzero', 'n b', ['(> n 0)', '(distinct b 0)'], ['(distinct (/ b n) 0)']),
        Lemma('nra_ratio', 'n b', ['(> n 0)'], ['(= (/ b n) (* (/ 1 n) b))'])]
acf = Fn(T + 'acf', ret='r', level='L1', requires=[MACH],
         ensures=['C13.acf.ratio:: acov_def(ts@, 0) != 0real ==> rv(r) == acov_def(ts@, k as int) / acov_def(ts@, 0)'],
         rewrites=[('(k.abs() as usize..n).into_iter().map(|i|', '({ let prods_: Vec<f64> = (k.abs() as usize..n).into_iter().map(|i|', 'R6b: bind the collected products of `.map(..).sum()`'),
                   ('(ts[i - k.abs() as usize] - ts_mean)).sum::<f64>()', '(ts[i - k.abs() as usize] - ts_mean)).collect::<Vec<f64>>(); let ghost pv_ = prods_@; let tot_ = vsum(prods_); '
                    'proof { assert forall|j: int| 0 <= j < pv_.len() implies #[trigger] pv_[j] == f_mul(f_sub(ts@[iabs(k as int) + j], ts_mean), f_sub(ts@[j], ts_mean)) by { } '
                    'lemma_lag_sum(pv_, ts@, ts_mean, iabs(k as int), pv_.len() as int); nra_mean_value(n as real, rsum(ts@, n as int), rv(ts_mean)); } tot_ })',
                    'R6b: `.sum::<f64>()` == vsum(collected)'),
                   ('(0..n).into_iter().map(|i|', '({ let sq_: Vec<f64> = (0..n).into_iter().map(|i|', 'R6b: bind the collected squares'),
                   ('(ts[i] - ts_mean).powi(2)).sum::<f64>()', '(ts[i] - ts_mean).powi(2)).collect::<Vec<f64>>(); let ghost sv_ = sq_@; let stot_ = vsum(sq_); '
                    'proof { lemma_sq_sum(sv_, ts@, ts_mean, n as int); lemma_lag0(ts@, rv(ts_mean), n as int); } stot_ })', 'R6b: `.sum::<f64>()` == vsum(collected)'),
                   ('numerator / denominator', '({ proof { let nr_ = n as real; let m_ = rv(ts_mean); let a_ = rlag(ts@, m_, iabs(k as int), n - iabs(k as int)); let b_ = rcsq(ts@, m_, n as int); '
                    'assert(m_ == rsum(ts@, n as int) / nr_); assert(rv(numerator) == (1real / nr_) * a_); assert(rv(denominator) == b_ / nr_); '
                    'assert(acov_def(ts@, k as int) == (1real / nr_) * a_); assert(iabs(0) == 0); assert(acov_def(ts@, 0) == (1real / nr_) * b_); '
                    'if b_ != 0real { nra_ratio(nr_, b_); nra_div_nonzero(nr_, b_); } else { assert((1real / nr_) * b_ == 0real) by(nonlinear_arith) requires b_ == 0real; } } '
                    'numerator / denominator })', 'RX-hint: proof block before the final division')],
         closures={1: {'params': 'i: usize', 'ret': 'o: f64', 'requires': ['iabs(k as int) <= i < n'],
                       'ensures': ['o == f_mul(f_sub(ts@[i as int], ts_mean), f_sub(ts@[i - iabs(k as int)], ts_mean))']},
                   2: {'params': 'i: usize', 'ret': 'o: f64', 'requires': ['i < n'], 'ensures': ['o == f_powi(f_sub(ts@[i as int], ts_mean), 2)']}})
difference = Fn(T + 'difference', ret='r', level='L0', requires=['C13.difference.nonempty:: v@.len() >= 1'],
                ensures=['C13.difference.len:: r@.len() == v@.len() - 1',
                         'C13.difference.elem:: forall|i: int| 0 <= i < r@.len() ==> r@[i] == f_sub(v@[i + 1], v@[i])'],
                closures={1: {'params': 'i: usize', 'ret': 'o: f64', 'requires': ['i + 1 < v@.len()'], 'ensures': ['o == f_sub(v@[i + 1], v@[i as int])']}})
UNITS[0] = Unit('C13_acf', 'C13', [acovf, acf, difference], use=[c08.mean], spec=SPEC + SPEC2, nra=c08.NRA + NRA + NRA2, preludes=PRE, broadcast=BC, level='L1',
                notes='autocovariance and autocorrelation equal their biased-estimator definitions for every series and lag; differencing element-wise')
