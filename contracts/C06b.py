"""C06 — the inference accessors of a fitted GLM (L1): deviance, AIC / BIC, dispersion, coefficient covariance = dispersion x
inverse information, standard errors = square roots of its diagonal."""
from vc.gen import Fn, Unit
from contracts import core
from contracts import C04 as c04
from contracts import C06 as c06
from contracts import C15b as c15b
from contracts import C01 as c01
from contracts import C01solve as s1
from contracts.C06 import IG, TYPES

PRE = ('fax_l0', 'fmeth', 'stdspec', 'l1')
BC = ('l0', 'l1_arith', 'l1_fun', 'ax_vec_from_refl', 'ax_f64_cloned')

INF_SPEC = r'''
pub open spec fn is_diag_of(a: Seq<f64>, n: int, d: Seq<f64>) -> bool { d.len() == n && forall|i: int| 0 <= i < n ==> #[trigger] d[i] == at2(a, n, i, i) }
/// what `fit` leaves behind (the private fields are only written there): deviance, information matrix, n and p are set together, p x p information, n > p
pub open spec fn glm_inference_inv(g: GLM) -> bool {
    g.deviance is Some ==> (g.n is Some && g.p is Some && g.information_matrix is Some && 0 < g.p->Some_0 < g.n->Some_0 <= 0x7fff_ffff
        && g.information_matrix->Some_0@.len() == g.p->Some_0 * g.p->Some_0 && g.p->Some_0 * g.p->Some_0 <= 0x7fff_ffff)
}
pub open spec fn has_disp(f: ExponentialFamily) -> bool { f is Gaussian || f is QuasiPoisson || f is Gamma }
/// dispersion estimate: deviance / (n - p) for the families that have one, 1 otherwise
pub open spec fn glm_dispersion(g: GLM) -> real {
    if has_disp(g.family) { rv(g.deviance->Some_0) / ((g.n->Some_0 - g.p->Some_0) as real) } else { 1real }
}
/// c = dispersion x (inverse of the information matrix, computed column by column by the routed solvers of C01)
pub open spec fn is_coef_cov(g: GLM, c: Seq<f64>) -> bool {
    let p = g.p->Some_0 as int;
    exists|inv: Seq<f64>| #[trigger] inverse_of(g.information_matrix->Some_0@, p, inv) && inv.len() == p * p && c.len() == p * p
        && forall|k: int| 0 <= k < p * p ==> rv(#[trigger] c[k]) == glm_dispersion(g) * rv(inv[k])
}
/// se_i = sqrt(c_ii) for a coefficient covariance c
pub open spec fn is_coef_se(g: GLM, se: Seq<f64>) -> bool {
    let p = g.p->Some_0 as int;
    exists|c: Seq<f64>| #[trigger] is_coef_cov(g, c) && se.len() == p && forall|i: int| 0 <= i < p ==> rv(#[trigger] se[i]) == r_sqrt(rv(at2(c, p, i, i)))
}
'''
INV = 'C06.inference.inv:: glm_inference_inv(*self)'
gdev = Fn(IG + 'deviance', ret='r', level='L0',
          ensures=['C06.deviance:: match r { Ok(d) => self.deviance is Some && d == self.deviance->Some_0, Err(_) => self.deviance is None }'])
gaic = Fn(IG + 'aic', ret='r', level='L1', requires=[INV],
          ensures=['C06.aic:: match r { Ok(v) => self.deviance is Some && rv(v) == rv(self.deviance->Some_0) + 2real * (self.p->Some_0 as real), Err(_) => self.deviance is None }'],
          )
gbic = Fn(IG + 'bic', ret='r', level='L1', requires=[INV],
          ensures=['C06.bic:: match r { Ok(v) => self.deviance is Some && rv(v) == rv(self.deviance->Some_0) + (self.p->Some_0 as real) * r_ln(self.n->Some_0 as real), Err(_) => self.deviance is None }'],
          )
gdisp = Fn(IG + 'dispersion', ret='r', level='L1', requires=[INV],
           ensures=['C06.dispersion:: match r { Ok(v) => self.deviance is Some && rv(v) == glm_dispersion(*self), Err(_) => self.deviance is None }'],
           )
gcov = Fn(IG + 'coef_covariance_matrix', ret='r', level='L1', requires=[INV],
          ensures=['C06.coef_cov:: match r { Ok(c) => self.deviance is Some && is_coef_cov(*self, c@), Err(_) => self.deviance is None }'],
          rewrites=[('Ok(svmul(disp, &invert_matrix(self.information_matrix.as_ref().unwrap())))',
                     '({ let ghost p_ = self.p->Some_0 as int; proof { assert(p_ * p_ > 0) by(nonlinear_arith) requires p_ > 0; } let inv_ = invert_matrix(self.information_matrix.as_ref().unwrap()); let c_ = svmul(disp, &inv_); '
                     'proof { assert(inverse_of(self.information_matrix->Some_0@, p_, inv_@)); assert(is_coef_cov(*self, c_@)); } Ok(c_) })',
                     'R31: the inverse bound to a name')])
gse = Fn(IG + 'coef_standard_error', ret='r', level='L1', requires=[INV],
         ensures=['C06.coef_se:: match r { Ok(s) => self.deviance is Some && is_coef_se(*self, s@), Err(_) => self.deviance is None }'],
         rewrites=[('Ok(vsqrt(&variances))',
                    '({ let ghost p_ = self.p->Some_0 as int; let s_ = vsqrt(&variances); proof { lemma_sq_unique(p_, cov_mat@.len() as int); assert(is_diag_of(cov_mat@, p_, variances.v@)); '
                    'assert(is_coef_se(*self, s_@)); } Ok(s_) })', 'R31')])

SPEC = s1.SPEC + s1.SYS_SPEC + s1.INV_SPEC + c15b.SPEC + INF_SPEC
UNITS = [
    Unit('C06_inference', 'C06', [gdev, gaic, gbic, gdisp, gcov, gse], use=core.core_stubs() + [c06.has_dispersion, s1.invert, c04.KERNELS['svmul'], c04.KERNELS['vsqrt'], c15b.diag_u],
         types=TYPES, type_spec=core.TYPE_SPEC, spec=SPEC, preludes=PRE, broadcast=BC, level='L1', rlimit=100,
         notes='deviance / aic / bic / dispersion return Err exactly when the model is not fitted; dispersion = deviance / (n - p) for Gaussian, quasi-Poisson and Gamma, 1 otherwise; '
               'coefficient covariance = dispersion x the column-by-column inverse of the stored information matrix; standard errors = square roots of its diagonal'),
]
