"""C01 (linear systems) / C11 (factorisations): structural predicates, pivoted LU, triangular solves (L1)."""
from vc.gen import Fn, Unit
from vc.nra import Lemma
from contracts import core
from contracts import C15 as c15
from contracts import C04 as c04

PRE = ('fax_l0', 'fmeth', 'stdspec', 'l1')
BC = ('l0', 'l1_arith', 'l1_fun', 'ax_vec_from_refl', 'ax_f64_cloned')
U = 'linalg::utils::'

SPEC = c15.SPEC + r'''
pub open spec fn sym_eps(m: Seq<f64>, n: int) -> bool {
    forall|i: int, j: int| 0 <= i <= j < n ==> r_abs(rv(#[trigger] at2(m, n, i, j)) - rv(at2(m, n, j, i))) <= r_eps()
}
pub open spec fn diag_pos(m: Seq<f64>, n: int) -> bool { forall|i: int| 0 <= i < n ==> rv(#[trigger] at2(m, n, i, i)) > 0real }
'''

# is_square goes through `(len as f32).sqrt()`: outside the float levels -> assumed contract (tier A), spot-checked for len <= 2^20
is_square = Fn(U + 'is_square', ret='r', level='A',
               ensures=['A.is_square:: match r { Ok(n) => n * n == m@.len(), Err(_) => forall|k: int| 0 <= k ==> #[trigger] (k * k) != m@.len() }'])
UNWRAP_SQ = ('is_square(m).unwrap()', 'match is_square(m) { Ok(v_) => v_, Err(_) => ::core::panicking::panic("unwrap") }',
             'R2b: Result::unwrap is this match by definition; its panic is a REJECT site')
SQV = 'exists|k: int| 0 <= k && #[trigger] (k * k) == m@.len()'
is_symmetric = Fn(U + 'is_symmetric', ret='r', level='L1', valid=SQV, panics={1: 'REJECT'}, rewrites=[UNWRAP_SQ],
                  attrs=['#[verifier::loop_isolation(false)]'], requires=['C01.machine:: m@.len() <= 0x7fff_ffff'],
                  ensures=['C01.is_symmetric.valid:: ' + SQV,
                           'C01.is_symmetric.def:: forall|n: int| 0 <= n && n * n == m@.len() ==> (r == sym_eps(m@, n))'],
                  loops={1: {'invariant': ['n * n == m@.len()',
                                           'C01.is_symmetric.rows:: forall|ii: int, jj: int| 0 <= ii < i && ii <= jj < n ==> r_abs(rv(#[trigger] at2(m@, n as int, ii, jj)) - rv(at2(m@, n as int, jj, ii))) <= r_eps()']},
                         2: {'invariant': ['n * n == m@.len()', '0 <= i < n',
                                           'C01.is_symmetric.rows.j:: forall|ii: int, jj: int| 0 <= ii < i && ii <= jj < n ==> r_abs(rv(#[trigger] at2(m@, n as int, ii, jj)) - rv(at2(m@, n as int, jj, ii))) <= r_eps()',
                                           'C01.is_symmetric.row:: forall|jj: int| i <= jj < j ==> r_abs(rv(#[trigger] at2(m@, n as int, i as int, jj)) - rv(at2(m@, n as int, jj, i as int))) <= r_eps()'],
                             'body_start': 'lemma_idx(i as int, j as int, n as int, n as int); lemma_idx(j as int, i as int, n as int, n as int);'}},
                  hints=[('return false;', 'before', 'proof { assert(!sym_eps(m@, n as int)) by { assert(r_abs(rv(at2(m@, n as int, i as int, j as int)) - rv(at2(m@, n as int, j as int, i as int))) > r_eps()); } lemma_sq_unique(n as int, m@.len() as int); }'),
                         ('\n            true\n', 'replace', '\n proof { lemma_sq_unique(n as int, m@.len() as int); }\n true\n')])
SPEC += r'''
pub proof fn lemma_sq_unique(n: int, len: int) requires 0 <= n, n * n == len
    ensures forall|k: int| 0 <= k && #[trigger] (k * k) == len ==> k == n
{
    assert forall|k: int| 0 <= k && #[trigger] (k * k) == len implies k == n by {
        if k < n { assert(k * k < n * n) by(nonlinear_arith) requires 0 <= k < n; }
        if k > n { assert(k * k > n * n) by(nonlinear_arith) requires 0 <= n < k; }
    }
}
'''

UNITS = [
    Unit('C01_predicates', ('C01', 'C11', 'C15'), [is_symmetric], use=[is_square], types=core.TYPES, type_spec=core.TYPE_SPEC, spec=SPEC, preludes=PRE, broadcast=BC, level='L1',
         notes='slice-level symmetry predicate answers per its definition with the code\'s epsilon (routing of the solvers rests on it)'),
]
