"""C01 (linear systems) / C11 (factorisations): structural predicates, pivoted LU, triangular solves (L1)."""
from vc.gen import Fn, Unit
from vc.nra import Lemma
from contracts import core
from contracts import C15 as c15
from contracts import C04 as c04

PRE = ('fax_l0', 'fmeth', 'stdspec', 'l1')
BC = ('l0', 'l1_arith', 'l1_fun', 'ax_vec_from_refl', 'ax_f64_cloned')
U = 'linalg::utils::'

SYM_SPEC = r'''
pub open spec fn sym_eps(m: Seq<f64>, n: int) -> bool {
    forall|i: int, j: int| 0 <= i <= j < n ==> r_abs(rv(#[trigger] at2(m, n, i, j)) - rv(at2(m, n, j, i))) <= r_eps()
}
pub open spec fn diag_pos(m: Seq<f64>, n: int) -> bool { forall|i: int| 0 <= i < n ==> rv(#[trigger] at2(m, n, i, i)) > 0real }
'''
SPEC = c15.SPEC + SYM_SPEC

# is_square: `n = round(sqrt(len as f64)) as usize; n*n == len ? Ok(n) : Err`.  The Ok side follows from the integer comparison alone; the Err side needs
# that the rounded f64 square root of a perfect square k*k <= 2^53 is k (IEEE sqrt is correctly rounded, so exact on representable perfect squares): axiom ax_isqrt_exact.
ISQ_SPEC = r'''
#[verifier::external_body]
pub proof fn ax_isqrt_exact(k: int)
    ensures 0 <= k && k * k <= 0x20_0000_0000_0000 ==> f_to_int(f_round(f_sqrt(f_of_int(k * k)))) == k {}
'''
is_square = Fn(U + 'is_square', ret='r', level='L1', float_casts=(1,),
               ensures=['C15.is_square.ok:: r matches Ok(n) ==> n * n == m@.len()',
                        'C15.is_square.err:: r is Err && m@.len() <= 0x20_0000_0000_0000 ==> forall|k: int| 0 <= k ==> #[trigger] (k * k) != m@.len()'],
               hints=[('if n.checked_mul(n)', 'before', 'proof { assert forall|k: int| 0 <= k && #[trigger] (k * k) == m@.len() && m@.len() <= 0x20_0000_0000_0000 implies n == k by { ax_isqrt_exact(k); '
                       'assert(k <= k * k) by(nonlinear_arith) requires k >= 0; } }')])
IS_SQUARE_UNIT = Unit('C15_is_square', ('C15', 'C01', 'C11'), [is_square], spec=ISQ_SPEC, preludes=PRE, broadcast=BC, level='L1',
                      notes='is_square: Ok(n) only if n*n equals the length (integer comparison); Err only if the length is not a perfect square (for lengths up to 2^53, '
                            'through the axiom that the rounded f64 square root of a perfect square is exact)')
UNWRAP_SQ = ('is_square(m).unwrap()', 'match is_square(m) { Ok(v_) => v_, Err(_) => ::core::panicking::panic("unwrap") }',
             'R2b: Result::unwrap is this match by definition; its panic is a REJECT site')
SQV = 'exists|k: int| 0 <= k && #[trigger] (k * k) == m@.len()'
is_symmetric = Fn(U + 'is_symmetric', ret='r', level='L1', valid=SQV, panics={1: 'REJECT'}, rewrites=[UNWRAP_SQ],
                  attrs=['#[verifier::loop_isolation(false)]'], requires=['C01.machine:: m@.len() <= 0x7fff_ffff'],
                  ensures=['C01.is_symmetric.valid:: ' + SQV,
                           'C01.is_symmetric.def:: forall|n: int| 0 <= n && n * n == m@.len() ==> (r == sym_eps(m@, n))'],
                  loops={1: {'invariant': ['n * n == m@.len()',
                                           'C01.is_symmetric.rows:: forall|ii: int, jj: int| 0 <= ii < i && ii <= jj < n ==> r_abs(rv(#[trigger] at2(m@, n as int, ii, jj)) - rv(at2(m@, n as int, jj, ii))) <= r_eps()']},
                         2: {'invariant': ['n * n == m@.len()', '0 <= i < n',
                                           'C01.is_symmetric.rows.j:: forall|ii: int, jj: int| 0 <= ii < i && ii <= jj < n ==> r_abs(rv(#[trigger] at2(m@, n as int, ii, jj)) - rv(at2(m@, n as int, jj, ii))) <= r_eps()',
                                           'C01.is_symmetric.row:: forall|jj: int| i <= jj < j ==> r_abs(rv(#[trigger] at2(m@, n as int, i as int, jj)) - rv(at2(m@, n as int, jj, i as int))) <= r_eps()'],
                             'body_start': 'lemma_idx(i as int, j as int, n as int, n as int); lemma_idx(j as int, i as int, n as int, n as int);'}},
                  hints=[('return false;', 'before', 'proof { assert(!sym_eps(m@, n as int)) by { assert(r_abs(rv(at2(m@, n as int, i as int, j as int)) - rv(at2(m@, n as int, j as int, i as int))) > r_eps()); } lemma_sq_unique(n as int, m@.len() as int); }'),
                         ('\n            true\n', 'replace', '\n proof { lemma_sq_unique(n as int, m@.len() as int); }\n true\n')])
SQ_UNIQUE = r'''
pub proof fn lemma_sq_unique(n: int, len: int) requires 0 <= n, n * n == len
    ensures forall|k: int| 0 <= k && #[trigger] (k * k) == len ==> k == n
{
    assert forall|k: int| 0 <= k && #[trigger] (k * k) == len implies k == n by {
        if k < n { assert(k * k < n * n) by(nonlinear_arith) requires 0 <= k < n; }
        if k > n { assert(k * k > n * n) by(nonlinear_arith) requires 0 <= n < k; }
    }
}
'''
SPEC += SQ_UNIQUE

UNITS = [
    IS_SQUARE_UNIT,
    Unit('C01_predicates', ('C01', 'C11', 'C15'), [is_symmetric], use=[is_square], types=core.TYPES, type_spec=core.TYPE_SPEC, spec=SPEC, preludes=PRE, broadcast=BC, level='L1',
         notes='slice-level symmetry predicate answers per its definition with the code\'s epsilon (routing of the solvers rests on it)'),
]

# ---------------------------------------------------------------- pivoted LU (slice level)
LUP = 'linalg::decomposition::lu::'
PERM_SPEC = r'''
/// pivots is a permutation of 0..n
pub open spec fn is_perm32(p: Seq<i32>, n: int) -> bool {
    &&& p.len() == n
    &&& forall|i: int| 0 <= i < n ==> 0 <= #[trigger] p[i] < n
    &&& forall|i: int, k: int| 0 <= i < k < n ==> #[trigger] p[i] != #[trigger] p[k]
}
'''
LU_ONLY_SPEC = r'''
/// multipliers of the columns < j are bounded by 1 in magnitude (property C11)
pub open spec fn bounded(lu: Seq<f64>, n: int, j: int) -> bool {
    forall|r: int, c: int| 0 <= c < j && c < r < n ==> r_abs(rv(#[trigger] at2(lu, n, r, c))) <= 1real
}
/// |lu[r,j]| <= |lu[p,j]| for r in lo..hi
pub open spec fn colmax(lu: Seq<f64>, n: int, j: int, p: int, lo: int, hi: int) -> bool {
    forall|r: int| lo <= r < hi ==> r_abs(rv(#[trigger] at2(lu, n, r, j))) <= r_abs(rv(at2(lu, n, p, j)))
}
'''
PERM_SWAP_LEMMA = r'''
pub proof fn lemma_perm32_swap(p: Seq<i32>, n: int, a: int, b: int) requires is_perm32(p, n), 0 <= a < n, 0 <= b < n
    ensures is_perm32(p.update(a, p[b]).update(b, p[a]), n)
{
    let q = p.update(a, p[b]).update(b, p[a]);
    assert forall|i: int, k: int| 0 <= i < k < n implies #[trigger] q[i] != #[trigger] q[k] by {
        let pi = if i == b { a } else if i == a { b } else { i };
        let pk = if k == b { a } else if k == a { b } else { k };
        assert(q[i] == p[pi]); assert(q[k] == p[pk]);
        if pi < pk { assert(p[pi] != p[pk]); } else { assert(pk < pi); assert(p[pk] != p[pi]); }
    }
}
'''
LU_SPEC = PERM_SPEC + LU_ONLY_SPEC + PERM_SWAP_LEMMA + r'''
'''
LU_NRA = [Lemma('nra_quot_bounded', 'x p ax ap q', ['(distinct p 0)', '(= q (/ x p))', '(or (= ax x) (= ax (- x)))', '(>= ax 0)', '(or (= ap p) (= ap (- p)))', '(>= ap 0)', '(<= ax ap)'],
                ['(<= q 1)', '(>= q (- 1))'])]
UNWRAP_SQM = ('is_square(matrix).unwrap()', 'match is_square(matrix) { Ok(v_) => v_, Err(_) => ::core::panicking::panic("unwrap") }',
              'R2b: Result::unwrap is this match by definition; its panic is a REJECT site')
LUV = 'exists|k: int| 0 <= k && #[trigger] (k * k) == matrix@.len()'
FRAME = ('assert forall|r: int, c: int| 0 <= r < n && 0 <= c < n && !(r == {R} && c == {C}) implies #[trigger] at2(lu@, n as int, r, c) == at2(pre_lu, n as int, r, c) by '
         '{{ lemma_idx(r, c, n as int, n as int); if r * n + c == {R} * n + {C} {{ lemma_idx_inj(r, c, {R} as int, {C} as int, n as int); }} }}')
lu = Fn(LUP + 'lu', ret='r', level='L1', valid=LUV, panics={1: 'REJECT'}, rewrites=[UNWRAP_SQM], attrs=['#[verifier::loop_isolation(false)]'],
        requires=['C11.machine:: matrix@.len() <= 0x7fff_ffff'],
        ensures=['C11.lu.valid:: ' + LUV,
                 'C11.lu.shape:: r.0@.len() == matrix@.len()',
                 'C11.lu.permutation:: forall|n: int| 0 <= n && n * n == matrix@.len() ==> is_perm32(r.1@, n)',
                 'C11.lu.l_bounded:: forall|n: int| 0 <= n && n * n == matrix@.len() ==> bounded(r.0@, n, n)'],
        closures={1: {'params': 'x: usize', 'ret': 'o: i32', 'requires': ['x < n', 'n <= 0x7fff_ffff'], 'ensures': ['o == x']}},
        loops={
            1: {'invariant': ['lu@.len() == n * n', 'n * n == matrix@.len()', 'C11.lu.perm.inv:: is_perm32(pivots@, n as int)', 'C11.lu.bounded.inv:: bounded(lu@, n as int, j as int)']},
            2: {'invariant': ['lu@.len() == n * n', '0 <= j < n', 'C11.lu.bounded.i:: bounded(lu@, n as int, j as int)', 'is_perm32(pivots@, n as int)']},
            3: {'invariant': ['lu@.len() == n * n', '0 <= j < n', '0 <= i < n', 'bounded(lu@, n as int, j as int)'],
                'body_start': 'lemma_idx(i as int, k as int, n as int, n as int); lemma_idx(k as int, j as int, n as int, n as int);'},
            4: {'invariant': ['lu@.len() == n * n', '0 <= j < n', 'j <= p < n', 'bounded(lu@, n as int, j as int)', 'C11.lu.pivot_max:: colmax(lu@, n as int, j as int, p as int, j as int, i as int)'],
                'body_start': 'lemma_idx(i as int, j as int, n as int, n as int); lemma_idx(p as int, j as int, n as int, n as int);'},
            5: {'invariant': ['lu@.len() == n * n', '0 <= j < p < n', 'C11.lu.bounded.swap:: bounded(lu@, n as int, j as int)',
                              'k <= j ==> colmax(lu@, n as int, j as int, p as int, j as int, n as int)',
                              'k > j ==> colmax(lu@, n as int, j as int, j as int, j as int, n as int)'],
                'body_ghost': 'let ghost pre_lu = lu@;',
                'body_start': 'lemma_idx(p as int, k as int, n as int, n as int); lemma_idx(j as int, k as int, n as int, n as int);',
                'body_end': ('assert forall|r: int, c: int| 0 <= r < n && 0 <= c < n implies #[trigger] at2(lu@, n as int, r, c) == (if c == k && r == p { at2(pre_lu, n as int, j as int, k as int) } else if c == k && r == j { at2(pre_lu, n as int, p as int, k as int) } else { at2(pre_lu, n as int, r, c) }) by '
                             '{ lemma_idx(r, c, n as int, n as int); if r * n + c == p * n + k { lemma_idx_inj(r, c, p as int, k as int, n as int); } if r * n + c == j * n + k { lemma_idx_inj(r, c, j as int, k as int, n as int); } } '
                             'assert(bounded(lu@, n as int, j as int)) by { assert forall|r: int, c: int| 0 <= c < j && c < r < n implies r_abs(rv(#[trigger] at2(lu@, n as int, r, c))) <= 1real by { assert(r_abs(rv(at2(pre_lu, n as int, r, c))) <= 1real); assert(r_abs(rv(at2(pre_lu, n as int, j as int, c))) <= 1real); assert(r_abs(rv(at2(pre_lu, n as int, p as int, c))) <= 1real); } } '
                             'if k == j { assert forall|r: int| j <= r < n implies r_abs(rv(#[trigger] at2(lu@, n as int, r, j as int))) <= r_abs(rv(at2(lu@, n as int, j as int, j as int))) by { assert(r_abs(rv(at2(pre_lu, n as int, r, j as int))) <= r_abs(rv(at2(pre_lu, n as int, p as int, j as int)))); assert(r_abs(rv(at2(pre_lu, n as int, j as int, j as int))) <= r_abs(rv(at2(pre_lu, n as int, p as int, j as int)))); } } '
                             'else { assert forall|r: int| j <= r < n implies #[trigger] at2(lu@, n as int, r, j as int) == at2(pre_lu, n as int, r, j as int) by { } }')},
            6: {'invariant': ['lu@.len() == n * n', '0 <= j < n', 'rv(at2(lu@, n as int, j as int, j as int)) != 0real', 'bounded(lu@, n as int, j as int)',
                              'C11.lu.col_done:: forall|r: int| j < r < i ==> r_abs(rv(#[trigger] at2(lu@, n as int, r, j as int))) <= 1real',
                              'C11.lu.col_todo:: forall|r: int| i <= r < n ==> r_abs(rv(#[trigger] at2(lu@, n as int, r, j as int))) <= r_abs(rv(at2(lu@, n as int, j as int, j as int)))'],
                'body_ghost': 'let ghost pre_lu = lu@;',
                'body_start': 'lemma_idx(i as int, j as int, n as int, n as int); lemma_idx(j as int, j as int, n as int, n as int);',
                'body_end': (FRAME.format(R='i', C='j') + ' let x_ = rv(at2(pre_lu, n as int, i as int, j as int)); let p_ = rv(at2(pre_lu, n as int, j as int, j as int)); '
                             'assert(r_abs(x_) <= r_abs(p_)); nra_quot_bounded(x_, p_, r_abs(x_), r_abs(p_), x_ / p_); assert(rv(at2(lu@, n as int, i as int, j as int)) == x_ / p_); '
                             'assert(bounded(lu@, n as int, j as int)) by { assert forall|r: int, c: int| 0 <= c < j && c < r < n implies r_abs(rv(#[trigger] at2(lu@, n as int, r, c))) <= 1real by { assert(r_abs(rv(at2(pre_lu, n as int, r, c))) <= 1real); } }')},
        },
        hints=[('let mut pivots: Vec<i32>', 'before', 'proof { assert(n <= 0x7fff_ffff) by(nonlinear_arith) requires n * n <= 0x7fff_ffff, n >= 0; }'),
               ('for j in 0..n', 'before', 'proof { assert(lu@ =~= matrix@); assert(is_perm32(pivots@, n as int)); lemma_sq_unique(n as int, matrix@.len() as int); }'),
               ('lu[i * n + j] = lu[i * n + j] - (s);', 'pre', 'let ghost pre_lu = lu@; proof { lemma_idx(i as int, j as int, n as int, n as int); }'),
               ('lu[i * n + j] = lu[i * n + j] - (s);', 'post', 'proof { ' + FRAME.format(R='i', C='j') + ' assert(bounded(lu@, n as int, j as int)) by { assert forall|r: int, c: int| 0 <= c < j && c < r < n implies r_abs(rv(#[trigger] at2(lu@, n as int, r, c))) <= 1real by { assert(r_abs(rv(at2(pre_lu, n as int, r, c))) <= 1real); } } }'),
               ('pivots.swap(p, j);', 'before', 'proof { lemma_perm32_swap(pivots@, n as int, p as int, j as int); }'),
               ])
# pivot-column fact at structural positions (see Matrix::lu below): after the pivot search and after the row swap
lu.loops[4]['after'] = 'lemma_idx(j as int, j as int, n as int, n as int); assert(colmax(lu@, n as int, j as int, p as int, j as int, n as int));'
lu.loops[5]['after'] = 'lemma_idx(j as int, j as int, n as int, n as int); assert(colmax(lu@, n as int, j as int, j as int, j as int, n as int));'

UNITS.append(Unit('C11_lu', ('C11', 'C01'), [lu], use=[is_square], types=core.TYPES, type_spec=core.TYPE_SPEC, spec=SPEC + LU_SPEC, nra=LU_NRA, preludes=PRE, broadcast=BC,
                  level='L1', rlimit=300,
                  notes='slice-level pivoted LU: pivots stay a permutation, the chosen pivot maximises |.| in its column so that every multiplier is bounded by 1'))

# ---------------------------------------------------------------- pivoted LU (Matrix level): same contract over lu.data
from contracts.core import IM, MAT
D_ = 'lu.data.v@'
SHP = 'lu.nrows == n && lu.ncols == n && wf(lu)'
MFRAME = ('assert forall|r: int, c: int| 0 <= r < n && 0 <= c < n && !(r == {R} && c == {C}) implies #[trigger] at2(lu.data.v@, n as int, r, c) == at2(pre_lu, n as int, r, c) by '
          '{{ lemma_idx(r, c, n as int, n as int); if r * n + c == {R} * n + {C} {{ lemma_idx_inj(r, c, {R} as int, {C} as int, n as int); }} }}')
KEEP = 'assert(bounded(lu.data.v@, n as int, j as int)) by { assert forall|r: int, c: int| 0 <= c < j && c < r < n implies r_abs(rv(#[trigger] at2(lu.data.v@, n as int, r, c))) <= 1real by { assert(r_abs(rv(at2(pre_lu, n as int, r, c))) <= 1real); } }'
mlu = Fn(IM + 'lu', ret='r', level='L1', valid='self.nrows == self.ncols', panics={1: 'REJECT'}, attrs=['#[verifier::loop_isolation(false)]'],
         requires=['C11.mlu.wf:: wf(*self)'],
         ensures=['C11.mlu.valid:: self.nrows == self.ncols',
                  'C11.mlu.shape:: r.0.nrows == self.nrows && r.0.ncols == self.ncols && wf(r.0)',
                  'C11.mlu.permutation:: is_perm32(r.1@, self.nrows as int)',
                  'C11.mlu.l_bounded:: bounded(r.0.data.v@, self.nrows as int, self.nrows as int)'],
         closures={1: {'params': 'x: usize', 'ret': 'o: i32', 'requires': ['x < n', 'n <= 0x7fff_ffff'], 'ensures': ['o == x']}},
         loops={
             1: {'invariant': [SHP, 'C11.mlu.perm.inv:: is_perm32(pivots@, n as int)', 'C11.mlu.bounded.inv:: bounded(lu.data.v@, n as int, j as int)']},
             2: {'invariant': [SHP, '0 <= j < n', 'bounded(lu.data.v@, n as int, j as int)', 'is_perm32(pivots@, n as int)']},
             3: {'invariant': [SHP, '0 <= j < n', '0 <= i < n', 'bounded(lu.data.v@, n as int, j as int)']},
             4: {'invariant': [SHP, '0 <= j < n', 'j <= p < n', 'bounded(lu.data.v@, n as int, j as int)',
                               'C11.mlu.pivot_max:: colmax(lu.data.v@, n as int, j as int, p as int, j as int, i as int)']},
             5: {'invariant': [SHP, '0 <= j < p < n', 'C11.mlu.bounded.swap:: bounded(lu.data.v@, n as int, j as int)',
                               'k <= j ==> colmax(lu.data.v@, n as int, j as int, p as int, j as int, n as int)',
                               'k > j ==> colmax(lu.data.v@, n as int, j as int, j as int, j as int, n as int)'],
                 'body_ghost': 'let ghost pre_lu = lu.data.v@;',
                 'body_start': 'lemma_idx(p as int, k as int, n as int, n as int); lemma_idx(j as int, k as int, n as int, n as int);',
                 'body_end': ('assert forall|r: int, c: int| 0 <= r < n && 0 <= c < n implies #[trigger] at2(lu.data.v@, n as int, r, c) == (if c == k && r == p { at2(pre_lu, n as int, j as int, k as int) } else if c == k && r == j { at2(pre_lu, n as int, p as int, k as int) } else { at2(pre_lu, n as int, r, c) }) by '
                              '{ lemma_idx(r, c, n as int, n as int); if r * n + c == p * n + k { lemma_idx_inj(r, c, p as int, k as int, n as int); } if r * n + c == j * n + k { lemma_idx_inj(r, c, j as int, k as int, n as int); } } '
                              'assert(bounded(lu.data.v@, n as int, j as int)) by { assert forall|r: int, c: int| 0 <= c < j && c < r < n implies r_abs(rv(#[trigger] at2(lu.data.v@, n as int, r, c))) <= 1real by { assert(r_abs(rv(at2(pre_lu, n as int, r, c))) <= 1real); assert(r_abs(rv(at2(pre_lu, n as int, j as int, c))) <= 1real); assert(r_abs(rv(at2(pre_lu, n as int, p as int, c))) <= 1real); } } '
                              'if k == j { assert forall|r: int| j <= r < n implies r_abs(rv(#[trigger] at2(lu.data.v@, n as int, r, j as int))) <= r_abs(rv(at2(lu.data.v@, n as int, j as int, j as int))) by { assert(r_abs(rv(at2(pre_lu, n as int, r, j as int))) <= r_abs(rv(at2(pre_lu, n as int, p as int, j as int)))); assert(r_abs(rv(at2(pre_lu, n as int, j as int, j as int))) <= r_abs(rv(at2(pre_lu, n as int, p as int, j as int)))); } } '
                              'else { assert forall|r: int| j <= r < n implies #[trigger] at2(lu.data.v@, n as int, r, j as int) == at2(pre_lu, n as int, r, j as int) by { } }')},
             6: {'invariant': [SHP, '0 <= j < n', 'rv(at2(lu.data.v@, n as int, j as int, j as int)) != 0real', 'bounded(lu.data.v@, n as int, j as int)',
                               'C11.mlu.col_done:: forall|r: int| j < r < i ==> r_abs(rv(#[trigger] at2(lu.data.v@, n as int, r, j as int))) <= 1real',
                               'C11.mlu.col_todo:: forall|r: int| i <= r < n ==> r_abs(rv(#[trigger] at2(lu.data.v@, n as int, r, j as int))) <= r_abs(rv(at2(lu.data.v@, n as int, j as int, j as int)))'],
                 'body_ghost': 'let ghost pre_lu = lu.data.v@;',
                 'body_start': 'lemma_idx(i as int, j as int, n as int, n as int); lemma_idx(j as int, j as int, n as int, n as int);',
                 'body_end': (MFRAME.format(R='i', C='j') + ' let x_ = rv(at2(pre_lu, n as int, i as int, j as int)); let p_ = rv(at2(pre_lu, n as int, j as int, j as int)); '
                              'assert(r_abs(x_) <= r_abs(p_)); nra_quot_bounded(x_, p_, r_abs(x_), r_abs(p_), x_ / p_); assert(rv(at2(lu.data.v@, n as int, i as int, j as int)) == x_ / p_); ' + KEEP)},
         },
         hints=[('let mut pivots: Vec<i32>', 'before', 'proof { assert(n <= 0x7fff_ffff); }'),
                ('for j in 0..n', 'before', 'proof { assert(is_perm32(pivots@, n as int)); }'),
                ('lu[[i, j]] = lu[[i, j]] - (s);', 'pre', 'let ghost pre_lu = lu.data.v@; proof { lemma_idx(i as int, j as int, n as int, n as int); }'),
                ('lu[[i, j]] = lu[[i, j]] - (s);', 'post', 'proof { ' + MFRAME.format(R='i', C='j') + ' ' + KEEP + ' }'),
                ('pivots.swap(p, j);', 'before', 'proof { lemma_perm32_swap(pivots@, n as int, p as int, j as int); }')])
# the pivot-column fact is stated at structural positions (after the pivot search, after the row swap), not in front of the text of the zero-pivot guard,
# so that an edited guard is decided by the verifier instead of losing an anchor
mlu.loops[4]['after'] = 'assert(colmax(lu.data.v@, n as int, j as int, p as int, j as int, n as int));'
mlu.loops[5]['after'] = 'assert(colmax(lu.data.v@, n as int, j as int, j as int, j as int, n as int));'

UNITS.append(Unit('C11_matrix_lu', ('C11', 'C01'), [mlu], use=core.core_stubs(), types=core.TYPES, type_spec=core.TYPE_SPEC, spec=SPEC + LU_SPEC, nra=LU_NRA, preludes=PRE, broadcast=BC,
                  level='L1', rlimit=300,
                  notes='Matrix-level pivoted LU: same contract as the slice-level routine (permutation, pivot maximality, bounded multipliers)'))
