"""C15 — further structural operations and constructors (triangular predicates, grids, design matrix, diagonal extraction)."""
from vc.gen import Fn, Unit
from contracts import core
from contracts import C15 as c15
from contracts.core import VEC, MAT, IM, IV

PRE = ('fax_l0', 'fmeth', 'stdspec', 'l1')
BC = ('l0', 'l1_arith', 'l1_fun', 'ax_vec_from_refl', 'ax_f64_cloned')
U = 'linalg::utils::'

SPEC = c15.SPEC + r'''
pub open spec fn upper_tri(m: Matrix) -> bool { forall|i: int, j: int| 0 <= j < i < m.nrows && j < m.ncols ==> rv(#[trigger] at2(m.data.v@, m.ncols as int, i, j)) == 0real }
pub open spec fn lower_tri(m: Matrix) -> bool { forall|i: int, j: int| 0 <= i < m.nrows && i < j < m.ncols ==> rv(#[trigger] at2(m.data.v@, m.ncols as int, i, j)) == 0real }
'''
is_ut = Fn(IM + 'is_upper_triangular', ret='r', level='L1', requires=['C15.tri.wf:: wf(*self)'],
           ensures=['C15.is_upper_triangular.def:: r == upper_tri(*self)'],
           loops={1: {'invariant': ['wf(*self)',
                                    'C15.ut.rows:: forall|ii: int, jj: int| 0 <= jj < ii < i && jj < self.ncols ==> rv(#[trigger] at2(self.data.v@, self.ncols as int, ii, jj)) == 0real']},
                  2: {'iter_name': 'jt', 'invariant': ['jt.iter.end == (if i <= self.ncols { i } else { self.ncols })', 'wf(*self)', '0 <= i < self.nrows',
                                    'C15.ut.rows.j:: forall|ii: int, jj: int| 0 <= jj < ii < i && jj < self.ncols ==> rv(#[trigger] at2(self.data.v@, self.ncols as int, ii, jj)) == 0real',
                                    'C15.ut.row:: forall|jj: int| 0 <= jj < j ==> rv(#[trigger] at2(self.data.v@, self.ncols as int, i as int, jj)) == 0real'],
                      'body_start': 'lemma_idx(i as int, j as int, self.nrows as int, self.ncols as int); lemma_row(i as int, self.nrows as int, self.ncols as int);'}},
           hints=[('if self[i][j] != 0. { return false; }', 'replace', 'if self[i][j] != 0. { proof { assert(!upper_tri(*self)) by { assert(rv(at2(self.data.v@, self.ncols as int, i as int, j as int)) != 0real); } } return false; }')])
is_lt = Fn(IM + 'is_lower_triangular', ret='r', level='L1', requires=['C15.tri.wf:: wf(*self)'],
           ensures=['C15.is_lower_triangular.def:: r == lower_tri(*self)'],
           loops={1: {'invariant': ['wf(*self)',
                                    'C15.lt.rows:: forall|ii: int, jj: int| 0 <= ii < i && ii < jj < self.ncols ==> rv(#[trigger] at2(self.data.v@, self.ncols as int, ii, jj)) == 0real']},
                  2: {'iter_name': 'jt', 'invariant': ['jt.iter.end == self.ncols', 'wf(*self)', '0 <= i < self.nrows',
                                    'C15.lt.rows.j:: forall|ii: int, jj: int| 0 <= ii < i && ii < jj < self.ncols ==> rv(#[trigger] at2(self.data.v@, self.ncols as int, ii, jj)) == 0real',
                                    'C15.lt.row:: forall|jj: int| i < jj < i + 1 + jt.index@ ==> rv(#[trigger] at2(self.data.v@, self.ncols as int, i as int, jj)) == 0real'],
                      'body_start': 'lemma_idx(i as int, j as int, self.nrows as int, self.ncols as int); lemma_row(i as int, self.nrows as int, self.ncols as int);'}},
           hints=[('if self[i][j] != 0. { return false; }', 'replace', 'if self[i][j] != 0. { proof { assert(!lower_tri(*self)) by { assert(rv(at2(self.data.v@, self.ncols as int, i as int, j as int)) != 0real); } } return false; }')])
UNITS = [
    Unit('C15_predicates', 'C15', [is_ut, is_lt], use=core.core_stubs(), types=core.TYPES, type_spec=core.TYPE_SPEC, spec=SPEC, preludes=PRE, broadcast=BC, level='L1',
         notes='is_upper_triangular / is_lower_triangular answer exactly "every entry below / above the diagonal is zero"'),
]
