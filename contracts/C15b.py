"""C15 — further structural operations and constructors (triangular predicates, grids, design matrix, diagonal extraction)."""
from vc.gen import Fn, Unit
from contracts import core
from contracts import C15 as c15
from contracts.core import VEC, MAT, IM, IV

PRE = ('fax_l0', 'fmeth', 'stdspec', 'l1')
BC = ('l0', 'l1_arith', 'l1_fun', 'ax_vec_from_refl', 'ax_f64_cloned')
U = 'linalg::utils::'

TRI_SPEC = r'''
pub open spec fn upper_tri(m: Matrix) -> bool { forall|i: int, j: int| 0 <= j < i < m.nrows && j < m.ncols ==> rv(#[trigger] at2(m.data.v@, m.ncols as int, i, j)) == 0real }
pub open spec fn lower_tri(m: Matrix) -> bool { forall|i: int, j: int| 0 <= i < m.nrows && i < j < m.ncols ==> rv(#[trigger] at2(m.data.v@, m.ncols as int, i, j)) == 0real }
'''
SPEC = c15.SPEC + TRI_SPEC
is_ut = Fn(IM + 'is_upper_triangular', ret='r', level='L1', requires=['C15.tri.wf:: wf(*self)'],
           ensures=['C15.is_upper_triangular.def:: r == upper_tri(*self)'],
           loops={1: {'invariant': ['wf(*self)',
                                    'C15.ut.rows:: forall|ii: int, jj: int| 0 <= jj < ii < i && jj < self.ncols ==> rv(#[trigger] at2(self.data.v@, self.ncols as int, ii, jj)) == 0real']},
                  2: {'iter_name': 'jt', 'invariant': ['jt.iter.end == (if i <= self.ncols { i } else { self.ncols })', 'wf(*self)', '0 <= i < self.nrows',
                                    'C15.ut.rows.j:: forall|ii: int, jj: int| 0 <= jj < ii < i && jj < self.ncols ==> rv(#[trigger] at2(self.data.v@, self.ncols as int, ii, jj)) == 0real',
                                    'C15.ut.row:: forall|jj: int| 0 <= jj < j ==> rv(#[trigger] at2(self.data.v@, self.ncols as int, i as int, jj)) == 0real'],
                      'body_start': 'lemma_idx(i as int, j as int, self.nrows as int, self.ncols as int); lemma_row(i as int, self.nrows as int, self.ncols as int);'}},
           hints=[('if self[i][j] != 0. { return false; }', 'replace', 'if self[i][j] != 0. { proof { assert(!upper_tri(*self)) by { assert(rv(at2(self.data.v@, self.ncols as int, i as int, j as int)) != 0real); } } return false; }')])
is_lt = Fn(IM + 'is_lower_triangular', ret='r', level='L1', requires=['C15.tri.wf:: wf(*self)'],
           ensures=['C15.is_lower_triangular.def:: r == lower_tri(*self)'],
           loops={1: {'invariant': ['wf(*self)',
                                    'C15.lt.rows:: forall|ii: int, jj: int| 0 <= ii < i && ii < jj < self.ncols ==> rv(#[trigger] at2(self.data.v@, self.ncols as int, ii, jj)) == 0real']},
                  2: {'iter_name': 'jt', 'invariant': ['jt.iter.end == self.ncols', 'wf(*self)', '0 <= i < self.nrows',
                                    'C15.lt.rows.j:: forall|ii: int, jj: int| 0 <= ii < i && ii < jj < self.ncols ==> rv(#[trigger] at2(self.data.v@, self.ncols as int, ii, jj)) == 0real',
                                    'C15.lt.row:: forall|jj: int| i < jj < i + 1 + jt.index@ ==> rv(#[trigger] at2(self.data.v@, self.ncols as int, i as int, jj)) == 0real'],
                      'body_start': 'lemma_idx(i as int, j as int, self.nrows as int, self.ncols as int); lemma_row(i as int, self.nrows as int, self.ncols as int);'}},
           hints=[('if self[i][j] != 0. { return false; }', 'replace', 'if self[i][j] != 0. { proof { assert(!lower_tri(*self)) by { assert(rv(at2(self.data.v@, self.ncols as int, i as int, j as int)) != 0real); } } return false; }')])
UNITS = [
    Unit('C15_predicates', 'C15', [is_ut, is_lt], use=core.core_stubs(), types=core.TYPES, type_spec=core.TYPE_SPEC, spec=SPEC, preludes=PRE, broadcast=BC, level='L1',
         notes='is_upper_triangular / is_lower_triangular answer exactly "every entry below / above the diagonal is zero"'),
]

# ---------------------------------------------------------------- evenly spaced grids, design matrix, diagonal
GRID_SPEC = r'''
pub open spec fn is_diag_of(a: Seq<f64>, n: int, d: Seq<f64>) -> bool { d.len() == n && forall|i: int| 0 <= i < n ==> #[trigger] d[i] == at2(a, n, i, i) }

/// `x.ceil() as usize` for a non-negative x: the least integer >= x (assumed reading of f64::ceil and the cast, L1)
#[verifier::external_body]
pub broadcast proof fn ax_ceil_int(x: f64)
    ensures rv(x) >= 0real ==> (#[trigger] f_to_int(f_ceil(x))) >= 0 && (f_to_int(f_ceil(x)) as real) >= rv(x) && (f_to_int(f_ceil(x)) as real) < rv(x) + 1real {}
'''
arange = Fn(U + 'arange', ret='r', level='L1', float_casts=(1,),
            requires=['C15.arange.domain:: rv(step) != 0real && (rv(stop) - rv(start)) / rv(step) >= 0real && (rv(stop) - rv(start)) / rv(step) <= 0x7fff_ffff as real'],
            ensures=['C15.arange.count:: (r.v@.len() as real) >= (rv(stop) - rv(start)) / rv(step) && (r.v@.len() as real) < (rv(stop) - rv(start)) / rv(step) + 1real',
                     'C15.arange.values:: forall|i: int| 0 <= i < r.v@.len() ==> rv(#[trigger] r.v@[i]) == rv(start) + (i as real) * rv(step)'],
            rewrites=[('start as f64 +', 'start +', 'R5b: `f64 as f64` is the identity'),
                      ('(0..n as usize).map(', 'Vector { v: (0..n as usize).map(', 'R26'), ('.collect::<Vector>()', '.collect::<Vec<f64>>() }', 'R26 (second half)')],
            closures={1: {'params': 'i: usize', 'ret': 'o: f64', 'ensures': ['o == f_add(start, f_mul(f_of_int(i as int), step))']}},
            hints=[('Vector { v:', 'before', 'proof { ax_ceil_int(f_div(f_sub(stop, start), step)); }')])
linspace = Fn(U + 'linspace', ret='r', level='L1',
              requires=['C15.linspace.domain:: num >= 1'],
              ensures=['C15.linspace.count:: r.v@.len() == num',
                       'C15.linspace.single:: num == 1 ==> r.v@[0] == start',
                       'C15.linspace.values:: num >= 2 ==> forall|i: int| 0 <= i < num ==> rv(#[trigger] r.v@[i]) == rv(start) + (i as real) * ((rv(stop) - rv(start)) / ((num - 1) as real))'],
              rewrites=[('(0..num).map(', 'Vector { v: (0..num).map(', 'R26'), ('.collect::<Vector>()', '.collect::<Vec<f64>>() }', 'R26 (second half)')],
              closures={1: {'params': 'i: usize', 'ret': 'o: f64', 'ensures': ['o == f_add(start, f_mul(f_of_int(i as int), width))']}})
diag_u = Fn(U + 'diag', ret='r', level='L0', valid='(exists|k: int| 0 <= k && #[trigger] (k * k) == a@.len())', panics={1: 'REJECT'},
            rewrites=[('is_square(a).unwrap()', 'match is_square(a) { Ok(v_) => v_, Err(_) => ::core::panicking::panic("unwrap") }', 'R2b')],
            requires=['C15.diag.machine:: a@.len() <= 0x7fff_ffff'],
            ensures=['C15.diag.valid:: (exists|k: int| 0 <= k && #[trigger] (k * k) == a@.len())',
                     'C15.diag.entries:: forall|n: int| 0 <= n && n * n == a@.len() ==> #[trigger] is_diag_of(a@, n, r.v@)'],
            loops={1: {'invariant': ['n * n == a@.len()', 'a@.len() <= 0x7fff_ffff', 'results.v@.len() == i',
                                     'C15.diag.prefix:: forall|q: int| 0 <= q < i ==> #[trigger] results.v@[q] == at2(a@, n as int, q, q)'],
                       'body_start': 'lemma_idx(i as int, i as int, n as int, n as int);'}},
            hints=[('\n            results\n', 'replace', '\n proof { lemma_sq_unique(n as int, a@.len() as int); }\n results\n')])
from contracts import C01 as c01
UNITS.append(Unit('C15_grids', 'C15', [arange, linspace, diag_u], use=core.core_stubs() + [c01.is_square], types=core.TYPES, type_spec=core.TYPE_SPEC, spec=SPEC + GRID_SPEC + c01.SQ_UNIQUE, preludes=PRE, broadcast=BC, level='L1',
                  fingerprints=[(VEC + '{impl FromIterator<f64> for Vector}::from_iter', '{ Self { v: Vec::from_iter(iter) } }')],
                  notes='arange: ceil((stop-start)/step) values start + i*step (half-open convention); linspace: num values start + i*(stop-start)/(num-1) (both ends included), a single value is start; '
                        'diag (slice): the diagonal entries in order'))

from contracts import C01solve as s1
DESIGN_SPEC = r'''
/// first column all ones (within machine epsilon): the definition is_design tests
pub open spec fn design_def(m: Seq<f64>, nrows: int, ncols: int) -> bool {
    forall|i: int| 0 <= i < nrows ==> r_abs(rv(#[trigger] at2(m, ncols, i, 0)) - 1real) <= r_eps()
}
'''
design = Fn(U + 'design', ret='r', level='L1', valid='(x@.len() as int) % (rows as int) == 0', rej_clause=True,
            requires=['C15.design.machine:: rows > 0 && rows + x@.len() <= 0x7fff_ffff'],
            ensures=['C15.design.valid:: (x@.len() as int) % (rows as int) == 0',
                     'C15.design.shape:: r@.len() == rows + x@.len()',
                     'C15.design.ones:: forall|i: int| 0 <= i < rows ==> rv(#[trigger] at2(r@, 1 + (x@.len() as int) / (rows as int), i, 0)) == 1real',
                     'C15.design.data:: forall|i: int, c: int| 0 <= i < rows && 0 <= c < (x@.len() as int) / (rows as int) ==> #[trigger] at2(r@, 1 + (x@.len() as int) / (rows as int), i, 1 + c) == at2(x@, rows as int, c, i)'],
            hints=[('col_to_row_major(&ones, rows)', 'replace',
                    '({ let ghost w_ = (x@.len() as int) / (rows as int); proof { lemma_div_facts(x@.len() as int, rows as int); '
                    'if (x@.len() as int) % (rows as int) == 0 { assert((rows + x@.len()) as int == (1 + w_) * rows) by(nonlinear_arith) requires x@.len() == w_ * rows; lemma_mul_div(rows as int, 1 + w_); } '
                    'else { vstd::arithmetic::div_mod::lemma_mod_adds(rows as int, x@.len() as int, rows as int); vstd::arithmetic::div_mod::lemma_mod_self_0(rows as int); } } '
                    'let r_ = col_to_row_major(&ones, rows); proof { '
                    'assert forall|i: int| 0 <= i < rows implies rv(#[trigger] at2(r_@, 1 + w_, i, 0)) == 1real by { lemma_idx(0, i, 1 + w_, rows as int); assert(at2(ones@, rows as int, 0, i) == at2(r_@, 1 + w_, i, 0)); } '
                    'assert forall|i: int, c: int| 0 <= i < rows && 0 <= c < w_ implies #[trigger] at2(r_@, 1 + w_, i, 1 + c) == at2(x@, rows as int, c, i) by '
                    '{ lemma_idx(1 + c, i, 1 + w_, rows as int); lemma_idx(c, i, w_, rows as int); assert(at2(ones@, rows as int, 1 + c, i) == at2(r_@, 1 + w_, i, 1 + c)); '
                    'assert((1 + c) * rows + i == rows + (c * rows + i)) by(nonlinear_arith); } } r_ })')])
is_design = Fn(U + 'is_design', ret='r', level='L1', valid='(m@.len() as int) % (nrows as int) == 0', panics={1: 'REJECT'},
               rewrites=[('is_matrix(m, nrows).unwrap()', 'match is_matrix(m, nrows) { Ok(v_) => v_, Err(_) => ::core::panicking::panic("unwrap") }', 'R2b')],
               requires=['C15.is_design.machine:: nrows > 0 && m@.len() <= 0x7fff_ffff && m@.len() > 0'],
               ensures=['C15.is_design.valid:: (m@.len() as int) % (nrows as int) == 0',
                        'C15.is_design.def:: r == design_def(m@, nrows as int, (m@.len() as int) / (nrows as int))'],
               loops={1: {'invariant': ['nrows * ncols == m@.len()', 'ncols == (m@.len() as int) / (nrows as int)', 'ncols > 0', 'm@.len() <= 0x7fff_ffff',
                                        'C15.is_design.prefix:: is_design ==> (forall|q: int| 0 <= q < i ==> r_abs(rv(#[trigger] at2(m@, ncols as int, q, 0)) - 1real) <= r_eps())',
                                        'C15.is_design.witness:: !is_design ==> 0 <= bad_ < i && !(r_abs(rv(at2(m@, ncols as int, bad_, 0)) - 1real) <= r_eps())'],
                          'body_start': 'lemma_idx(i as int, 0, nrows as int, ncols as int);'}},
               hints=[('for i in 0..nrows', 'before', 'let ghost mut bad_: int = -1; proof { lemma_mul_div(nrows as int, ncols as int); assert(ncols > 0) by { if ncols == 0 { assert(nrows * 0 == 0); } } }'),
                      ('is_design = false;', 'post', ' proof { bad_ = i as int; }')])
UNITS.append(Unit('C15_design', 'C15', [design, is_design], use=core.core_stubs() + [c15.is_matrix, s1.c2r], types=core.TYPES, type_spec=core.TYPE_SPEC, spec=SPEC + DESIGN_SPEC, preludes=PRE, broadcast=BC, level='L1',
                  notes='design: a column of ones in front of the (column-major) data, returned row-major; is_design: first column equal to one within machine epsilon'))

# ---------------------------------------------------------------- vertical concatenation / repetition / row extraction
REP_SPEC = r'''
pub assume_specification<T: Copy> [<[T]>::repeat] (s: &[T], n: usize) -> (r: Vec<T>)
    ensures r@.len() == s@.len() * n, forall|k: int| 0 <= k < r@.len() ==> #[trigger] r@[k] == s@[k % (s@.len() as int)];
'''
vext = Fn(VEC + '{impl Extend<f64> for Vector}::extend', level='A', inherent=True, name_as='extend', sig_sub=[(r'extend<T: IntoIterator<Item = f64>>\(&mut self, iter: T\)', 'extend(&mut self, iter: Vector)')],
          ensures=['A.vector_extend:: final(self).v@ == old(self).v@ + iter.v@'])
vcat = Fn(IM + 'vcat', ret='r', level='L0', valid='self.ncols == other.ncols', panics={1: 'REJECT'},
          requires=['C15.vcat.wf:: wf(*self) && wf(other)', 'C15.vcat.range:: (self.nrows + other.nrows) * self.ncols <= i32max() && self.nrows + other.nrows <= i32max()'],
          ensures=['C15.vcat.valid:: self.ncols == other.ncols', 'C15.vcat.shape:: r.nrows == self.nrows + other.nrows && r.ncols == self.ncols && wf(r)',
                   'C15.vcat.top:: forall|i: int, j: int| 0 <= i < self.nrows && 0 <= j < self.ncols ==> #[trigger] at2(r.data.v@, self.ncols as int, i, j) == at2(self.data.v@, self.ncols as int, i, j)',
                   'C15.vcat.bottom:: forall|i: int, j: int| 0 <= i < other.nrows && 0 <= j < self.ncols ==> #[trigger] at2(r.data.v@, self.ncols as int, self.nrows + i, j) == at2(other.data.v@, self.ncols as int, i, j)'],
          hints=[('Matrix::new(new_vec,', 'before',
                  'proof { assert((self.nrows + other.nrows) * self.ncols == self.nrows * self.ncols + other.nrows * self.ncols) by(nonlinear_arith); '
                  'assert forall|i: int, j: int| 0 <= i < self.nrows && 0 <= j < self.ncols implies #[trigger] at2(new_vec.v@, self.ncols as int, i, j) == at2(self.data.v@, self.ncols as int, i, j) by { lemma_idx(i, j, self.nrows as int, self.ncols as int); } '
                  'assert forall|i: int, j: int| 0 <= i < other.nrows && 0 <= j < self.ncols implies #[trigger] at2(new_vec.v@, self.ncols as int, self.nrows + i, j) == at2(other.data.v@, self.ncols as int, i, j) by '
                  '{ lemma_idx(i, j, other.nrows as int, self.ncols as int); assert((self.nrows + i) * self.ncols + j == self.nrows * self.ncols + (i * self.ncols + j)) by(nonlinear_arith); } }')])
vrepeat = Fn(IM + 'vrepeat', ret='r', level='L0',
             requires=['C15.vrepeat.wf:: wf(*self) && self.nrows > 0 && self.ncols > 0', 'C15.vrepeat.range:: self.nrows * n * self.ncols <= i32max() && self.nrows * n <= i32max()'],
             ensures=['C15.vrepeat.shape:: r.nrows == self.nrows * n && r.ncols == self.ncols && wf(r)',
                      'C15.vrepeat.copies:: forall|k: int| 0 <= k < r.data.v@.len() ==> #[trigger] r.data.v@[k] == self.data.v@[k % (self.data.v@.len() as int)]'],
             hints=[('let total_rows = self.nrows * n;', 'after', 'proof { assert(self.nrows * self.ncols * n == self.nrows * n * self.ncols) by(nonlinear_arith); }')])
UNITS.append(Unit('C15_stack', 'C15', [vcat, vrepeat], use=core.core_stubs() + [vext], types=core.TYPES, type_spec=core.TYPE_SPEC, spec=SPEC + REP_SPEC, preludes=PRE, broadcast=BC, level='L0',
                  notes='vcat: the rows of other below the rows of self, column mismatch rejected; vrepeat: n stacked copies (flat data repeated). Vector::extend (generic iterator) and slice::repeat are assumed contracts'))
