"""C19 — resampling never invents, loses or unpairs data (L0 data-flow + integers)."""
from vc.gen import Fn, Unit

PRE = ('fax_l0', 'fmeth', 'stdspec', 'alea')
BC = ('l0', 'ax_f64_cloned', 'ax_int_roundtrip')
R = 'validation::resample::'
DU = 'distributions::discreteuniform::'

SPEC = r'''
pub open spec fn leave_out(s: Seq<f64>, i: int) -> Seq<f64> { s.subrange(0, i) + s.subrange(i + 1, s.len() as int) }
pub proof fn lemma_swap_multiset(s: Seq<f64>, a: int, b: int) requires 0 <= a < s.len(), 0 <= b < s.len()
    ensures s.update(a, s[b]).update(b, s[a]).to_multiset() =~= s.to_multiset()
{
    vstd::seq_lib::to_multiset_update(s, a, s[b]);
    let s1 = s.update(a, s[b]);
    vstd::seq_lib::to_multiset_update(s1, b, s[a]);
    s.to_multiset_ensures();
    assert(s.to_multiset().count(s[a]) > 0);
    assert(s.to_multiset().count(s[b]) > 0);
}
/// p is a permutation of 0..n
pub open spec fn is_perm(p: Seq<int>, n: int) -> bool {
    &&& p.len() == n
    &&& forall|i: int| 0 <= i < n ==> 0 <= #[trigger] p[i] < n
    &&& forall|i: int, j: int| 0 <= i < j < n ==> #[trigger] p[i] != #[trigger] p[j]
}
pub open spec fn swap_seq(p: Seq<int>, a: int, b: int) -> Seq<int> { p.update(a, p[b]).update(b, p[a]) }
pub proof fn lemma_perm_swap(p: Seq<int>, n: int, a: int, b: int) requires is_perm(p, n), 0 <= a < n, 0 <= b < n
    ensures is_perm(swap_seq(p, a, b), n)
{
    let q = swap_seq(p, a, b);
    assert forall|i: int, j: int| 0 <= i < j < n implies #[trigger] q[i] != #[trigger] q[j] by {
        let pi = if i == b { a } else if i == a { b } else { i };
        let pj = if j == b { a } else if j == a { b } else { j };
        assert(q[i] == p[pi]); assert(q[j] == p[pj]);
        if pi < pj { assert(p[pi] != p[pj]); } else { assert(pj < pi); assert(p[pj] != p[pi]); }
    }
}
/// one common permutation applied to both arrays (property C19, "paired shuffle")
pub open spec fn paired(a1: Seq<f64>, a2: Seq<f64>, s1: Seq<f64>, s2: Seq<f64>, p: Seq<int>) -> bool {
    &&& is_perm(p, a1.len() as int) && s1.len() == a1.len() && s2.len() == a1.len() && a2.len() == a1.len()
    &&& forall|k: int| 0 <= k < a1.len() ==> s1[k] == a1[#[trigger] p[k]] && s2[k] == a2[p[k]]
}
'''

du_struct = DU + '{struct DiscreteUniform}'
du_new = Fn(DU + '{impl DiscreteUniform}::new', ret='r', valid='lower <= upper', panics={1: 'REJECT'},
            ensures=['C19.du.new.valid:: lower <= upper', 'C19.du.new.fields:: r.lower == lower && r.upper == upper'])
du_sample = Fn(DU + '{impl Distribution for DiscreteUniform}::sample', ret='r', inherent=True,
               requires=['C19.du.inv:: self.lower <= self.upper'],
               ensures=['C19.du.sample.range:: exists|k: int| self.lower <= k <= self.upper && r == f_of_int(k)'])

MACH = 'data@.len() < 0x3fff_ffff'
jackknife = Fn(R + 'jackknife', ret='r',
               ensures=['C19.jackknife.count:: r@.len() == data@.len()',
                        'C19.jackknife.leaveout:: forall|i: int| 0 <= i < data@.len() ==> (#[trigger] r@[i])@ == leave_out(data@, i)'],
               panics={},
               loops={1: {'invariant': ['n == data@.len()', 'resamples@.len() == i',
                                        'C19.jackknife.sofar:: forall|q: int| 0 <= q < i ==> (#[trigger] resamples@[q])@ == leave_out(data@, q)']}},
               hints=[('resamples.push(v);', 'before', 'proof { assert(v@ =~= leave_out(data@, i as int)); }')])
shuffle = Fn(R + 'shuffle', ret='r', valid='data@.len() >= 1', float_casts=(2, 3), attrs=['#[verifier::loop_isolation(false)]'],
             requires=['C19.machine:: ' + MACH],
             ensures=['C19.shuffle.valid:: data@.len() >= 1', 'C19.shuffle.len:: r@.len() == data@.len()',
                      'C19.shuffle.multiset:: r@.to_multiset() == data@.to_multiset()'],
             loops={1: {'invariant': ['shuf@.len() == data@.len()', 'randomizer.lower == 0 && randomizer.upper == data@.len() - 1',
                                      'C19.shuffle.multiset.inv:: shuf@.to_multiset() == data@.to_multiset()']}},
             hints=[('let randomizer =', 'before', 'proof { assert(shuf@ =~= data@); }'),
                    ('shuf.swap(', 'before', 'let ghost pre_ = shuf@; proof { lemma_swap_multiset(shuf@, f_to_int(a), f_to_int(b)); }')])
shuffle_two = Fn(R + 'shuffle_two', ret='r', valid='arr1@.len() == arr2@.len() && arr1@.len() >= 1', float_casts=(2, 3, 4, 5),
                 attrs=['#[verifier::loop_isolation(false)]'], panics={1: 'REJECT'},
                 requires=['C19.machine:: arr1@.len() < 0x3fff_ffff'],
                 ensures=['C19.shuffle_two.valid:: arr1@.len() == arr2@.len() && arr1@.len() >= 1',
                          'C19.shuffle_two.paired:: exists|p: Seq<int>| #[trigger] paired(arr1@, arr2@, r.0@, r.1@, p)'],
                 loops={1: {'invariant': ['randomizer.lower == 0 && randomizer.upper == arr1@.len() - 1', 'arr1@.len() == arr2@.len()',
                                          'C19.shuffle_two.paired.inv:: paired(arr1@, arr2@, shuf1@, shuf2@, perm)']}},
                 hints=[('let randomizer =', 'before', 'let ghost mut perm: Seq<int> = Seq::new(arr1@.len(), |i: int| i); proof { assert(shuf1@ =~= arr1@); assert(shuf2@ =~= arr2@); }'),
                        ('shuf1.swap(', 'before', 'proof { lemma_perm_swap(perm, arr1@.len() as int, f_to_int(a), f_to_int(b)); perm = swap_seq(perm, f_to_int(a), f_to_int(b)); }'),
                        ('(shuf1, shuf2)', 'replace', '({ let r_ = (shuf1, shuf2); proof { assert(paired(arr1@, arr2@, r_.0@, r_.1@, perm)); } r_ })')])

UNITS = [
    Unit('C19_resample', 'C19', [du_new, du_sample, jackknife, shuffle, shuffle_two], types=[du_struct], spec=SPEC, preludes=PRE, broadcast=BC,
         notes='jackknife = the n leave-one-out vectors in order; shuffle keeps the multiset; shuffle_two applies one common permutation '
               '(ghost witness); index draws are in range from length 1 upward'),
]
