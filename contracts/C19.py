"""C19 — resampling never invents, loses or unpairs data (L0 data-flow + integers)."""
from vc.gen import Fn, Unit

PRE = ('fax_l0', 'fmeth', 'stdspec', 'alea')
BC = ('l0', 'ax_f64_cloned', 'ax_int_roundtrip')
R = 'validation::resample::'
DU = 'distributions::discreteuniform::'

SPEC = r'''
pub open spec fn leave_out(s: Seq<f64>, i: int) -> Seq<f64> { s.subrange(0, i) + s.subrange(i + 1, s.len() as int) }
pub proof fn lemma_swap_multiset(s: Seq<f64>, a: int, b: int) requires 0 <= a < s.len(), 0 <= b < s.len()
    ensures s.update(a, s[b]).update(b, s[a]).to_multiset() =~= s.to_multiset()
{
    vstd::seq_lib::to_multiset_update(s, a, s[b]);
    let s1 = s.update(a, s[b]);
    vstd::seq_lib::to_multiset_update(s1, b, s[a]);
    s.to_multiset_ensures();
    assert(s.to_multiset().count(s[a]) > 0);
    assert(s.to_multiset().count(s[b]) > 0);
}
/// p is a permutation of 0..n
pub open spec fn is_perm(p: Seq<int>, n: int) -> bool {
    &&& p.len() == n
    &&& forall|i: int| 0 <= i < n ==> 0 <= #[trigger] p[i] < n
    &&& forall|i: int, j: int| 0 <= i < j < n ==> #[trigger] p[i] != #[trigger] p[j]
}
pub open spec fn swap_seq(p: Seq<int>, a: int, b: int) -> Seq<int> { p.update(a, p[b]).update(b, p[a]) }
pub proof fn lemma_perm_swap(p: Seq<int>, n: int, a: int, b: int) requires is_perm(p, n), 0 <= a < n, 0 <= b < n
    ensures is_perm(swap_seq(p, a, b), n)
{
    let q = swap_seq(p, a, b);
    assert forall|i: int, j: int| 0 <= i < j < n implies #[trigger] q[i] != #[trigger] q[j] by {
        let pi = if i == b { a } else if i == a { b } else { i };
        let pj = if j == b { a } else if j == a { b } else { j };
        assert(q[i] == p[pi]); assert(q[j] == p[pj]);
        if pi < pj { assert(p[pi] != p[pj]); } else { assert(pj < pi); assert(p[pj] != p[pi]); }
    }
}
/// k is a uniform draw from lo..=hi: a fresh draw of the trusted generator, or the only value of a one-point range
pub open spec fn du_drawn(lo: i64, hi: i64, k: int) -> bool { lo <= k <= hi && ((lo == hi && k == lo) || crate::alea::alea_uniform(lo, hi, k as i64)) }
pub open spec fn is_du_value(lo: i64, hi: i64, x: f64) -> bool { exists|k: int| #[trigger] du_drawn(lo, hi, k) && x == f_of_int(k) }
/// x is the datum at a uniformly drawn position
pub open spec fn is_pick(d: Seq<f64>, x: f64) -> bool { exists|k: int| #[trigger] du_drawn(0, (d.len() - 1) as i64, k) && x == d[k] }
/// one common permutation applied to both arrays (property C19, "paired shuffle")
pub open spec fn paired(a1: Seq<f64>, a2: Seq<f64>, s1: Seq<f64>, s2: Seq<f64>, p: Seq<int>) -> bool {
    &&& is_perm(p, a1.len() as int) && s1.len() == a1.len() && s2.len() == a1.len() && a2.len() == a1.len()
    &&& forall|k: int| 0 <= k < a1.len() ==> s1[k] == a1[#[trigger] p[k]] && s2[k] == a2[p[k]]
}
'''

du_struct = DU + '{struct DiscreteUniform}'
du_new = Fn(DU + '{impl DiscreteUniform}::new', ret='r', valid='lower <= upper', panics={1: 'REJECT'},
            ensures=['C19.du.new.valid:: lower <= upper', 'C19.du.new.fields:: r.lower == lower && r.upper == upper'])
du_sample = Fn(DU + '{impl Distribution for DiscreteUniform}::sample', ret='r', inherent=True,
               requires=['C19.du.inv:: self.lower <= self.upper', 'C19.du.span:: (self.upper as int) + 1 - (self.lower as int) <= i64::MAX'],
               ensures=['C19.du.sample.range:: exists|k: int| self.lower <= k <= self.upper && r == #[trigger] f_of_int(k) && du_drawn(self.lower, self.upper, k)'])

MACH = 'data@.len() < 0x3fff_ffff'
jackknife = Fn(R + 'jackknife', ret='r',
               ensures=['C19.jackknife.count:: r@.len() == data@.len()',
                        'C19.jackknife.leaveout:: forall|i: int| 0 <= i < data@.len() ==> (#[trigger] r@[i])@ == leave_out(data@, i)'],
               panics={},
               loops={1: {'invariant': ['n == data@.len()', 'resamples@.len() == i',
                                        'C19.jackknife.sofar:: forall|q: int| 0 <= q < i ==> (#[trigger] resamples@[q])@ == leave_out(data@, q)']}},
               hints=[('resamples.push(v);', 'before', 'proof { assert(v@ =~= leave_out(data@, i as int)); }')])
shuffle = Fn(R + 'shuffle', ret='r', valid='data@.len() >= 1', float_casts=(2, 3), attrs=['#[verifier::loop_isolation(false)]'],
             requires=['C19.machine:: ' + MACH],
             ensures=['C19.shuffle.valid:: data@.len() >= 1', 'C19.shuffle.len:: r@.len() == data@.len()',
                      'C19.shuffle.multiset:: r@.to_multiset() == data@.to_multiset()'],
             loops={1: {'invariant': ['shuf@.len() == data@.len()', 'randomizer.lower == 0 && randomizer.upper == data@.len() - 1',
                                      'C19.shuffle.multiset.inv:: shuf@.to_multiset() == data@.to_multiset()']}},
             hints=[('let randomizer =', 'before', 'proof { assert(shuf@ =~= data@); }'),
                    ('shuf.swap(', 'before', 'let ghost pre_ = shuf@; proof { lemma_swap_multiset(shuf@, f_to_int(a), f_to_int(b)); }')])
shuffle_two = Fn(R + 'shuffle_two', ret='r', valid='arr1@.len() == arr2@.len() && arr1@.len() >= 1', float_casts=(2, 3, 4, 5),
                 attrs=['#[verifier::loop_isolation(false)]'], panics={1: 'REJECT'},
                 requires=['C19.machine:: arr1@.len() < 0x3fff_ffff'],
                 ensures=['C19.shuffle_two.valid:: arr1@.len() == arr2@.len() && arr1@.len() >= 1',
                          'C19.shuffle_two.paired:: exists|p: Seq<int>| #[trigger] paired(arr1@, arr2@, r.0@, r.1@, p)'],
                 loops={1: {'invariant': ['randomizer.lower == 0 && randomizer.upper == arr1@.len() - 1', 'arr1@.len() == arr2@.len()',
                                          'C19.shuffle_two.paired.inv:: paired(arr1@, arr2@, shuf1@, shuf2@, perm)']}},
                 hints=[('let randomizer =', 'before', 'let ghost mut perm: Seq<int> = Seq::new(arr1@.len(), |i: int| i); proof { assert(shuf1@ =~= arr1@); assert(shuf2@ =~= arr2@); }'),
                        ('shuf1.swap(', 'before', 'proof { lemma_perm_swap(perm, arr1@.len() as int, f_to_int(a), f_to_int(b)); perm = swap_seq(perm, f_to_int(a), f_to_int(b)); }'),
                        ('(shuf1, shuf2)', 'replace', '({ let r_ = (shuf1, shuf2); proof { assert(paired(arr1@, arr2@, r_.0@, r_.1@, perm)); } r_ })')])

DIST = 'distributions::'
sample_n = Fn(DIST + '{trait Distribution1D: Distribution<Output = f64>}::sample_n', ret='r', as_impl='impl DiscreteUniform',
              requires=['C19.du.inv:: self.lower <= self.upper', 'C19.du.span:: (self.upper as int) + 1 - (self.lower as int) <= i64::MAX'],
              ensures=['C19.du.sample_n.len:: r.v@.len() == n',
                       'C19.du.sample_n.each:: forall|i: int| 0 <= i < n ==> is_du_value(self.lower, self.upper, #[trigger] r.v@[i])'],
              rewrites=[('(0..n).map(', 'Vector { v: (0..n).map(', 'R26: `ITER.collect()` into a Vector is `Vector { v: ITER.collect::<Vec<f64>>() }` (fingerprint-checked)'),
                        ('.collect()', '.collect::<Vec<f64>>() }', 'R26 (second half)')],
              closures={1: {'params': '_w: usize', 'ret': 'o: f64', 'ensures': ['is_du_value(self.lower, self.upper, o)']}})
bootstrap = Fn(R + 'bootstrap', ret='r', float_casts=(2,),
               requires=['C19.bootstrap.nonempty:: data@.len() >= 1', 'C19.machine:: ' + MACH],
               ensures=['C19.bootstrap.count:: r@.len() == n_bootstrap',
                        'C19.bootstrap.len:: forall|b: int| 0 <= b < n_bootstrap ==> (#[trigger] r@[b])@.len() == data@.len()',
                        'C19.bootstrap.drawn:: forall|b: int, i: int| 0 <= b < n_bootstrap && 0 <= i < data@.len() ==> '
                        'is_pick(data@, #[trigger] r@[b]@[i])'],
               rewrites=[('idxs.into_iter()', 'idxs.v.into_iter()', 'R35: `into_iter()` on a Vector is `self.v.into_iter()` by the one-line IntoIterator impl (fingerprint-checked)'),
                         ('for _ in', 'for _b in', 'R14: wildcard loop pattern given a name')],
               closures={1: {'params': 'i: f64', 'ret': 'o: f64',
                             'requires': ['is_du_value(0, (data@.len() - 1) as i64, i)', 'data@.len() >= 1 && data@.len() < 0x3fff_ffff'],
                             'ensures': ['is_pick(data@, o)']}},
               loops={1: {'invariant': ['data@.len() >= 1 && data@.len() < 0x3fff_ffff', 'resamp_gen.lower == 0 && resamp_gen.upper == data@.len() - 1', 'resamples@.len() == _b',
                                        'C19.bootstrap.len.inv:: forall|b: int| 0 <= b < _b ==> (#[trigger] resamples@[b])@.len() == data@.len()',
                                        'C19.bootstrap.drawn.inv:: forall|b: int, i: int| 0 <= b < _b && 0 <= i < data@.len() ==> '
                                        'is_pick(data@, #[trigger] resamples@[b]@[i])']}})

UNITS = [
    Unit('C19_resample', 'C19', [du_new, du_sample, sample_n, bootstrap, jackknife, shuffle, shuffle_two], types=[du_struct, 'linalg::array::vec::{struct Vector}'],
         fingerprints=[('linalg::array::vec::{impl FromIterator<f64> for Vector}::from_iter', '{ Self { v: Vec::from_iter(iter) } }'),
                       ('linalg::array::vec::{impl IntoIterator for Vector}::into_iter', '{ self.v.into_iter() }')], spec=SPEC, preludes=PRE, broadcast=BC,
         notes='jackknife = the n leave-one-out vectors in order; shuffle keeps the multiset; shuffle_two applies one common permutation '
               '(ghost witness); index draws are in range from length 1 upward'),
]
