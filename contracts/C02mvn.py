"""C02 — multivariate normal density / log-density against the textbook formula in terms of the object's cached
inverse covariance and determinant (L1).  The quadratic form goes through the Dot contracts (C05_dot_vec)."""
from vc.gen import Fn, Unit
from contracts import core
from contracts import C04 as c04
from contracts import C05 as c05
from contracts import C01 as c01
from contracts import C11m as c11m
from contracts.core import VEC, MAT, IM, IV

PRE = ('fax_l0', 'fmeth', 'stdspec', 'l1')
BC = ('l0', 'l1_arith', 'l1_fun', 'ax_vec_from_refl', 'ax_f64_cloned')
MV = 'distributions::multivariatenormal::'

SPEC = c05.SPEC + c05.DOT_WFD + c04.RED_SPEC + c01.SYM_SPEC + c11m.PD_SPEC + r'''
/// outcome of the (necessary, not sufficient) positive-definiteness test of the stored covariance matrix: square, symmetric within epsilon, positive diagonal
pub open spec fn pd_check(m: Matrix) -> bool { m.nrows == m.ncols && pd_test(m.data.v@, m.nrows as int) }
/// object invariant established by MVN::new: k x k cached inverse, positive determinant, covariance passes the test
pub open spec fn mvn_inv(s: MVN) -> bool {
    let k = s.mean.v@.len();
    0 < k <= i32max() && k * k <= i32max() && wfd(s.inverse_covariance_matrix.nrows, s.inverse_covariance_matrix.ncols, s.inverse_covariance_matrix.data.v@.len())
    && s.inverse_covariance_matrix.nrows == k && s.inverse_covariance_matrix.ncols == k
    && wf(s.covariance_matrix) && pd_check(s.covariance_matrix) && rv(s.covariance_determinant) > 0real
}
/// d = x - mu, w = Sigma^-1 d, q = d . w   (the quadratic form (x-mu)^T Sigma^-1 (x-mu))
pub open spec fn is_quad(q: real, x: Seq<f64>, s: MVN) -> bool {
    let k = s.mean.v@.len() as int;
    exists|d: Seq<f64>, w: Seq<f64>| d.len() == k && (forall|i: int| 0 <= i < k ==> rv(#[trigger] d[i]) == rv(x[i]) - rv(s.mean.v@[i]))
        && #[trigger] is_product(w, s.inverse_covariance_matrix.data.v@, k, false, d, 1, false, k, k, 1) && q == dsum(d, w, k)
}
pub proof fn lemma_powi_pos(x: real, n: int) requires x > 0real ensures r_powi(x, n) > 0real decreases n
{ if n > 0 { lemma_powi_pos(x, n - 1); lemma_mul_pos(x, r_powi(x, n - 1)); } }
'''
is_pd = c11m.mpd      # proved in unit C01_matrix_predicates

DIFF = {'params': 'i: usize', 'ret': 'o: f64', 'requires': ['i < x@.len()', 'x@.len() == self_.mean.v@.len()'],
        'ensures': ['o == f_sub(x@[i as int], self_.mean.v@[i as int])']}
RW = [('v - self.mean[i]', '*v - self.mean[i]', 'R17: `&f64 - f64` is std\'s forwarding impl `*v - rhs` (Verus ICE on a reference operand)'),
      ('let x_minus_mu: Vector =', 'let x_minus_mu: Vector = Vector { v:', 'R26: `ITER.collect()` into a Vector is `Vector { v: ITER.collect::<Vec<f64>>() }` (fingerprint-checked)'),
      ('.collect();', '.collect::<Vec<f64>>() };', 'R26 (second half)'),
      ('x_minus_mu.t_dot(&self.inverse_covariance_matrix.dot(&x_minus_mu))',
       '({ let w_ = self.inverse_covariance_matrix.dot(&x_minus_mu); let q_ = x_minus_mu.t_dot(&w_); '
       'proof { let k = self.mean.v@.len() as int; assert(is_product(w_.v@, self.inverse_covariance_matrix.data.v@, k, false, x_minus_mu.v@, 1, false, k, k, 1)); '
       'assert(rv(q_) == dsum(x_minus_mu.v@, w_.v@, k)); assert(is_quad(rv(q_), x@, **self)); } q_ })',
       'R31: the quadratic form in A-normal form (inner product bound to a name, evaluation order kept)')]
QHINT = ('proof { let k = self_.mean.v@.len() as int; assert(x_minus_mu.v@.len() == k); '
         'assert forall|i: int| 0 <= i < k implies rv(#[trigger] x_minus_mu.v@[i]) == rv(x@[i]) - rv(self_.mean.v@[i]) by { } }')
VALID = 'x@.len() == self.mean.v@.len()'
pdf = Fn(MV + "{impl<'a> Continuous for &'a MVN}::pdf", ret='r', level='L1', outline='only', valid=VALID, panics={1: 'DEAD', 2: 'REJECT'}, rej_clause=False,
         requires=['C02.mvn.inv:: mvn_inv(**self)'],
         ensures=['C02.mvn.pdf.valid:: ' + VALID,
                  'C02.mvn.pdf.formula:: exists|q: real| #[trigger] is_quad(q, x@, **self) && rv(r) == r_exp((-0.5real) * q) / '
                  'r_sqrt(r_powi(2real * r_pi(), self.mean.v@.len() as int) * rv(self.covariance_determinant))'],
         rewrites=RW, closures={1: DIFF},
         hints=[('.collect::<Vec<f64>>() };', 'after', QHINT),
                ('numerator / denominator', 'before',
                 'proof { let k = self_.mean.v@.len() as int; lemma_powi_pos(2real * r_pi(), k); lemma_mul_pos(r_powi(2real * r_pi(), k), rv(self_.covariance_determinant)); }')])
ln_pdf = Fn(MV + "{impl<'a> Continuous for &'a MVN}::ln_pdf", ret='r', level='L1', outline='only', valid=VALID, panics={1: 'DEAD', 2: 'REJECT'}, rej_clause=False,
            requires=['C02.mvn.inv:: mvn_inv(**self)'],
            ensures=['C02.mvn.ln_pdf.valid:: ' + VALID,
                     'C02.mvn.ln_pdf.formula:: exists|q: real| #[trigger] is_quad(q, x@, **self) && rv(r) == (-0.5real) * (r_ln(rv(self.covariance_determinant)) + q + '
                     '(self.mean.v@.len() as real) * r_ln(2real * r_pi()))'],
            rewrites=RW, closures={1: DIFF},
            hints=[('.collect::<Vec<f64>>() };', 'after', QHINT)])

_core_all = core.core_stubs()
UNITS = [
    Unit('C02_mvn', 'C02', [pdf, ln_pdf], use=_core_all + [is_pd] + c05.DOT_MV + c05.DOT_VV, types=core.TYPES + [MV + '{struct MVN}'], type_spec=core.TYPE_SPEC,
         spec=SPEC, traits=[(c05.D + '{trait Dot}', c05.DOT_TRAIT_DECL)], preludes=PRE, broadcast=BC, level='L1',
         fingerprints=[(VEC + '{impl FromIterator<f64> for Vector}::from_iter', '{ Self { v: Vec::from_iter(iter) } }')],
         notes='multivariate normal pdf / ln_pdf equal exp(-q/2) / sqrt((2 pi)^k det) resp. its logarithm, q the quadratic form of x - mean with the cached inverse; '
               'dimension mismatch rejected; the object invariant is what MVN::new establishes (unit C02_mvn_new) plus the hypothesis det > 0'),
]

# ---------------------------------------------------------------- MVN::new: composition of the proved Matrix contracts (cholesky, inv, det)
from contracts import C11tri as _t
from contracts import C11rec as _rec
from contracts import C01solve as _s1
from contracts import C01m as _c01m

IVM = '<V as vstd::std_specs::convert::IntoSpec<Vector>>'
IMM = '<M as vstd::std_specs::convert::IntoSpec<Matrix>>'
M_ = IVM + '::into_spec(mean)'
C_ = IMM + '::into_spec(covariance_matrix)'
NEW_VALID = ('({c}.nrows == {c}.ncols && sym_eps({c}.data.v@, {c}.nrows as int)) && {m}.v@.len() == {c}.ncols '
             '&& pd_test({c}.data.v@, {c}.nrows as int) && no_bad_pivot({c}.data.v@, {c}.nrows as int)').format(c=C_, m=M_)
NEW_SPEC = r'''
/// what MVN::new stores: the arguments, a Cholesky factor of the covariance, its column-by-column LU inverse and its LU determinant
pub open spec fn mvn_built(s: MVN, m: Vector, c: Matrix) -> bool {
    let k = c.nrows as int;
    s.mean == m && s.covariance_matrix == c
    && s.decomposed_covariance_matrix.nrows == c.nrows && s.decomposed_covariance_matrix.ncols == c.ncols && wf(s.decomposed_covariance_matrix)
    && chol_rows(c.data.v@, s.decomposed_covariance_matrix.data.v@, k, k) && chol_zero(s.decomposed_covariance_matrix.data.v@, k, k, 0)
    && s.inverse_covariance_matrix.nrows == c.nrows && s.inverse_covariance_matrix.ncols == c.nrows && wf(s.inverse_covariance_matrix)
    && minverse_of(c.data.v@, k, s.inverse_covariance_matrix.data.v@)
    && is_det(c, s.covariance_determinant)
}
'''
mvn_new = Fn(MV + '{impl MVN}::new', ret='r', level='L1', valid=NEW_VALID,
             panics={1: 'REJECT: ({c}.nrows == {c}.ncols && sym_eps({c}.data.v@, {c}.nrows as int))'.format(c=C_),
                     2: 'REJECT: {m}.v@.len() == {c}.ncols'.format(m=M_, c=C_)},
             requires=['C02.mvn.new.obeys:: %s::obeys_into_spec() && %s::obeys_into_spec()' % (IVM, IMM),
                       'C02.mvn.new.wf:: wf(%s) && %s.nrows > 0 && %s.nrows * %s.nrows <= i32max()' % (C_, C_, C_, C_)],
             ensures=['C02.mvn.new.valid:: ' + NEW_VALID.replace(' && no_bad_pivot({c}.data.v@, {c}.nrows as int)'.format(c=C_), ''),
                      'C02.mvn.new.built:: mvn_built(r, %s, %s)' % (M_, C_),
                      'C02.mvn.new.invariant:: rv(r.covariance_determinant) > 0real ==> mvn_inv(r)'])
UNITS.append(Unit('C02_mvn_new', ('C02', 'C11'), [mvn_new], use=_core_all + [c11m.msym, c11m.mchol, _c01m.minv, _rec.det], types=core.TYPES + [MV + '{struct MVN}'], type_spec=core.TYPE_SPEC,
                  spec=SPEC + _c01m.SPEC + _c01m.MINV_SPEC + _rec.PAR_SPEC + _rec.DET_SPEC + NEW_SPEC, preludes=PRE, broadcast=BC, level='L1', rlimit=100,
                  notes='MVN::new stores its arguments, the Cholesky factor (L L^T = covariance on the lower triangle, positive diagonal), the column-by-column LU inverse and the LU determinant of the covariance; '
                        'asymmetric / mismatched / not positive definite input is rejected; the object invariant of pdf / ln_pdf follows except for the sign of the determinant'))
