//! C13: autocorrelation, AR fitting and forecasting are consistent.
use crate::*;
use compute::timeseries::*;
use compute::linalg::*;

pub fn run(rng: &mut Rng, out: &mut Fails) {
    for case in 0..40 {
        let n = 30 + rng.below(120);
        let off = match case % 3 { 0 => 0.0, 1 => 1e3, _ => 1e6 };
        // AR(2)-like series
        let (p1, p2) = (0.5, -0.3);
        let mut z = vec![0.0f64, 0.0];
        for i in 2..n { let e = rng.range(-1., 1.); let v = p1 * z[i - 1] + p2 * z[i - 2] + e; z.push(v); }
        let ts: Vec<f64> = z.iter().map(|v| v + off).collect();
        let m = ts.iter().sum::<f64>() / n as f64;
        let c: Vec<f64> = ts.iter().map(|v| v - m).collect();
        let inp = format!("AR(2)-like series, n={}, offset={}, seed case {}", n, off, case);
        let tol = if off == 0. { 1e-10 } else { 1e-6 };
        let c0: f64 = c.iter().map(|v| v * v).sum::<f64>() / n as f64;
        for k in [-7i32, -3, -1, 0, 1, 2, 5, 9] {
            let ka = k.abs() as usize;
            let want: f64 = (ka..n).map(|i| c[i] * c[i - ka]).sum::<f64>() / n as f64;
            let g = acovf(&ts, k);
            if !close(g, want, tol * (1. + c0)) { fail(out, "acovf", "C13.acovf.def", format!("{} k={}", inp, k), format!("{}", g), format!("{}", want)); }
            if !close(acovf(&ts, -k), g, 1e-12) { fail(out, "acovf", "C13.acovf.even", format!("{} k={}", inp, k), format!("{}", acovf(&ts, -k)), format!("{}", g)); }
            let a = acf(&ts, k);
            if !close(a, want / c0, tol) { fail(out, "acf", "C13.acf.ratio", format!("{} k={}", inp, k), format!("{}", a), format!("{}", want / c0)); }
            if a.abs() > 1. + 1e-12 { fail(out, "acf", "C13.acf.bound", format!("{} k={}", inp, k), format!("{}", a), "|acf| <= 1".into()); }
        }
        // lags beyond the series length: the estimator is an empty sum (0), never a panic
        for k in [n as i32, n as i32 + 1, -(n as i32) - 5, 2 * n as i32] {
            match catch(|| (acovf(&ts, k), acf(&ts, k))) {
                None => fail(out, "acovf", "C13.acovf.def", format!("{} k={} (|k| >= n)", inp, k), "panic".into(), "0".into()),
                Some((g, a)) => if g != 0. || a != 0. { fail(out, "acovf", "C13.acovf.def", format!("{} k={} (|k| >= n)", inp, k), format!("{} / {}", g, a), "0".into()) },
            }
        }
        if !close(acf(&ts, 0), 1., 1e-12) { fail(out, "acf", "C13.acf.lag0", inp.clone(), format!("{}", acf(&ts, 0)), "1".into()); }
        // differencing inverts cumulative summation
        let d = difference(ts.clone());
        let mut acc = ts[0]; let mut okd = d.len() == n - 1;
        for i in 0..d.len() { acc += d[i]; if !close(acc, ts[i + 1], 1e-9) { okd = false; } }
        if !okd { fail(out, "difference", "C13.difference", inp.clone(), "cumsum(diff) != series".into(), "inverse of cumulative summation".into()); }
        // AR fit: Yule-Walker, intercept = mean, refit independence, shift equivariance of forecasts
        for p in 1..=3usize {
            let mut ar = AR::new(p); ar.fit(&ts);
            if !close(ar.intercept, m, 1e-12) { fail(out, "AR::fit", "C13.fit.intercept", format!("{} p={}", inp, p), format!("{}", ar.intercept), format!("{}", m)); }
            let r: Vec<f64> = (0..=p).map(|k| acf(&ts, k as i32)).collect();
            // coefficients phi_1..phi_p (coeffs are stored reversed): sum_j phi_j r_|i-j| = r_i
            let phi: Vec<f64> = ar.coeffs.iter().rev().cloned().collect();
            for i in 1..=p { let lhs: f64 = (1..=p).map(|j| phi[j - 1] * r[(i as i64 - j as i64).abs() as usize]).sum(); if !close(lhs, r[i], 1e-7) { fail(out, "AR::fit", "C13.fit.yule_walker", format!("{} p={} equation {}", inp, p, i), format!("{}", lhs), format!("{}", r[i])); } }
            let mut ar2 = AR::new(p); ar2.fit(&z); ar2.fit(&ts);
            if ar2.coeffs.iter().zip(&ar.coeffs).any(|(a, b)| !close(*a, *b, 1e-9)) { fail(out, "AR::fit", "C13.fit.refit", format!("{} p={} (fit(other) then fit(series))", inp, p), format!("{:?}", ar2.coeffs), format!("{:?}", ar.coeffs)); }
            let h = 6;
            let f1 = ar.predict(&ts, h);
            let shifted: Vec<f64> = ts.iter().map(|v| v + 100.).collect();
            let mut ars = AR::new(p); ars.fit(&shifted);
            let f2 = ars.predict(&shifted, h);
            for i in 0..h { if !close(f2[i], f1[i] + 100., 1e-6) { fail(out, "AR::predict", "C13.predict.centred", format!("{} p={} step {}", inp, p, i), format!("{}", f2[i]), format!("{}", f1[i] + 100.)); break; } }
            // forecasts = mean + recursion on centred history
            let mut hist: Vec<f64> = c.clone();
            for i in 0..h { let mut v = 0.; for j in 1..=p { v += phi[j - 1] * hist[hist.len() - j]; } hist.push(v); if !close(f1[i], m + v, 1e-7 * (1. + m.abs())) { fail(out, "AR::predict", "C13.predict.recursion", format!("{} p={} step {}", inp, p, i), format!("{}", f1[i]), format!("{}", m + v)); break; } }
            // the fitted model applied to a history that is NOT the fitted series (its last p + 1 points): still centred on the fitted mean
            if ts.len() > p + 2 {
                let w = &ts[ts.len() - (p + 1)..];
                let fw = ar.predict(w, h);
                let mut hw: Vec<f64> = w.iter().map(|v| v - m).collect();
                for i in 0..h { let mut v = 0.; for j in 1..=p { v += phi[j - 1] * hw[hw.len() - j]; } hw.push(v); if !close(fw[i], m + v, 1e-7 * (1. + m.abs())) { fail(out, "AR::predict", "C13.predict.recursion", format!("{} p={} history=last {} points step {}", inp, p, p + 1, i), format!("{}", fw[i]), format!("{}", m + v)); break; } }
            }
        }
        if out.len() > 6 { return; }
    }
}
