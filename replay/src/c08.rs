//! C08: descriptive statistics equal their textbook definitions.
use crate::*;
use compute::statistics::*;

pub fn run(rng: &mut Rng, out: &mut Fails) {
    for case in 0..200 {
        let n = 2 + rng.below(12);
        let off = match case % 4 { 0 => 0.0, 1 => 1e6, 2 => -3e8, _ => 1e8 };
        let x: Vec<f64> = (0..n).map(|_| off + rng.int(-9, 9)).collect();
        let y: Vec<f64> = (0..n).map(|_| -off * 3. + rng.int(-9, 9)).collect();
        let inp = format!("x={:?} y={:?}", x, y);
        // exact rational reference on the integer residues
        let xr: Vec<f64> = x.iter().map(|v| v - off).collect();
        let yr: Vec<f64> = y.iter().map(|v| v + off * 3.).collect();
        let nf = n as f64;
        let mx = xr.iter().sum::<f64>() / nf; let my = yr.iter().sum::<f64>() / nf;
        let sxx: f64 = xr.iter().map(|v| (v - mx) * (v - mx)).sum();
        let sxy: f64 = xr.iter().zip(&yr).map(|(a, b)| (a - mx) * (b - my)).sum();
        let tol = if off == 0. { 1e-12 } else { 1e-6 };
        let chk = |out: &mut Fails, f: &str, clause: &str, got: f64, want: f64, tol: f64| if !close(got, want, tol) { fail(out, f, clause, inp.clone(), format!("{}", got), format!("{}", want)); };
        chk(out, "mean", "C08.mean", mean(&x), off + mx, 1e-12);
        chk(out, "welford_mean", "C08.welford_mean", welford_mean(&x), off + mx, 1e-12);
        chk(out, "var", "C08.var", var(&x), sxx / nf, tol);
        chk(out, "sample_var", "C08.sample_var", sample_var(&x), sxx / (nf - 1.), tol);
        chk(out, "std", "C08.std", std(&x), (sxx / nf).sqrt(), tol);
        chk(out, "sample_std", "C08.sample_std", sample_std(&x), (sxx / (nf - 1.)).sqrt(), tol);
        chk(out, "covariance", "C08.cov.twopass", covariance(&x, &y), sxy / nf, tol);
        chk(out, "sample_covariance", "C08.cov.sample", sample_covariance(&x, &y), sxy / (nf - 1.), tol);
        chk(out, "sample_covariance_onepass", "C08.cov.onepass", sample_covariance_onepass(&x, &y), sxy / (nf - 1.), if off == 0. { 1e-12 } else { 1e-5 });
        chk(out, "sample_covariance_online", "C08.cov.online", sample_covariance_online(&x, &y), sxy / (nf - 1.), tol);
        chk(out, "sample_covariance", "C08.cov.symmetric", sample_covariance(&y, &x), sxy / (nf - 1.), tol);
        // extrema with first-occurrence indices (ties, signed zeros)
        let d: Vec<f64> = (0..n).map(|i| match case % 3 { 0 => rng.int(-3, 3), 1 => [0.0, -0.0, 2.0, 2.0, -1.0, -1.0][i % 6], _ => (i % 3) as f64 }).collect();
        let mn = d.iter().cloned().fold(f64::INFINITY, f64::min); let mxv = d.iter().cloned().fold(f64::NEG_INFINITY, f64::max);
        let amin = d.iter().position(|v| *v == mn).unwrap(); let amax = d.iter().position(|v| *v == mxv).unwrap();
        let dinp = format!("data={:?}", d);
        if min(&d) != mn { fail(out, "min", "C08.min", dinp.clone(), format!("{}", min(&d)), format!("{}", mn)); }
        if max(&d) != mxv { fail(out, "max", "C08.max", dinp.clone(), format!("{}", max(&d)), format!("{}", mxv)); }
        if argmin(&d) != amin { fail(out, "argmin", "C08.argmin.first", dinp.clone(), format!("{}", argmin(&d)), format!("{}", amin)); }
        if argmax(&d) != amax { fail(out, "argmax", "C08.argmax.first", dinp.clone(), format!("{}", argmax(&d)), format!("{}", amax)); }
        // the Vector / Matrix methods forward to the same definitions (every shape of the same data)
        {
            use compute::prelude::{Matrix, Vector};
            let vx = Vector::new(x.clone());
            chk(out, "Vector::mean", "C08.mean", vx.mean(), off + mx, 1e-12);
            chk(out, "Vector::var", "C08.var", vx.var(), sxx / nf, tol);
            chk(out, "Vector::sample_var", "C08.sample_var", vx.sample_var(), sxx / (nf - 1.), tol);
            chk(out, "Vector::std", "C08.std", vx.std(), (sxx / nf).sqrt(), tol);
            chk(out, "Vector::sample_std", "C08.sample_std", vx.sample_std(), (sxx / (nf - 1.)).sqrt(), tol);
            let vd = Vector::new(d.clone());
            if vd.min() != mn || vd.max() != mxv { fail(out, "Vector::min/max", "C08.min", dinp.clone(), format!("{} {}", vd.min(), vd.max()), format!("{} {}", mn, mxv)); }
            if vd.argmin() != amin || vd.argmax() != amax { fail(out, "Vector::argmin/argmax", "C08.argmin.first", dinp.clone(), format!("{} {}", vd.argmin(), vd.argmax()), format!("{} {}", amin, amax)); }
            for r in 1..=n { if n % r != 0 { continue; }
                let c = n / r;
                let mxm = Matrix::new(x.clone(), r as i32, c as i32);
                chk(out, "Matrix::mean", "C08.mean", mxm.mean(), off + mx, 1e-12);
                chk(out, "Matrix::var", "C08.var", mxm.var(), sxx / nf, tol);
                chk(out, "Matrix::sample_std", "C08.sample_std", mxm.sample_std(), (sxx / (nf - 1.)).sqrt(), tol);
                let md = Matrix::new(d.clone(), r as i32, c as i32);
                let minp = format!("shape {}x{} {}", r, c, dinp);
                if md.min() != mn || md.max() != mxv { fail(out, "Matrix::min/max", "C08.min", minp.clone(), format!("{} {}", md.min(), md.max()), format!("{} {}", mn, mxv)); }
                if md.argmin() != (amin / c, amin % c) { fail(out, "Matrix::argmin", "C08.argmin.first", minp.clone(), format!("{:?}", md.argmin()), format!("{:?}", (amin / c, amin % c))); }
                if md.argmax() != (amax / c, amax % c) { fail(out, "Matrix::argmax", "C08.argmax.first", minp.clone(), format!("{:?}", md.argmax()), format!("{:?}", (amax / c, amax % c))); }
            }
        }
        // histogram bin centres, uniform and non-uniform
        let mut e = vec![rng.int(-5, 5)]; for _ in 0..n { let last = *e.last().unwrap(); e.push(last + 0.5 * (1 + rng.below(if case % 2 == 0 { 1 } else { 6 })) as f64); }
        let want: Vec<f64> = (0..e.len() - 1).map(|i| (e[i] + e[i + 1]) / 2.).collect();
        let got = hist_bin_centers(&e);
        if got.v.len() != want.len() || got.v.iter().zip(&want).any(|(a, b)| !close(*a, *b, 1e-13)) { fail(out, "hist_bin_centers", "C08.hist", format!("edges={:?}", e), format!("{:?}", got.v), format!("{:?}", want)); }
        if out.len() > 6 { return; }
    }
}
