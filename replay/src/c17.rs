//! C17: statistical transforms and combinatorics satisfy their defining identities.
use crate::*;
use compute::functions::*;

fn binom_u128(n: u64, k: u64) -> u128 { let k = k.min(n - k); let mut c: u128 = 1; for i in 1..=k { c = c * (n - i + 1) as u128 / i as u128; } c }

pub fn run(rng: &mut Rng, out: &mut Fails) {
    let mut prev = 0.0;
    for i in -400..=400 {
        let x = i as f64 * 0.1;
        let l = logistic(x);
        if !(l >= 0. && l <= 1.) || (i > -400 && l < prev) { fail(out, "logistic", "C17.logistic.range_monotone", format!("{}", x), format!("{}", l), "in [0,1], non-decreasing".into()); }
        if !close(logistic(-x), 1. - l, 1e-14) { fail(out, "logistic", "C17.logistic.symmetry", format!("{}", x), format!("{}", logistic(-x)), format!("{}", 1. - l)); }
        if !close(l, 1. / (1. + (-x).exp()), 1e-15) { fail(out, "logistic", "C17.logistic.formula", format!("{}", x), format!("{}", l), format!("{}", 1. / (1. + (-x).exp()))); }
        if x.abs() < 20. && !close(logit(l), x, 1e-8) { fail(out, "logit", "C17.logit.inverse", format!("logit(logistic({}))", x), format!("{}", logit(l)), format!("{}", x)); }
        prev = l;
    }
    for p in [-0.1, 1.1, -1e-9, 2.0] { if catch(|| logit(p)).is_some() { fail(out, "logit", "C17.logit.valid", format!("{}", p), "returned".into(), "panic".into()); } }
    for p in [0.0, 0.25, 0.5, 1.0] { if catch(|| logit(p)).is_none() { fail(out, "logit", "C17.logit.no_valid_input_rejected", format!("{}", p), "panic".into(), "value".into()); } }
    for _ in 0..400 {
        let x = (rng.range(-6., 6.)).exp();
        let lam = match rng.below(4) { 0 => 0.0, 1 => rng.range(-1e-4, 1e-4), 2 => rng.range(-1e-7, 1e-7), _ => rng.range(-5., 5.) };
        let want = if lam == 0. { x.ln() } else { (x.powf(lam) - 1.) / lam };
        let got = boxcox(x, lam);
        if !close(got, want, 1e-12) { fail(out, "boxcox", "C17.boxcox.formula", format!("x={} lambda={}", x, lam), format!("{}", got), format!("{}", want)); }
        let sh = rng.range(-3., 3.);
        if x + sh > 0. {
            let want = if lam == 0. { (x + sh).ln() } else { ((x + sh).powf(lam) - 1.) / lam };
            match catch(|| boxcox_shifted(x, lam, sh)) { None => fail(out, "boxcox_shifted", "C17.boxcox_shifted.valid", format!("x={} lambda={} shift={}", x, lam, sh), "panic".into(), format!("{}", want)),
                Some(g) => if !close(g, want, 1e-12) { fail(out, "boxcox_shifted", "C17.boxcox_shifted.formula", format!("x={} lambda={} shift={}", x, lam, sh), format!("{}", g), format!("{}", want)) } }
        }
    }
    if catch(|| boxcox(-1., 1.)).is_some() { fail(out, "boxcox", "C17.boxcox.valid", "x=-1".into(), "returned".into(), "panic".into()); }
    if catch(|| boxcox_shifted(-1., 0., -2.)).is_some() { fail(out, "boxcox_shifted", "C17.boxcox_shifted.valid", "x=-1 shift=-2".into(), "returned".into(), "panic".into()); }
    if catch(|| boxcox_shifted(-0.5, 1., 1.)).is_none() { fail(out, "boxcox_shifted", "C17.boxcox_shifted.valid", "x=-0.5 lambda=1 shift=1".into(), "panic".into(), "-0.5".into()); }
    for n in 1..30usize {
        let scale = [30., 700., 1e4][n % 3];
        let x = rng.vec(n, -scale, scale);
        let s = softmax(&x);
        let tot: f64 = s.iter().sum();
        if s.iter().any(|v| !(*v >= 0.)) || !close(tot, 1., 1e-12) { fail(out, "softmax", "C17.softmax.sum1", format!("{:?}", x), format!("sum {}", tot), "non-negative, sum 1".into()); }
        for i in 0..n { for j in 0..n { if x[i] < x[j] && s[i] > s[j] { fail(out, "softmax", "C17.softmax.order", format!("{:?}", x), "order broken".into(), "order preserved".into()); } } }
        let sh: Vec<f64> = x.iter().map(|v| v + 3.5).collect();
        let s2 = softmax(&sh);
        if s.iter().zip(&s2).any(|(a, b)| !close(*a, *b, if scale > 100. { 1e-8 } else { 1e-10 })) { fail(out, "softmax", "C17.softmax.shift", format!("{:?}", x), "changed".into(), "shift-invariant".into()); }
    }
    // every entry far below zero (and far above): the shift by the maximum must still keep exp() away from underflow / overflow
    for n in 1..12usize {
        for (lo, hi) in [(-2.0e4, -1.0e3), (1.0e3, 2.0e4), (-1.0e300, -1.0e299)] {
            let x = rng.vec(n, lo, hi);
            let s = match catch(|| softmax(&x)) { Some(s) => s, None => { fail(out, "softmax", "C17.softmax.sum1", format!("{:?}", x), "panic".into(), "non-negative, sum 1".into()); continue; } };
            let tot: f64 = s.iter().sum();
            if s.len() != n || s.iter().any(|v| !(*v >= 0.)) || !close(tot, 1., 1e-12) { fail(out, "softmax", "C17.softmax.sum1", format!("{:?}", x), format!("{:?} (sum {})", s, tot), "non-negative, sum 1".into()); }
            for i in 0..n { for j in 0..n { if x[i] < x[j] && s[i] > s[j] { fail(out, "softmax", "C17.softmax.order", format!("{:?}", x), "order broken".into(), "order preserved".into()); } } }
        }
    }
    for n in 0..=67u64 { for k in 0..=n {
        let w = binom_u128(n, k);
        if w < (1u128 << 64) {
            let g = match catch(|| binom_coeff(n, k)) { Some(g) => g, None => { fail(out, "binom_coeff", "C17.binom.exact", format!("n={} k={}", n, k), "panic (arithmetic overflow)".into(), format!("{}", w)); continue; } };
            if g as u128 != w { fail(out, "binom_coeff", "C17.binom.exact", format!("n={} k={}", n, k), format!("{}", g), format!("{}", w)); }
        }
    } }
    for (n, k) in [(100u64, 5u64), (1000, 3), (200, 8), (80, 20), (70, 30), (68, 24)] {
        let w = binom_u128(n, k);
        if w < (1u128 << 64) {
            match catch(|| binom_coeff(n, k)) {
                None => fail(out, "binom_coeff", "C17.binom.exact", format!("n={} k={}", n, k), "panic (arithmetic overflow)".into(), format!("{}", w)),
                Some(g) => if g as u128 != w { fail(out, "binom_coeff", "C17.binom.exact", format!("n={} k={}", n, k), format!("{}", g), format!("{}", w)); } }
        }
    }
}
