//! C15: shape operations and constructors preserve data and the matrix invariant (lock-step with a Vec<Vec<f64>> model).
use crate::*;
use compute::prelude::*;

type Model = Vec<Vec<f64>>;
fn to_model(m: &Matrix) -> Option<Model> {
    if m.nrows * m.ncols != m.data.v.len() { return None; }
    Some((0..m.nrows).map(|i| (0..m.ncols).map(|j| m.data.v[i * m.ncols + j]).collect()).collect())
}
fn flat(md: &Model) -> Vec<f64> { md.iter().flatten().cloned().collect() }
fn shape(md: &Model) -> (usize, usize) { (md.len(), if md.is_empty() { 0 } else { md[0].len() }) }
fn agree(m: &Matrix, md: &Model) -> bool {
    let (r, c) = shape(md);
    m.nrows == r && m.ncols == c && m.nrows * m.ncols == m.data.v.len() && same_vec(&m.data.v, &flat(md))
}
fn from_flat(d: &[f64], r: usize, c: usize) -> Model { (0..r).map(|i| d[i * c..(i + 1) * c].to_vec()).collect() }

pub fn run(rng: &mut Rng, out: &mut Fails) {
    for prog in 0..300 {
        let r0 = 1 + rng.below(6);
        let c0 = 1 + rng.below(6);
        let mut cnt = 0.0;
        let data: Vec<f64> = (0..r0 * c0).map(|_| { cnt += 1.0; cnt }).collect();
        let mut m = Matrix::new(data.clone(), r0 as i32, c0 as i32);
        let mut md = from_flat(&data, r0, c0);
        let mut trace = format!("start {}x{} data=1..", r0, c0);
        let steps = 1 + rng.below(14);
        for _ in 0..steps {
            let (r, c) = shape(&md);
            let op = rng.below(16);
            let mut opname = String::new();
            let res: Option<()> = match op {
                0 => { opname = "t".into(); catch(|| m.t()).map(|x| { m = x; }) .map(|_| { md = (0..c).map(|j| (0..r).map(|i| md[i][j]).collect()).collect(); }) }
                1 => { opname = "t_mut".into(); catch(|| { m.t_mut(); }).map(|_| { md = (0..c).map(|j| (0..r).map(|i| md[i][j]).collect()).collect(); }) }
                2 | 3 => {
                    // reshape to a random factorisation, sometimes with -1, sometimes impossible
                    let n = r * c;
                    let nr = 1 + rng.below(n.max(1) + 1);
                    let mode = rng.below(4);
                    let (a, b): (i32, i32) = match mode { 0 => (nr as i32, (n / nr) as i32), 1 => (-1, nr as i32), 2 => (nr as i32, -1), _ => (nr as i32, (n / nr) as i32 + 1) };
                    opname = format!("{}({},{})", if op == 2 { "reshape" } else { "reshape_mut" }, a, b);
                    let possible = match mode { 0 => nr * (n / nr) == n, 1 | 2 => n % nr == 0, _ => false };
                    let got = if op == 2 { catch(|| m.reshape(a, b)).map(|x| { m = x; }) } else { catch(|| { m.reshape_mut(a, b); }) };
                    match (got.is_some(), possible) {
                        (true, true) => { let f = flat(&md); let (rr, cc) = if a == -1 { (n / nr, nr) } else { (nr, n / nr) }; md = from_flat(&f, rr, cc); Some(()) }
                        (false, false) => { m = Matrix::new(flat(&md), r as i32, c as i32); Some(()) }
                        (true, false) => { fail(out, "Matrix::reshape(_mut)", "C15.reshape.valid", format!("{} ; {}", trace, opname), format!("accepted, shape {}x{} len {}", m.nrows, m.ncols, m.data.v.len()), "panic (impossible shape)".into()); return; }
                        (false, true) => { fail(out, "Matrix::reshape(_mut)", "C15.reshape.no_valid_input_rejected", format!("{} ; {}", trace, opname), "panic".into(), "reshaped".into()); return; }
                    }
                }
                4 => { opname = "hcat(self)".into(); let o = m.clone(); catch(|| m.hcat(o)).map(|x| { m = x; md = md.iter().map(|row| { let mut r2 = row.clone(); r2.extend(row.iter()); r2 }).collect(); }) }
                5 => { opname = "vcat(self)".into(); let o = m.clone(); catch(|| m.vcat(o)).map(|x| { m = x; let mut n2 = md.clone(); n2.extend(md.iter().cloned()); md = n2; }) }
                6 => { let k = 1 + rng.below(3); opname = format!("hrepeat({})", k); catch(|| m.hrepeat(k)).map(|x| { m = x; md = md.iter().map(|row| { let mut r2 = vec![]; for _ in 0..k { r2.extend(row.iter()); } r2 }).collect(); }) }
                7 => { let k = 1 + rng.below(3); opname = format!("vrepeat({})", k); catch(|| m.vrepeat(k)).map(|x| { m = x; let mut n2 = vec![]; for _ in 0..k { n2.extend(md.iter().cloned()); } md = n2; }) }
                8 => { let i = rng.below(r); opname = format!("get_row_as_vector({})", i); catch(|| m.get_row_as_vector(i)).map(|v| { if !same_vec(&v.v, &md[i]) { fail(out, "Matrix::get_row_as_vector", "C15.row.view", format!("{} ; {}", trace, opname), format!("{:?}", v.v), format!("{:?}", md[i])); } }) }
                9 => { let j = rng.below(c); opname = format!("get_col_as_vector({})", j); catch(|| m.get_col_as_vector(j)).map(|v| { let w: Vec<f64> = md.iter().map(|row| row[j]).collect(); if !same_vec(&v.v, &w) { fail(out, "Matrix::get_col_as_vector", "C15.col.view", format!("{} ; {}", trace, opname), format!("{:?}", v.v), format!("{:?}", w)); } }) }
                10 => { let i = rng.below(r); opname = format!("apply_along_row({}, x*2+1)", i); catch(|| m.apply_along_row(i, |x| x * 2. + 1.)).map(|_| { for x in md[i].iter_mut() { *x = *x * 2. + 1.; } }) }
                11 => { let j = rng.below(c); opname = format!("apply_along_col({}, x-3)", j); catch(|| m.apply_along_col(j, |x| x - 3.)).map(|_| { for row in md.iter_mut() { row[j] -= 3.; } }) }
                12 => { let k = rng.below(r * c); opname = format!("flat_idx_replace({}, 99)", k); catch(|| { m.flat_idx_replace(k, 99.); }).map(|_| { md[k / c][k % c] = 99.; }) }
                13 => { let i = rng.below(r); let j = rng.below(c); opname = format!("m[[{},{}]] = -7; m[{}][{}]", i, j, i, j); catch(|| { m[[i, j]] = -7.; m[i][j] }).map(|v| { md[i][j] = -7.; if v != -7. { fail(out, "IndexMut<[usize;2]>", "C15.index", format!("{} ; {}", trace, opname), format!("{}", v), "-7".into()); } }) }
                14 => { opname = "diag".into(); catch(|| m.diag()).map(|v| { let w: Vec<f64> = (0..r.min(c)).map(|i| md[i][i]).collect(); if !same_vec(&v.v, &w) { fail(out, "Matrix::diag", "C15.diag.view", format!("{} ; {}", trace, opname), format!("{:?}", v.v), format!("{:?}", w)); } }) }
                _ => { opname = "to_vec().to_matrix()".into(); let mm = m.clone(); catch(|| mm.to_vec().to_matrix()).map(|x| { m = x; md = vec![flat(&md)]; }) }
            };
            trace = format!("{} ; {}", trace, opname);
            if res.is_none() {
                fail(out, &opname, "C15.no_valid_input_rejected", trace.clone(), "panic".into(), "value".into());
                return;
            }
            if !agree(&m, &md) {
                fail(out, &opname, "C15.view", trace.clone(), format!("{}x{} len {} data {:?}", m.nrows, m.ncols, m.data.v.len(), &m.data.v[..m.data.v.len().min(16)]),
                     format!("{:?} data {:?}", shape(&md), &flat(&md)[..flat(&md).len().min(16)]));
                return;
            }
            if out.len() > 0 { return; }
            if shape(&md).0 * shape(&md).1 > 400 { break; }
        }
    }
    // constructors
    for n in 1..=8usize {
        let e = Matrix::eye(n);
        for i in 0..n { for j in 0..n { if e[[i, j]] != if i == j { 1. } else { 0. } { fail(out, "Matrix::eye", "C15.eye", format!("n={}", n), format!("[{},{}]={}", i, j, e[[i, j]]), "identity".into()); } } }
        let x = rng.ivec(n, -4, 4);
        let d = compute::linalg::diag_matrix(&x);
        for i in 0..n { for j in 0..n { if d[i * n + j] != if i == j { x[i] } else { 0. } { fail(out, "diag_matrix", "C15.diag_matrix", format!("{:?}", x), format!("[{},{}]={}", i, j, d[i * n + j]), "diagonal".into()); } } }
        let t = compute::linalg::toeplitz(&x);
        for i in 0..n { for j in 0..n { let k = if i > j { i - j } else { j - i }; if t[i * n + j] != x[k] { fail(out, "toeplitz", "C15.toeplitz", format!("{:?}", x), format!("[{},{}]={}", i, j, t[i * n + j]), format!("{}", x[k])); } } }
        let deg = 1 + n % 4;
        let v = compute::linalg::vandermonde(&x, deg);
        for r in 0..n { for p in 0..deg { if v[r * deg + p] != x[r].powi(p as i32) { fail(out, "vandermonde", "C15.vandermonde", format!("x={:?} n={}", x, deg), format!("[{},{}]={}", r, p, v[r * deg + p]), format!("{}", x[r].powi(p as i32))); } } }
        let num = n + 1;
        let l = compute::linalg::linspace(-1.5, 2.5, num);
        if l.v.len() != num || !close(l.v[0], -1.5, 1e-15) || !close(l.v[num - 1], 2.5, 1e-14) { fail(out, "linspace", "C15.linspace", format!("(-1.5, 2.5, {})", num), format!("{:?}", l.v), "num points from -1.5 to 2.5 inclusive".into()); }
    }
    for (a, b, s) in [(0.0, 1.0, 0.25), (0.0, 1.0, 0.3), (1.0, 2.0, 0.5), (0.0, 5.0, 1.0), (2.0, 2.9, 0.3), (0.0, 1.0, 0.4)] {
        let v = compute::linalg::arange(a, b, s);
        let mut want = vec![]; let mut i = 0; while a + (i as f64) * s < b { want.push(a + (i as f64) * s); i += 1; }
        if !same_vec(&v.v, &want) { fail(out, "arange", "C15.arange", format!("({}, {}, {})", a, b, s), format!("{:?}", v.v), format!("{:?}", want)); }
    }
    // predicates / approximate equality never equate opposite signs
    let p = Vector::new(vec![1.0, 2.0]);
    let q = Vector::new(vec![-1.0, -2.0]);
    if p.close_to(&q, 1e-6) { fail(out, "Vector::close_to", "C15.close_to.sign", "[1,2] vs [-1,-2] tol 1e-6".into(), "true".into(), "false".into()); }
    if p == q { fail(out, "Vector::eq", "C15.eq.sign", "[1,2] vs [-1,-2]".into(), "true".into(), "false".into()); }
    let sym = Matrix::new(vec![1., 2., 2., 5.], 2, 2);
    let asym = Matrix::new(vec![1., 2., 3., 5.], 2, 2);
    if !sym.is_symmetric() || asym.is_symmetric() { fail(out, "Matrix::is_symmetric", "C15.pred", "2x2".into(), "wrong".into(), "per definition".into()); }
    let up = Matrix::new(vec![1., 2., 0., 5.], 2, 2);
    if !up.is_upper_triangular() || up.is_lower_triangular() || !up.t().is_lower_triangular() { fail(out, "Matrix::is_upper/lower_triangular", "C15.pred", "[[1,2],[0,5]]".into(), "wrong".into(), "per definition".into()); }
    // is_design: first column equal to one within machine epsilon, for every row; Vector::diff: first differences
    for (rows, cols) in [(1usize, 1usize), (3, 2), (4, 3), (2, 5)] {
        for bad in 0..=rows {
            let mut d: Vec<f64> = (0..rows * cols).map(|k| if k % cols == 0 { 1.0 } else { 0.5 + k as f64 }).collect();
            if bad < rows { d[bad * cols] = 1.0 + 1e-9; }
            let want = bad == rows;
            let got = compute::linalg::is_design(&d, rows);
            if got != want { fail(out, "is_design", "C15.is_design", format!("{}x{} with row {} off by 1e-9 (row {} = none)", rows, cols, bad, rows), format!("{}", got), format!("{}", want)); }
        }
    }
    for n in 1..8usize {
        let a: Vec<f64> = (0..n).map(|k| ((k * k) as f64) - 2.0 * k as f64).collect();
        let want: Vec<f64> = (1..n).map(|k| a[k] - a[k - 1]).collect();
        let got = Vector::new(a.clone()).diff();
        if !same_vec(&got.v, &want) { fail(out, "Vector::diff", "C15.diff", format!("{:?}", a), format!("{:?}", got.v), format!("{:?}", want)); }
    }
    // Matrix::with_capacity: "an empty matrix with a certain capacity" (never a panic; empty and well-formed)
    for (r, c) in [(0usize, 0usize), (0, 3), (2, 3), (1, 1), (5, 4)] {
        match catch(|| Matrix::with_capacity(r, c)) {
            None => fail(out, "Matrix::with_capacity", "C15.with_capacity", format!("({}, {})", r, c), "panic".into(), "empty matrix".into()),
            Some(m) => if m.data.len() != 0 || m.nrows * m.ncols != 0 { fail(out, "Matrix::with_capacity", "C15.with_capacity", format!("({}, {})", r, c), format!("{}x{} with {} elements", m.nrows, m.ncols, m.data.len()), "empty matrix".into()) },
        }
    }
    // is_square answers "the length is a perfect square" for small and for large lengths (beyond the 24-bit mantissa of an f32)
    for len in [0usize, 1, 2, 3, 4, 8, 9, 15, 16, 17, 99, 100, 101, 1 << 20, (1 << 20) + 1, 16777216, 16777217, 16785408, 16785409] {
        let v = vec![0.0f64; len];
        let r = (len as f64).sqrt().round() as usize;
        let want: Option<usize> = if r * r == len { Some(r) } else { None };
        let got = compute::linalg::is_square(&v).ok();
        if got != want { fail(out, "is_square", "C15.is_square", format!("slice of length {}", len), format!("{:?}", got), format!("{:?}", want)); }
    }
    // rotations: cw == ccw^T, orthogonal, det 1  -- skipped here (angles), data-flow only
    // row/col major round trip
    for (r, c) in [(2usize, 3usize), (3, 2), (1, 4), (4, 1), (3, 3)] {
        let d: Vec<f64> = (0..r * c).map(|k| k as f64).collect();
        let cm = compute::linalg::row_to_col_major(&d, r);
        for i in 0..r { for j in 0..c { if cm[j * r + i] != d[i * c + j] { fail(out, "row_to_col_major", "C15.layout", format!("{}x{}", r, c), format!("{:?}", cm.v), "column-major".into()); } } }
        let back = compute::linalg::col_to_row_major(&cm, r);
        if !same_vec(&back, &d) { fail(out, "col_to_row_major", "C15.layout.roundtrip", format!("{}x{}", r, c), format!("{:?}", back), format!("{:?}", d)); }
        let tt = compute::linalg::transpose(&d, r);
        for i in 0..r { for j in 0..c { if tt[j * r + i] != d[i * c + j] { fail(out, "transpose", "C15.transpose", format!("{}x{}", r, c), format!("{:?}", tt), "transpose".into()); } } }
    }
}
