//! C12: broadcast arithmetic follows NumPy semantics.
use crate::*;
use compute::prelude::*;

fn compat(a: usize, b: usize) -> bool { a == b || a == 1 || b == 1 }

pub fn run(rng: &mut Rng, out: &mut Fails) {
    for r1 in 1..=5usize { for c1 in 1..=5usize { for r2 in 1..=5usize { for c2 in 1..=5usize {
        let mut cnt = 0.0;
        let a: Vec<f64> = (0..r1 * c1).map(|_| { cnt += 1.0; cnt }).collect();
        let b: Vec<f64> = (0..r2 * c2).map(|_| { cnt += 1.5; cnt }).collect();
        let m1 = Matrix::new(a.clone(), r1 as i32, c1 as i32);
        let m2 = Matrix::new(b.clone(), r2 as i32, c2 as i32);
        let ok = compat(r1, r2) && compat(c1, c2);
        let (rr, cc) = (r1.max(r2), c1.max(c2));
        for op in 0..4 {
            let opn = ["+", "-", "*", "/"][op];
            let f = |x: f64, y: f64| match op { 0 => x + y, 1 => x - y, 2 => x * y, _ => x / y };
            let inp = format!("{}x{} {} {}x{}", r1, c1, opn, r2, c2);
            let g = catch(|| match op { 0 => &m1 + &m2, 1 => &m1 - &m2, 2 => &m1 * &m2, _ => &m1 / &m2 });
            let fname = format!("Matrix {} Matrix", opn);
            match (ok, g) {
                (false, Some(g)) => fail(out, &fname, "C12.valid", inp.clone(), format!("returned {}x{}", g.nrows, g.ncols), "panic (incompatible shapes)".into()),
                (true, None) => fail(out, &fname, "C12.no_valid_input_rejected", inp.clone(), "panic".into(), format!("{}x{} result", rr, cc)),
                (true, Some(g)) => {
                    if g.nrows != rr || g.ncols != cc || g.data.v.len() != rr * cc { fail(out, &fname, "C12.shape", inp.clone(), format!("{}x{}", g.nrows, g.ncols), format!("{}x{}", rr, cc)); continue; }
                    for i in 0..rr { for j in 0..cc {
                        let x = a[(if r1 == 1 { 0 } else { i }) * c1 + (if c1 == 1 { 0 } else { j })];
                        let y = b[(if r2 == 1 { 0 } else { i }) * c2 + (if c2 == 1 { 0 } else { j })];
                        if !same(g.data.v[i * cc + j], f(x, y)) { fail(out, &fname, "C12.entry", format!("{} entry ({},{})", inp, i, j), format!("{}", g.data.v[i * cc + j]), format!("{}", f(x, y))); }
                    } }
                }
                _ => {}
            }
            // other ownership forms agree with the borrowed form
            if ok {
                let g1 = catch(|| match op { 0 => m1.clone() + m2.clone(), 1 => m1.clone() - m2.clone(), 2 => m1.clone() * m2.clone(), _ => m1.clone() / m2.clone() });
                let g0 = catch(|| match op { 0 => &m1 + &m2, 1 => &m1 - &m2, 2 => &m1 * &m2, _ => &m1 / &m2 });
                if let (Some(x), Some(y)) = (g0, g1) { if !same_vec(&x.data.v, &y.data.v) { fail(out, &fname, "C12.forms", inp.clone(), "owned form differs".into(), "same as borrowed".into()); } }
            }
            // Matrix op Vector (vector = single row) and Vector op Matrix
            if r2 == 1 {
                let v = Vector::new(b.clone());
                let gv = catch(|| match op { 0 => &m1 + &v, 1 => &m1 - &v, 2 => &m1 * &v, _ => &m1 / &v });
                let gm = catch(|| match op { 0 => &m1 + &m2, 1 => &m1 - &m2, 2 => &m1 * &m2, _ => &m1 / &m2 });
                match (gv, gm) { (Some(x), Some(y)) => if !same_vec(&x.data.v, &y.data.v) || x.nrows != y.nrows { fail(out, &format!("Matrix {} Vector", opn), "C12.vector_row", inp.clone(), format!("{:?}", x.data.v), format!("{:?}", y.data.v)) },
                    (None, Some(_)) | (Some(_), None) => fail(out, &format!("Matrix {} Vector", opn), "C12.vector_row", inp.clone(), "panic mismatch".into(), "same as 1xn matrix".into()), _ => {} }
            }
            if r1 == 1 {
                let v = Vector::new(a.clone());
                let gv = catch(|| match op { 0 => &v + &m2, 1 => &v - &m2, 2 => &v * &m2, _ => &v / &m2 });
                let gm = catch(|| match op { 0 => &m1 + &m2, 1 => &m1 - &m2, 2 => &m1 * &m2, _ => &m1 / &m2 });
                match (gv, gm) { (Some(x), Some(y)) => if !same_vec(&x.data.v, &y.data.v) || x.nrows != y.nrows { fail(out, &format!("Vector {} Matrix", opn), "C12.vector_row", inp.clone(), format!("{:?}", x.data.v), format!("{:?}", y.data.v)) },
                    (None, Some(_)) | (Some(_), None) => fail(out, &format!("Vector {} Matrix", opn), "C12.vector_row", inp.clone(), "panic mismatch".into(), "same as 1xn matrix".into()), _ => {} }
            }
        }
        if out.len() > 5 { return; }
    } } } }
}
