//! C04: element-wise arithmetic and maps are exact at every length and operand form.
use crate::*;
use compute::prelude::*;

fn pool(rng: &mut Rng, n: usize, special: bool) -> Vec<f64> {
    let sp = [0.0, -0.0, 1.0, -1.0, f64::INFINITY, f64::NEG_INFINITY, f64::NAN, 5e-324, -2.5, 1e300, 3.0, 0.5];
    (0..n).map(|i| if special && rng.below(4) == 0 { sp[rng.below(sp.len())] } else { (rng.int(-9, 9) + 0.25 * (i % 4) as f64) }).collect()
}

fn chk(out: &mut Fails, f: &str, clause: &str, got: &[f64], want: &[f64], input: String) {
    if !same_vec(got, want) {
        let k = got.iter().zip(want).position(|(a, b)| !same(*a, *b));
        fail(out, f, clause, input, format!("len {} first diff at {:?}: {:?}", got.len(), k, k.map(|k| got[k])),
             format!("len {} {:?}", want.len(), k.map(|k| want[k])));
    }
}

pub fn run(rng: &mut Rng, out: &mut Fails) {
    let mut lens: Vec<usize> = (0..=40).collect();
    lens.extend([63, 64, 65, 100, 257].iter());
    for &n in &lens {
        for special in [false, true] {
            let a = pool(rng, n, special);
            let b = pool(rng, n, special);
            let s = if special { -0.0 } else { 2.5 };
            let va = Vector::new(a.clone());
            let vb = Vector::new(b.clone());
            let inp = format!("n={} a={:?} b={:?} s={}", n, &a[..n.min(12)], &b[..n.min(12)], s);
            macro_rules! binop { ($op:tt, $name:expr) => {{
                let want: Vec<f64> = a.iter().zip(&b).map(|(x, y)| x $op y).collect();
                let f = concat!("Vector ", $name, " Vector");
                chk(out, f, "C04.elem", &(&va $op &vb).v, &want, inp.clone());
                chk(out, f, "C04.elem", &(va.clone() $op vb.clone()).v, &want, inp.clone());
                chk(out, f, "C04.elem", &(va.clone() $op &vb).v, &want, inp.clone());
                chk(out, f, "C04.elem", &(&va $op vb.clone()).v, &want, inp.clone());
                let ws: Vec<f64> = a.iter().map(|x| x $op s).collect();
                chk(out, concat!("Vector ", $name, " f64"), "C04.elem", &(&va $op s).v, &ws, inp.clone());
                chk(out, concat!("Vector ", $name, " f64"), "C04.elem", &(va.clone() $op s).v, &ws, inp.clone());
                let sw: Vec<f64> = a.iter().map(|x| s $op x).collect();
                chk(out, concat!("f64 ", $name, " Vector"), "C04.elem", &(s $op &va).v, &sw, inp.clone());
                chk(out, concat!("f64 ", $name, " Vector"), "C04.elem", &(s $op va.clone()).v, &sw, inp.clone());
                if !same_vec(&va.v, &a) || !same_vec(&vb.v, &b) { fail(out, f, "C04.operands_unchanged", inp.clone(), "operand modified".into(), "unchanged".into()); }
            }}}
            binop!(+, "+"); binop!(-, "-"); binop!(*, "*"); binop!(/, "/");
            macro_rules! asg { ($op:tt, $bop:tt, $name:expr) => {{
                let want: Vec<f64> = a.iter().zip(&b).map(|(x, y)| x $bop y).collect();
                let mut t = va.clone(); t $op &vb; chk(out, concat!("Vector ", $name, " &Vector"), "C04.elem", &t.v, &want, inp.clone());
                let mut t = va.clone(); t $op vb.clone(); chk(out, concat!("Vector ", $name, " Vector"), "C04.elem", &t.v, &want, inp.clone());
                let ws: Vec<f64> = a.iter().map(|x| x $bop s).collect();
                let mut t = va.clone(); t $op s; chk(out, concat!("Vector ", $name, " f64"), "C04.elem", &t.v, &ws, inp.clone());
            }}}
            asg!(+=, +, "+="); asg!(-=, -, "-="); asg!(*=, *, "*="); asg!(/=, /, "/=");
            let neg: Vec<f64> = a.iter().map(|x| -x).collect();
            chk(out, "Neg for Vector", "C04.neg", &(-va.clone()).v, &neg, inp.clone());
            macro_rules! un { ($($m:ident),*) => { $( {
                let want: Vec<f64> = a.iter().map(|x| x.$m()).collect();
                chk(out, concat!("Vector::", stringify!($m)), "C04.elem", &va.$m().v, &want, inp.clone());
            } )* } }
            un!(ln, ln_1p, log10, log2, exp, exp2, exp_m1, sin, cos, tan, sinh, cosh, tanh, asin, acos, atan, asinh, acosh, atanh, sqrt,
                cbrt, abs, floor, ceil, to_radians, to_degrees, recip, round, signum);
            for e in [2, 3, 5, 0, -1] {
                let want: Vec<f64> = a.iter().map(|x| x.powi(e)).collect();
                chk(out, "Vector::powi", "C04.elem", &va.powi(e).v, &want, format!("{} exponent={}", inp, e));
            }
            let want: Vec<f64> = a.iter().map(|x| f64::powf(*x, 1.5)).collect();
            chk(out, "Vector::powf", "C04.elem", &va.powf(1.5).v, &want, inp.clone());
            // matrices over the same data
            let mut shapes = vec![];
            for r in 1..=n.max(1) { if n % r == 0 && (r <= 4 || r == n) { shapes.push((r, n / r)); } }
            if n == 0 { shapes.clear(); }
            for (r, c) in shapes {
                let ma = Matrix::new(a.clone(), r as i32, c as i32);
                let mb = Matrix::new(b.clone(), r as i32, c as i32);
                let minp = format!("shape {}x{} {}", r, c, inp);
                macro_rules! mop { ($op:tt, $name:expr) => {{
                    let want: Vec<f64> = a.iter().zip(&b).map(|(x, y)| x $op y).collect();
                    let res = &ma $op &mb;
                    chk(out, concat!("Matrix ", $name, " Matrix"), "C04.elem", &res.data.v, &want, minp.clone());
                    if res.nrows != r || res.ncols != c { fail(out, concat!("Matrix ", $name, " Matrix"), "C04.shape", minp.clone(), format!("{}x{}", res.nrows, res.ncols), format!("{}x{}", r, c)); }
                    let ws: Vec<f64> = a.iter().map(|x| x $op s).collect();
                    let res = &ma $op s;
                    chk(out, concat!("Matrix ", $name, " f64"), "C04.elem", &res.data.v, &ws, minp.clone());
                    if res.nrows != r || res.ncols != c { fail(out, concat!("Matrix ", $name, " f64"), "C04.shape", minp.clone(), format!("{}x{}", res.nrows, res.ncols), format!("{}x{}", r, c)); }
                    chk(out, concat!("Matrix ", $name, " f64"), "C04.elem", &(ma.clone() $op s).data.v, &ws, minp.clone());
                    let sw: Vec<f64> = a.iter().map(|x| s $op x).collect();
                    chk(out, concat!("f64 ", $name, " Matrix"), "C04.elem", &(s $op &ma).data.v, &sw, minp.clone());
                    chk(out, concat!("f64 ", $name, " Matrix"), "C04.elem", &(s $op ma.clone()).data.v, &sw, minp.clone());
                }}}
                mop!(+, "+"); mop!(-, "-"); mop!(*, "*"); mop!(/, "/");
                macro_rules! masg { ($op:tt, $bop:tt, $name:expr) => {{
                    let want: Vec<f64> = a.iter().zip(&b).map(|(x, y)| x $bop y).collect();
                    let mut t = ma.clone(); t $op &mb; chk(out, concat!("Matrix ", $name, " &Matrix"), "C04.elem", &t.data.v, &want, minp.clone());
                    let mut t = ma.clone(); t $op mb.clone(); chk(out, concat!("Matrix ", $name, " Matrix"), "C04.elem", &t.data.v, &want, minp.clone());
                    let ws: Vec<f64> = a.iter().map(|x| x $bop s).collect();
                    let mut t = ma.clone(); t $op s; chk(out, concat!("Matrix ", $name, " f64"), "C04.elem", &t.data.v, &ws, minp.clone());
                }}}
                masg!(+=, +, "+="); masg!(-=, -, "-="); masg!(*=, *, "*="); masg!(/=, /, "/=");
                let res = -ma.clone();
                chk(out, "Neg for Matrix", "C04.neg", &res.data.v, &neg, minp.clone());
                let want: Vec<f64> = a.iter().map(|x| x.exp()).collect();
                chk(out, "Matrix::exp", "C04.elem", &ma.exp().data.v, &want, minp.clone());
                let want: Vec<f64> = a.iter().map(|x| x.powi(3)).collect();
                chk(out, "Matrix::powi", "C04.elem", &ma.powi(3).data.v, &want, minp.clone());
                let want: Vec<f64> = a.iter().map(|x| x.abs()).collect();
                chk(out, "Matrix::abs", "C04.elem", &ma.abs().data.v, &want, minp.clone());
            }
        }
    }
    // empty matrix
    if catch(|| Matrix::empty() + 1.0).is_none() { fail(out, "Matrix + f64", "C04.empty", "Matrix::empty() + 1.0".into(), "panic".into(), "empty matrix".into()); }
    // mismatches are rejected
    for n in [0usize, 1, 7, 8, 9] {
        let va = Vector::new(vec![1.0; n]);
        let vb = Vector::new(vec![1.0; n + 1]);
        if catch(|| &va + &vb).is_some() { fail(out, "Vector + Vector", "C04.valid", format!("lengths {} and {}", n, n + 1), "returned a value".into(), "panic".into()); }
        if catch(|| { let mut t = va.clone(); t -= &vb; t }).is_some() { fail(out, "Vector -= &Vector", "C04.valid", format!("lengths {} and {}", n, n + 1), "returned".into(), "panic".into()); }
    }
    let ma = Matrix::new(vec![1.0; 6], 2, 3);
    let mb = Matrix::new(vec![1.0; 6], 3, 2);
    if catch(|| { let mut t = ma.clone(); t += &mb; t }).is_some() { fail(out, "Matrix += &Matrix", "C04.valid", "2x3 += 3x2".into(), "returned".into(), "panic".into()); }
    // reductions against their definitions (exact on small integers)
    for n in 0..=20usize {
        let a = rng.ivec(n, -5, 5);
        let v = Vector::new(a.clone());
        let s: f64 = a.iter().sum();
        if n > 0 && v.sum() != s { fail(out, "sum", "C04.sum", format!("{:?}", a), format!("{}", v.sum()), format!("{}", s)); }
        let d: f64 = a.iter().map(|x| x * x).sum();
        if n > 0 && !close(v.norm(), d.sqrt(), 1e-14) { fail(out, "norm", "C04.norm", format!("{:?}", a), format!("{}", v.norm()), format!("{}", d.sqrt())); }
        let b = rng.ivec(n, -5, 5);
        let dd: f64 = a.iter().zip(&b).map(|(x, y)| x * y).sum();
        if n > 0 && compute::linalg::dot(&a, &b) != dd { fail(out, "dot", "C04.dot", format!("{:?} {:?}", a, b), format!("{}", compute::linalg::dot(&a, &b)), format!("{}", dd)); }
    }
    // log-domain reductions: definition ln(sum exp x) resp. ln(mean exp x), no overflow for large magnitudes or large spread
    let lse_cases: Vec<Vec<f64>> = vec![vec![0.0, 0.0], vec![-1000.0, -1.0, 0.0], vec![1000.0, 1000.0], vec![-1000.0, -1000.0, -1000.0], vec![800.0, -800.0],
                                        vec![1.0, 2.0, 3.0], vec![-745.0, 0.0, 709.0], vec![5.0]];
    for a in lse_cases {
        let m = a.iter().cloned().fold(f64::NEG_INFINITY, f64::max);
        let s: f64 = a.iter().map(|x| (x - m).exp()).sum();
        let want = m + s.ln();
        let got = compute::linalg::logsumexp(&a);
        if !close(got, want, 1e-12) { fail(out, "logsumexp", "C04.logsumexp", format!("{:?}", a), format!("{}", got), format!("{}", want)); }
        let got = Vector::new(a.clone()).logsumexp();
        if !close(got, want, 1e-12) { fail(out, "Vector::logsumexp", "C04.logsumexp", format!("{:?}", a), format!("{}", got), format!("{}", want)); }
        let wantm = m + (s / a.len() as f64).ln();
        let got = compute::linalg::logmeanexp(&a);
        if !close(got, wantm, 1e-12) { fail(out, "logmeanexp", "C04.logmeanexp", format!("{:?}", a), format!("{}", got), format!("{}", wantm)); }
    }
    // product
    for n in 1..=12usize {
        let a = rng.ivec(n, -3, 3);
        let p: f64 = a.iter().product();
        let got = Vector::new(a.clone()).prod();
        if got != p { fail(out, "prod", "C04.prod", format!("{:?}", a), format!("{}", got), format!("{}", p)); }
    }
}
