//! C02: densities / masses are proper and match the stated mean and variance;
//! C18: distribution objects are a pure function of their current parameters and the RNG seed.
use crate::*;
use compute::distributions::*;
use compute::prelude::*;

/// ln Gamma(x), x > 0 (recurrence + Stirling series; ~1e-13 relative)
fn lgamma(mut x: f64) -> f64 {
    let mut acc = 0.0;
    while x < 15.0 { acc -= x.ln(); x += 1.0; }
    let z = 1.0 / (x * x);
    acc + (x - 0.5) * x.ln() - x + 0.5 * (2.0 * std::f64::consts::PI).ln()
        + (1.0 / 12.0 - z * (1.0 / 360.0 - z * (1.0 / 1260.0 - z * (1.0 / 1680.0 - z / 1188.0)))) / x
}
fn gam(x: f64) -> f64 { lgamma(x).exp() }

fn simpson(f: &dyn Fn(f64) -> f64, a: f64, b: f64, n: usize) -> f64 {
    let h = (b - a) / n as f64;
    let mut s = f(a) + f(b);
    for i in 1..n { s += f(a + i as f64 * h) * if i % 2 == 1 { 4.0 } else { 2.0 }; }
    s * h / 3.0
}

struct Cont { name: &'static str, params: String, pdf: Box<dyn Fn(f64) -> f64>, refpdf: Box<dyn Fn(f64) -> f64>, mean: f64, var: f64, lo: f64, hi: f64, tmean: Option<f64>, tvar: Option<f64>, pts: Vec<f64>, outside: Vec<f64> }

fn check_cont(c: &Cont, out: &mut Fails) {
    let fname = format!("{}::pdf", c.name);
    for &x in &c.pts {
        let g = catch(|| (c.pdf)(x));
        let w = (c.refpdf)(x);
        match g { None => fail(out, &fname, "C02.pdf.no_panic", format!("{} x={}", c.params, x), "panic".into(), format!("{}", w)),
            Some(g) => if !close(g, w, 1e-9) || g < 0. { fail(out, &fname, "C02.pdf.formula", format!("{} x={}", c.params, x), format!("{}", g), format!("{}", w)) } }
    }
    for &x in &c.outside {
        match catch(|| (c.pdf)(x)) { None => fail(out, &fname, "C02.pdf.support", format!("{} x={}", c.params, x), "panic".into(), "0".into()),
            Some(g) => if g != 0. { fail(out, &fname, "C02.pdf.support", format!("{} x={}", c.params, x), format!("{}", g), "0".into()) } }
    }
    if let Some(tm) = c.tmean { if !close(c.mean, tm, 1e-10) { fail(out, &format!("{}::mean", c.name), "C02.mean", c.params.clone(), format!("{}", c.mean), format!("{}", tm)); } }
    if let Some(tv) = c.tvar { if !close(c.var, tv, 1e-10) { fail(out, &format!("{}::var", c.name), "C02.var", c.params.clone(), format!("{}", c.var), format!("{}", tv)); } }
}

pub fn run(rng: &mut Rng, out: &mut Fails) {
    let pi = std::f64::consts::PI;
    // ---------------- continuous laws on parameter grids
    for &(mu, s) in &[(0.0, 1.0), (2.5, 3.0), (-100.0, 0.25)] {
        let d = Normal::new(mu, s);
        let pts: Vec<f64> = (-8..=8).map(|k| mu + s * k as f64 * 0.7).collect();
        check_cont(&Cont { name: "Normal", params: format!("Normal({}, {})", mu, s), pdf: Box::new(move |x| d.pdf(x)),
            refpdf: Box::new(move |x| (-(x - mu) * (x - mu) / (2. * s * s)).exp() / (s * (2. * pi).sqrt())), mean: d.mean(), var: d.var(), lo: mu - 12. * s, hi: mu + 12. * s,
            tmean: Some(mu), tvar: Some(s * s), pts: pts.clone(), outside: vec![] }, out);
        for &x in &pts {
            if !close(d.ln_pdf(x), d.pdf(x).ln(), 1e-9) { fail(out, "Normal::ln_pdf", "C02.ln_pdf", format!("Normal({}, {}) x={}", mu, s, x), format!("{}", d.ln_pdf(x)), format!("{}", d.pdf(x).ln())); }
            let integral = simpson(&|t| d.pdf(t), mu - 12. * s, x, 4000);
            if (d.cdf(x) - integral).abs() > 1e-6 { fail(out, "Normal::cdf", "C02.cdf", format!("Normal({}, {}) x={}", mu, s, x), format!("{}", d.cdf(x)), format!("{}", integral)); }
        }
    }
    for &(a, b) in &[(0.5, 1.0), (1.0, 2.0), (3.0, 0.5), (7.5, 4.0)] {
        let d = Gamma::new(a, b);
        check_cont(&Cont { name: "Gamma", params: format!("Gamma({}, {})", a, b), pdf: Box::new(move |x| d.pdf(x)),
            refpdf: Box::new(move |x| (a * b.ln() - lgamma(a) + (a - 1.) * x.ln() - b * x).exp()), mean: d.mean(), var: d.var(), lo: 0., hi: 0.,
            tmean: Some(a / b), tvar: Some(a / (b * b)), pts: vec![0.1, 0.5, 1.0, 2.5, 7.0, 20.0], outside: vec![-1.0, -0.001, 0.0] }, out);
    }
    for &(a, b) in &[(0.5, 0.5), (1.0, 1.0), (2.0, 5.0), (4.5, 1.5)] {
        let d = Beta::new(a, b);
        check_cont(&Cont { name: "Beta", params: format!("Beta({}, {})", a, b), pdf: Box::new(move |x| d.pdf(x)),
            refpdf: Box::new(move |x| ((a - 1.) * x.ln() + (b - 1.) * (1. - x).ln() - (lgamma(a) + lgamma(b) - lgamma(a + b))).exp()), mean: d.mean(), var: d.var(), lo: 0., hi: 1.,
            tmean: Some(a / (a + b)), tvar: Some(a * b / ((a + b) * (a + b) * (a + b + 1.))), pts: vec![0.05, 0.3, 0.5, 0.9], outside: vec![-0.5, 1.5, -1e-9] }, out);
    }
    for &k in &[1usize, 2, 3, 10, 50] {
        let d = ChiSquared::new(k);
        let h = k as f64 / 2.;
        check_cont(&Cont { name: "ChiSquared", params: format!("ChiSquared({})", k), pdf: Box::new(move |x| d.pdf(x)),
            refpdf: Box::new(move |x| (-(h * 2f64.ln()) - lgamma(h) + (h - 1.) * x.ln() - x / 2.).exp()), mean: d.mean(), var: d.var(), lo: 0., hi: 0.,
            tmean: Some(k as f64), tvar: Some(2. * k as f64), pts: vec![0.1, 1.0, 3.0, 12.0, 60.0], outside: vec![-1.0, -0.01] }, out);
        if k == 2 { let v = d.pdf(0.); if !close(v, 0.5, 1e-12) { fail(out, "ChiSquared::pdf", "C02.pdf.boundary", "ChiSquared(2) x=0".into(), format!("{}", v), "0.5".into()); } }
    }
    for &nu in &[1.0, 2.5, 5.0, 30.0] {
        let d = T::new(nu);
        check_cont(&Cont { name: "T", params: format!("T({})", nu), pdf: Box::new(move |x| d.pdf(x)),
            refpdf: Box::new(move |x| (lgamma((nu + 1.) / 2.) - lgamma(nu / 2.) - 0.5 * (nu * pi).ln() - (nu + 1.) / 2. * (1. + x * x / nu).ln()).exp()), mean: d.mean(), var: d.var(), lo: 0., hi: 0.,
            tmean: if nu > 1. { Some(0.) } else { None }, tvar: if nu > 2. { Some(nu / (nu - 2.)) } else { None }, pts: vec![-4.0, -1.0, 0.0, 0.5, 3.0], outside: vec![] }, out);
    }
    for &(a, m) in &[(0.5, 1.0), (1.5, 2.0), (3.0, 1.0), (5.0, 0.5)] {
        let d = Pareto::new(a, m);
        check_cont(&Cont { name: "Pareto", params: format!("Pareto({}, {})", a, m), pdf: Box::new(move |x| d.pdf(x)),
            refpdf: Box::new(move |x| a * m.powf(a) / x.powf(a + 1.)), mean: d.mean(), var: d.var(), lo: 0., hi: 0.,
            tmean: if a > 1. { Some(a * m / (a - 1.)) } else { None }, tvar: if a > 2. { Some(m * m * a / ((a - 1.) * (a - 1.) * (a - 2.))) } else { None },
            pts: vec![m, m * 1.5, m * 4., m * 50.], outside: vec![m * 0.5, 0.0, -1.0] }, out);
    }
    for &(mu, b) in &[(0.0, 1.0), (3.0, 2.5), (-2.0, 0.3)] {
        let d = Gumbel::new(mu, b);
        check_cont(&Cont { name: "Gumbel", params: format!("Gumbel({}, {})", mu, b), pdf: Box::new(move |x| d.pdf(x)),
            refpdf: Box::new(move |x| { let z = (x - mu) / b; (-(z + (-z).exp())).exp() / b }), mean: d.mean(), var: d.var(), lo: 0., hi: 0.,
            tmean: Some(mu + b * 0.5772156649015329), tvar: Some(pi * pi / 6. * b * b), pts: vec![mu - 2. * b, mu, mu + b, mu + 5. * b], outside: vec![] }, out);
    }
    for &l in &[0.001, 0.5, 1.0, 30.0] {
        let d = Exponential::new(l);
        check_cont(&Cont { name: "Exponential", params: format!("Exponential({})", l), pdf: Box::new(move |x| d.pdf(x)),
            refpdf: Box::new(move |x| l * (-l * x).exp()), mean: d.mean(), var: d.var(), lo: 0., hi: 0.,
            tmean: Some(1. / l), tvar: Some(1. / (l * l)), pts: vec![0.0, 0.1 / l, 1. / l, 5. / l], outside: vec![-1e-9, -3.0] }, out);
    }
    for &(a, b) in &[(0.0, 1.0), (-3.0, 5.0), (2.0, 2.5)] {
        let d = Uniform::new(a, b);
        check_cont(&Cont { name: "Uniform", params: format!("Uniform({}, {})", a, b), pdf: Box::new(move |x| d.pdf(x)),
            refpdf: Box::new(move |_x| 1. / (b - a)), mean: d.mean(), var: d.var(), lo: a, hi: b,
            tmean: Some((a + b) / 2.), tvar: Some((b - a) * (b - a) / 12.), pts: vec![a, (a + b) / 2., b], outside: vec![a - 0.1, b + 0.1] }, out);
    }
    // ---------------- discrete laws: pmf vs formula, support, total mass, moments of the pmf
    for &p in &[0.0, 0.3, 1.0] {
        let d = Bernoulli::new(p);
        for k in -2..=3i64 { let w = if k == 0 { 1. - p } else if k == 1 { p } else { 0. };
            match catch(|| d.pmf(k)) { None => fail(out, "Bernoulli::pmf", "C02.pmf.support", format!("p={} k={}", p, k), "panic".into(), format!("{}", w)), Some(g) => if !close(g, w, 1e-15) { fail(out, "Bernoulli::pmf", "C02.pmf.formula", format!("p={} k={}", p, k), format!("{}", g), format!("{}", w)) } } }
        if !close(d.mean(), p, 1e-15) || !close(d.var(), p * (1. - p), 1e-15) { fail(out, "Bernoulli::mean/var", "C02.moments", format!("p={}", p), format!("{} {}", d.mean(), d.var()), format!("{} {}", p, p * (1. - p))); }
    }
    for &(a, b) in &[(0i64, 1i64), (-3, 4), (5, 5), (2, 11)] {
        let d = DiscreteUniform::new(a, b);
        let n = (b - a + 1) as f64;
        for k in (a - 2)..=(b + 2) { let w = if k >= a && k <= b { 1. / n } else { 0. };
            match catch(|| d.pmf(k)) { None => fail(out, "DiscreteUniform::pmf", "C02.pmf.support", format!("({},{}) k={}", a, b, k), "panic".into(), format!("{}", w)), Some(g) => if !close(g, w, 1e-14) { fail(out, "DiscreteUniform::pmf", "C02.pmf.formula", format!("({},{}) k={}", a, b, k), format!("{}", g), format!("{}", w)) } } }
        if !close(d.mean(), (a + b) as f64 / 2., 1e-14) { fail(out, "DiscreteUniform::mean", "C02.mean", format!("({},{})", a, b), format!("{}", d.mean()), format!("{}", (a + b) as f64 / 2.)); }
        if !close(d.var(), (n * n - 1.) / 12., 1e-14) { fail(out, "DiscreteUniform::var", "C02.var", format!("({},{})", a, b), format!("{}", d.var()), format!("{}", (n * n - 1.) / 12.)); }
    }
    for &l in &[0.5, 2.0, 9.5, 40.0] {
        let d = Poisson::new(l);
        let mut tot = 0.; let mut m1 = 0.; let mut m2 = 0.;
        for k in -2..150i64 {
            let w = if k < 0 { 0. } else { (k as f64 * l.ln() - l - lgamma(k as f64 + 1.)).exp() };
            match catch(|| d.pmf(k)) { None => fail(out, "Poisson::pmf", "C02.pmf.support", format!("lambda={} k={}", l, k), "panic".into(), format!("{}", w)),
                Some(g) => { if !close(g, w, 1e-8) && (g - w).abs() > 1e-14 { fail(out, "Poisson::pmf", "C02.pmf.formula", format!("lambda={} k={}", l, k), format!("{}", g), format!("{}", w)); } tot += g; m1 += g * k as f64; m2 += g * (k * k) as f64; } }
        }
        if !close(tot, 1., 1e-8) { fail(out, "Poisson::pmf", "C02.mass", format!("lambda={}", l), format!("{}", tot), "1".into()); }
        if !close(d.mean(), m1, 1e-7) || !close(d.var(), m2 - m1 * m1, 1e-6) { fail(out, "Poisson::mean/var", "C02.moments", format!("lambda={}", l), format!("{} {}", d.mean(), d.var()), format!("{} {}", m1, m2 - m1 * m1)); }
    }
    for &(n, p) in &[(1u64, 0.5), (10, 0.3), (40, 0.9), (25, 0.0), (7, 1.0)] {
        let d = Binomial::new(n, p);
        let mut tot = 0.; let mut m1 = 0.; let mut m2 = 0.;
        for k in -2..=(n as i64 + 2) {
            let w = if k < 0 || k > n as i64 { 0. } else { let kf = k as f64; let nf = n as f64;
                let lc = lgamma(nf + 1.) - lgamma(kf + 1.) - lgamma(nf - kf + 1.);
                lc.exp() * p.powi(k as i32) * (1. - p).powi((n as i64 - k) as i32) };
            match catch(|| d.pmf(k)) { None => fail(out, "Binomial::pmf", "C02.pmf.support", format!("n={} p={} k={}", n, p, k), "panic".into(), format!("{}", w)),
                Some(g) => { if !close(g, w, 1e-9) { fail(out, "Binomial::pmf", "C02.pmf.formula", format!("n={} p={} k={}", n, p, k), format!("{}", g), format!("{}", w)); } tot += g; m1 += g * k as f64; m2 += g * (k * k) as f64; } }
        }
        if !close(tot, 1., 1e-9) { fail(out, "Binomial::pmf", "C02.mass", format!("n={} p={}", n, p), format!("{}", tot), "1".into()); }
        if !close(d.mean(), n as f64 * p, 1e-12) || !close(d.var(), n as f64 * p * (1. - p), 1e-12) { fail(out, "Binomial::mean/var", "C02.moments", format!("n={} p={}", n, p), format!("{} {}", d.mean(), d.var()), format!("{} {}", n as f64 * p, n as f64 * p * (1. - p))); }
    }
    // ---------------- multivariate normal with a diagonal covariance = product of univariate normals
    for k in 1..=5usize {
        let mean: Vec<f64> = (0..k).map(|i| i as f64 - 1.).collect();
        let sd: Vec<f64> = (0..k).map(|i| 0.5 + 0.4 * i as f64).collect();
        let mut cov = vec![0.; k * k]; for i in 0..k { cov[i * k + i] = sd[i] * sd[i]; }
        let r = catch(|| { let d = MVN::new(mean.clone(), Matrix::new(cov.clone(), k as i32, k as i32)); let x: Vec<f64> = (0..k).map(|i| mean[i] + 0.3 * (i as f64 + 1.)).collect(); ((&d).pdf(&x), (&d).ln_pdf(&x), x) });
        if let Some((p, lp, x)) = r {
            let mut w = 1.; for i in 0..k { w *= (-(x[i] - mean[i]) * (x[i] - mean[i]) / (2. * sd[i] * sd[i])).exp() / (sd[i] * (2. * pi).sqrt()); }
            if !close(p, w, 1e-9) { fail(out, "MVN::pdf", "C02.mvn.pdf", format!("dimension {} diagonal covariance", k), format!("{}", p), format!("{}", w)); }
            if !close(lp, w.ln(), 1e-9) { fail(out, "MVN::ln_pdf", "C02.mvn.ln_pdf", format!("dimension {}", k), format!("{}", lp), format!("{}", w.ln())); }
        }
    }
    // ---------------- C18: histories of setters / updates against a freshly constructed twin
    c18(rng, out);
}

fn stream<D: Distribution<Output = f64>>(d: &D, seed: u64) -> Vec<f64> { alea::set_seed(seed); (0..12).map(|_| d.sample()).collect() }

macro_rules! twin_check {
    ($out:expr, $name:expr, $hist:expr, $obj:expr, $fresh:expr, $pts:expr, $dens:ident) => {{
        let a = &$obj; let b = &$fresh;
        for &x in $pts.iter() {
            let (u, v) = (a.$dens(x), b.$dens(x));
            if !same(u, v) { fail($out, $name, "C18.fresh.density", $hist.clone(), format!("{} at {:?}", u, x), format!("{}", v)); }
        }
        if !same(a.mean(), b.mean()) || !same(a.var(), b.var()) { fail($out, $name, "C18.fresh.moments", $hist.clone(), format!("{} {}", a.mean(), a.var()), format!("{} {}", b.mean(), b.var())); }
        let sa = catch(|| stream(a, 77)); let sb = catch(|| stream(b, 77));
        match (sa, sb) { (Some(x), Some(y)) => if !same_vec(&x, &y) { fail($out, $name, "C18.fresh.stream", $hist.clone(), format!("{:?}", &x[..4]), format!("{:?}", &y[..4])) },
            (None, Some(_)) | (Some(_), None) => fail($out, $name, "C18.fresh.stream", $hist.clone(), "panic mismatch".into(), "same stream".into()), _ => {} }
    }};
}

fn c18(rng: &mut Rng, out: &mut Fails) {
    let pts = [-1.5, 0.0, 0.4, 1.0, 2.5, 7.0];
    let ipts = [-1i64, 0, 1, 2, 5, 9];
    for hist in 0..40 {
        let h = format!("history #{}", hist);
        // Normal
        { let (m1, s1, m2, s2) = (rng.range(-3., 3.), rng.range(0.1, 3.), rng.range(-30., 30.), rng.range(0.1, 9.));
          let mut d = Normal::new(m1, s1); d.set_mu(m2); d.set_sigma(s2);
          twin_check!(out, "Normal::set_mu/set_sigma", format!("{} Normal({},{}).set_mu({}).set_sigma({})", h, m1, s1, m2, s2), d, Normal::new(m2, s2), pts, pdf);
          let mut e = Normal::new(m1, s1); e.update(&[m2, s2]);
          twin_check!(out, "Normal::update", format!("{} Normal({},{}).update([{},{}])", h, m1, s1, m2, s2), e, Normal::new(m2, s2), pts, pdf);
          let mut f = Normal::new(m1, s1); if catch(|| { f.set_sigma(-1.0); }).is_some() { fail(out, "Normal::set_sigma", "C18.valid", "set_sigma(-1)".into(), "accepted".into(), "panic".into()); }
          twin_check!(out, "Normal::set_sigma", format!("{} after rejected set_sigma(-1)", h), f, Normal::new(m1, s1), pts, pdf); }
        // Uniform: new bounds on either side of the old interval
        { let (a1, w1) = (rng.range(-5., 5.), rng.range(0.1, 3.)); let (a2, w2) = (a1 + rng.range(-20., 20.), rng.range(0.1, 3.));
          let mut d = Uniform::new(a1, a1 + w1);
          match catch(|| { d.update(&[a2, a2 + w2]); }) { None => fail(out, "Uniform::update", "C18.no_valid_input_rejected", format!("{} Uniform({},{}).update([{},{}])", h, a1, a1 + w1, a2, a2 + w2), "panic".into(), "accepted".into()),
              Some(_) => twin_check!(out, "Uniform::update", format!("{} Uniform({},{}).update([{},{}])", h, a1, a1 + w1, a2, a2 + w2), d, Uniform::new(a2, a2 + w2), pts, pdf) }
          let mut e = Uniform::new(a1, a1 + w1); if catch(|| { e.update(&[3.0, 1.0]); }).is_some() { fail(out, "Uniform::update", "C18.valid", "update([3,1])".into(), "accepted".into(), "panic".into()); }
          let mut f = Uniform::new(0., 1.); f.set_upper(5.); f.set_lower(2.);
          twin_check!(out, "Uniform::set_lower/set_upper", format!("{} Uniform(0,1).set_upper(5).set_lower(2)", h), f, Uniform::new(2., 5.), pts, pdf); }
        // Gamma / Beta / ChiSquared (cached samplers)
        { let (a1, b1, a2, b2) = (rng.range(0.6, 5.), rng.range(0.6, 4.), rng.range(0.6, 9.), rng.range(0.6, 4.));
          let mut d = Gamma::new(a1, b1); d.set_alpha(a2); d.set_beta(b2);
          twin_check!(out, "Gamma::set_alpha/set_beta", format!("{} Gamma({},{}) -> ({},{})", h, a1, b1, a2, b2), d, Gamma::new(a2, b2), pts, pdf);
          let mut e = Gamma::new(a1, b1); e.update(&[a2, b2]);
          twin_check!(out, "Gamma::update", format!("{} Gamma({},{}).update([{},{}])", h, a1, b1, a2, b2), e, Gamma::new(a2, b2), pts, pdf);
          let mut g = Beta::new(a1, b1); g.set_alpha(a2); g.set_beta(b2);
          twin_check!(out, "Beta::set_alpha/set_beta", format!("{} Beta({},{}) -> ({},{})", h, a1, b1, a2, b2), g, Beta::new(a2, b2), pts, pdf);
          let mut g2 = Beta::new(a1, b1); g2.update(&[a2, b2]);
          twin_check!(out, "Beta::update", format!("{} Beta({},{}).update([{},{}])", h, a1, b1, a2, b2), g2, Beta::new(a2, b2), pts, pdf);
          let mut g3 = Beta::new(a1, b1); let rej = catch(|| { g3.set_alpha(-1.0); }).is_none() ; if !rej { fail(out, "Beta::set_alpha", "C18.valid", "set_alpha(-1)".into(), "accepted".into(), "panic".into()); }
          twin_check!(out, "Beta::set_alpha", format!("{} Beta({},{}) after rejected set_alpha(-1)", h, a1, b1), g3, Beta::new(a1, b1), pts, pdf);
          let mut g4 = Beta::new(a1, b1); let _ = catch(|| { g4.set_beta(0.0); });
          twin_check!(out, "Beta::set_beta", format!("{} Beta({},{}) after rejected set_beta(0)", h, a1, b1), g4, Beta::new(a1, b1), pts, pdf);
          let (k1, k2) = (1 + rng.below(6), 2 + rng.below(40));
          let mut c = ChiSquared::new(k1); c.set_dof(k2);
          twin_check!(out, "ChiSquared::set_dof", format!("{} ChiSquared({}).set_dof({})", h, k1, k2), c, ChiSquared::new(k2), pts, pdf);
          let mut c2 = ChiSquared::new(k1); c2.update(&[k2 as f64]);
          twin_check!(out, "ChiSquared::update", format!("{} ChiSquared({}).update([{}])", h, k1, k2), c2, ChiSquared::new(k2), pts, pdf); }
        // Exponential / Gumbel / Pareto / T
        { let (l1, l2) = (rng.range(0.1, 5.), rng.range(0.1, 50.));
          let mut d = Exponential::new(l1); d.set_lambda(l2);
          twin_check!(out, "Exponential::set_lambda", format!("{} Exponential({}).set_lambda({})", h, l1, l2), d, Exponential::new(l2), pts, pdf);
          let mut g = Gumbel::new(l1, l2); g.set_mu(-l2); g.set_beta(l1);
          twin_check!(out, "Gumbel::set_mu/set_beta", format!("{} Gumbel", h), g, Gumbel::new(-l2, l1), pts, pdf);
          let mut p = Pareto::new(l1, l2); p.update(&[l2, l1]);
          twin_check!(out, "Pareto::update", format!("{} Pareto({},{}).update([{},{}])", h, l1, l2, l2, l1), p, Pareto::new(l2, l1), pts, pdf);
          let mut t = T::new(l1 + 2.); t.set_dof(l2 + 2.);
          twin_check!(out, "T::set_dof", format!("{} T({}).set_dof({})", h, l1 + 2., l2 + 2.), t, T::new(l2 + 2.), pts, pdf); }
        // discrete
        { let (l1, l2) = (rng.range(0.5, 30.), rng.range(0.5, 30.));
          let mut d = Poisson::new(l1); d.set_lambda(l2);
          twin_check!(out, "Poisson::set_lambda", format!("{} Poisson({}).set_lambda({})", h, l1, l2), d, Poisson::new(l2), ipts, pmf);
          let mut d2 = Poisson::new(l1); d2.update(&[l2]);
          twin_check!(out, "Poisson::update", format!("{} Poisson({}).update([{}])", h, l1, l2), d2, Poisson::new(l2), ipts, pmf);
          let (a1, a2) = (rng.below(5) as i64, 10 + rng.below(5) as i64);
          let mut u = DiscreteUniform::new(a1, a1 + 2);
          match catch(|| { u.update(&[a2 as f64, (a2 + 3) as f64]); }) { None => fail(out, "DiscreteUniform::update", "C18.no_valid_input_rejected", format!("{} DiscreteUniform({},{}).update([{},{}])", h, a1, a1 + 2, a2, a2 + 3), "panic".into(), "accepted".into()),
              Some(_) => twin_check!(out, "DiscreteUniform::update", format!("{} DiscreteUniform update", h), u, DiscreteUniform::new(a2, a2 + 3), ipts, pmf) }
          let (p1, p2) = (rng.unit(), rng.unit());
          let mut b = Bernoulli::new(p1); b.set_p(p2);
          twin_check!(out, "Bernoulli::set_p", format!("{} Bernoulli({}).set_p({})", h, p1, p2), b, Bernoulli::new(p2), ipts, pmf);
          let (n1, n2) = (1 + rng.below(20) as u64, 1 + rng.below(60) as u64);
          let mut bi = Binomial::new(n1, p1); bi.set_n(n2); bi.set_p(p2);
          twin_check!(out, "Binomial::set_n/set_p", format!("{} Binomial({},{}) -> ({},{})", h, n1, p1, n2, p2), bi, Binomial::new(n2, p2), [0i64, 1, 2, 3], pmf); }
        if out.len() > 6 { return; }
    }
}
