use crate::*;
pub fn run(_r: &mut Rng, _o: &mut Fails) {}
