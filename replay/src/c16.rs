//! C16: linear interpolation reproduces knots and honours the out-of-range mode.
use crate::*;
use compute::prelude::*;
use compute::functions::{interp1d_linear, interp1d_linear_unchecked, ExtrapolationMode};

fn mode(k: usize) -> ExtrapolationMode { match k { 0 => ExtrapolationMode::Panic, 1 => ExtrapolationMode::Fill(-111., -222.), _ => ExtrapolationMode::Extrapolate } }

pub fn run(rng: &mut Rng, out: &mut Fails) {
    for case in 0..200 {
        let n = 2 + rng.below(8);
        let mut x = vec![rng.int(-5, 5)];
        for _ in 1..n { let last = *x.last().unwrap(); x.push(last + 0.5 * (1 + rng.below(6)) as f64); }
        let y = rng.ivec(n, -8, 8);
        // targets: knots, midpoints, quarter points, beyond both ends
        let mut tg: Vec<f64> = x.clone();
        for i in 0..n - 1 { tg.push((x[i] + x[i + 1]) / 2.); tg.push(x[i] + (x[i + 1] - x[i]) / 4.); }
        for checked in [false, true] {
            let f = |x: &[f64], y: &[f64], t: &[f64], m| if checked { interp1d_linear(x, y, t, m) } else { interp1d_linear_unchecked(x, y, t, m) };
            let fname = if checked { "interp1d_linear" } else { "interp1d_linear_unchecked" };
            for mk in 0..3 {
                for &t in &tg {
                    let inp = format!("x={:?} y={:?} tgt=[{}] mode={}", x, y, t, ["Panic", "Fill(-111,-222)", "Extrapolate"][mk]);
                    let r = catch(|| f(&x, &y, &[t], mode(mk)));
                    // expected: chord of the bracketing knots (x entries are multiples of 0.5, y integers: exact in f64)
                    let mut m = 0; while m + 2 < n && t >= x[m + 1] { m += 1; }
                    let want = y[m] + (y[m + 1] - y[m]) * ((t - x[m]) / (x[m + 1] - x[m]));
                    match r {
                        None => fail(out, fname, "C16.no_valid_input_rejected", inp, "panic".into(), format!("[{}]", want)),
                        Some(v) => if v.v.len() != 1 || !close(v.v[0], want, 1e-12) { fail(out, fname, "C16.value", inp, format!("{:?}", v.v), format!("[{}]", want)) }
                            else if x.contains(&t) && v.v[0] != want { fail(out, fname, "C16.knot.exact", inp, format!("{:?}", v.v), format!("[{}] exactly", want)) },
                    }
                }
                for &t in &[x[0] - 1.5, x[0] - 0.25, x[n - 1] + 0.25, x[n - 1] + 3.0] {
                    let left = t < x[0];
                    let inp = format!("x={:?} y={:?} tgt=[{}] mode={}", x, y, t, ["Panic", "Fill(-111,-222)", "Extrapolate"][mk]);
                    let r = catch(|| f(&x, &y, &[t], mode(mk)));
                    match mk {
                        0 => if let Some(v) = r { fail(out, fname, "C16.valid", inp, format!("returned {:?}", v.v), "panic".into()) },
                        1 => { let want = if left { -111. } else { -222. }; match r { None => fail(out, fname, "C16.fill", inp, "panic".into(), format!("[{}]", want)), Some(v) => if v.v != vec![want] { fail(out, fname, "C16.fill.side", inp, format!("{:?}", v.v), format!("[{}]", want)) } } }
                        _ => { let m = if left { 0 } else { n - 2 }; let want = y[m] + (y[m + 1] - y[m]) * ((t - x[m]) / (x[m + 1] - x[m]));
                               match r { None => fail(out, fname, "C16.extrap", inp, "panic".into(), format!("[{}]", want)), Some(v) => if v.v.len() != 1 || !close(v.v[0], want, 1e-12) { fail(out, fname, "C16.extrap", inp, format!("{:?}", v.v), format!("[{}]", want)) } } }
                    }
                }
            }
        }
        // the checked variant rejects unsorted abscissae (every position of the inversion) and mismatched lengths
        for k in 0..n - 1 {
            let mut xs = x.clone(); xs.swap(k, k + 1);
            if catch(|| interp1d_linear(&xs, &y, &[x[0]], ExtrapolationMode::Extrapolate)).is_some() { fail(out, "interp1d_linear", "C16.checked.valid", format!("x={:?} (inversion at {})", xs, k), "returned".into(), "panic".into()); }
        }
        if catch(|| interp1d_linear(&x, &y[..n - 1], &[x[0]], ExtrapolationMode::Extrapolate)).is_some() { fail(out, "interp1d_linear", "C16.checked.valid", "len(x) != len(y)".into(), "returned".into(), "panic".into()); }
        if !out.is_empty() { return; }
    }
}
