//! C19: resampling never invents, loses or unpairs data.
use crate::*;
use compute::validation::*;

fn sorted_bits(v: &[f64]) -> Vec<u64> { let mut b: Vec<u64> = v.iter().map(|x| x.to_bits()).collect(); b.sort(); b }

pub fn run(rng: &mut Rng, out: &mut Fails) {
    for case in 0..120 {
        let n = 1 + rng.below(9);
        let data: Vec<f64> = match case % 4 { 0 => (0..n).map(|i| i as f64 + 0.5).collect(), 1 => (0..n).map(|i| (i % 3) as f64).collect(),
            2 => (0..n).map(|i| [0.0, -0.0, f64::NAN, 1.0, f64::INFINITY][i % 5]).collect(), _ => rng.ivec(n, -3, 3) };
        let inp = format!("data={:?}", data);
        match catch(|| jackknife(&data)) {
            None => fail(out, "jackknife", "C19.jackknife.no_panic", inp.clone(), "panic".into(), "n vectors".into()),
            Some(j) => {
                if j.len() != n { fail(out, "jackknife", "C19.jackknife.count", inp.clone(), format!("{}", j.len()), format!("{}", n)); }
                for (i, v) in j.iter().enumerate() {
                    let mut w = data.clone(); w.remove(i);
                    if !same_vec(v, &w) { fail(out, "jackknife", "C19.jackknife.leaveout", format!("{} i={}", inp, i), format!("{:?}", v), format!("{:?}", w)); }
                }
            }
        }
        alea::set_seed(case as u64 + 1);
        match catch(|| shuffle(&data)) {
            None => fail(out, "shuffle", "C19.shuffle.valid", inp.clone(), "panic".into(), "a permutation".into()),
            Some(s) => if sorted_bits(&s) != sorted_bits(&data) { fail(out, "shuffle", "C19.shuffle.multiset", inp.clone(), format!("{:?}", s), "same multiset".into()) },
        }
        let other: Vec<f64> = (0..n).map(|i| 100. + i as f64).collect();
        let keyed: Vec<f64> = (0..n).map(|i| i as f64).collect();
        match catch(|| shuffle_two(&keyed, &other)) {
            None => fail(out, "shuffle_two", "C19.shuffle_two.valid", format!("n={}", n), "panic".into(), "paired permutation".into()),
            Some((a, b)) => {
                let ok = a.len() == n && b.len() == n && a.iter().zip(&b).all(|(x, y)| *y == 100. + *x) && sorted_bits(&a) == sorted_bits(&keyed);
                if !ok { fail(out, "shuffle_two", "C19.shuffle_two.paired", format!("arr1={:?} arr2={:?}", keyed, other), format!("{:?} {:?}", a, b), "one common permutation".into()); }
            }
        }
        // ties, signed zeros and NaN in one array, distinct tags in the other (both role assignments): the tag at a position names the
        // original index, and the partner must be that index's element bit for bit
        let tied: Vec<f64> = (0..n).map(|i| [0.0, -0.0, 1.5, 1.5, f64::NAN, -0.0, 0.0, 2.0][i % 8]).collect();
        for tags_first in [false, true] {
            let r = if tags_first { catch(|| shuffle_two(&other, &tied)).map(|(t, v)| (v, t)) } else { catch(|| shuffle_two(&tied, &other)) };
            match r {
                None => fail(out, "shuffle_two", "C19.shuffle_two.valid", format!("n={} (tied data)", n), "panic".into(), "paired permutation".into()),
                Some((v, t)) => {
                    let mut seen = vec![false; n];
                    let mut ok = v.len() == n && t.len() == n;
                    if ok { for p in 0..n {
                        let i = (t[p] - 100.) as usize;
                        if !(t[p] >= 100.) || i >= n || seen[i] || v[p].to_bits() != tied[i].to_bits() { ok = false; break; }
                        seen[i] = true;
                    } }
                    if !ok { fail(out, "shuffle_two", "C19.shuffle_two.paired", format!("tied={:?} tags={:?} tags_first={}", tied, other, tags_first), format!("{:?} {:?}", v, t), "one common permutation (bitwise)".into()); }
                }
            }
        }
        let nb = 1 + rng.below(5);
        match catch(|| bootstrap(&data, nb)) {
            None => fail(out, "bootstrap", "C19.bootstrap.valid", format!("{} n_bootstrap={}", inp, nb), "panic".into(), "resamples".into()),
            Some(bs) => {
                if bs.len() != nb { fail(out, "bootstrap", "C19.bootstrap.count", inp.clone(), format!("{}", bs.len()), format!("{}", nb)); }
                for r in &bs {
                    if r.len() != n || r.iter().any(|v| !data.iter().any(|d| same(*d, *v))) { fail(out, "bootstrap", "C19.bootstrap.members", inp.clone(), format!("{:?}", r), "original elements, original length".into()); }
                }
            }
        }
        if !out.is_empty() { return; }
    }
    // every position equally likely (coarse frequency test, > 7 sigma)
    for n in [3usize, 5, 8] {
        let data: Vec<f64> = (0..n).map(|i| i as f64).collect();
        alea::set_seed(12345 + n as u64);
        let mut counts = vec![0usize; n];
        let draws = 3000;
        for r in bootstrap(&data, draws) { for v in r { counts[v as usize] += 1; } }
        let tot = (draws * n) as f64; let p = 1. / n as f64; let sd = (tot * p * (1. - p)).sqrt();
        for (i, c) in counts.iter().enumerate() { if (*c as f64 - tot * p).abs() > 8. * sd { fail(out, "bootstrap", "C19.bootstrap.uniform", format!("n={} seed={}", n, 12345 + n), format!("counts {:?}", counts), format!("each about {}", tot * p)); break; } }
    }
}
