//! C05: matrix products follow the definition for every shape and transpose flag.
use crate::*;
use compute::prelude::*;
use compute::linalg::{matmul, matmul_blocked};

fn reference(a: &[f64], b: &[f64], ra: usize, ca: usize, rb: usize, cb: usize, ta: bool, tb: bool) -> Option<(Vec<f64>, usize, usize)> {
    let (m, l) = if ta { (ca, ra) } else { (ra, ca) };
    let (l2, n) = if tb { (cb, rb) } else { (rb, cb) };
    if l != l2 { return None; }
    let ea = |i: usize, k: usize| if ta { a[k * ca + i] } else { a[i * ca + k] };
    let eb = |k: usize, j: usize| if tb { b[j * cb + k] } else { b[k * cb + j] };
    let mut c = vec![0.; m * n];
    for i in 0..m { for j in 0..n { let mut s = 0.; for k in 0..l { s += ea(i, k) * eb(k, j); } c[i * n + j] = s; } }
    Some((c, m, n))
}

pub fn run(rng: &mut Rng, out: &mut Fails) {
    for ra in 1..=5usize { for ca in 1..=5usize { for rb in 1..=5usize { for cb in 1..=5usize {
        let a = rng.ivec(ra * ca, -4, 4);
        let b = rng.ivec(rb * cb, -4, 4);
        for (ta, tb) in [(false, false), (true, false), (false, true), (true, true)] {
            let inp = format!("A {}x{} {:?}, B {}x{} {:?}, transpose_a={} transpose_b={}", ra, ca, a, rb, cb, b, ta, tb);
            let want = reference(&a, &b, ra, ca, rb, cb, ta, tb);
            let got = catch(|| matmul(&a, &b, ra, rb, ta, tb));
            match (&want, &got) {
                (None, Some(g)) => fail(out, "matmul", "C05.matmul.valid", inp.clone(), format!("returned {:?}", g), "panic (non-conformable)".into()),
                (Some((w, _, _)), None) => fail(out, "matmul", "C05.matmul.no_valid_input_rejected", inp.clone(), "panic".into(), format!("{:?}", w)),
                (Some((w, _, _)), Some(g)) => if g != w { fail(out, "matmul", "C05.matmul.entry", inp.clone(), format!("{:?}", g), format!("{:?}", w)) },
                _ => {}
            }
            if let Some((w, m, n)) = &want {
                for bs in 1..=(2 * ra.max(ca).max(rb).max(cb)) {
                    let gb = catch(|| matmul_blocked(&a, &b, ra, rb, ta, tb, bs));
                    match gb { None => fail(out, "matmul_blocked", "C05.blocked.no_valid_input_rejected", format!("{} bsize={}", inp, bs), "panic".into(), format!("{:?}", w)),
                        Some(g) => if &g != w { fail(out, "matmul_blocked", "C05.blocked.entry", format!("{} bsize={}", inp, bs), format!("{:?}", g), format!("{:?}", w)) } }
                }
            } else if catch(|| matmul_blocked(&a, &b, ra, rb, ta, tb, 2)).is_some() { fail(out, "matmul_blocked", "C05.blocked.valid", inp.clone(), "returned".into(), "panic".into()); }
            // Dot trait on matrices
            let ma = Matrix::new(a.clone(), ra as i32, ca as i32);
            let mb = Matrix::new(b.clone(), rb as i32, cb as i32);
            let name = match (ta, tb) { (false, false) => "dot", (true, false) => "t_dot", (false, true) => "dot_t", _ => "t_dot_t" };
            for form in 0..4 {
                let g = catch(|| -> Matrix { match (form, ta, tb) {
                    (0, false, false) => ma.dot(&mb), (0, true, false) => ma.t_dot(&mb), (0, false, true) => ma.dot_t(&mb), (0, true, true) => ma.t_dot_t(&mb),
                    (1, false, false) => ma.dot(mb.clone()), (1, true, false) => ma.t_dot(mb.clone()), (1, false, true) => ma.dot_t(mb.clone()), (1, true, true) => ma.t_dot_t(mb.clone()),
                    (2, false, false) => (&ma).dot(&mb), (2, true, false) => (&ma).t_dot(&mb), (2, false, true) => (&ma).dot_t(&mb), (2, true, true) => (&ma).t_dot_t(&mb),
                    (_, false, false) => (&ma).dot(mb.clone()), (_, true, false) => (&ma).t_dot(mb.clone()), (_, false, true) => (&ma).dot_t(mb.clone()), (_, true, true) => (&ma).t_dot_t(mb.clone()),
                } });
                let f = format!("Matrix::{}(Matrix)", name);
                match (&want, g) {
                    (None, Some(g)) => fail(out, &f, "C05.dot.valid", inp.clone(), format!("returned {}x{}", g.nrows, g.ncols), "panic".into()),
                    (Some((w, _, _)), None) => fail(out, &f, "C05.dot.no_valid_input_rejected", inp.clone(), "panic".into(), format!("{:?}", w)),
                    (Some((w, m, n)), Some(g)) => if g.nrows != *m || g.ncols != *n || &g.data.v != w { fail(out, &f, "C05.dot.entry", inp.clone(), format!("{}x{} {:?}", g.nrows, g.ncols, g.data.v), format!("{}x{} {:?}", m, n, w)) },
                    _ => {}
                }
            }
        }
        if out.len() > 5 { return; }
    } } } }
    // entries of very different magnitude (products matter even when one factor is tiny)
    { let a = vec![1e-20, 2.0, 3e-18, 4.0]; let b = vec![1e20, 1.0, 5e17, 2.0];
      for (ta, tb) in [(false, false), (true, false), (false, true), (true, true)] {
          let w = reference(&a, &b, 2, 2, 2, 2, ta, tb).unwrap().0; let g = matmul(&a, &b, 2, 2, ta, tb);
          if g != w { fail(out, "matmul", "C05.matmul.entry", format!("A={:?} B={:?} ta={} tb={}", a, b, ta, tb), format!("{:?}", g), format!("{:?}", w)); } } }
    // vector promotion: Matrix.Vector (vector as a column), Vector.Matrix (vector as a row), Vector.Vector
    for r in 1..=5usize { for c in 1..=5usize {
        let a = rng.ivec(r * c, -4, 4);
        let m = Matrix::new(a.clone(), r as i32, c as i32);
        for vl in 1..=5usize {
            let v = rng.ivec(vl, -4, 4);
            let vv = Vector::new(v.clone());
            let inp = format!("M {}x{} {:?}, v {:?}", r, c, a, v);
            // M.v (dot, dot_t) and M^T.v (t_dot, t_dot_t)
            for (k, name) in ["dot", "dot_t", "t_dot", "t_dot_t"].iter().enumerate() {
                let t = k >= 2;
                let want = reference(&a, &v, r, c, vl, 1, t, false).map(|x| x.0);
                let g = catch(|| -> Vector { match k { 0 => m.dot(&vv), 1 => m.dot_t(&vv), 2 => m.t_dot(&vv), _ => m.t_dot_t(&vv) } });
                let f = format!("Matrix::{}(Vector)", name);
                match (&want, g) { (None, Some(g)) => fail(out, &f, "C05.dot.valid", inp.clone(), format!("returned {:?}", g.v), "panic".into()),
                    (Some(w), None) => fail(out, &f, "C05.dot.no_valid_input_rejected", inp.clone(), "panic".into(), format!("{:?}", w)),
                    (Some(w), Some(g)) => if &g.v != w { fail(out, &f, "C05.dot.entry", inp.clone(), format!("{:?}", g.v), format!("{:?}", w)) }, _ => {} }
                let g2 = catch(|| -> Vector { match k { 0 => (&m).dot(vv.clone()), 1 => (&m).dot_t(vv.clone()), 2 => (&m).t_dot(vv.clone()), _ => (&m).t_dot_t(vv.clone()) } });
                if let (Some(w), Some(g)) = (&want, g2) { if &g.v != w { fail(out, &f, "C05.dot.entry", inp.clone(), format!("{:?}", g.v), format!("{:?}", w)); } }
            }
            // v.M (dot, t_dot) and v.M^T (dot_t, t_dot_t)
            for (k, name) in ["dot", "t_dot", "dot_t", "t_dot_t"].iter().enumerate() {
                let t = k >= 2;
                let want = reference(&v, &a, 1, vl, r, c, false, t).map(|x| x.0);
                let g = catch(|| -> Vector { match k { 0 => vv.dot(&m), 1 => vv.t_dot(&m), 2 => vv.dot_t(&m), _ => vv.t_dot_t(&m) } });
                let f = format!("Vector::{}(Matrix)", name);
                match (&want, g) { (None, Some(g)) => fail(out, &f, "C05.dot.valid", inp.clone(), format!("returned {:?}", g.v), "panic".into()),
                    (Some(w), None) => fail(out, &f, "C05.dot.no_valid_input_rejected", inp.clone(), "panic".into(), format!("{:?}", w)),
                    (Some(w), Some(g)) => if &g.v != w { fail(out, &f, "C05.dot.entry", inp.clone(), format!("{:?}", g.v), format!("{:?}", w)) }, _ => {} }
                let g2 = catch(|| -> Vector { match k { 0 => (&vv).dot(m.clone()), 1 => (&vv).t_dot(m.clone()), 2 => (&vv).dot_t(m.clone()), _ => (&vv).t_dot_t(m.clone()) } });
                if let (Some(w), Some(g)) = (&want, g2) { if &g.v != w { fail(out, &f, "C05.dot.entry", inp.clone(), format!("{:?}", g.v), format!("{:?}", w)); } }
            }
        }
        if out.len() > 5 { return; }
    } }
    for n in 0..=20usize {
        let x = rng.ivec(n, -5, 5); let y = rng.ivec(n, -5, 5);
        let w: f64 = x.iter().zip(&y).map(|(a, b)| a * b).sum();
        let vx = Vector::new(x.clone()); let vy = Vector::new(y.clone());
        let g: f64 = vx.dot(&vy);
        if n > 0 && g != w { fail(out, "Vector::dot(Vector)", "C05.dot.vv", format!("{:?} {:?}", x, y), format!("{}", g), format!("{}", w)); }
    }
}
