//! C20: covariance kernels, scalar and matrix form.
use crate::*;
use compute::prelude::*;
use compute::predict::*;

pub fn run(rng: &mut Rng, out: &mut Fails) {
    for case in 0..60 {
        let var = rng.range(0.1, 4.); let ls = rng.range(0.2, 3.);
        // exponents that invite a special-cased fast path are drawn exactly; point sets are also placed far from the origin
        // (the kernels depend on x - y only; the offsets are small enough that the cancellation in the matrix form's
        // x^2 + y^2 - 2xy stays two orders of magnitude below the comparison tolerance: 4 * 80^2 * 2^-53 / (2 * 0.2^2) < 4e-11)
        let al = match case % 6 { 0 => 1.0, 1 => 2.0, 2 => 0.5, _ => rng.range(0.2, 3.) };
        let off = [0., 0., 50., -80., 30.][case % 5];
        let rbf = RBFKernel::new(var, ls);
        let rq = RationalQuadraticKernel::new(var, al, ls);
        for _ in 0..20 {
            let x = off + rng.range(-5., 5.); let y = off + rng.range(-5., 5.);
            let inp = format!("var={} ls={} alpha={} x={} y={}", var, ls, al, x, y);
            let k: f64 = rbf.forward(x, y);
            let want = (-(x - y) * (x - y) / (2. * ls * ls)).exp() * var;
            if !close(k, want, 1e-12) { fail(out, "RBFKernel::forward(f64)", "C20.rbf.formula", inp.clone(), format!("{}", k), format!("{}", want)); }
            let k2: f64 = rbf.forward(y, x);
            if k != k2 { fail(out, "RBFKernel::forward(f64)", "C20.symmetric", inp.clone(), format!("{} vs {}", k, k2), "equal".into()); }
            let q: f64 = rq.forward(x, y);
            let wq = (1. + (x - y) * (x - y) / (2. * al * ls * ls)).powf(-al) * var;
            if !close(q, wq, 1e-12) { fail(out, "RationalQuadraticKernel::forward(f64)", "C20.rq.formula", inp.clone(), format!("{}", q), format!("{}", wq)); }
            if !(q > 0. && q <= var * (1. + 1e-12)) { fail(out, "RationalQuadraticKernel::forward(f64)", "C20.bounded", inp.clone(), format!("{}", q), format!("in (0, {}]", var)); }
            let kr: f64 = rbf.forward(&x, &y);
            if !close(kr, want, 1e-12) { fail(out, "RBFKernel::forward(&f64)", "C20.rbf.formula", inp.clone(), format!("{}", kr), format!("{}", want)); }
        }
        let k0: f64 = rbf.forward(1.5, 1.5); if !close(k0, var, 1e-15) { fail(out, "RBFKernel::forward(f64)", "C20.at_zero", format!("var={}", var), format!("{}", k0), format!("{}", var)); }
        let q0: f64 = rq.forward(1.5, 1.5); if !close(q0, var, 1e-15) { fail(out, "RationalQuadraticKernel::forward(f64)", "C20.at_zero", format!("var={}", var), format!("{}", q0), format!("{}", var)); }
        // matrix form: rows = first argument, columns = second, entries = scalar form
        let n1 = 1 + rng.below(12); let n2 = 1 + rng.below(12);
        let xs = rng.vec(n1, off - 3., off + 3.); let ys = rng.vec(n2, off - 3., off + 3.);
        for which in 0..2 {
            let name = if which == 0 { "RBFKernel::forward(Vector)" } else { "RationalQuadraticKernel::forward(Vector)" };
            let inp = format!("var={} ls={} alpha={} xs={:?} ys={:?}", var, ls, al, xs, ys);
            let g = catch(|| -> Matrix { if which == 0 { rbf.forward(Vector::new(xs.clone()), Vector::new(ys.clone())) } else { rq.forward(Vector::new(xs.clone()), Vector::new(ys.clone())) } });
            match g {
                None => fail(out, name, "C20.matrix.no_panic", inp.clone(), "panic".into(), format!("{}x{} Gram matrix", n1, n2)),
                Some(g) => {
                    if g.nrows != n1 || g.ncols != n2 { fail(out, name, "C20.matrix.shape", inp.clone(), format!("{}x{}", g.nrows, g.ncols), format!("{}x{}", n1, n2)); continue; }
                    for i in 0..n1 { for j in 0..n2 {
                        let s: f64 = if which == 0 { rbf.forward(xs[i], ys[j]) } else { rq.forward(xs[i], ys[j]) };
                        if !close(g[[i, j]], s, 1e-9) { fail(out, name, "C20.matrix.entry", format!("{} entry ({},{})", inp, i, j), format!("{}", g[[i, j]]), format!("{}", s)); }
                    } }
                }
            }
            let g2 = catch(|| -> Matrix { let mx = Matrix::new(xs.clone(), n1 as i32, 1); let my = Matrix::new(ys.clone(), n2 as i32, 1); if which == 0 { rbf.forward(&mx, &my) } else { rq.forward(&mx, &my) } });
            if let Some(g2) = g2 { if g2.nrows != n1 || g2.ncols != n2 { fail(out, name, "C20.matrix.shape", inp.clone(), format!("{}x{}", g2.nrows, g2.ncols), format!("{}x{}", n1, n2)); } }
        }
        if !out.is_empty() { return; }
    }
    for (v, l) in [(0., 1.), (-1., 1.), (1., 0.), (1., -2.)] { if catch(|| RBFKernel::new(v, l)).is_some() { fail(out, "RBFKernel::new", "C20.rbf.new.valid", format!("var={} ls={}", v, l), "accepted".into(), "panic".into()); } }
    for (v, a, l) in [(0., 1., 1.), (1., 0., 1.), (1., 1., 0.), (1., -1., 1.)] { if catch(|| RationalQuadraticKernel::new(v, a, l)).is_some() { fail(out, "RationalQuadraticKernel::new", "C20.rq.new.valid", format!("var={} alpha={} ls={}", v, a, l), "accepted".into(), "panic".into()); } }
}
