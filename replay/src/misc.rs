//! C01 (linear systems), C11 (factorisations), C14 (polynomial regression), C07 (quadrature), C06 (GLM).
use crate::*;
use compute::prelude::*;
use compute::linalg::*;
use compute::integrate::*;
use compute::predict::*;

fn matvec(a: &[f64], x: &[f64], n: usize) -> Vec<f64> { (0..n).map(|i| (0..n).map(|j| a[i * n + j] * x[j]).sum()).collect() }
fn norm_inf(a: &[f64]) -> f64 { a.iter().fold(0.0, |m, v| m.max(v.abs())) }
fn spd(rng: &mut Rng, n: usize) -> Vec<f64> { let b = rng.vec(n * n, -1., 1.); let mut s = vec![0.; n * n]; for i in 0..n { for j in 0..n { let mut t = if i == j { 1. } else { 0. }; for k in 0..n { t += b[i * n + k] * b[j * n + k]; } s[i * n + j] = t; } } for i in 0..n { for j in 0..i { s[i * n + j] = s[j * n + i]; } } s }
fn indefinite(rng: &mut Rng, n: usize) -> Vec<f64> { let mut s = vec![0.; n * n]; for i in 0..n { for j in 0..=i { let v = if i == j { 1.0 } else { 2.0 + rng.unit() }; s[i * n + j] = v; s[j * n + i] = v; } } s }
fn det_int(a: &[f64], n: usize) -> f64 {
    // exact determinant of a small integer matrix by cofactor expansion
    if n == 1 { return a[0]; }
    let mut d = 0.0;
    for c in 0..n { let mut m = Vec::with_capacity((n - 1) * (n - 1)); for i in 1..n { for j in 0..n { if j != c { m.push(a[i * n + j]); } } } d += if c % 2 == 0 { 1. } else { -1. } * a[c] * det_int(&m, n - 1); }
    d
}

fn c01(rng: &mut Rng, out: &mut Fails) {
    for case in 0..150 {
        let n = 1 + rng.below(7);
        let kind = case % 6;
        let a: Vec<f64> = match kind { 0 => rng.vec(n * n, -2., 2.), 1 => spd(rng, n), 2 => indefinite(rng, n),
            3 => { let mut a = rng.ivec(n * n, -3, 3); for i in 0..n { a[i * n + i] += 12.; } a }
            4 => { let mut a = vec![0.; n * n]; let mut p: Vec<usize> = (0..n).collect(); for i in (1..n).rev() { p.swap(i, rng.below(i + 1)); } for i in 0..n { a[i * n + p[i]] = 1. + i as f64; } a }
            _ => { let mut a = rng.vec(n * n, -1., 1.); for i in 0..n { a[i * n + i] = if i % 2 == 0 { 1e-9 } else { 1.0 }; } if n > 1 { a[n] = 1.0; } a } };
        if n == 2 && kind == 2 { /* [[1,2+],[2+,1]] */ }
        let xt = rng.ivec(n, -4, 4);
        let b = matvec(&a, &xt, n);
        let na = norm_inf(&a); let inp = format!("kind {} n={} A={:?} b={:?}", kind, n, a, b);
        let check = |out: &mut Fails, f: &str, x: Option<Vec<f64>>| match x {
            None => fail(out, f, "C01.no_panic", inp.clone(), "panic".into(), format!("x ~ {:?}", xt)),
            Some(x) => { let r = matvec(&a, &x, n); let res = r.iter().zip(&b).fold(0.0f64, |m, (u, v)| m.max((u - v).abs()));
                let scale = na * norm_inf(&x) * n as f64 + norm_inf(&b) + 1e-300;
                if !(res.is_finite()) || res > 1e-8 * scale * if kind == 5 { 1e3 } else { 1.0 } { fail(out, f, "C01.residual", inp.clone(), format!("x={:?} residual {}", x, res), format!("residual <= c*eps*({})", scale)); } } };
        check(out, "solve", catch(|| solve(&a, &b)));
        check(out, "solve_sys", catch(|| solve_sys(&a, &b)));
        let ma = Matrix::new(a.clone(), n as i32, n as i32);
        check(out, "Matrix::solve(Vector)", catch(|| ma.solve(&Vector::new(b.clone())).v));
        check(out, "invert_matrix", catch(|| { let inv = invert_matrix(&a); matvec(&inv, &b, n) }));
        check(out, "Matrix::inv", catch(|| { let inv = ma.inv(); matvec(&inv.data.v, &b, n) }));
        // several right-hand sides: column c of the answer solves column c
        let nrhs = 1 + rng.below(3);
        let xs: Vec<Vec<f64>> = (0..nrhs).map(|_| rng.ivec(n, -3, 3)).collect();
        let mut bm = vec![0.; n * nrhs];
        for c in 0..nrhs { let bc = matvec(&a, &xs[c], n); for i in 0..n { bm[i * nrhs + c] = bc[i]; } }
        for which in 0..2 {
            let f = if which == 0 { "solve_sys (multi-RHS)" } else { "Matrix::solve(Matrix)" };
            let sol = catch(|| if which == 0 { solve_sys(&a, &bm) } else { ma.solve(&Matrix::new(bm.clone(), n as i32, nrhs as i32)).data.v });
            match sol { None => fail(out, f, "C01.multirhs.no_panic", inp.clone(), "panic".into(), "solution".into()),
                Some(s) => for c in 0..nrhs { let xc: Vec<f64> = (0..n).map(|i| s[i * nrhs + c]).collect(); let r = matvec(&a, &xc, n);
                    let res = (0..n).fold(0.0f64, |m, i| m.max((r[i] - bm[i * nrhs + c]).abs()));
                    let scale = na * norm_inf(&xc) * n as f64 + norm_inf(&bm) + 1e-300;
                    if !(res.is_finite()) || res > 1e-8 * scale * if kind == 5 { 1e3 } else { 1.0 } { fail(out, f, "C01.multirhs.column", format!("{} rhs column {}", inp, c), format!("residual {}", res), "small".into()); break; } } }
        }
        if out.len() > 6 { return; }
    }
}

fn c11(rng: &mut Rng, out: &mut Fails) {
    for case in 0..120 {
        let n = 1 + rng.below(6);
        // Cholesky on SPD
        let a = spd(rng, n);
        let inp = format!("SPD n={} A={:?}", n, a);
        for which in 0..2 {
            let f = if which == 0 { "cholesky" } else { "Matrix::cholesky" };
            let l = catch(|| if which == 0 { cholesky(&a) } else { Matrix::new(a.clone(), n as i32, n as i32).cholesky().data.v });
            match l { None => fail(out, f, "C11.chol.no_panic", inp.clone(), "panic".into(), "factor".into()),
                Some(l) => { for i in 0..n { if !(l[i * n + i] > 0.) { fail(out, f, "C11.chol.diag_positive", inp.clone(), format!("{}", l[i * n + i]), "> 0".into()); } for j in i + 1..n { if l[i * n + j] != 0. { fail(out, f, "C11.chol.lower", inp.clone(), format!("l[{},{}]={}", i, j, l[i * n + j]), "0".into()); } } }
                    for i in 0..n { for j in 0..n { let s: f64 = (0..n).map(|k| l[i * n + k] * l[j * n + k]).sum(); if !close(s, a[i * n + j], 1e-10) { fail(out, f, "C11.chol.reconstruct", format!("{} entry ({},{})", inp, i, j), format!("{}", s), format!("{}", a[i * n + j])); } } } } }
        }
        // non-PD rejected
        if n >= 2 { let b = indefinite(rng, n);
            for which in 0..2 { let f = if which == 0 { "cholesky" } else { "Matrix::cholesky" };
                let r = catch(|| if which == 0 { cholesky(&b) } else { Matrix::new(b.clone(), n as i32, n as i32).cholesky().data.v });
                if let Some(l) = r { fail(out, f, "C11.chol.reject_non_pd", format!("indefinite {:?}", b), format!("{:?}", l), "panic".into()); } } }
        // LU: permutation, |L| <= 1, PA = LU, identical slice / Matrix factors, determinant
        let g: Vec<f64> = match case % 4 { 0 => rng.ivec(n * n, -4, 4), 1 => { let mut g = rng.ivec(n * n, -4, 4); for i in 0..n { g[i * n] = 0.; } g }
            2 => { let mut g = vec![0.; n * n]; let mut p: Vec<usize> = (0..n).collect(); for i in (1..n).rev() { p.swap(i, rng.below(i + 1)); } for i in 0..n { g[i * n + p[i]] = 1.; } g }, _ => rng.ivec(n * n, -9, 9) };
        let ginp = format!("n={} A={:?}", n, g);
        let r1 = catch(|| lu(&g));
        let r2 = catch(|| { let (m, p) = Matrix::new(g.clone(), n as i32, n as i32).lu(); (m.data.v, p) });
        match (&r1, &r2) { (Some((l1, p1)), Some((l2, p2))) => if !same_vec(l1, l2) || p1 != p2 { fail(out, "lu / Matrix::lu", "C11.lu.identical", ginp.clone(), format!("{:?} {:?}", l2, p2), format!("{:?} {:?}", l1, p1)); }, _ => {} }
        for (f, r) in [("lu", r1), ("Matrix::lu", r2)] {
            match r { None => fail(out, f, "C11.lu.no_panic", ginp.clone(), "panic".into(), "factors".into()),
                Some((lum, piv)) => {
                    let mut seen = vec![false; n]; let mut okp = piv.len() == n; for &p in &piv { if p < 0 || p as usize >= n || seen[p as usize] { okp = false; break; } seen[p as usize] = true; }
                    if !okp { fail(out, f, "C11.lu.permutation", ginp.clone(), format!("{:?}", piv), "a permutation".into()); continue; }
                    let mut bad = false;
                    for i in 0..n { for j in 0..i { let v = lum[i * n + j]; if !(v.abs() <= 1. + 1e-12) { fail(out, f, "C11.lu.l_bounded", format!("{} L[{},{}]", ginp, i, j), format!("{}", v), "|.| <= 1".into()); bad = true; } } }
                    if bad { continue; }
                    for i in 0..n { for j in 0..n { let mut s = 0.; for k in 0..=i.min(j) { let lik = if k == i { 1. } else { lum[i * n + k] }; s += lik * lum[k * n + j]; }
                        let pa = g[piv[i] as usize * n + j]; if !close(s, pa, 1e-9) { fail(out, f, "C11.lu.reconstruct", format!("{} entry ({},{})", ginp, i, j), format!("{}", s), format!("{}", pa)); } } }
                } }
        }
        let d = catch(|| Matrix::new(g.clone(), n as i32, n as i32).det());
        let want = det_int(&g, n);
        match d { None => fail(out, "Matrix::det", "C11.det.no_panic", ginp.clone(), "panic".into(), format!("{}", want)), Some(d) => if !close(d, want, 1e-9) { fail(out, "Matrix::det", "C11.det", ginp.clone(), format!("{}", d), format!("{}", want)) } }
        // scale equivariance, exact for a power of two (no underflow at these sizes): same pivots, same multipliers, U scaled, det scaled by s^n
        for sc in [(2.0f64).powi(-60), (2.0f64).powi(40)] {
            let gs: Vec<f64> = g.iter().map(|v| v * sc).collect();
            let base = catch(|| lu(&g));
            for which in 0..2 { let f = if which == 0 { "lu" } else { "Matrix::lu" };
                let r = catch(|| if which == 0 { lu(&gs) } else { let (m, p) = Matrix::new(gs.clone(), n as i32, n as i32).lu(); (m.data.v, p) });
                if let (Some((l0, p0)), Some((ls, ps))) = (&base, &r) {
                    let want: Vec<f64> = (0..n * n).map(|k| if k % n < k / n { l0[k] } else { l0[k] * sc }).collect();
                    if ps != p0 || !same_vec(ls, &want) { fail(out, f, "C11.lu.reconstruct", format!("n={} A={:?} (A = {} * {:?})", n, gs, sc, g), format!("{:?} {:?}", ls, ps), format!("{:?} {:?}", want, p0)); }
                } }
            let ds = catch(|| Matrix::new(gs.clone(), n as i32, n as i32).det());
            if let (Some(d0), Some(ds)) = (d, ds) { let wants = d0 * sc.powi(n as i32);
                if !((ds - wants).abs() <= 1e-12 * wants.abs()) { fail(out, "Matrix::det", "C11.det", format!("n={} A={:?} (A = {} * {:?}, whose determinant is {})", n, gs, sc, g, d0), format!("{}", ds), format!("{}", wants)); } }
        }
        // triangular solves
        let lt: Vec<f64> = (0..n * n).map(|k| { let (i, j) = (k / n, k % n); if j > i { 0. } else if i == j { 1. + rng.below(4) as f64 } else { rng.int(-3, 3) } }).collect();
        let xt = rng.ivec(n, -3, 3); let bl = matvec(&lt, &xt, n);
        match catch(|| forward_substitution(&lt, &bl)) { None => fail(out, "forward_substitution", "C11.fwd", format!("L={:?}", lt), "panic".into(), format!("{:?}", xt)), Some(x) => if x.iter().zip(&xt).any(|(a, b)| !close(*a, *b, 1e-9)) { fail(out, "forward_substitution", "C11.fwd.triangular", format!("L={:?} b={:?}", lt, bl), format!("{:?}", x), format!("{:?}", xt)) } }
        let ut = transpose(&lt, n); let bu = matvec(&ut, &xt, n);
        match catch(|| backward_substitution(&ut, &bu)) { None => fail(out, "backward_substitution", "C11.bwd", format!("U={:?}", ut), "panic".into(), format!("{:?}", xt)), Some(x) => if x.iter().zip(&xt).any(|(a, b)| !close(*a, *b, 1e-9)) { fail(out, "backward_substitution", "C11.bwd.triangular", format!("U={:?} b={:?}", ut, bu), format!("{:?}", x), format!("{:?}", xt)) } }
        if out.len() > 6 { return; }
    }
    // not positive definite in a way no `<= 0` test sees: a NaN pivot (NaN on the diagonal, or inf * 0 at extreme scale) must be rejected, never returned as a factor
    for b in [vec![f64::NAN], vec![f64::NAN, 0., 0., 1.], vec![1., 0., 0., f64::NAN], vec![1e-320, 0., 1e200, 0., 1., 0., 1e200, 0., 1.]] {
        let n = (b.len() as f64).sqrt() as usize;
        for which in 0..2 { let f = if which == 0 { "cholesky" } else { "Matrix::cholesky" };
            let r = catch(|| if which == 0 { cholesky(&b) } else { Matrix::new(b.clone(), n as i32, n as i32).cholesky().data.v });
            if let Some(l) = r { if l.iter().any(|v| !v.is_finite()) { fail(out, f, "C11.chol.reject_non_pd", format!("{:?}", b), format!("{:?}", l), "panic (non-finite factor returned)".into()); } } } }
    for perm in [vec![1, 2, 3, 0], vec![1, 0, 3, 2], vec![2, 0, 1], vec![1, 2, 3, 4, 0], vec![0, 1, 2], vec![3, 2, 1, 0]] {
        let n = perm.len(); let mut p = perm.clone(); let mut swaps = 0; for i in 0..n { while p[i] as usize != i { let j = p[i] as usize; p.swap(i, j); swaps += 1; } }
        let want = if swaps % 2 == 0 { 1 } else { -1 };
        if ipiv_parity(&perm) != want { fail(out, "ipiv_parity", "C11.parity", format!("{:?}", perm), format!("{}", ipiv_parity(&perm)), format!("{}", want)); }
    }
}

fn c14(rng: &mut Rng, out: &mut Fails) {
    // abscissae clustered near zero (powers far below machine epsilon still count)
    { let x: Vec<f64> = (0..10).map(|k| k as f64 * 1e-8).collect(); let y: Vec<f64> = x.iter().map(|t| 51. + 3e7 * t + 2e15 * t * t).collect();
      let r = catch(|| { let mut p = PolynomialRegressor::new(2); p.fit(&x, &y); p.predict(&x) });
      match r { None => fail(out, "PolynomialRegressor::fit", "C14.no_panic", "x = k*1e-8, quadratic".into(), "panic".into(), "fit".into()),
          Some(pred) => for (a, b) in pred.iter().zip(&y) { if !close(*a, *b, 1e-5) { fail(out, "PolynomialRegressor::fit", "C14.fit.reproduce", format!("x = k*1e-8 (k=0..9), y = 51 + 3e7 x + 2e15 x^2: y={:?}", y), format!("{:?}", pred), format!("{:?}", y)); break; } } } }
    for case in 0..60 {
        let deg = rng.below(6);
        let n = deg + 1 + rng.below(12);
        let x: Vec<f64> = match case % 3 { 0 => (0..n).map(|i| -2. + 4. * i as f64 / (n as f64 - 1.).max(1.)).collect(), 1 => (0..n).map(|i| (i as f64 - n as f64 / 3.) * 0.5).collect(), _ => (0..n).map(|i| -1. + 3. * i as f64 / (n as f64 - 1.).max(1.)).collect() };
        let c: Vec<f64> = rng.ivec(deg + 1, -3, 3);
        let noise = if case % 2 == 0 { 0.0 } else { 0.5 };
        let y: Vec<f64> = x.iter().map(|t| { let mut v = 0.; for (k, ck) in c.iter().enumerate() { v += ck * t.powi(k as i32); } v + noise * rng.range(-1., 1.) }).collect();
        let inp = format!("degree {} x={:?} y={:?}", deg, x, y);
        let r = catch(|| { let mut p = PolynomialRegressor::new(deg); p.fit(&x, &y); let pred = p.predict(&x); (p.coef.clone(), pred) });
        match r { None => fail(out, "PolynomialRegressor::fit", "C14.no_panic", inp.clone(), "panic".into(), "fit".into()),
            Some((coef, pred)) => {
                for (t, pv) in x.iter().zip(&pred) { let mut v = 0.; for (k, ck) in coef.iter().enumerate() { v += ck * t.powi(k as i32); } if !close(*pv, v, 1e-9) { fail(out, "PolynomialRegressor::predict", "C14.predict.order", inp.clone(), format!("{}", pv), format!("{}", v)); break; } }
                let scale = 1. + y.iter().fold(0.0f64, |m, v| m.max(v.abs()));
                for k in 0..=deg { let m: f64 = x.iter().zip(&y).zip(&pred).map(|((t, yy), pp)| (yy - pp) * t.powi(k as i32)).sum(); let sx: f64 = x.iter().map(|t| t.powi(k as i32).abs()).sum::<f64>() + 1.;
                    if m.abs() > 1e-6 * scale * sx { fail(out, "PolynomialRegressor::fit", "C14.fit.normal_equations", format!("{} power {}", inp, k), format!("residual moment {}", m), "0".into()); break; } }
                if noise == 0. { for (a, b) in coef.iter().zip(&c) { if !close(*a, *b, 1e-6) { fail(out, "PolynomialRegressor::fit", "C14.fit.reproduce", inp.clone(), format!("{:?}", coef), format!("{:?}", c)); break; } } }
            } }
        if out.len() > 6 { return; }
    }
}

fn c07(rng: &mut Rng, out: &mut Fails) {
    for case in 0..60 {
        let a = rng.range(-5., 5.); let b = match case % 5 { 0 => a, _ => rng.range(-5., 5.) };
        let (c0, c1) = (rng.int(-3, 3), rng.int(-3, 3));
        for n in [1usize, 2, 3, 4, 7, 16, 33] {
            let g = trapz(|x| c0 + c1 * x, a, b, n);
            let w = c0 * (b - a) + c1 * (b * b - a * a) / 2.;
            if !close(g, w, 1e-11) { fail(out, "trapz", "C07.trapz.affine", format!("f(x)={}+{}x a={} b={} n={}", c0, c1, a, b, n), format!("{}", g), format!("{}", w)); }
            let s = trapz(|x| c0 + c1 * x, b, a, n);
            if !close(s, -g, 1e-11) { fail(out, "trapz", "C07.trapz.swap", format!("a={} b={} n={}", a, b, n), format!("{}", s), format!("{}", -g)); }
        }
        // Gauss-Legendre: exact to degree 9
        for d in 0..=9 { let g = quad5(|x| x.powi(d), a, b); let w = (b.powi(d + 1) - a.powi(d + 1)) / (d as f64 + 1.); let sc = 1. + a.abs().max(b.abs()).powi(d + 1);
            if (g - w).abs() > 1e-11 * sc { fail(out, "quad5", "C07.quad5.exact", format!("x^{} on [{}, {}]", d, a, b), format!("{}", g), format!("{}", w)); } }
        if !close(quad5(|x| x * x + 1., b, a), -quad5(|x| x * x + 1., a, b), 1e-12) { fail(out, "quad5", "C07.quad5.swap", format!("[{}, {}]", a, b), "no sign change".into(), "sign change".into()); }
        // Romberg with k levels exact for degree 2k-1 (eps = 0 and eps > 0)
        for k in 2..=5usize { let d = (2 * k - 1) as i32; for eps in [0.0, 1e-9] {
            let f = |x: f64| x.powi(d) - 2. * x.powi(d - 1) + x;
            let g = romberg(f, a, b, eps, k + 1);
            let prim = |x: f64| x.powi(d + 1) / (d as f64 + 1.) - 2. * x.powi(d) / d as f64 + x * x / 2.;
            let w = prim(b) - prim(a); let sc = 1. + a.abs().max(b.abs()).powi(d + 1);
            if (g - w).abs() > 1e-9 * sc { fail(out, "romberg", "C07.romberg.exact", format!("degree {} polynomial on [{}, {}] levels {} eps {}", d, a, b, k + 1, eps), format!("{}", g), format!("{}", w)); }
            // exactly k levels and a tolerance that is never met: the value after the last level is the full diagonal entry R[k-1][k-1]
            if eps == 0.0 { let g0 = romberg(f, a, b, 0.0, k);
                if (g0 - w).abs() > 1e-9 * sc { fail(out, "romberg", "C07.romberg.exact", format!("degree {} polynomial on [{}, {}] levels {} eps 0 (levels exhausted)", d, a, b, k), format!("{}", g0), format!("{}", w)); } } } }
    }
    // romberg early-exit trap: integrand collinear at a, mid, b
    let g = romberg(|x| x.powi(4) - x * x, -1., 1., 1e-6, 8); if !close(g, -4. / 15., 1e-6) { fail(out, "romberg", "C07.romberg.tolerance", "x^4 - x^2 on [-1,1], eps 1e-6, 8 levels".into(), format!("{}", g), format!("{}", -4. / 15.)); }
    let g = romberg(|x: f64| x.sin().powi(2), 0., 2. * std::f64::consts::PI, 1e-8, 12); if !close(g, std::f64::consts::PI, 1e-6) { fail(out, "romberg", "C07.romberg.tolerance", "sin^2 on [0, 2pi]".into(), format!("{}", g), format!("{}", std::f64::consts::PI)); }
    // sampled trapezoid = integral of the piecewise-linear interpolant
    for x in [vec![0., 1., 2.5, 3., 4.], vec![0., 0.25, 0.4, 0.75, 1.0], vec![-2., -1., -0.9, 0.9, 1., 2.], vec![0., 2., 3., 4., 5., 6., 8.]] {
        let y: Vec<f64> = x.iter().map(|t| 2. * t + 1.).collect(); let n = x.len();
        let w: f64 = (1..n).map(|i| (y[i] + y[i - 1]) / 2. * (x[i] - x[i - 1])).sum();
        let g = trapezoid(&y, Some(&x), None);
        if !close(g, w, 1e-12) { fail(out, "trapezoid", "C07.trapezoid.sum", format!("y={:?} x={:?}", y, x), format!("{}", g), format!("{}", w)); }
    }
    for case in 0..60 {
        let n = 2 + rng.below(8);
        let mut x = vec![rng.int(-3, 3)]; for _ in 1..n { let l = *x.last().unwrap(); x.push(l + 0.5 * (1 + rng.below(if case % 2 == 0 { 1 } else { 5 })) as f64); }
        let y = rng.ivec(n, -5, 5);
        let w: f64 = (1..n).map(|i| (y[i] + y[i - 1]) / 2. * (x[i] - x[i - 1])).sum();
        let g = trapezoid(&y, Some(&x), None);
        if !close(g, w, 1e-12) { fail(out, "trapezoid", "C07.trapezoid.sum", format!("y={:?} x={:?}", y, x), format!("{}", g), format!("{}", w)); }
        let w2: f64 = (1..n).map(|i| (y[i] + y[i - 1]) / 2. * 0.25).sum();
        if !close(trapezoid(&y, None, Some(0.25)), w2, 1e-12) { fail(out, "trapezoid", "C07.trapezoid.dx", format!("y={:?} dx=0.25", y), format!("{}", trapezoid(&y, None, Some(0.25))), format!("{}", w2)); }
        if catch(|| trapezoid(&y, Some(&x[..n - 1]), None)).is_some() { fail(out, "trapezoid", "C07.trapezoid.valid", "len(x) != len(y)".into(), "returned".into(), "panic".into()); }
    }
}

fn c06(rng: &mut Rng, out: &mut Fails) {
    use compute::predict::{ExponentialFamily, GLM};
    // family tables
    let mu = [0.2, 0.5, 1.5, 3.0]; let y = [0.0, 1.0, 2.0, 4.0];
    let rss: f64 = y.iter().zip(&mu).map(|(a, b)| (a - b) * (a - b)).sum();
    if !close(ExponentialFamily::Gaussian.deviance(&y, &mu), rss, 1e-12) { fail(out, "ExponentialFamily::deviance", "C06.family.gaussian.deviance", format!("y={:?} mu={:?}", y, mu), format!("{}", ExponentialFamily::Gaussian.deviance(&y, &mu)), format!("{}", rss)); }
    let pd: f64 = 2. * y.iter().zip(&mu).map(|(a, b)| (if *a == 0. { 0. } else { a * (a / b).ln() }) - (a - b)).sum::<f64>();
    if !close(ExponentialFamily::Poisson.deviance(&y, &mu), pd, 1e-12) { fail(out, "ExponentialFamily::deviance", "C06.family.poisson.deviance", format!("y={:?} mu={:?}", y, mu), format!("{}", ExponentialFamily::Poisson.deviance(&y, &mu)), format!("{}", pd)); }
    for (fam, name) in [(ExponentialFamily::Gaussian, "Gaussian"), (ExponentialFamily::Bernoulli, "Bernoulli"), (ExponentialFamily::Poisson, "Poisson"), (ExponentialFamily::QuasiPoisson, "QuasiPoisson"), (ExponentialFamily::Gamma, "Gamma"), (ExponentialFamily::Exponential, "Exponential")] {
        let m = [0.2, 0.4, 0.7]; let v = fam.variance(&m).v;
        let want: Vec<f64> = m.iter().map(|x| match name { "Gaussian" => 1., "Bernoulli" => x * (1. - x), "Poisson" | "QuasiPoisson" => *x, _ => x * x }).collect();
        if v.iter().zip(&want).any(|(a, b)| !close(*a, *b, 1e-14)) { fail(out, "ExponentialFamily::variance", "C06.family.variance", format!("{} mu={:?}", name, m), format!("{:?}", v), format!("{:?}", want)); }
        let disp = fam.has_dispersion(); let wd = matches!(name, "Gaussian" | "QuasiPoisson" | "Gamma");
        if disp != wd { fail(out, "ExponentialFamily::has_dispersion", "C06.family.dispersion", name.into(), format!("{}", disp), format!("{}", wd)); }
    }
    // remaining deviance tables and the penalised deviance
    {
        let yb = [0.0, 1.0, 1.0, 0.0]; let mb = [0.2, 0.7, 0.9, 0.4];
        let bd: f64 = -2. * yb.iter().zip(&mb).map(|(a, b): (&f64, &f64)| a * b.ln() + (1. - a) * (1. - b).ln()).sum::<f64>();
        if !close(ExponentialFamily::Bernoulli.deviance(&yb, &mb), bd, 1e-12) { fail(out, "ExponentialFamily::deviance", "C06.family.bernoulli.deviance", format!("y={:?} mu={:?}", yb, mb), format!("{}", ExponentialFamily::Bernoulli.deviance(&yb, &mb)), format!("{}", bd)); }
        let yg = [0.5, 1.0, 2.5, 4.0]; let mg = [0.7, 0.8, 2.0, 5.0];
        let gd: f64 = 2. * yg.iter().zip(&mg).map(|(a, b): (&f64, &f64)| (a - b) / b - (a / b).ln()).sum::<f64>();
        for fam in [ExponentialFamily::Gamma, ExponentialFamily::Exponential] {
            if !close(fam.deviance(&yg, &mg), gd, 1e-12) { fail(out, "ExponentialFamily::deviance", "C06.family.gamma.deviance", format!("{:?} y={:?} mu={:?}", fam, yg, mg), format!("{}", fam.deviance(&yg, &mg)), format!("{}", gd)); }
        }
        if !close(ExponentialFamily::QuasiPoisson.deviance(&y, &mu), pd, 1e-12) { fail(out, "ExponentialFamily::deviance", "C06.family.poisson.deviance", format!("QuasiPoisson y={:?} mu={:?}", y, mu), format!("{}", ExponentialFamily::QuasiPoisson.deviance(&y, &mu)), format!("{}", pd)); }
        let coef = [3.0, 1.0, -2.0, 2.0]; let al = 0.7;
        let want = pd + al * (1.0f64 + 4.0 + 4.0).sqrt();
        let got = ExponentialFamily::Poisson.penalized_deviance(&y, &mu, al, &coef);
        if !close(got, want, 1e-12) { fail(out, "ExponentialFamily::penalized_deviance", "C06.pdev", format!("y={:?} mu={:?} alpha={} coef={:?}", y, mu, al, coef), format!("{}", got), format!("{}", want)); }
    }
    // score = family deviance of the responses against the predictions
    {
        let n = 6; let p = 2; let mut x = vec![0.; n * p];
        for i in 0..n { x[i * p] = 1.; x[i * p + 1] = i as f64 / 3.; }
        let yy = [1.0, 2.0, 2.0, 4.0, 5.0, 9.0];
        let mut g = GLM::new(ExponentialFamily::Poisson); g.set_coef(&[0.3, 0.6]);
        let fitted = catch(|| { let mut h = GLM::new(ExponentialFamily::Poisson); let _ = h.fit(&x, &yy, 100); h.predict(&x).ok().map(|m| (h, ExponentialFamily::Poisson.deviance(&yy, &m.v))) });
        if let Some(Some((h, want))) = fitted {
            match catch(|| h.score(&x, &yy)) {
                Some(sc) => if !close(sc, want, 1e-12) { fail(out, "GLM::score", "C06.score.def", "Poisson, 6 observations".into(), format!("{}", sc), format!("{}", want)); },
                None => fail(out, "GLM::score", "C06.score.def", "Poisson, 6 observations, fitted model".into(), "panic".into(), format!("{}", want)),
            }
        }
        let _ = g;
    }
    // an unconverged fit reports an error, not a wrong answer
    {
        let n = 12; let p = 2; let mut x = vec![0.; n * p]; let mut yy = vec![0.; n];
        for i in 0..n { x[i * p] = 1.; x[i * p + 1] = (i as f64) / 4. - 1.; yy[i] = ((i % 5) + 1) as f64 * if i % 2 == 0 { 1. } else { 3. }; }
        for max_iter in [1usize, 2] {
            let r = catch(|| { let mut g = GLM::new(ExponentialFamily::Poisson); g.set_tolerance(1e-14); g.fit(&x, &yy, max_iter).is_ok() });
            if r == Some(true) { fail(out, "GLM::fit", "C06.fit.unconverged", format!("Poisson, n=12, p=2, tolerance 1e-14, max_iter={}", max_iter), "Ok".into(), "Err (not converged)".into()); }
        }
    }
    // fits: score equations, ridge with intercept unpenalised, Gaussian = least squares, inference
    for case in 0..24 {
        let n = 30 + rng.below(60); let p = 2 + rng.below(2);
        let mut x = vec![0.; n * p];
        for i in 0..n { x[i * p] = 1.; for j in 1..p { x[i * p + j] = rng.range(-1., 1.); } }
        let beta: Vec<f64> = (0..p).map(|_| rng.range(-1., 1.)).collect();
        let fam_id = case % 3;
        let fam = [ExponentialFamily::Gaussian, ExponentialFamily::Poisson, ExponentialFamily::Bernoulli][fam_id];
        let offs: Option<Vec<f64>> = if fam_id == 1 && case % 2 == 1 { Some((0..n).map(|_| rng.range(-1.5, 0.)).collect()) } else { None };
        let eta: Vec<f64> = (0..n).map(|i| (0..p).map(|j| x[i * p + j] * beta[j]).sum::<f64>() + offs.as_ref().map(|o| o[i]).unwrap_or(0.) + if fam_id == 1 { 1.5 } else { 0. }).collect();
        let y: Vec<f64> = eta.iter().map(|e| match fam_id { 0 => e + rng.range(-0.3, 0.3), 1 => { let l = e.exp(); let mut k = 0.; let mut t = (-l).exp(); let mut s = t; let u = rng.unit(); while u > s && k < 200. { k += 1.; t *= l / k; s += t; } k }, _ => if rng.unit() < 1. / (1. + (-e).exp()) { 1. } else { 0. } }).collect();
        let alpha = [0.0, 0.0, 0.1, 1.0][case % 4];
        let inp = format!("family {:?} n={} p={} alpha={} offsets={} (case {})", fam, n, p, alpha, offs.is_some(), case);
        let r = catch(|| { let mut g = GLM::new(fam); g.set_penalty(alpha).set_tolerance(1e-10); if let Some(o) = &offs { g.set_offset(o); }
            let ok = g.fit(&x, &y, 200).is_ok(); (ok, g.coef().map(|c| c.to_vec()).ok(), g.deviance().ok(), g.coef_standard_error().ok(), g.dispersion().ok(), g.predict(&x).map(|v| v.v).ok()) });
        if let Some((ok, Some(coef), dev, se, disp, pred)) = r {
            if !ok { continue; }
            let lin: Vec<f64> = (0..n).map(|i| (0..p).map(|j| x[i * p + j] * coef[j]).sum::<f64>() + offs.as_ref().map(|o| o[i]).unwrap_or(0.)).collect();
            let mu: Vec<f64> = lin.iter().map(|e| match fam_id { 0 => *e, 1 => e.exp(), _ => 1. / (1. + (-e).exp()) }).collect();
            // canonical links: score_j = sum x_ij (y_i - mu_i) - alpha * beta_j [j >= 1]
            for j in 0..p { let s: f64 = (0..n).map(|i| x[i * p + j] * (y[i] - mu[i])).sum::<f64>() - if j >= 1 { alpha * coef[j] } else { 0. };
                let sc: f64 = (0..n).map(|i| (x[i * p + j] * y[i]).abs()).sum::<f64>() + 1.;
                if s.abs() > 1e-4 * sc { fail(out, "GLM::fit", "C06.score", format!("{} coefficient {}", inp, j), format!("score {} with fit reported Ok", s), "0 (penalised score equations)".into()); break; } }
            if let Some(pr) = pred { if pr.iter().zip(&mu).any(|(a, b)| !close(*a, *b, 1e-9)) { fail(out, "GLM::predict", "C06.predict", inp.clone(), "predict != inv_link(X beta + offset)".into(), "equal".into()); } }
            if let Some(d) = dev { let w: f64 = match fam_id { 0 => y.iter().zip(&mu).map(|(a, b)| (a - b) * (a - b)).sum(), 1 => 2. * y.iter().zip(&mu).map(|(a, b)| (if *a == 0. { 0. } else { a * (a / b).ln() }) - (a - b)).sum::<f64>(), _ => -2. * y.iter().zip(&mu).map(|(a, b)| a * b.ln() + (1. - a) * (1. - b).ln()).sum::<f64>() };
                if !close(d, w, 1e-6) { fail(out, "GLM::deviance", "C06.deviance", inp.clone(), format!("{}", d), format!("{}", w)); } }
            if let (Some(se), Some(disp)) = (se, disp) { if alpha == 0. {
                // information = X^T W X with W = Var(mu) for canonical links (1 for Gaussian)
                let w: Vec<f64> = mu.iter().map(|m| match fam_id { 0 => 1., 1 => *m, _ => m * (1. - m) }).collect();
                let mut info = vec![0.; p * p]; for a in 0..p { for b in 0..p { info[a * p + b] = (0..n).map(|i| x[i * p + a] * w[i] * x[i * p + b]).sum(); } }
                let inv = invert_matrix(&info);
                let wd = if fam_id == 0 { y.iter().zip(&mu).map(|(a, b)| (a - b) * (a - b)).sum::<f64>() / (n - p) as f64 } else { 1. };
                if !close(disp, wd, 1e-6) { fail(out, "GLM::dispersion", "C06.dispersion", inp.clone(), format!("{}", disp), format!("{}", wd)); }
                for j in 0..p { let wse = (wd * inv[j * p + j]).sqrt(); if !close(se[j], wse, 1e-5) { fail(out, "GLM::coef_standard_error", "C06.standard_error", format!("{} coefficient {}", inp, j), format!("{}", se[j]), format!("{}", wse)); break; } }
            } }
        }
        if out.len() > 6 { return; }
    }
}

pub fn run(rng: &mut Rng, out: &mut Fails) {
    let prop = std::env::args().nth(1).unwrap_or_default();
    match prop.as_str() { "C01" => c01(rng, out), "C11" => c11(rng, out), "C14" => c14(rng, out), "C07" => c07(rng, out), "C06" => c06(rng, out), _ => {} }
}
