//! Replay driver (DESIGN §3.6): executable oracles written from the property statements, evaluated on the
//! real crate through its public API.  Used only to turn a failed / undecided obligation into a concrete
//! failing input (or to re-evaluate a recorded one).  Prints one JSON object per failing case.
#![allow(clippy::all)]
#![allow(dead_code, unused_imports, unused_variables)]
use std::panic::{catch_unwind, AssertUnwindSafe};

mod c02;
mod c04;
mod c05;
mod c08;
mod c12;
mod c13;
mod c15;
mod c16;
mod c17;
mod c19;
mod c20;
mod misc;

pub struct Rng(pub u64);
impl Rng {
    pub fn next(&mut self) -> u64 {
        let mut x = self.0;
        x ^= x << 13;
        x ^= x >> 7;
        x ^= x << 17;
        self.0 = x;
        x
    }
    pub fn below(&mut self, n: usize) -> usize { (self.next() % (n as u64)) as usize }
    pub fn unit(&mut self) -> f64 { (self.next() >> 11) as f64 / (1u64 << 53) as f64 }
    pub fn range(&mut self, a: f64, b: f64) -> f64 { a + (b - a) * self.unit() }
    pub fn int(&mut self, a: i64, b: i64) -> f64 { (a + (self.next() % ((b - a + 1) as u64)) as i64) as f64 }
    pub fn vec(&mut self, n: usize, a: f64, b: f64) -> Vec<f64> { (0..n).map(|_| self.range(a, b)).collect() }
    pub fn ivec(&mut self, n: usize, a: i64, b: i64) -> Vec<f64> { (0..n).map(|_| self.int(a, b)).collect() }
}

pub struct Fail {
    pub function: String,
    pub clause: String,
    pub input: String,
    pub observed: String,
    pub expected: String,
}
pub type Fails = Vec<Fail>;
pub fn fail(out: &mut Fails, function: &str, clause: &str, input: String, observed: String, expected: String) {
    if out.len() < 40 {
        out.push(Fail { function: function.into(), clause: clause.into(), input, observed, expected });
    }
}
/// run f, None if it panicked
pub fn catch<T>(f: impl FnOnce() -> T) -> Option<T> { catch_unwind(AssertUnwindSafe(f)).ok() }
/// bitwise equality, NaN compared by position only
pub fn same(a: f64, b: f64) -> bool { (a.is_nan() && b.is_nan()) || a.to_bits() == b.to_bits() }
pub fn same_vec(a: &[f64], b: &[f64]) -> bool { a.len() == b.len() && a.iter().zip(b).all(|(x, y)| same(*x, *y)) }
/// relative closeness with an absolute floor
pub fn close(a: f64, b: f64, rel: f64) -> bool {
    if a.is_nan() || b.is_nan() { return a.is_nan() && b.is_nan(); }
    if a == b { return true; }
    if a.is_infinite() || b.is_infinite() { return false; }
    (a - b).abs() <= rel * (1.0 + a.abs().max(b.abs()))
}
pub fn jstr(s: &str) -> String {
    let mut o = String::from("\"");
    for c in s.chars() {
        match c { '"' => o.push_str("\\\""), '\\' => o.push_str("\\\\"), '\n' => o.push_str("\\n"), c if (c as u32) < 32 => o.push(' '), c => o.push(c) }
    }
    o.push('"');
    o
}

fn main() {
    let args: Vec<String> = std::env::args().collect();
    if args.len() < 3 {
        eprintln!("usage: replay <property> <seed>");
        std::process::exit(2);
    }
    std::panic::set_hook(Box::new(|_| {}));
    let prop = args[1].as_str();
    let seed: u64 = args[2].parse().unwrap_or(0);
    let mut rng = Rng(seed.wrapping_mul(0x9E3779B97F4A7C15) ^ 0xD1B54A32D192ED03);
    let mut out: Fails = Vec::new();
    match prop {
        "C02" => c02::run(&mut rng, &mut out),
        "C18" => c02::run(&mut rng, &mut out),
        "C04" => c04::run(&mut rng, &mut out),
        "C05" => c05::run(&mut rng, &mut out),
        "C08" => c08::run(&mut rng, &mut out),
        "C12" => c12::run(&mut rng, &mut out),
        "C13" => c13::run(&mut rng, &mut out),
        "C15" => c15::run(&mut rng, &mut out),
        "C16" => c16::run(&mut rng, &mut out),
        "C17" => c17::run(&mut rng, &mut out),
        "C19" => c19::run(&mut rng, &mut out),
        "C20" => c20::run(&mut rng, &mut out),
        "C01" | "C11" | "C14" | "C07" | "C06" => misc::run(&mut rng, &mut out),
        _ => {}
    }
    for f in &out {
        println!("{{\"function\": {}, \"clause\": {}, \"input\": {}, \"observed\": {}, \"expected\": {}}}",
                 jstr(&f.function), jstr(&f.clause), jstr(&f.input), jstr(&f.observed), jstr(&f.expected));
    }
    println!("{{\"done\": true, \"failures\": {}}}", out.len());
}
